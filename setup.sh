#!/usr/bin/env bash
# MANIFEST.setup_cmd: build the harness once (warms the Go build cache). Offline.
set -euo pipefail
. "$(dirname "$0")/lib.sh"
mkdir -p "$VERIF_DIR/out" "$VERIF_DIR/evidence"
build_harness
echo "setup ok"
