# shared shell helpers for setup.sh / check.sh (sourced)
export GOFLAGS=-mod=mod GOPROXY=off GOSUMDB=off GOTOOLCHAIN=local
VERIF_DIR="$(cd "$(dirname "${BASH_SOURCE[0]}")" && pwd)"
REPO_DIR="${VERIF_REPO:-/repo}"

# regenerate harness/go.mod from the repository's go.mod (so the harness always resolves the
# very same dependency versions as the tree under test) and point the paloma module at REPO_DIR
gen_gomod() {
  local out="$VERIF_DIR/harness/go.mod.tmp.$$"
  {
    echo "module verif/harness"
    echo
    sed -e '/^module /d' "$REPO_DIR/go.mod"
    echo
    echo "require github.com/palomachain/paloma/v2 v2.0.0"
    echo
    echo "replace github.com/palomachain/paloma/v2 => $REPO_DIR"
  } > "$out"
  if ! cmp -s "$out" "$VERIF_DIR/harness/go.mod"; then mv "$out" "$VERIF_DIR/harness/go.mod"; else rm -f "$out"; fi
  if ! cmp -s "$REPO_DIR/go.sum" "$VERIF_DIR/harness/go.sum"; then cp "$REPO_DIR/go.sum" "$VERIF_DIR/harness/go.sum"; fi
}

build_harness() {
  gen_gomod
  mkdir -p "$VERIF_DIR/bin"
  (cd "$VERIF_DIR/harness" && go build -tags verif -o "$VERIF_DIR/bin/verifcheck" ./cmd/verifcheck)
}

# the same harness built with the Go race detector (secondary oracle of C08's thorough tier)
build_harness_race() {
  gen_gomod
  mkdir -p "$VERIF_DIR/bin"
  (cd "$VERIF_DIR/harness" && go build -race -tags verif -o "$VERIF_DIR/bin/verifcheck.race" ./cmd/verifcheck)
}
