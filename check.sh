#!/usr/bin/env bash
# usage: ./check.sh Cnn quick|thorough|replay [path]
# Rebuilds the harness against /repo's current working tree (build tag verif), then runs the check.
# exit 0 held (maybe KNOWN-FINDING lines) / 1 VIOLATION / 2 build failure / 3 INCONCLUSIVE
set -uo pipefail
. "$(dirname "$0")/lib.sh"
prop="${1:?property id}"; mode="${2:-quick}"; shift; shift || true
mkdir -p "$VERIF_DIR/out" "$VERIF_DIR/evidence"
# private copy of the binary so that concurrent checks rebuilding do not disturb a running one
bin="$VERIF_DIR/out/verifcheck.$prop.$$"
(
  flock 9
  build_harness && cp "$VERIF_DIR/bin/verifcheck" "$bin" || exit 1
  # C08 thorough: one twin of every fourth group runs under the race detector (see mon/c08/race.go)
  if [ "$prop" = "C08" ] && [ "$mode" = "thorough" ]; then
    build_harness_race && cp "$VERIF_DIR/bin/verifcheck.race" "$bin.race" || exit 1
  fi
) 9>"$VERIF_DIR/out/.build.lock" >"$VERIF_DIR/out/build-$prop.log" 2>&1
if [ $? -ne 0 ]; then
  cat "$VERIF_DIR/out/build-$prop.log"
  echo "BUILD-FAILED property=$prop (harness does not compile against $REPO_DIR)"
  exit 2
fi
trap 'rm -f "$bin" "$bin.race"' EXIT
[ -f "$bin.race" ] && export VERIF_RACE_BIN="$bin.race"
cd "$VERIF_DIR"
case "$mode" in
  quick|thorough) "$bin" run --prop "$prop" --tier "$mode" "$@" ;;
  replay) "$bin" replay --prop "$prop" --file "${1:?replay file}" ;;
  *) echo "unknown mode $mode"; exit 2 ;;
esac
