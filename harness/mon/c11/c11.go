// Package c11: votes are pooled only for claims identical in every effect-bearing field.
//
// Deciding steps (runtime monitoring of the REAL code, no mocks):
//
//	pure part   - for every registered EthereumClaim implementation (interface registry) and every
//	              protobuf field of it except the voter identity (orchestrator) and the tx metadata:
//	              single-field mutants X' of random base claims X; the attestation key (chain prefix
//	              + nonce + real ClaimHash via real GetAttestationKey) must differ whenever the field
//	              is one the property statement lists.
//	chain part  - the real app.App brought into a state where all claim types have effects; for a
//	              pair (X, X') three executions on throw-away forks of the same state, votes going
//	              through the real Msg service router (msg server -> Attest) and the real skyway
//	              end-blocker (tally -> TryAttestation -> AttestationHandler):
//	                H  = the honest validators (90 % power) vote X
//	                S  = the honest validators vote X'
//	                M  = a byzantine validator (10 %) votes X' first, then the honest ones vote X
//	              Observed: acceptance of every vote, the store key of the attestation record every
//	              vote lands in, end-block events, and the delta of ALL KV stores against the fork
//	              point (minus the attestation records and the byzantine voter's own last-nonce entry).
//	              Oracles: (A) a listed field differs => the two votes land in different records;
//	              (B) if X' and X were pooled into one record, M must be indistinguishable from H
//	              (honest votes were not counted towards a different effect / not turned away);
//	              (C) if both claims are individually tallied (accepted, observed) under one key,
//	              H and S must have the same effect.
//	late votes  - the fork of run H is kept (X observed); for a fixed number of pairs per field the
//	              validator that has not voted at this nonce yet votes X' in the NEXT block (real msg
//	              server -> Attest, then the real end-blocker). Observed: the store keys of the
//	              records the late vote created / changed, the voter list of the observed record
//	              of X before / after, the record the response event names, end-block events and
//	              state delta. Oracles: (L-A) listed field differs and the late vote is accepted =>
//	              it is not recorded on the observed record of X; (L-B) if it was recorded there,
//	              the block must be indistinguishable from one with a late vote for X itself.
//	genesis     - (genesis.go) the other way votes get into the store: for a fixed number of pairs per
//	              field the state "60 % voted X, 10 % voted X', neither observed" (and once per field
//	              the late-vote state) goes through the module's ExportGenesis -> JSON -> emptied
//	              skyway store -> InitGenesis. Observed: the decoded attestation records before /
//	              after, and the blocks that follow (last honest vote, tally) against the same blocks
//	              without the export/import. Oracle (G): the import records no voter on a claim that
//	              differs from the one the voter was recorded on before the export.
package c11

import (
	"encoding/hex"
	"fmt"
	"math/big"
	"math/rand"
	"reflect"
	"sort"
	"strings"

	sdkmath "cosmossdk.io/math"
	sdk "github.com/cosmos/cosmos-sdk/types"
	"github.com/cosmos/cosmos-sdk/types/bech32"
	"github.com/cosmos/gogoproto/proto"

	skywaytypes "github.com/palomachain/paloma/v2/x/skyway/types"
	"google.golang.org/protobuf/reflect/protoreflect"

	"verif/harness/fw"
)

type params struct {
	Mode  string `json:"mode"` // pure | chain
	Bases int    `json:"bases,omitempty"`
	Vals  int    `json:"vals,omitempty"`
	Type  string `json:"type,omitempty"` // chain: claim type URL
	Base  int    `json:"base,omitempty"` // chain: scenario index
	Late  int    `json:"late,omitempty"` // chain: late votes (after the nonce was observed) per field that must have been ACCEPTED
	Gen   int    `json:"gen,omitempty"`  // chain: genesis export/import round trips per field with two competing attestations (byzantine vote ACCEPTED)
}

func lateSig(typeURL, field string) string {
	return "late-vote-pooled/" + shortName(typeURL) + "/" + field
}

func sig(typeURL, field string) string {
	return "claimhash/" + shortName(typeURL) + "/" + field
}

func claimJSON(c any) map[string]string {
	out := map[string]string{}
	for _, fi := range fieldsOf(c) {
		if strings.HasPrefix(fi.Kind, "unsupported") {
			continue
		}
		out[fi.Proto] = fieldString(c, fi)
	}
	return out
}

func cloneClaim(c skywaytypes.EthereumClaim) skywaytypes.EthereumClaim {
	cp := reflect.New(reflect.TypeOf(c).Elem())
	cp.Elem().Set(reflect.ValueOf(c).Elem())
	return cp.Interface().(skywaytypes.EthereumClaim)
}

// mutate returns a copy of base with one field replaced, after a trip through the wire encoding
// (only values a transaction can carry are compared). ok=false: the value does not survive.
func mutate(base skywaytypes.EthereumClaim, fi fieldInfo, v mval) (skywaytypes.EthereumClaim, bool) {
	cp := cloneClaim(base)
	if err := setField(cp, fi, v); err != nil {
		return nil, false
	}
	want := fieldString(cp, fi)
	w, err := wireCopy(cp.(proto.Message))
	if err != nil {
		return nil, false
	}
	if fieldString(w, fi) != want {
		return nil, false
	}
	return w.(skywaytypes.EthereumClaim), true
}

// ---------------------------------------------------------------------------------------------
// pure part

func runPure(c fw.Case, p params, rec *fw.Recorder) {
	r := c.Rand()
	urls, protos := claimTypes()
	if len(urls) == 0 {
		rec.Inconclusive("no EthereumClaim implementation found in the interface registry")
		return
	}
	pool := []string{chainA, chainB, compassA, compassB, tokenT1, tokenT2, saleContractA, palomaAddrOf("p1"), palomaAddrOf("p2"), ethAddrOf("e1")}
	for _, u := range urls {
		tn := shortName(u)
		rec.Count("pure_types", 1)
		fields := fieldsOf(protos[u])
		for _, fi := range fields {
			if fi.Excl == "" && strings.HasPrefix(fi.Kind, "unsupported") {
				rec.Inconclusive(fmt.Sprintf("claim type %s has field %s of kind %s which the mutator does not understand", tn, fi.Proto, fi.Kind))
			}
		}
		for b := 0; b < p.Bases; b++ {
			base := genericBase(u, protos, r)
			if base.ValidateBasic() == nil {
				rec.Count("pure_bases_valid", 1)
			} else {
				rec.Count("pure_bases_not_valid_basic", 1)
			}
			kx, err := modelKey(base)
			if err != nil {
				rec.Violation("claimhash-error/"+tn, "ClaimHash failed on a plausible claim: "+err.Error(), claimJSON(base))
				continue
			}
			for _, fi := range fields {
				if fi.Excl != "" || strings.HasPrefix(fi.Kind, "unsupported") {
					continue
				}
				for _, v := range valuesFor(base, fi, pool, r, p.Vals) {
					x2, ok := mutate(base, fi, v)
					if !ok {
						rec.Count("pure_values_not_wire_stable", 1)
						continue
					}
					diff, caseOnly := differs(base, x2, fi)
					if !diff {
						continue
					}
					k2, err := modelKey(x2)
					rec.Eval(1)
					rec.Count("pure_pairs/"+tn+"/"+fi.Proto, 1)
					rec.Distinct(u + "|" + fi.Proto + "|" + fieldString(base, fi) + "|" + fieldString(x2, fi) + "|" + kx)
					if err != nil {
						// a claim whose hash cannot be computed is never stored; nothing to pool
						rec.Count("pure_hash_error", 1)
						continue
					}
					same := k2 == kx
					_, isListed := listed[fi.Proto]
					switch {
					case caseOnly:
						rec.Count("pure_case_only_pairs", 1)
						if same {
							rec.Count("pure_case_only_same_key", 1)
						}
					case isListed && same:
						rec.Violation(sig(u, fi.Proto),
							fmt.Sprintf("%s: two claims that differ only in %s (%s: %s vs %s) have the same attestation key (chain prefix + nonce + claim hash), so their votes are pooled",
								tn, fi.Proto, listed[fi.Proto], fieldString(base, fi), fieldString(x2, fi)),
							map[string]any{"oracle": "listed-field-changes-key (pure)", "type": u, "field": fi.Proto, "x": claimJSON(base), "x_prime_value": fieldString(x2, fi), "key": kx})
					case isListed:
						rec.Count("pure_listed_key_differs", 1)
					case same:
						rec.Count("pure_unlisted_same_key/"+tn+"/"+fi.Proto, 1)
					default:
						rec.Count("pure_unlisted_key_differs/"+tn+"/"+fi.Proto, 1)
					}
					if b == 0 && fi.Proto == "amount" && rec.Get("pure_sampled/"+tn) == 0 {
						rec.Count("pure_sampled/"+tn, 1)
						rec.Sample(map[string]any{"part": "pure", "type": tn, "field": fi.Proto, "x": claimJSON(base), "x_prime_value": fieldString(x2, fi), "key_x": kx, "key_x_prime": k2})
					}
				}
			}
			// informational probe (NOT a verdict: the property quantifies over single fields):
			// two-field differences that move a separator between adjacent string fields
			var sf []fieldInfo
			for _, fi := range fields {
				if fi.Excl == "" && fi.Kind == kString {
					sf = append(sf, fi)
				}
			}
			for _, f := range sf {
				for _, g := range sf {
					if f.Index == g.Index {
						continue
					}
					x1, x2 := cloneClaim(base), cloneClaim(base)
					_ = setField(x1, f, sv("A"))
					_ = setField(x1, g, sv("B/C"))
					_ = setField(x2, f, sv("A/B"))
					_ = setField(x2, g, sv("C"))
					k1, e1 := modelKey(x1)
					k2, e2 := modelKey(x2)
					rec.Count("probe_two_field_separator_pairs", 1)
					if e1 == nil && e2 == nil && k1 == k2 {
						rec.Count("probe_two_field_separator_collisions/"+tn+"/"+f.Proto+"+"+g.Proto, 1)
					}
				}
			}
		}
	}
}

// ---------------------------------------------------------------------------------------------
// chain part

func reprefix(bech, hrp string) string {
	_, bz, err := bech32.DecodeAndConvert(bech)
	if err != nil {
		return bech
	}
	s, err := bech32.ConvertAndEncode(hrp, bz)
	if err != nil {
		return bech
	}
	return s
}

// scenario returns the base claim X of a chain case. Known claim types get bases that exercise
// different handler paths; any other (future) type gets a generic base.
func (w *wstate) scenario(url string, protos map[string]skywaytypes.EthereumClaim, idx int, r *rand.Rand) skywaytypes.EthereumClaim {
	amt := sdkmath.NewInt(int64(1000 + r.Intn(5_000_000)))
	h := uint64(200 + r.Intn(100000))
	en := uint64(2 + r.Intn(50))
	switch shortName(url) {
	case "MsgSendToPalomaClaim":
		x := &skywaytypes.MsgSendToPalomaClaim{EventNonce: en, EthBlockHeight: h, TokenContract: tokenT1, Amount: amt,
			EthereumSender: ethAddrOf(fmt.Sprintf("sender%d", r.Intn(5))), PalomaReceiver: palomaAddrOf(fmt.Sprintf("recv%d", r.Intn(5))),
			ChainReferenceId: chainA, SkywayNonce: w.nextNonce[chainA], CompassId: compassA}
		switch idx % 4 {
		case 1: // receiver not an address: community-pool path, other token
			x.PalomaReceiver = "not-an-address"
			x.TokenContract = tokenT2
		case 2: // the other chain
			x.ChainReferenceId, x.CompassId, x.SkywayNonce = chainB, compassB, w.nextNonce[chainB]
		case 3: // existing account as receiver
			x.PalomaReceiver = w.alice.Bech
			x.TokenContract = strings.ToLower(tokenT2)
		}
		return x
	case "MsgBatchSendToRemoteClaim":
		x := &skywaytypes.MsgBatchSendToRemoteClaim{EventNonce: en, EthBlockHeight: h, BatchNonce: w.batchT1, TokenContract: tokenT1,
			ChainReferenceId: chainA, SkywayNonce: w.nextNonce[chainA], CompassId: compassA}
		if idx%2 == 1 {
			x.BatchNonce, x.TokenContract = w.batchT2, tokenT2
		}
		return x
	case "MsgLightNodeSaleClaim":
		x := &skywaytypes.MsgLightNodeSaleClaim{EventNonce: en, EthBlockHeight: h, ChainReferenceId: chainA, SkywayNonce: w.nextNonce[chainA],
			ClientAddress: palomaAddrOf(fmt.Sprintf("buyer%d", r.Intn(1000))), Amount: sdkmath.NewInt(int64(1 + r.Intn(500))),
			SmartContractAddress: saleContractA, CompassId: compassA}
		switch idx % 3 {
		case 1:
			x.ChainReferenceId, x.CompassId, x.SkywayNonce, x.SmartContractAddress = chainB, compassB, w.nextNonce[chainB], saleContractB
		case 2: // what honest validators report when somebody else's contract emits a sale event: observed, not applied
			x.SmartContractAddress = otherContract
		}
		return x
	}
	// unknown (future) claim type: generic values, bridge bookkeeping fields set to what the chain expects
	g := genericBase(url, protos, r)
	for _, fi := range fieldsOf(g) {
		switch fi.Proto {
		case "skyway_nonce":
			_ = setField(g, fi, uv(w.nextNonce[chainA]))
		case "chain_reference_id":
			_ = setField(g, fi, sv(chainA))
		case "compass_id":
			_ = setField(g, fi, sv(compassA))
		}
	}
	return g
}

func (w *wstate) pool(base skywaytypes.EthereumClaim) []string {
	p := []string{
		w.byz.Bech, w.alice.Bech, palomaAddrOf("other-receiver"), palomaAddrOf("other-buyer"), "not-an-address",
		tokenT1, tokenT2, tokenT3, strings.ToLower(tokenT1), strings.ToLower(tokenT2),
		saleContractA, saleContractB, otherContract, strings.ToLower(saleContractA), strings.ToLower(saleContractB),
		chainA, chainB, "nope-chain", compassA, compassB, "compass-unknown", ethAddrOf("other-sender"),
	}
	// the same account under another bech32 prefix / in upper case (same bytes, other string)
	for _, fi := range fieldsOf(base) {
		if fi.Kind == kString && fi.Excl == "" {
			s := getField(base, fi).String()
			if _, _, err := bech32.DecodeAndConvert(s); err == nil {
				p = append(p, reprefix(s, "cosmos"), strings.ToUpper(s))
			}
		}
	}
	return p
}

func sameStrings(a, b []string) bool {
	if len(a) != len(b) {
		return false
	}
	for i := range a {
		if a[i] != b[i] {
			return false
		}
	}
	return true
}

// diffRuns compares what the honest validators experience and what the chain does in two runs:
// acceptance + response events of the honest votes (the last len(honest) votes of each run), the
// end-block events, and the masked state delta. Returns human-readable differences.
func diffRuns(a, b runOut, nh int, ignoreIDs bool) []string {
	var d []string
	if ignoreIDs {
		a.EndEvents, b.EndEvents = stripIDs(a.EndEvents), stripIDs(b.EndEvents)
	}
	if a.Panic != b.Panic {
		d = append(d, fmt.Sprintf("panic: %q vs %q", a.Panic, b.Panic))
	}
	av, bv := a.Votes[len(a.Votes)-nh:], b.Votes[len(b.Votes)-nh:]
	for i := 0; i < nh; i++ {
		if av[i].Accepted != bv[i].Accepted {
			d = append(d, fmt.Sprintf("honest vote of %s: accepted=%v (%s) vs accepted=%v (%s)", av[i].Voter, av[i].Accepted, av[i].Err, bv[i].Accepted, bv[i].Err))
		} else if !ignoreIDs && !sameStrings(av[i].Events, bv[i].Events) {
			d = append(d, fmt.Sprintf("honest vote of %s: response events differ: %v vs %v", av[i].Voter, av[i].Events, bv[i].Events))
		}
	}
	if !sameStrings(a.EndEvents, b.EndEvents) {
		d = append(d, fmt.Sprintf("end-block events differ: %v vs %v", a.EndEvents, b.EndEvents))
	}
	keys := map[string]struct{}{}
	for k := range a.Delta {
		keys[k] = struct{}{}
	}
	for k := range b.Delta {
		keys[k] = struct{}{}
	}
	var ks []string
	for k := range keys {
		ks = append(ks, k)
	}
	sort.Strings(ks)
	n := 0
	for _, k := range ks {
		x, okx := a.Delta[k]
		y, oky := b.Delta[k]
		if okx != oky || x != y {
			n++
			if n <= 12 {
				if !okx {
					x = "<unchanged>"
				}
				if !oky {
					y = "<unchanged>"
				}
				d = append(d, fmt.Sprintf("state %s: %s vs %s", k, trunc(x), trunc(y)))
			}
		}
	}
	if n > 12 {
		d = append(d, fmt.Sprintf("... and %d more state keys", n-12))
	}
	return d
}

// stripIDs removes the attributes that are derived from the attestation key itself (they differ
// whenever the keys differ and say nothing about the effect of applying the claim).
func stripIDs(evs []string) []string {
	out := make([]string, len(evs))
	for i, e := range evs {
		parts := strings.Split(e, "\t")
		var keep []string
		for _, p := range parts {
			if strings.HasPrefix(p, "attestation_id=") || strings.HasPrefix(p, "claim_hash=") {
				continue
			}
			keep = append(keep, p)
		}
		out[i] = strings.Join(keep, "\t")
	}
	return out
}

func trunc(s string) string {
	if len(s) > 96 {
		return s[:96] + "..."
	}
	return s
}

func observed(o runOut) bool {
	for _, e := range o.EndEvents {
		if strings.Contains(e, "EventObservation") {
			return true
		}
	}
	return false
}

// a buffered violation (reported most telling oracle first)
type pending struct {
	rank     int
	sig, msg string
	wit      any
}

func runChain(c fw.Case, p params, rec *fw.Recorder) {
	r := c.Rand()
	w, err := newWorld()
	if w != nil && w.c != nil {
		defer w.c.Close()
	}
	if err != nil {
		rec.Inconclusive("bring-up failed: " + err.Error())
		return
	}
	rec.Count("chain_worlds", 1)
	// claim types as the running application registers them
	urls, protos := claimTypes()
	appImpls := w.c.App.InterfaceRegistry().ListImplementations(claimIface)
	for _, u := range appImpls {
		if _, ok := protos[u]; !ok {
			rec.Inconclusive("application registers claim type " + u + " which the pure registry does not know")
		}
	}
	_ = urls
	proto0, ok := protos[p.Type]
	if !ok {
		rec.Inconclusive("claim type " + p.Type + " is not registered")
		return
	}
	tn := shortName(p.Type)
	if m, ok := proto0.(sdk.Msg); !ok || w.c.App.MsgServiceRouter().Handler(m) == nil {
		// a claim type that cannot be submitted cannot be tallied
		rec.Count("chain_unroutable_type/"+tn, 1)
		return
	}
	X := w.scenario(p.Type, protos, p.Base, r)
	fields := fieldsOf(X)
	nh := len(w.honest)
	honestVotes := func(cl skywaytypes.EthereumClaim) []vote {
		var vs []vote
		for _, h := range w.honest {
			vs = append(vs, vote{h, cl})
		}
		return vs
	}
	rec.Op(map[string]any{"op": "H", "x": claimJSON(X)})
	H, post := w.runKeep(honestVotes(X))
	rec.Count("chain_runs", 1)
	if H.Panic != "" {
		rec.Inconclusive("base run panicked: " + H.Panic)
		return
	}
	for _, v := range H.Votes {
		if !v.Accepted {
			rec.Inconclusive(fmt.Sprintf("base claim of scenario %s/%d is not accepted: %s", tn, p.Base, v.Err))
			return
		}
	}
	if !observed(H) || len(H.Delta) == 0 {
		rec.Inconclusive(fmt.Sprintf("base claim of scenario %s/%d is not observed/applied; warnings: %v", tn, p.Base, H.Warn))
		return
	}
	keyX := H.Votes[0].AttKey
	// the key model of the pure part against the key the real keeper wrote
	mk, merr := modelKey(X)
	rec.Count("key_model_checked", 1)
	if merr != nil || mk != keyX {
		rec.Count("key_model_mismatch", 1)
		rec.Inconclusive(fmt.Sprintf("the keeper stored the attestation of %s under %s, the model (chain prefix + nonce + claim hash) says %s", tn, keyX, mk))
	}
	applied := 0
	for k := range H.Delta {
		if !strings.HasPrefix(k, "skyway/") {
			applied++
		}
	}
	if applied > 0 {
		rec.Count("chain_base_applied/"+tn, 1)
	}
	rec.Sample(map[string]any{"part": "chain", "type": tn, "scenario": p.Base, "x": claimJSON(X), "honest_run": map[string]any{
		"att_key": keyX, "end_events": H.EndEvents, "state_keys_changed": len(H.Delta)}})

	// violations are buffered and reported most telling oracle first (the recorder keeps only the
	// first three witnesses per signature and case)
	var pend []pending
	defer func() {
		sort.SliceStable(pend, func(i, j int) bool { return pend[i].rank < pend[j].rank })
		for _, v := range pend {
			rec.Violation(v.sig, v.msg, v.wit)
		}
	}()
	// the state in which X has been observed: late votes (next block) branch off it
	var lw *lateWorld
	if p.Late > 0 {
		var lerr error
		if lw, lerr = w.newLateWorld(post, keyX, vote{w.byz, X}); lerr != nil {
			rec.Inconclusive("late-vote world: " + lerr.Error())
			lw = nil
		} else {
			rec.Count("chain_late_worlds", 1)
			rec.Count("chain_runs", 1)
			// control: the late voter votes the IDENTICAL claim X. It lands in the observed record
			// (same claim: that is what pooling is for) and is the reference for "a pooled late
			// vote for a different claim must not change the outcome".
			cx := lw.ctrlX
			if cx.Vote.Accepted && cx.Panic == "" {
				rec.Count("chain_late_identical_vote_accepted", 1)
				if len(diffRuns(runOut{EndEvents: lw.ctrlEnd, Delta: lw.ctrlDiff}, runOut{EndEvents: cx.EndEvents, Delta: cx.Delta}, 0, false)) > 0 {
					rec.Count("chain_late_identical_vote_changes_outcome/"+tn, 1) // not a C11 matter (same claim)
				}
			} else {
				rec.Count("chain_late_identical_vote_rejected/"+tn, 1)
			}
		}
	}
	pool := w.pool(X)
	for _, fi := range fields {
		if fi.Excl != "" {
			continue
		}
		if strings.HasPrefix(fi.Kind, "unsupported") {
			rec.Inconclusive(fmt.Sprintf("claim type %s has field %s of kind %s which the mutator does not understand", tn, fi.Proto, fi.Kind))
			continue
		}
		_, isListed := listed[fi.Proto]
		seen := map[string]bool{}
		lateAccepted, lateTried := 0, 0
		genAccepted, genTried, genLateDone, genLateTried := 0, 0, 0, 0
		for _, v := range valuesFor(X, fi, pool, r, p.Vals) {
			X2, ok := mutate(X, fi, v)
			if !ok {
				continue
			}
			diff, caseOnly := differs(X, X2, fi)
			if !diff || seen[fieldString(X2, fi)] {
				continue
			}
			seen[fieldString(X2, fi)] = true
			rec.Op(map[string]any{"op": "pair", "field": fi.Proto, "x_prime_value": fieldString(X2, fi)})
			S := w.run(honestVotes(X2))
			M := w.run(append([]vote{{w.byz, X2}}, honestVotes(X)...))
			rec.Count("chain_runs", 2)
			rec.Eval(1)
			rec.Count("chain_pairs/"+tn+"/"+fi.Proto, 1)
			rec.Distinct(p.Type + "|" + fi.Proto + "|" + fmt.Sprint(claimJSON(X)) + "|" + fieldString(X2, fi))

			byzVote := M.Votes[0]
			firstHonest := M.Votes[1]
			pooled := byzVote.Accepted && firstHonest.AttKey != "" && byzVote.AttKey == firstHonest.AttKey
			// also pooled if the honest vote was turned away BECAUSE it hit the byzantine record:
			// then no new record exists for X although H shows one would have been created
			if byzVote.Accepted && !firstHonest.Accepted && byzVote.AttKey == keyX {
				pooled = true
			}
			if byzVote.Accepted {
				rec.Count("chain_xprime_vote_accepted", 1)
			} else {
				rec.Count("chain_xprime_vote_rejected", 1)
			}
			if pooled {
				rec.Count("chain_pooled/"+tn+"/"+fi.Proto, 1)
			}
			witness := func(oracle string, diffs []string) map[string]any {
				return map[string]any{"oracle": oracle, "type": p.Type, "field": fi.Proto, "x": claimJSON(X), "x_prime_value": fieldString(X2, fi),
					"scenario": p.Base, "byzantine_vote": byzVote, "first_honest_vote_in_mixed_run": firstHonest, "att_key_x": keyX,
					"differences": diffs, "mixed_run_warnings": M.Warn, "mixed_end_events": M.EndEvents, "honest_end_events": H.EndEvents}
			}
			// (A) listed field => different records (on the keys the real keeper used)
			vA := isListed && !caseOnly && byzVote.Accepted && byzVote.AttKey == keyX
			// (B) pooled => the mixed run must be what the honest validators alone would get
			dHM := diffRuns(H, M, nh, false)
			vB := pooled && len(dHM) > 0
			// (D) the votes sit on separate records, yet the block's outcome is not the one the
			// honest 90 % alone get: a vote of 10 % of the power cannot carry anything by itself, so
			// honest votes were counted towards (or lost to) the other claim when the records were
			// tallied. (Attestation records and the byzantine voter's own bookkeeping are masked.)
			vD := !pooled && byzVote.Accepted && len(dHM) > 0
			if len(dHM) > 0 && !pooled {
				rec.Count("chain_unpooled_run_differs/"+tn+"/"+fi.Proto, 1)
			}
			if !pooled && byzVote.Accepted && len(dHM) == 0 {
				rec.Count("chain_separate_records_outcome_as_honest", 1)
			}
			// (C) both individually tallied under one key => same effect
			sAccepted := len(S.Votes) > 0
			for _, sv := range S.Votes {
				if !sv.Accepted {
					sAccepted = false
				}
			}
			dHS := diffRuns(H, S, nh, true)
			if len(dHS) > 0 {
				rec.Count("chain_effect_bearing/"+tn+"/"+fi.Proto, 1)
			} else {
				rec.Count("chain_no_effect_difference/"+tn+"/"+fi.Proto, 1)
			}
			vC := sAccepted && S.Votes[0].AttKey == keyX && len(dHS) > 0
			if vA {
				rec.Count("chain_listed_same_record/"+tn+"/"+fi.Proto, 1)
			}
			if vB {
				rec.Count("chain_pooled_effect_differs/"+tn+"/"+fi.Proto, 1)
			}
			if vC {
				rec.Count("chain_same_key_effect_differs/"+tn+"/"+fi.Proto, 1)
			}
			// one violation per pair, the most telling oracle first
			switch {
			case vB:
				pend = append(pend, pending{0, sig(p.Type, fi.Proto),
					fmt.Sprintf("%s: honest votes (90%% power) for a claim with %s=%s were pooled with a byzantine first vote carrying %s=%s (same attestation record %s); outcome differs from what the honest validators saw: %s",
						tn, fi.Proto, fieldString(X, fi), fi.Proto, fieldString(X2, fi), trunc(keyX), strings.Join(head(dHM, 3), "; ")),
					witness("pooled-mixed-run-equals-honest-run", dHM)})
			case vC:
				pend = append(pend, pending{1, sig(p.Type, fi.Proto),
					fmt.Sprintf("%s: claims with %s=%s and %s=%s are both accepted under the same attestation key but applying them differs: %s",
						tn, fi.Proto, fieldString(X, fi), fi.Proto, fieldString(X2, fi), strings.Join(head(dHS, 3), "; ")),
					witness("same-key-same-effect", dHS)})
			case vD:
				pend = append(pend, pending{1, "tally-pooled/" + shortName(p.Type) + "/" + fi.Proto,
					fmt.Sprintf("%s: the byzantine first vote (10%% power, %s=%s) is stored on its own attestation record, the honest votes (90%%, %s=%s) on theirs, yet the block's outcome is not what the honest validators alone get: %s",
						tn, fi.Proto, fieldString(X2, fi), fi.Proto, fieldString(X, fi), strings.Join(head(dHM, 3), "; ")),
					witness("separate-records-mixed-run-equals-honest-run", dHM)})
			case vA:
				pend = append(pend, pending{2, sig(p.Type, fi.Proto),
					fmt.Sprintf("%s: a vote for a claim that differs in %s (%s: %s instead of %s) is stored in the same attestation record as the honest claim (store key %s)",
						tn, fi.Proto, listed[fi.Proto], fieldString(X2, fi), fieldString(X, fi), keyX),
					witness("listed-field-changes-key (observed store keys)", nil)})
			}
			if !sAccepted {
				rec.Count("chain_xprime_not_accepted_standalone/"+tn+"/"+fi.Proto, 1)
			}
			// (L) the same pair with the byzantine vote arriving LATE: the honest validators have
			// voted X and the end-blocker has observed it; in the next block the validator that has
			// not voted at this nonce yet votes X'. Fixed budget per field: until p.Late late votes
			// were accepted, at most 3*p.Late tried (a refused late vote costs next to nothing).
			if lw != nil && lateAccepted < p.Late && lateTried < 3*p.Late {
				lateTried++
				rec.Op(map[string]any{"op": "late", "field": fi.Proto, "x_prime_value": fieldString(X2, fi)})
				L := w.late(lw, vote{w.byz, X2})
				rec.Count("chain_runs", 1)
				rec.Count("chain_late_votes/"+tn+"/"+fi.Proto, 1)
				if L.Panic != "" {
					rec.Count("chain_late_panic/"+tn+"/"+fi.Proto, 1)
				}
				if !L.Vote.Accepted {
					rec.Count("chain_late_vote_rejected", 1)
				} else {
					lateAccepted++
					rec.Eval(1)
					rec.Count("chain_late_vote_accepted", 1)
					rec.Distinct("late|" + p.Type + "|" + fi.Proto + "|" + fmt.Sprint(claimJSON(X)) + "|" + fieldString(X2, fi))
					// pooled: the late vote changed the observed record of X (on the keys and the
					// voter list the real keeper wrote)
					latePooled := false
					for _, k := range L.Vote.AttKeys {
						if k == keyX {
							latePooled = true
						}
					}
					if !sameStrings(L.VotersXAfter, lw.votersX) {
						latePooled = true
					}
					if latePooled {
						rec.Count("chain_late_pooled/"+tn+"/"+fi.Proto, 1)
					} else {
						rec.Count("chain_late_separate_record", 1)
					}
					if L.EventAttID != "" && !L.EventAttFound {
						rec.Count("chain_late_event_names_missing_record/"+tn+"/"+fi.Proto, 1)
					}
					// what the next block does with the late vote vs. without it (information), and vs.
					// a late vote for the identical claim X (reference of the pooled-vote oracle)
					if d0 := diffRuns(runOut{EndEvents: lw.ctrlEnd, Delta: lw.ctrlDiff}, runOut{EndEvents: L.EndEvents, Delta: L.Delta, Panic: L.Panic}, 0, false); len(d0) > 0 {
						rec.Count("chain_late_vote_changes_outcome/"+tn+"/"+fi.Proto, 1)
					}
					var dL []string
					if cx := lw.ctrlX; cx.Vote.Accepted && cx.Panic == "" {
						dL = diffRuns(runOut{EndEvents: cx.EndEvents, Delta: cx.Delta}, runOut{EndEvents: L.EndEvents, Delta: L.Delta, Panic: L.Panic}, 0, false)
					}
					lwit := map[string]any{"type": p.Type, "field": fi.Proto, "x": claimJSON(X), "x_prime_value": fieldString(X2, fi), "scenario": p.Base,
						"att_key_x": keyX, "honest_end_events": H.EndEvents, "voters_of_observed_record_before": lw.votersX, "late": L,
						"differences_to_late_vote_for_identical_claim": dL}
					switch {
					case latePooled && len(dL) > 0:
						// honest votes and a differing late vote in one record, and the outcome moved
						lwit["oracle"] = "late-pooled-run-equals-honest-run"
						pend = append(pend, pending{0, lateSig(p.Type, fi.Proto),
							fmt.Sprintf("%s: after the honest votes (90%% power) for %s=%s were observed, a late vote for a claim with %s=%s was recorded on the same attestation record %s and the outcome differs from a late vote for the identical claim: %s",
								tn, fi.Proto, fieldString(X, fi), fi.Proto, fieldString(X2, fi), trunc(keyX), strings.Join(head(dL, 3), "; ")), lwit})
					case latePooled && isListed && !caseOnly:
						lwit["oracle"] = "listed-field-changes-key (late vote, observed store keys and voter lists)"
						pend = append(pend, pending{2, lateSig(p.Type, fi.Proto),
							fmt.Sprintf("%s: a vote that arrives after the nonce was observed, for a claim that differs in %s (%s: %s instead of %s), is recorded on the observed attestation of the honest claim (store key %s; %d -> %d voters)",
								tn, fi.Proto, listed[fi.Proto], fieldString(X2, fi), fieldString(X, fi), keyX, len(lw.votersX), len(L.VotersXAfter)), lwit})
					}
				}
			}
			// (G) the same pair across a genesis export / import of the skyway state. Fixed budget per
			// field: until p.Gen round trips with an accepted byzantine vote, at most 3*p.Gen tried.
			if p.Gen > 0 && genAccepted < p.Gen && genTried < 3*p.Gen {
				genTried++
				rec.Op(map[string]any{"op": "genesis-competing", "field": fi.Proto, "x_prime_value": fieldString(X2, fi)})
				done, v := w.judgeGenCompeting(rec, p, X, X2, fi, isListed, caseOnly)
				if done {
					genAccepted++
				}
				pend = append(pend, v...)
			}
			if lw != nil && p.Gen > 0 && genLateDone < 1 && genLateTried < 3*p.Gen {
				genLateTried++
				rec.Op(map[string]any{"op": "genesis-after-observation", "field": fi.Proto, "x_prime_value": fieldString(X2, fi)})
				done, v := w.judgeGenAfterObservation(rec, p, lw, X, X2, fi, isListed, caseOnly)
				if done {
					genLateDone++
				}
				pend = append(pend, v...)
			}
		}
	}
	w.abciCrossCheck(X, H, rec)
}

// declaredAsRPCInput: is the message the request type of some method of a protobuf service
// (looked up in the linked file descriptors)? Only used to size the case list; the chain case
// itself asks the real MsgServiceRouter.
func declaredAsRPCInput(typeURL string) bool {
	name := protoreflect.FullName(strings.TrimPrefix(typeURL, "/"))
	found, any := false, false
	proto.HybridResolver.RangeFiles(func(fd protoreflect.FileDescriptor) bool {
		svcs := fd.Services()
		for i := 0; i < svcs.Len(); i++ {
			ms := svcs.Get(i).Methods()
			for j := 0; j < ms.Len(); j++ {
				any = true
				if ms.Get(j).Input().FullName() == name {
					found = true
					return false
				}
			}
		}
		return true
	})
	return found || !any
}

// abciCrossCheck replays the honest-only run H with real signed transactions in one real block at
// the fork height (full ante chain, all begin/end-blockers) and checks that every state key H
// predicted has exactly the predicted value. A disagreement means the fork shortcut is not faithful
// (harness problem -> INCONCLUSIVE), it is not a verdict about the property.
func (w *wstate) abciCrossCheck(X skywaytypes.EthereumClaim, H runOut, rec *fw.Recorder) {
	c := w.c
	if c.Height+1 != w.forkHeight {
		rec.Inconclusive("abci cross-check: chain moved")
		return
	}
	for _, h := range w.honest {
		m, err := prepareVote(X, h)
		if err == nil {
			err = c.QueueTx(h, 0, m)
		}
		if err != nil {
			rec.Inconclusive("abci cross-check: cannot build tx: " + err.Error())
			return
		}
	}
	br := c.NextBlock()
	if br.Panic != "" || br.Err != nil {
		rec.Inconclusive(fmt.Sprintf("abci cross-check: block failed: %s %v", br.Panic, br.Err))
		return
	}
	for i, t := range br.Txs {
		if !t.OK() {
			rec.Inconclusive(fmt.Sprintf("abci cross-check: vote %d rejected through ABCI but accepted on the fork: %s", i, t.Log))
			return
		}
	}
	ctx := c.Ctx()
	bad := 0
	for k, want := range H.Delta {
		i := strings.Index(k, "/")
		store, keyHex := k[:i], k[i+1:]
		kb, _ := hex.DecodeString(keyHex)
		got := "<deleted>"
		if v := c.KVStore(ctx, store).Get(kb); v != nil {
			got = hex.EncodeToString(v)
		}
		if got != want {
			bad++
			if bad <= 3 {
				rec.Inconclusive(fmt.Sprintf("abci cross-check: %s is %s after the real block, the fork run predicted %s", k, trunc(got), trunc(want)))
			}
		}
		rec.Count("abci_crosscheck_keys", 1)
	}
	if bad == 0 {
		rec.Count("abci_crosscheck_ok", 1)
	}
}

func head(s []string, n int) []string {
	if len(s) > n {
		return s[:n]
	}
	return s
}

// ---------------------------------------------------------------------------------------------

func run(c fw.Case, tier string, rec *fw.Recorder) {
	var p params
	c.Decode(&p)
	switch p.Mode {
	case "pure":
		runPure(c, p, rec)
	case "chain":
		runChain(c, p, rec)
	default:
		rec.Inconclusive("unknown mode " + p.Mode)
	}
}

func cases(tier string, seed int64) []fw.Case {
	var cs []fw.Case
	nPure, bases, vals := 4, 12, 40
	scen, cvals, late, gen := 4, 36, 6, 3
	if tier == "thorough" {
		nPure, bases, vals = 16, 40, 120
		scen, cvals, late, gen = 12, 90, 20, 8
	}
	// chain cases first: their witnesses (real executions) are the ones kept as replay files
	urls, _ := claimTypes()
	for _, u := range urls {
		n := scen
		if !declaredAsRPCInput(u) {
			n = 1 // the case only confirms with the real router that the type cannot be submitted
		}
		switch shortName(u) {
		case "MsgSendToPalomaClaim":
			n = scen * 2 // four handler paths
		case "MsgLightNodeSaleClaim":
			n = scen * 3 / 2 // three
		}
		for b := 0; b < n; b++ {
			cs = append(cs, fw.MkCase(fmt.Sprintf("chain-%s-%02d", shortName(u), b), seed*7000003+int64(len(cs)), params{Mode: "chain", Type: u, Base: b, Vals: cvals, Late: late, Gen: gen}))
		}
	}
	for i := 0; i < nPure; i++ {
		cs = append(cs, fw.MkCase(fmt.Sprintf("pure-%02d", i), seed*1000003+int64(i), params{Mode: "pure", Bases: bases, Vals: vals}))
	}
	return cs
}

func init() {
	_ = big.NewInt
	fw.Register(&fw.Prop{
		ID:    "C11",
		Level: "exploration",
		Rule: "claim types = all implementations of EthereumClaim in the interface registry; fields = all protobuf fields except orchestrator (voter identity) and metadata (tx metadata). " +
			"pure part: seeded random base claims x every field x boundary/hostile/random values (uint64, math.Int, strings incl. case variants, separators, world addresses); a pair is (base, single-field mutant surviving the wire encoding); oracle on real ClaimHash/GetAttestationKey. " +
			"chain part: per claim type several scenario bases (different handler paths, both chains) on the real app; per pair three fork executions (honest-only X, honest-only X', byzantine-first X' then honest X) through the real msg server, Attest, end-block tally and attestation handler; compared: acceptance, attestation store keys, end-block events, delta of all KV stores. " +
			"late votes: the first Late pairs per field (until Late late votes were accepted, at most 3*Late tried) are also run with the 10 % validator voting X' in the block AFTER the honest votes for X were observed; compared: attestation store keys and voter list of the observed record, outcome against a late vote for X itself. " +
			"genesis round trips: the first Gen pairs per field (until Gen round trips with an accepted X' vote, at most 3*Gen tried) are also run as: 60 % vote X, the 10 % validator votes X', end-block (nothing observable), module ExportGenesis -> JSON -> emptied skyway store -> module InitGenesis, then the remaining 30 % validator votes X and two end-blocks, against the same blocks without export/import; plus one round trip per field of the late-vote state (X observed, X' voted late); compared: decoded attestation records (claim, voter list) before export / after import, outcome against the control. " +
			"distinct_nontrivial = distinct (type, field, base claim, mutant value) pairs whose field value really differs (late-vote and genesis pairs counted separately); evaluations = pairs judged by an oracle",
		Assumptions: []string{
			"voter identity = orchestrator + metadata (excluded by the property's quantifier); all other fields are mutated",
			"'nonce' of the statement = skyway_nonce (the nonce the tally and the key use); event_nonce is not on the list and is judged by the differential oracle only",
			"string values that differ in letter case only are judged by the differential oracle only (whether they denote the same thing depends on the field)",
			"only values that survive the protobuf wire encoding are compared (a nil math.Int cannot be produced by marshalling)",
			"single-field differences only, as the property quantifies; two-field separator shifts are probed and counted, not judged",
			"masked from the state comparison: attestation records (claim body + voter list) and the byzantine voter's own last-nonce entry",
			"byzantine voter holds 10 % of the power, honest voters 90 %; the byzantine vote arrives first (the order in which its body is the one stored), or one block after the honest votes were observed (late vote of a lagging validator)",
			"genesis round trip: only the skyway module's state is exported and re-imported (into an emptied skyway store of the same fork); all other modules keep their state, i.e. their own export/import is taken to be the identity",
			"a genesis import pools votes iff it records a voter on a claim (type + all quantified fields) the voter was not recorded on before the export; records that merely disappear (e.g. claims of a superseded bridge deployment, which the export leaves out) are counted, not judged",
			"a vote recorded on the observed attestation of a claim that differs in a listed field counts as pooled even though the tally is over (the statement's first sentence; the voter list of the observed record is what the chain reports as the votes for that event)",
		},
		Exhaustive:  func(string) bool { return false },
		Cases:       cases,
		Run:         run,
		MinCounters: []string{"pure_types", "pure_listed_key_differs", "chain_worlds", "key_model_checked", "abci_crosscheck_ok", "chain_xprime_vote_accepted", "chain_separate_records_outcome_as_honest", "chain_late_vote_accepted", "chain_late_identical_vote_accepted", "chain_genesis_roundtrips", "chain_genesis_competitors_kept_apart", "chain_genesis_roundtrips_after_observation", "chain_base_applied/MsgSendToPalomaClaim", "chain_base_applied/MsgBatchSendToRemoteClaim", "chain_base_applied/MsgLightNodeSaleClaim"},
		TimeoutS:    1500,
	})
}
