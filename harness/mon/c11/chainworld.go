package c11

// Bring-up of the REAL application into a state in which all three claim types have an effect
// when applied: two active EVM chains, token-factory denoms mapped to ERC-20 contracts on both
// chains (governance message, direct mode), one deposit per chain attested through real signed
// transactions and real blocks (so that nonces are not in their initial state and the ABCI path is
// exercised), two outgoing batches (real MsgSendToRemote + the h%50 batch builder), light-node sale
// contracts / funder / feegranter set through the legacy governance handlers.

import (
	"bytes"
	"encoding/hex"
	"fmt"
	"sort"
	"strings"
	"time"

	"cosmossdk.io/core/appmodule"
	sdkmath "cosmossdk.io/math"
	"cosmossdk.io/store/rootmulti"
	codectypes "github.com/cosmos/cosmos-sdk/codec/types"
	sdk "github.com/cosmos/cosmos-sdk/types"
	govv1 "github.com/cosmos/cosmos-sdk/x/gov/types/v1"
	govv1beta1 "github.com/cosmos/cosmos-sdk/x/gov/types/v1beta1"
	"github.com/cosmos/gogoproto/proto"

	palomatypes "github.com/palomachain/paloma/v2/x/paloma/types"
	skywaytypes "github.com/palomachain/paloma/v2/x/skyway/types"
	tftypes "github.com/palomachain/paloma/v2/x/tokenfactory/types"

	"verif/harness/chain"
	"verif/harness/world"
)

const (
	chainA = "eth-main"
	chainB = "bnb-main"

	compassA = "compass-eth-main-01"
	compassB = "compass-bnb-main-01"

	tokenT1 = "0x1111111111111111111111111111111111111AaA" // mapped on both chains (different denoms)
	tokenT2 = "0x2222222222222222222222222222222222222bBb" // mapped on chain A only
	tokenT3 = "0x3333333333333333333333333333333333333CcC" // not mapped anywhere

	saleContractA = "0x5a1E000000000000000000000000000000000A11"
	saleContractB = "0x5a1E000000000000000000000000000000000B22"
	otherContract = "0x0BadC0de00000000000000000000000000000666"
)

type wstate struct {
	c      *chain.Chain
	vals   []*chain.Account // index 3 (smallest power) plays the byzantine voter
	honest []*chain.Account
	byz    *chain.Account
	admin  *chain.Account
	alice  *chain.Account
	funder *chain.Account
	feeg   *chain.Account

	denomA1, denomA2, denomB1 string
	batchT1, batchT2          uint64 // batch nonces on chain A
	nextNonce                 map[string]uint64

	forkHeight int64
	forkTime   time.Time

	storeNames []string
	base       map[string]map[string][]byte // store -> raw key -> value of the state all forks start from

	skywayEnd appmodule.HasEndBlocker
}

func ethAddrOf(seed string) string {
	a := chain.NewAccount(seed, "c11/eth/"+seed)
	return a.EthAddr()
}

func palomaAddrOf(seed string) string {
	return chain.NewAccount(seed, "c11/acct/"+seed).Bech
}

func mustOK(what string, r chain.TxResult) error {
	if !r.OK() {
		return fmt.Errorf("%s failed: code=%d %s", what, r.Code, r.Log)
	}
	return nil
}

func (w *wstate) direct(msg sdk.Msg) error {
	_, err := w.c.Direct(msg, w.c.Height, w.c.Time)
	return err
}

func (w *wstate) legacyGov(content govv1beta1.Content) error {
	pm, ok := content.(proto.Message)
	if !ok {
		return fmt.Errorf("%T is not a proto message", content)
	}
	any, err := codectypes.NewAnyWithValue(pm)
	if err != nil {
		return err
	}
	return w.direct(&govv1.MsgExecLegacyContent{Content: any, Authority: chain.GovAuthority()})
}

// newWorld builds the chain and the base state. Any failure here is a harness problem
// (-> INCONCLUSIVE), never a verdict.
func newWorld() (*wstate, error) {
	w := &wstate{nextNonce: map[string]uint64{}}
	vs := chain.DefaultValidators("c11", []int64{40_000_000, 30_000_000, 20_000_000, 10_000_000})
	w.vals = world.Accts(vs)
	w.honest = w.vals[:3]
	w.byz = w.vals[3]
	w.admin = chain.NewAccount("admin", "c11/admin")
	w.alice = chain.NewAccount("alice", "c11/alice")
	w.funder = chain.NewAccount("funder", "c11/funder")
	w.feeg = chain.NewAccount("feegranter", "c11/feegranter")
	grain := func(n int64) sdk.Coins { return sdk.NewCoins(sdk.NewInt64Coin(chain.Denom, n)) }
	c := chain.New(chain.Config{
		Validators: vs,
		Users: map[*chain.Account]sdk.Coins{
			w.admin: grain(1_000_000_000_000), w.alice: grain(1_000_000_000),
			w.funder: grain(1_000_000_000_000_000), w.feeg: grain(1_000_000_000_000),
		},
		EVMChains:   []chain.EVMChainSpec{{RefID: chainA, ChainID: 1}, {RefID: chainB, ChainID: 56}},
		WithCompass: true, CaptureLog: true,
	})
	w.c = c
	c.Skip(1)
	if err := world.Bootstrap(c, w.vals, []string{chainA, chainB}); err != nil {
		return w, err
	}
	if err := world.ActivateChain(c, chainA, "0x00000000000000000000000000000000000c0de1", []byte(compassA)); err != nil {
		return w, fmt.Errorf("activate %s: %w", chainA, err)
	}
	if err := world.ActivateChain(c, chainB, "0x00000000000000000000000000000000000c0de2", []byte(compassB)); err != nil {
		return w, fmt.Errorf("activate %s: %w", chainB, err)
	}
	// token-factory denoms owned by admin
	for _, sub := range []string{"tka", "tkb", "tkc"} {
		if err := mustOK("create denom "+sub, c.Deliver(w.admin, &tftypes.MsgCreateDenom{Subdenom: sub, Metadata: world.Meta(w.admin)})); err != nil {
			return w, err
		}
	}
	w.denomA1 = "factory/" + w.admin.Bech + "/tka"
	w.denomA2 = "factory/" + w.admin.Bech + "/tkb"
	w.denomB1 = "factory/" + w.admin.Bech + "/tkc"
	// ERC-20 mappings: the skyway governance message, direct mode with the gov authority
	gov := chain.GovAuthority()
	mp := &skywaytypes.MsgSetERC20MappingProposal{
		Metadata:  valsetMeta(gov),
		Authority: gov,
		Mappings: []skywaytypes.MsgSetERC20MappingProposal_ERC20ToDenomMapping{
			{ChainReferenceId: chainA, Erc20: tokenT1, Denom: w.denomA1},
			{ChainReferenceId: chainA, Erc20: tokenT2, Denom: w.denomA2},
			{ChainReferenceId: chainB, Erc20: tokenT1, Denom: w.denomB1},
		},
	}
	if err := w.direct(mp); err != nil {
		return w, fmt.Errorf("erc20 mapping: %w", err)
	}
	// light-node sale: contracts (skyway), funder + feegranter (paloma) through the legacy handlers
	if err := w.legacyGov(&skywaytypes.SetLightNodeSaleContractsProposal{Title: "t", Description: "d",
		LightNodeSaleContracts: []*skywaytypes.LightNodeSaleContract{
			{ChainReferenceId: chainA, ContractAddress: saleContractA},
			{ChainReferenceId: chainB, ContractAddress: saleContractB},
		}}); err != nil {
		return w, fmt.Errorf("sale contracts: %w", err)
	}
	if err := w.legacyGov(&palomatypes.SetLightNodeClientFundersProposal{Title: "t", Description: "d", FunderAccounts: []string{w.funder.Bech}}); err != nil {
		return w, fmt.Errorf("funders: %w", err)
	}
	if err := w.legacyGov(&palomatypes.SetLightNodeClientFeegranterProposal{Title: "t", Description: "d", FeegranterAccount: w.feeg.Bech}); err != nil {
		return w, fmt.Errorf("feegranter: %w", err)
	}
	// one real deposit per chain, attested by all validators with real signed txs in real blocks
	dep := func(chainRef, compass, token string, amount int64) error {
		for i, v := range w.vals {
			m := &skywaytypes.MsgSendToPalomaClaim{
				EventNonce: 1, EthBlockHeight: 150, TokenContract: token, Amount: sdkmath.NewInt(amount),
				EthereumSender: ethAddrOf("depositor"), PalomaReceiver: w.alice.Bech, Orchestrator: v.Bech,
				ChainReferenceId: chainRef, Metadata: world.Meta(v), SkywayNonce: 1, CompassId: compass,
			}
			if err := mustOK(fmt.Sprintf("setup deposit %s vote %d", chainRef, i), c.Deliver(v, m)); err != nil {
				return err
			}
		}
		return nil
	}
	if err := dep(chainA, compassA, tokenT1, 5_000_000); err != nil {
		return w, err
	}
	if err := dep(chainA, compassA, tokenT2, 7_000_000); err == nil {
		return w, fmt.Errorf("setup: second deposit with the same nonce was accepted")
	}
	if err := dep(chainB, compassB, tokenT1, 3_000_000); err != nil {
		return w, err
	}
	if got := c.Balance(w.alice.Addr, w.denomA1); !got.Equal(sdkmath.NewInt(5_000_000)) {
		return w, fmt.Errorf("setup: deposit through ABCI did not arrive: alice has %s %s", got, w.denomA1)
	}
	if got := c.Balance(w.alice.Addr, w.denomB1); !got.Equal(sdkmath.NewInt(3_000_000)) {
		return w, fmt.Errorf("setup: deposit through ABCI did not arrive: alice has %s %s", got, w.denomB1)
	}
	w.nextNonce[chainA], w.nextNonce[chainB] = 2, 2
	// vouchers of the second token: minted by the denom admin and sent to alice
	if err := mustOK("mint", c.Deliver(w.admin, &tftypes.MsgMint{Amount: sdk.NewInt64Coin(w.denomA2, 9_000_000), Metadata: world.Meta(w.admin)})); err != nil {
		return w, err
	}
	// outgoing transfers -> two batches at the next height divisible by 50
	if err := mustOK("send-to-remote T1", c.Deliver(w.alice, &skywaytypes.MsgSendToRemote{EthDest: ethAddrOf("remote-dest"),
		Amount: sdk.NewInt64Coin(w.denomA1, 1_200_000), ChainReferenceId: chainA, Metadata: world.Meta(w.alice)})); err != nil {
		return w, err
	}
	if err := mustOK("send-to-remote T2", c.Deliver(w.admin, &skywaytypes.MsgSendToRemote{EthDest: ethAddrOf("remote-dest"),
		Amount: sdk.NewInt64Coin(w.denomA2, 800_000), ChainReferenceId: chainA, Metadata: world.Meta(w.admin)})); err != nil {
		return w, err
	}
	for c.Height%50 != 0 {
		// keep validators alive (liveness check starts at h>50)
		if br := c.NextBlock(); br.Panic != "" || br.Err != nil {
			return w, fmt.Errorf("setup block: %s %v", br.Panic, br.Err)
		}
	}
	c.Skip(2)
	batches, err := c.App.SkywayKeeper.GetOutgoingTxBatches(c.Ctx())
	if err != nil {
		return w, err
	}
	for _, b := range batches {
		switch strings.ToLower(b.TokenContract.GetAddress().Hex()) {
		case strings.ToLower(tokenT1):
			w.batchT1 = b.BatchNonce
		case strings.ToLower(tokenT2):
			w.batchT2 = b.BatchNonce
		}
	}
	if w.batchT1 == 0 || w.batchT2 == 0 {
		return w, fmt.Errorf("setup: expected two outgoing batches, found %d (T1=%d T2=%d); log: %v", len(batches), w.batchT1, w.batchT2, tailLog(c, 12))
	}
	w.forkHeight = c.Height + 1
	if w.forkHeight%50 == 0 {
		c.Skip(1)
		w.forkHeight = c.Height + 1
	}
	w.forkTime = c.Time.Add(2 * time.Second)
	m, ok := c.App.ModuleManager.Modules[skywaytypes.ModuleName].(appmodule.HasEndBlocker)
	if !ok {
		return w, fmt.Errorf("skyway module has no EndBlock")
	}
	w.skywayEnd = m
	rs, ok := c.App.CommitMultiStore().(*rootmulti.Store)
	if !ok {
		return w, fmt.Errorf("unexpected multistore type %T", c.App.CommitMultiStore())
	}
	for name := range rs.StoreKeysByName() {
		if c.App.GetKey(name) != nil { // KV stores only (what chain.DumpStore can read)
			w.storeNames = append(w.storeNames, name)
		}
	}
	sort.Strings(w.storeNames)
	w.base = map[string]map[string][]byte{}
	ctx := c.Ctx()
	for _, n := range w.storeNames {
		m := map[string][]byte{}
		it := c.KVStore(ctx, n).Iterator(nil, nil)
		for ; it.Valid(); it.Next() {
			m[string(it.Key())] = append([]byte{}, it.Value()...)
		}
		it.Close()
		w.base[n] = m
	}
	c.Log.Drain()
	return w, nil
}

func tailLog(c *chain.Chain, n int) []string {
	var out []string
	for _, l := range c.Log.Drain() {
		if l.Level != "INFO" {
			out = append(out, l.String())
		}
	}
	if len(out) > n {
		out = out[len(out)-n:]
	}
	return out
}

// ---------------------------------------------------------------------------------------------
// running votes on a fork

type voteOut struct {
	Voter    string   `json:"voter"`
	Accepted bool     `json:"accepted"`
	Err      string   `json:"err,omitempty"`
	Events   []string `json:"events,omitempty"`
	AttKey   string   `json:"att_key,omitempty"`  // skyway store key (hex) of the attestation record the vote created / changed
	AttKeys  []string `json:"att_keys,omitempty"` // all of them, sorted (more than one would be remarkable)
}

type runOut struct {
	Votes     []voteOut         `json:"votes"`
	EndEvents []string          `json:"end_events"`
	Delta     map[string]string `json:"delta"` // "store/keyhex" -> new value hex or "<deleted>", masked keys removed
	Masked    int               `json:"masked"`
	Warn      []string          `json:"warn,omitempty"`
	Panic     string            `json:"panic,omitempty"`
}

type vote struct {
	voter *chain.Account
	claim skywaytypes.EthereumClaim
}

// events are rendered as "type\tkey=<quoted value>\t..." (values may be raw bytes; %q keeps the
// rendering injective and free of tabs)
func evString(typ string, n int, attr func(i int) (string, string)) string {
	var sb strings.Builder
	sb.WriteString(typ)
	for i := 0; i < n; i++ {
		k, v := attr(i)
		sb.WriteString("\t")
		sb.WriteString(k)
		sb.WriteString("=")
		sb.WriteString(fmt.Sprintf("%q", v))
	}
	return sb.String()
}

func evStrings(evs sdk.Events) []string {
	var out []string
	for _, e := range evs {
		e := e
		out = append(out, evString(e.Type, len(e.Attributes), func(i int) (string, string) { return e.Attributes[i].Key, e.Attributes[i].Value }))
	}
	return out
}

func (w *wstate) attRecords(ctx sdk.Context) map[string]string {
	out := map[string]string{}
	st := w.c.KVStore(ctx, skywaytypes.StoreKey)
	it := st.Iterator(nil, nil)
	defer it.Close()
	for ; it.Valid(); it.Next() {
		if bytes.Contains(it.Key(), skywaytypes.OracleAttestationKey) {
			out[hex.EncodeToString(it.Key())] = hex.EncodeToString(it.Value())
		}
	}
	return out
}

// masked: keys that belong to the voters' own bookkeeping (which the property excludes): the
// attestation records themselves (claim body + list of voters) and the per-validator last-nonce
// entry of the byzantine voter. Everything else in every store is part of the compared effect.
func (w *wstate) masked(store string, key []byte) bool {
	if store != skywaytypes.StoreKey {
		return false
	}
	if bytes.Contains(key, skywaytypes.OracleAttestationKey) {
		return true
	}
	if bytes.Contains(key, append(append([]byte{}, skywaytypes.LastEventNonceByValidatorKey...), w.byz.ValAddr()...)) {
		return true
	}
	return false
}

// castVote submits one vote through the real Msg service router (ValidateBasic -> msg server ->
// Attest) with per-message atomicity as in baseapp.runMsgs, and observes which attestation records
// of the skyway store the vote created / changed.
func (w *wstate) castVote(ctx sdk.Context, v vote) voteOut {
	vo := voteOut{Voter: v.voter.Name}
	msg, err := prepareVote(v.claim, v.voter)
	if err != nil {
		vo.Err = "harness: " + err.Error()
		return vo
	}
	before := w.attRecords(ctx)
	func() {
		defer func() {
			if e := recover(); e != nil {
				vo.Err = fmt.Sprintf("PANIC: %v", e)
			}
		}()
		h := w.c.App.MsgServiceRouter().Handler(msg)
		if h == nil {
			vo.Err = "no handler"
			return
		}
		cctx, write := ctx.WithEventManager(sdk.NewEventManager()).CacheContext()
		res, err := h(cctx, msg)
		if err != nil {
			vo.Err = err.Error()
			return
		}
		write()
		vo.Accepted = true
		if res != nil {
			for _, e := range res.Events {
				e := e
				vo.Events = append(vo.Events, evString(e.Type, len(e.Attributes), func(i int) (string, string) { return e.Attributes[i].Key, e.Attributes[i].Value }))
			}
		}
	}()
	if vo.Accepted {
		after := w.attRecords(ctx)
		for k, val := range after {
			if before[k] != val {
				vo.AttKeys = append(vo.AttKeys, k)
			}
		}
		sort.Strings(vo.AttKeys)
		if n := len(vo.AttKeys); n > 0 {
			vo.AttKey = vo.AttKeys[n-1]
		}
	}
	return vo
}

// endBlock runs the real skyway end-blocker (tally + application) and returns its events.
func (w *wstate) endBlock(ctx sdk.Context) (events []string, warn []string) {
	em := sdk.NewEventManager()
	if err := w.skywayEnd.EndBlock(ctx.WithEventManager(em)); err != nil {
		warn = append(warn, "EndBlock error: "+err.Error())
	}
	return evStrings(em.Events()), warn
}

// snapshot: all key/value pairs of all KV stores under ctx.
func (w *wstate) snapshot(ctx sdk.Context) map[string]map[string][]byte {
	out := map[string]map[string][]byte{}
	for _, n := range w.storeNames {
		m := map[string][]byte{}
		it := w.c.KVStore(ctx, n).Iterator(nil, nil)
		for ; it.Valid(); it.Next() {
			m[string(it.Key())] = append([]byte{}, it.Value()...)
		}
		it.Close()
		out[n] = m
	}
	return out
}

// delta: every key of every KV store whose value under ctx differs from the snapshot, masked keys
// removed (and counted).
func (w *wstate) delta(ctx sdk.Context, base map[string]map[string][]byte) (delta map[string]string, masked int) {
	delta = map[string]string{}
	for _, n := range w.storeNames {
		b := base[n]
		seen := 0
		st := w.c.KVStore(ctx, n)
		it := st.Iterator(nil, nil)
		for ; it.Valid(); it.Next() {
			k, v := it.Key(), it.Value()
			bv, ok := b[string(k)]
			if ok {
				seen++
				if bytes.Equal(bv, v) {
					continue
				}
			}
			if w.masked(n, k) {
				masked++
				continue
			}
			delta[n+"/"+hex.EncodeToString(k)] = hex.EncodeToString(v)
		}
		it.Close()
		if seen != len(b) { // some base keys were deleted
			for k := range b {
				if !st.Has([]byte(k)) {
					if w.masked(n, []byte(k)) {
						masked++
						continue
					}
					delta[n+"/"+hex.EncodeToString([]byte(k))] = "<deleted>"
				}
			}
		}
	}
	return delta, masked
}

func (w *wstate) drainWarn() []string {
	var out []string
	for _, l := range w.c.Log.Drain() {
		if l.Level != "INFO" {
			out = append(out, l.String())
		}
	}
	return out
}

// run: submit the votes in order through the real Msg service router (per-message atomicity as in
// baseapp.runMsgs), then the real skyway end-blocker (tally + application), all on a throw-away
// fork of the base state; returns what can be observed.
func (w *wstate) run(votes []vote) (out runOut) {
	out, _ = w.runKeep(votes)
	return out
}

// runKeep is run, and also hands out the fork (the state after the votes and the end-blocker).
func (w *wstate) runKeep(votes []vote) (out runOut, ctx sdk.Context) {
	ctx = w.c.Fork(w.forkHeight, w.forkTime)
	w.c.Log.Drain()
	defer func() {
		if e := recover(); e != nil {
			out.Panic = fmt.Sprint(e)
		}
	}()
	for _, v := range votes {
		out.Votes = append(out.Votes, w.castVote(ctx, v))
	}
	var warn []string
	out.EndEvents, warn = w.endBlock(ctx)
	out.Warn = append(out.Warn, warn...)
	out.Delta, out.Masked = w.delta(ctx, w.base)
	out.Warn = append(out.Warn, w.drainWarn()...)
	return out, ctx
}

// ---------------------------------------------------------------------------------------------
// late votes: a vote that arrives in the block AFTER the one in which the nonce was observed

// lateWorld is the state in which the honest validators have voted X and the end-blocker has
// observed it (the fork of run H, kept), plus what the next block does there without any vote.
type lateWorld struct {
	post     sdk.Context                  // never written: every late run branches off it
	snap     map[string]map[string][]byte // state of post
	height   int64
	time     time.Time
	keyX     string // store key of the observed record
	votersX  []string
	ctrlEnd  []string          // end-block events of the next block without a late vote
	ctrlDiff map[string]string // state delta of the next block without a late vote
	ctrlX    lateOut           // the next block with the late voter voting X itself (the identical claim)
}

type lateOut struct {
	Vote          voteOut           `json:"late_vote"`
	EndEvents     []string          `json:"end_events"`
	Delta         map[string]string `json:"delta"` // against the observed state, masked keys removed
	VotersXAfter  []string          `json:"voters_of_observed_record_after"`
	EventAttID    string            `json:"event_attestation_id,omitempty"` // the record the response event of the late vote names
	EventAttFound bool              `json:"event_attestation_exists"`
	EventAttVotes []string          `json:"event_attestation_voters,omitempty"`
	Warn          []string          `json:"warn,omitempty"`
	Panic         string            `json:"panic,omitempty"`
}

// votersOf decodes the attestation record under a skyway store key (hex) and returns its voters.
func (w *wstate) votersOf(ctx sdk.Context, keyHex string) (voters []string, found bool) {
	kb, err := hex.DecodeString(keyHex)
	if err != nil {
		return nil, false
	}
	bz := w.c.KVStore(ctx, skywaytypes.StoreKey).Get(kb)
	if len(bz) == 0 {
		return nil, false
	}
	var att skywaytypes.Attestation
	if err := w.c.App.AppCodec().Unmarshal(bz, &att); err != nil {
		return nil, false
	}
	return append([]string{}, att.Votes...), true
}

func (w *wstate) lateCtx(lw *lateWorld) sdk.Context {
	cctx, _ := lw.post.CacheContext()
	return cctx.WithBlockHeight(lw.height).WithBlockTime(lw.time)
}

// newLateWorld: post = the fork of the honest-only run (votes for X + end-blocker, X observed).
func (w *wstate) newLateWorld(post sdk.Context, keyX string, lateX vote) (lw *lateWorld, err error) {
	defer func() {
		if e := recover(); e != nil {
			err = fmt.Errorf("panic: %v", e)
		}
	}()
	lw = &lateWorld{post: post, keyX: keyX, height: w.forkHeight + 1, time: w.forkTime.Add(2 * time.Second)}
	if lw.height%50 == 0 { // keep the periodic jobs (batch building, nonce reset) out of the late block
		lw.height = w.forkHeight
	}
	lw.snap = w.snapshot(post)
	var found bool
	if lw.votersX, found = w.votersOf(post, keyX); !found {
		return nil, fmt.Errorf("observed record %s cannot be read back", keyX)
	}
	ctx := w.lateCtx(lw)
	lw.ctrlEnd, _ = w.endBlock(ctx)
	lw.ctrlDiff, _ = w.delta(ctx, lw.snap)
	w.c.Log.Drain()
	lw.ctrlX = w.late(lw, lateX)
	return lw, nil
}

// late: the next block after the observation carries one vote (of a validator that has not voted
// at this nonce yet), then the real skyway end-blocker.
func (w *wstate) late(lw *lateWorld, v vote) (out lateOut) {
	ctx := w.lateCtx(lw)
	w.c.Log.Drain()
	defer func() {
		if e := recover(); e != nil {
			out.Panic = fmt.Sprint(e)
		}
	}()
	out.Vote = w.castVote(ctx, v)
	if !out.Vote.Accepted {
		// a refused message writes nothing (per-message atomicity): the block is the control block
		out.Warn = append(out.Warn, w.drainWarn()...)
		return out
	}
	// the record the response event names
	for _, e := range out.Vote.Events {
		if !strings.Contains(e, "EventClaim") {
			continue
		}
		for _, p := range strings.Split(e, "\t") {
			if strings.HasPrefix(p, "attestation_id=") {
				id := strings.Trim(strings.TrimPrefix(p, "attestation_id="), "\"\\")
				out.EventAttID = hex.EncodeToString([]byte(v.claim.GetChainReferenceId())) + id
			}
		}
	}
	if out.EventAttID != "" {
		out.EventAttVotes, out.EventAttFound = w.votersOf(ctx, out.EventAttID)
	}
	out.VotersXAfter, _ = w.votersOf(ctx, lw.keyX)
	var warn []string
	out.EndEvents, warn = w.endBlock(ctx)
	out.Warn = append(out.Warn, warn...)
	out.Delta, _ = w.delta(ctx, lw.snap)
	out.Warn = append(out.Warn, w.drainWarn()...)
	return out
}

// prepareVote sets the voter identity (orchestrator + tx metadata) on a copy of the claim and
// sends it once through the wire encoding, as a transaction would.
func prepareVote(claim skywaytypes.EthereumClaim, voter *chain.Account) (sdk.Msg, error) {
	cp, err := wireCopy(claim.(proto.Message))
	if err != nil {
		return nil, err
	}
	if err := setVoter(cp, voter.Bech); err != nil {
		return nil, err
	}
	m, ok := cp.(sdk.Msg)
	if !ok {
		return nil, fmt.Errorf("%T is not an sdk.Msg", cp)
	}
	return m, nil
}
