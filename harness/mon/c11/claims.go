package c11

// Reflection over the claim types: discovery (interface registry), field walking (protobuf struct
// tags), generic single-field mutation, value generators, and the model of the attestation key.

import (
	"encoding/hex"
	"fmt"
	"math/big"
	"math/rand"
	"reflect"
	"sort"
	"strings"

	sdkmath "cosmossdk.io/math"
	codectypes "github.com/cosmos/cosmos-sdk/codec/types"
	"github.com/cosmos/gogoproto/proto"

	skywaytypes "github.com/palomachain/paloma/v2/x/skyway/types"
	valsettypes "github.com/palomachain/paloma/v2/x/valset/types"
)

const claimIface = "palomachain.paloma.skyway.EthereumClaim"

// the interface registry as the skyway module itself fills it
var ifaceReg = func() codectypes.InterfaceRegistry {
	r := codectypes.NewInterfaceRegistry()
	skywaytypes.RegisterInterfaces(r)
	return r
}()

func valsetMeta(addr string) valsettypes.MsgMetadata {
	return valsettypes.MsgMetadata{Creator: addr, Signers: []string{addr}}
}

// claimTypes lists every registered implementation of the EthereumClaim interface (so that a new
// claim type is picked up without touching this package), sorted by type URL.
func claimTypes() (urls []string, protos map[string]skywaytypes.EthereumClaim) {
	protos = map[string]skywaytypes.EthereumClaim{}
	for _, u := range ifaceReg.ListImplementations(claimIface) {
		m, err := ifaceReg.Resolve(u)
		if err != nil {
			continue
		}
		if c, ok := m.(skywaytypes.EthereumClaim); ok {
			if _, dup := protos[u]; !dup {
				urls = append(urls, u)
			}
			protos[u] = c
		}
	}
	sort.Strings(urls)
	return urls, protos
}

func shortName(url string) string {
	if i := strings.LastIndex(url, "."); i >= 0 {
		return url[i+1:]
	}
	return strings.TrimPrefix(url, "/")
}

// field kinds the mutator understands
const (
	kUint   = "uint64"
	kString = "string"
	kInt    = "math.Int"
)

type fieldInfo struct {
	Index int
	Go    string
	Proto string
	Kind  string // kUint | kString | kInt | "unsupported:<go type>"
	Excl  string // non-empty: excluded by the property's quantifier (why)
}

var intType = reflect.TypeOf(sdkmath.Int{})

// fieldsOf walks the protobuf fields of a generated message struct.
func fieldsOf(m any) []fieldInfo {
	t := reflect.TypeOf(m)
	for t.Kind() == reflect.Ptr {
		t = t.Elem()
	}
	var out []fieldInfo
	for i := 0; i < t.NumField(); i++ {
		f := t.Field(i)
		tag := f.Tag.Get("protobuf")
		if tag == "" {
			continue
		}
		fi := fieldInfo{Index: i, Go: f.Name, Proto: f.Name}
		for _, part := range strings.Split(tag, ",") {
			if strings.HasPrefix(part, "name=") {
				fi.Proto = strings.TrimPrefix(part, "name=")
			}
		}
		switch {
		case f.Type.Kind() == reflect.Uint64:
			fi.Kind = kUint
		case f.Type.Kind() == reflect.String:
			fi.Kind = kString
		case f.Type == intType:
			fi.Kind = kInt
		default:
			fi.Kind = "unsupported:" + f.Type.String()
		}
		switch fi.Proto {
		case "orchestrator":
			fi.Excl = "voter's own identity"
		case "metadata":
			fi.Excl = "transaction metadata"
		}
		out = append(out, fi)
	}
	return out
}

// listed: the effect-bearing concepts the property statement enumerates, by protobuf field name.
// A field that is not in this table (and not excluded) is judged by the differential oracle only.
var listed = map[string]string{
	"skyway_nonce":           "nonce",
	"eth_block_height":       "remote block height",
	"token_contract":         "token",
	"amount":                 "amount",
	"ethereum_sender":        "sender",
	"paloma_receiver":        "receiver",
	"batch_nonce":            "batch nonce",
	"client_address":         "buyer address",
	"smart_contract_address": "originating contract",
	"compass_id":             "bridge deployment id",
	"chain_reference_id":     "chain",
}

func getField(m any, fi fieldInfo) reflect.Value {
	return reflect.ValueOf(m).Elem().Field(fi.Index)
}

func fieldString(m any, fi fieldInfo) string {
	v := getField(m, fi)
	switch fi.Kind {
	case kUint:
		return fmt.Sprint(v.Uint())
	case kString:
		return v.String()
	case kInt:
		i := v.Interface().(sdkmath.Int)
		if i.IsNil() {
			return "<nil>"
		}
		return i.String()
	}
	return fmt.Sprint(v.Interface())
}

// a mutation value in a serialisable form
type mval struct {
	U *uint64 `json:"u,omitempty"`
	S *string `json:"s,omitempty"`
	I *string `json:"i,omitempty"` // decimal
}

func (v mval) String() string {
	switch {
	case v.U != nil:
		return fmt.Sprint(*v.U)
	case v.S != nil:
		return fmt.Sprintf("%q", *v.S)
	case v.I != nil:
		return *v.I
	}
	return "?"
}

func uv(u uint64) mval { return mval{U: &u} }
func sv(s string) mval { return mval{S: &s} }
func iv(b *big.Int) mval {
	s := b.String()
	return mval{I: &s}
}

func setField(m any, fi fieldInfo, v mval) error {
	f := getField(m, fi)
	switch fi.Kind {
	case kUint:
		if v.U == nil {
			return fmt.Errorf("value kind mismatch")
		}
		f.SetUint(*v.U)
	case kString:
		if v.S == nil {
			return fmt.Errorf("value kind mismatch")
		}
		f.SetString(*v.S)
	case kInt:
		if v.I == nil {
			return fmt.Errorf("value kind mismatch")
		}
		b, ok := new(big.Int).SetString(*v.I, 10)
		if !ok {
			return fmt.Errorf("bad int %q", *v.I)
		}
		f.Set(reflect.ValueOf(sdkmath.NewIntFromBigInt(b)))
	default:
		return fmt.Errorf("unsupported kind %s", fi.Kind)
	}
	return nil
}

// differs: do the two values of the field differ? caseOnly: string values that differ in letter
// case only (whether those denote the same thing depends on the field's meaning; oracle (i) leaves
// them to the differential oracle).
func differs(a, b any, fi fieldInfo) (diff, caseOnly bool) {
	x, y := fieldString(a, fi), fieldString(b, fi)
	if x == y {
		return false, false
	}
	if fi.Kind == kString && strings.EqualFold(x, y) {
		return true, true
	}
	return true, false
}

// wireCopy sends a message through its protobuf wire encoding (what a transaction does to it).
func wireCopy(m proto.Message) (proto.Message, error) {
	bz, err := proto.Marshal(m)
	if err != nil {
		return nil, err
	}
	cp := reflect.New(reflect.TypeOf(m).Elem()).Interface().(proto.Message)
	if err := proto.Unmarshal(bz, cp); err != nil {
		return nil, err
	}
	return cp, nil
}

func setVoter(m any, bech string) error {
	v := reflect.ValueOf(m).Elem()
	o := v.FieldByName("Orchestrator")
	md := v.FieldByName("Metadata")
	if !o.IsValid() || o.Kind() != reflect.String || !md.IsValid() {
		return fmt.Errorf("%T: no Orchestrator/Metadata field (unknown voter-identity layout)", m)
	}
	o.SetString(bech)
	md.Set(reflect.ValueOf(valsetMeta(bech)))
	return nil
}

// modelKey: the attestation key of a claim as the property describes it: chain prefix (the
// per-chain sub-store of the skyway module) + nonce + claim hash. Built from the REAL ClaimHash
// and GetAttestationKey; the chain part cross-checks this model against the keys the real keeper
// writes.
func modelKey(c skywaytypes.EthereumClaim) (key string, err error) {
	defer func() {
		if e := recover(); e != nil {
			err = fmt.Errorf("panic: %v", e)
		}
	}()
	h, err := c.ClaimHash()
	if err != nil {
		return "", err
	}
	k := append([]byte(c.GetChainReferenceId()), skywaytypes.GetAttestationKey(c.GetSkywayNonce(), h)...)
	return hex.EncodeToString(k), nil
}

// ---------------------------------------------------------------------------------------------
// value generators

var (
	two32 = uint64(1) << 32
	two63 = uint64(1) << 63
)

func pow2(n uint) *big.Int { return new(big.Int).Lsh(big.NewInt(1), n) }

func uintValues(base uint64, r *rand.Rand, n int) []mval {
	vs := []uint64{0, 1, 2, base + 1, base - 1, base + 2, base ^ 1, base + two32, base ^ two32, base + two63, base ^ two63,
		two32 - 1, two32, two32 + 1, two63 - 1, two63, two63 + 1, ^uint64(0), ^uint64(0) - 1, base * 10, base / 10, base + 256, base + 65536}
	for len(vs) < n {
		switch r.Intn(3) {
		case 0:
			vs = append(vs, r.Uint64())
		case 1:
			vs = append(vs, base^(uint64(1)<<uint(r.Intn(64))))
		default:
			vs = append(vs, uint64(r.Intn(1000)))
		}
	}
	var out []mval
	for _, v := range vs {
		out = append(out, uv(v))
	}
	return out
}

func intValues(base sdkmath.Int, r *rand.Rand, n int) []mval {
	b := base.BigInt()
	add := func(x *big.Int) *big.Int { return new(big.Int).Add(b, x) }
	vs := []*big.Int{big.NewInt(0), big.NewInt(1), add(big.NewInt(1)), add(big.NewInt(-1)), new(big.Int).Mul(b, big.NewInt(2)),
		new(big.Int).Mul(b, big.NewInt(10)), new(big.Int).Neg(b), big.NewInt(-1),
		add(pow2(32)), add(pow2(63)), add(pow2(64)), add(pow2(128)), add(pow2(255)),
		pow2(64), new(big.Int).Sub(pow2(64), big.NewInt(1)), new(big.Int).Sub(pow2(63), big.NewInt(1)),
		pow2(255), new(big.Int).Sub(pow2(256), big.NewInt(1)),
		new(big.Int).Mul(b, big.NewInt(1_000_000)), new(big.Int).Quo(b, big.NewInt(10))}
	for len(vs) < n {
		switch r.Intn(3) {
		case 0:
			vs = append(vs, new(big.Int).Rand(r, pow2(uint(1+r.Intn(255)))))
		case 1:
			vs = append(vs, new(big.Int).Xor(b, pow2(uint(r.Intn(80)))))
		default:
			vs = append(vs, big.NewInt(int64(r.Intn(100000))))
		}
	}
	var out []mval
	for _, v := range vs {
		out = append(out, iv(v))
	}
	return out
}

func swapCase(s string) string {
	var sb strings.Builder
	for _, c := range s {
		switch {
		case c >= 'a' && c <= 'z':
			sb.WriteRune(c - 32)
		case c >= 'A' && c <= 'Z':
			sb.WriteRune(c + 32)
		default:
			sb.WriteRune(c)
		}
	}
	return sb.String()
}

// stringValues: variants of the base value (case, separators, padding) + a pool of strings that
// mean something in the world (addresses, contracts, chain and deployment ids).
func stringValues(base string, pool []string, r *rand.Rand, n int) []mval {
	vs := append([]string{}, pool...) // values that mean something in the world first
	vs = append(vs, "", base+"/", "/"+base, base+"/x", "a/b", base+" ", " "+base, base+"\x00", base+"\n",
		strings.ToLower(base), strings.ToUpper(base), swapCase(base), base+base, "x", "0", "invalid")
	if strings.HasPrefix(base, "0x") {
		vs = append(vs, "0x"+strings.ToUpper(base[2:]), "0x"+strings.ToLower(base[2:]), base[2:], "0X"+base[2:])
	}
	if len(base) > 1 {
		vs = append(vs, base[:len(base)-1], base[1:])
		// one character changed
		i := r.Intn(len(base))
		c := base[i]
		repl := byte('a')
		if c == 'a' {
			repl = 'b'
		}
		vs = append(vs, base[:i]+string(repl)+base[i+1:])
		// mixed-case variants (one letter flipped): for bech32 strings these are no longer valid
		// addresses, for hex addresses they are the same address
		vs = append(vs, swapCase(base[:1])+base[1:])
		for try := 0; try < 8; try++ {
			j := r.Intn(len(base))
			if f := swapCase(base[j : j+1]); f != base[j:j+1] {
				vs = append(vs, base[:j]+f+base[j+1:])
				break
			}
		}
	}
	for len(vs) < n {
		vs = append(vs, fmt.Sprintf("r%x", r.Uint64()))
	}
	var out []mval
	for _, v := range vs {
		out = append(out, sv(v))
	}
	return out
}

// valuesFor returns the mutation values of a field of a base claim (values equal to the base value
// are filtered by the caller).
func valuesFor(base any, fi fieldInfo, pool []string, r *rand.Rand, n int) []mval {
	switch fi.Kind {
	case kUint:
		return uintValues(getField(base, fi).Uint(), r, n)
	case kInt:
		i := getField(base, fi).Interface().(sdkmath.Int)
		if i.IsNil() {
			i = sdkmath.ZeroInt()
		}
		return intValues(i, r, n)
	case kString:
		return stringValues(getField(base, fi).String(), pool, r, n)
	}
	return nil
}

// genericBase fills a claim of any type with plausible random values, choosing string values by
// what the field name suggests (used by the pure part, and for claim types the chain part has no
// scenario for).
func genericBase(url string, protos map[string]skywaytypes.EthereumClaim, r *rand.Rand) skywaytypes.EthereumClaim {
	m := reflect.New(reflect.TypeOf(protos[url]).Elem()).Interface()
	hexAddr := func() string {
		b := make([]byte, 20)
		r.Read(b)
		s := hex.EncodeToString(b)
		// mixed case, as checksummed addresses are
		var sb strings.Builder
		for _, c := range s {
			if c >= 'a' && c <= 'f' && r.Intn(2) == 0 {
				c -= 32
			}
			sb.WriteRune(c)
		}
		return "0x" + sb.String()
	}
	for _, fi := range fieldsOf(m) {
		if fi.Excl != "" {
			continue
		}
		switch fi.Kind {
		case kUint:
			_ = setField(m, fi, uv(uint64(1+r.Intn(1_000_000))))
		case kInt:
			_ = setField(m, fi, iv(big.NewInt(int64(1+r.Intn(1_000_000_000)))))
		case kString:
			n := fi.Proto
			var s string
			switch {
			case strings.Contains(n, "chain"):
				s = []string{chainA, chainB, "arb-main", "base-main"}[r.Intn(4)]
			case strings.Contains(n, "compass"):
				s = fmt.Sprintf("compass-%04x", r.Intn(1<<16))
			case strings.Contains(n, "contract") || strings.Contains(n, "ethereum") || strings.Contains(n, "erc20") || strings.Contains(n, "eth_"):
				s = hexAddr()
			case strings.Contains(n, "receiver") || strings.Contains(n, "client") || strings.Contains(n, "address"):
				s = palomaAddrOf(fmt.Sprintf("g%d", r.Intn(1000)))
			default:
				s = fmt.Sprintf("v%x", r.Uint32())
			}
			_ = setField(m, fi, sv(s))
		}
	}
	_ = setVoter(m, palomaAddrOf("voter"))
	return m.(skywaytypes.EthereumClaim)
}
