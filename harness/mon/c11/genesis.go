package c11

// Genesis export / import: the second way votes get into the attestation store.
//
// The skyway state of a fork is taken through the module's own ExportGenesis (keeper.ExportGenesis ->
// JSON) and, after the skyway store of that fork has been emptied (a new chain starts from an empty
// store), through the module's own InitGenesis (JSON -> keeper.InitGenesis) - what a restart from an
// export or a fork of the chain does. Observed: the decoded attestation records (claim body, voter
// list, observed flag, store key) before the export and after the import.
//
// Two states are round-tripped:
//   - "competing": validators with 60 % of the power have voted X, the 10 % validator has voted X',
//     one end-block has run (nothing can be observed yet): two UNOBSERVED competing attestations.
//     After the import the remaining validator (30 %) votes X and the end-blocker runs; the same
//     blocks without the export/import are the control.
//   - "after-observation": X observed (90 %), the lagging 10 % validator has voted X' one block late
//     (the state of the late-vote scenario).
// Oracle: a vote that was cast for one claim must not, after the import, be recorded on a claim that
// differs (what the import ADDED to a record is compared with what the record held before the export,
// records identified by the content of the claim they carry, not by their key).

import (
	"encoding/hex"
	"encoding/json"
	"fmt"
	"sort"
	"strings"
	"time"

	abci "github.com/cometbft/cometbft/abci/types"
	"github.com/cosmos/cosmos-sdk/codec"
	sdk "github.com/cosmos/cosmos-sdk/types"
	"github.com/cosmos/gogoproto/proto"

	skywaytypes "github.com/palomachain/paloma/v2/x/skyway/types"

	"verif/harness/chain"
	"verif/harness/fw"
)

func genesisSig(typeURL, field string) string {
	return "genesis-import-pooled/" + shortName(typeURL) + "/" + field
}

// the genesis half of the skyway AppModule (module.HasABCIGenesis)
type genesisModule interface {
	InitGenesis(sdk.Context, codec.JSONCodec, json.RawMessage) []abci.ValidatorUpdate
	ExportGenesis(sdk.Context, codec.JSONCodec) json.RawMessage
}

// attRec: one attestation record of the skyway store, decoded.
type attRec struct {
	Key      string            `json:"store_key"`
	Type     string            `json:"type"`
	Claim    map[string]string `json:"claim"`
	Votes    []string          `json:"votes"`
	Observed bool              `json:"observed"`
	Raw      string            `json:"-"`
	content  string
}

// contentOf identifies a claim by its type and every field the property quantifies over (the
// voter's own identity and the tx metadata left out).
func contentOf(c skywaytypes.EthereumClaim) string {
	var sb strings.Builder
	sb.WriteString(proto.MessageName(c.(proto.Message)))
	for _, fi := range fieldsOf(c) {
		if fi.Excl != "" || strings.HasPrefix(fi.Kind, "unsupported") {
			continue
		}
		sb.WriteString("\x1f" + fi.Proto + "=" + fieldString(c, fi))
	}
	return sb.String()
}

// attDecoded: all attestation records under ctx (all chains), sorted by store key.
func (w *wstate) attDecoded(ctx sdk.Context) ([]attRec, error) {
	raw := w.attRecords(ctx)
	keys := make([]string, 0, len(raw))
	for k := range raw {
		keys = append(keys, k)
	}
	sort.Strings(keys)
	var out []attRec
	for _, k := range keys {
		bz, _ := hex.DecodeString(raw[k])
		var att skywaytypes.Attestation
		if err := w.c.App.AppCodec().Unmarshal(bz, &att); err != nil {
			return nil, fmt.Errorf("attestation record %s does not decode: %w", k, err)
		}
		claim, err := w.c.App.SkywayKeeper.UnpackAttestationClaim(&att)
		if err != nil {
			return nil, fmt.Errorf("claim of attestation record %s does not unpack: %w", k, err)
		}
		out = append(out, attRec{Key: k, Type: shortName(proto.MessageName(claim.(proto.Message))), Claim: claimJSON(claim),
			Votes: append([]string{}, att.Votes...), Observed: att.Observed, Raw: raw[k], content: contentOf(claim)})
	}
	return out, nil
}

type rtOut struct {
	Pre       []attRec `json:"attestations_before_export"`
	Post      []attRec `json:"attestations_after_import"`
	Exported  int      `json:"attestations_in_exported_genesis"`
	JSONBytes int      `json:"exported_json_bytes"`
	Err       string   `json:"err,omitempty"` // harness-side problem (decode)
	Panic     string   `json:"panic,omitempty"`
}

// roundTrip: ExportGenesis -> JSON -> (empty skyway store) -> InitGenesis, in place on ctx.
func (w *wstate) roundTrip(ctx sdk.Context) (out rtOut) {
	mod, ok := w.c.App.ModuleManager.Modules[skywaytypes.ModuleName].(genesisModule)
	if !ok {
		out.Err = "skyway module has no InitGenesis/ExportGenesis"
		return out
	}
	var err error
	if out.Pre, err = w.attDecoded(ctx); err != nil {
		out.Err = "before export: " + err.Error()
		return out
	}
	defer func() {
		if e := recover(); e != nil {
			out.Panic = fmt.Sprint(e)
		}
	}()
	cdc := w.c.App.AppCodec()
	raw := mod.ExportGenesis(ctx, cdc)
	out.JSONBytes = len(raw)
	// the file as somebody would read it (only counted; the import gets the bytes as exported)
	var gs skywaytypes.GenesisState
	if err := cdc.UnmarshalJSON(raw, &gs); err != nil {
		out.Err = "exported genesis does not parse: " + err.Error()
		return out
	}
	out.Exported = len(gs.Attestations)
	// a chain that starts from a genesis file starts from an empty store
	st := w.c.KVStore(ctx, skywaytypes.StoreKey)
	var keys [][]byte
	it := st.Iterator(nil, nil)
	for ; it.Valid(); it.Next() {
		keys = append(keys, append([]byte{}, it.Key()...))
	}
	it.Close()
	for _, k := range keys {
		st.Delete(k)
	}
	mod.InitGenesis(ctx, cdc, append(json.RawMessage{}, raw...))
	if out.Post, err = w.attDecoded(ctx); err != nil {
		out.Err = "after import: " + err.Error()
	}
	return out
}

// voteMove: the import recorded a voter on a claim the voter was not recorded on before the export.
type voteMove struct {
	Voter    string            `json:"voter"`
	OntoKey  string            `json:"onto_store_key"`
	OntoType string            `json:"onto_type"`
	Onto     map[string]string `json:"onto_claim"`
	content  string
}

// movedVotes compares the voter lists per claim content. moved: votes the import added to a claim;
// dropped: claims (store keys) that had a record before the export and have none after the import.
func movedVotes(pre, post []attRec) (moved []voteMove, dropped []string, identical int) {
	had := map[string]map[string]bool{}
	rawPre := map[string]string{}
	for _, r := range pre {
		if had[r.content] == nil {
			had[r.content] = map[string]bool{}
		}
		for _, v := range r.Votes {
			had[r.content][v] = true
		}
		rawPre[r.Key] = r.Raw
	}
	still := map[string]bool{}
	for _, r := range post {
		still[r.content] = true
		if rawPre[r.Key] == r.Raw {
			identical++
		}
		for _, v := range r.Votes {
			if !had[r.content][v] {
				moved = append(moved, voteMove{Voter: v, OntoKey: r.Key, OntoType: r.Type, Onto: r.Claim, content: r.content})
			}
		}
	}
	for _, r := range pre {
		if !still[r.content] {
			dropped = append(dropped, r.Key)
		}
	}
	return moved, dropped, identical
}

// pairPooled: did the import put a vote cast for one claim of the pair on the other one?
func pairPooled(moved []voteMove, X, X2 skywaytypes.EthereumClaim, votersX []*chain.Account, voterX2 *chain.Account) (desc []string, other int) {
	cx, cx2 := contentOf(X), contentOf(X2)
	if cx == cx2 {
		return nil, len(moved)
	}
	for _, m := range moved {
		hit := false
		if m.content == cx && m.Voter == voterX2.ValBech() {
			desc = append(desc, fmt.Sprintf("%s, who voted X', is now recorded on X (store key %s)", voterX2.Name, m.OntoKey))
			hit = true
		}
		if m.content == cx2 {
			for _, v := range votersX {
				if m.Voter == v.ValBech() {
					desc = append(desc, fmt.Sprintf("%s, who voted X, is now recorded on X' (store key %s)", v.Name, m.OntoKey))
					hit = true
				}
			}
		}
		if !hit {
			other++
		}
	}
	return desc, other
}

// changeSet: the keys whose value differs between two deltas taken against the same base.
func changeSet(before, after map[string]string) map[string]string {
	out := map[string]string{}
	for k, v := range after {
		if b, ok := before[k]; !ok || b != v {
			out[k] = v
		}
	}
	for k := range before {
		if _, ok := after[k]; !ok {
			out[k] = "<as at the fork point>"
		}
	}
	return out
}

func (w *wstate) nextBlockCtx(ctx sdk.Context) sdk.Context {
	h, t := ctx.BlockHeight()+1, ctx.BlockTime().Add(2*time.Second)
	if h%50 == 0 { // keep the periodic jobs (batch building, nonce reset) out of the block
		h = ctx.BlockHeight()
	}
	cctx, _ := ctx.CacheContext()
	return cctx.WithBlockHeight(h).WithBlockTime(t)
}

type genOut struct {
	Votes      []voteOut `json:"votes_before_export"`
	PreEnd     []string  `json:"end_events_before_export"`
	Unobserved bool      `json:"two_unobserved_competing_attestations"`
	RT         rtOut     `json:"round_trip"`
	Cont       runOut    `json:"blocks_after_import"`   // first block of the new chain, last honest vote, second block
	Ctrl       runOut    `json:"same_blocks_no_export"` // control
	Ran        bool      `json:"-"`
}

// genCompeting: the "competing" state for the pair (X, X2), round-tripped and continued.
func (w *wstate) genCompeting(X, X2 skywaytypes.EthereumClaim) (out genOut) {
	ctx := w.c.Fork(w.forkHeight, w.forkTime)
	w.c.Log.Drain()
	early := []*chain.Account{w.honest[0], w.honest[2]} // 40 % + 20 %: not enough on their own
	lastHonest := w.honest[1]                           // 30 %
	bv := w.castVote(ctx, vote{w.byz, X2})
	out.Votes = append(out.Votes, bv)
	if !bv.Accepted {
		return out
	}
	for _, h := range early {
		hv := w.castVote(ctx, vote{h, X})
		out.Votes = append(out.Votes, hv)
		if !hv.Accepted {
			return out
		}
	}
	func() {
		defer func() {
			if e := recover(); e != nil {
				out.RT.Panic = fmt.Sprint(e)
			}
		}()
		out.PreEnd, _ = w.endBlock(ctx)
	}()
	if out.RT.Panic != "" {
		return out
	}
	out.Ran = true
	out.Unobserved = !observed(runOut{EndEvents: out.PreEnd}) && bv.AttKey != "" && bv.AttKey != out.Votes[1].AttKey
	cont := func(c sdk.Context) (o runOut) {
		defer func() {
			if e := recover(); e != nil {
				o.Panic = fmt.Sprint(e)
			}
		}()
		// what the blocks themselves change: state delta against the state they start from (after
		// the import resp. without it), so that state the export does not carry is not attributed to them
		start, _ := w.delta(c, w.base)
		e1, w1 := w.endBlock(c)
		o.Votes = []voteOut{w.castVote(c, vote{lastHonest, X})}
		e2, w2 := w.endBlock(c)
		o.EndEvents = append(append([]string{}, e1...), e2...)
		end, masked := w.delta(c, w.base)
		o.Delta, o.Masked = changeSet(start, end), masked
		o.Warn = append(append(w1, w2...), w.drainWarn()...)
		return o
	}
	out.Ctrl = cont(w.nextBlockCtx(ctx))
	rctx := w.nextBlockCtx(ctx)
	out.RT = w.roundTrip(rctx)
	if out.RT.Panic == "" && out.RT.Err == "" {
		out.Cont = cont(rctx)
	}
	return out
}

// genAfterObservation: the state of the late-vote scenario (X observed, X2 voted one block late by
// the lagging validator), round-tripped.
func (w *wstate) genAfterObservation(lw *lateWorld, X2 skywaytypes.EthereumClaim) (lv voteOut, rt rtOut, ran bool) {
	ctx := w.lateCtx(lw)
	w.c.Log.Drain()
	lv = w.castVote(ctx, vote{w.byz, X2})
	if !lv.Accepted {
		return lv, rt, false
	}
	func() {
		defer func() {
			if e := recover(); e != nil {
				rt.Panic = fmt.Sprint(e)
			}
		}()
		w.endBlock(ctx)
	}()
	if rt.Panic != "" {
		return lv, rt, false
	}
	return lv, w.roundTrip(w.nextBlockCtx(ctx)), true
}

// ---------------------------------------------------------------------------------------------
// oracles

// rtProblem: an export/import that cannot be carried out or read back is never silently skipped.
func rtProblem(rec *fw.Recorder, what string, rt rtOut) bool {
	switch {
	case rt.Err != "":
		rec.Count("chain_genesis_roundtrip_failed", 1)
		rec.Inconclusive("genesis round trip (" + what + "): " + rt.Err)
		return true
	case rt.Panic != "":
		rec.Count("chain_genesis_roundtrip_failed", 1)
		rec.Inconclusive("genesis round trip (" + what + ") panicked on a state the chain itself exported: " + trunc(rt.Panic))
		return true
	}
	return false
}

// judgeGenCompeting runs and judges the "competing" round trip of one pair. done: the byzantine
// vote was accepted and the round trip was carried out (counts against the per-field budget).
func (w *wstate) judgeGenCompeting(rec *fw.Recorder, p params, X, X2 skywaytypes.EthereumClaim, fi fieldInfo, isListed, caseOnly bool) (done bool, pend []pending) {
	tn := shortName(p.Type)
	G := w.genCompeting(X, X2)
	rec.Count("chain_runs", 1)
	rec.Count("chain_genesis_tried/"+tn+"/"+fi.Proto, 1)
	if !G.Ran {
		if len(G.Votes) == 1 && !G.Votes[0].Accepted {
			rec.Count("chain_genesis_xprime_vote_rejected", 1)
		} else {
			rec.Count("chain_genesis_setup_incomplete/"+tn+"/"+fi.Proto, 1) // an honest vote was turned away (the mixed run judges that)
		}
		return false, nil
	}
	if rtProblem(rec, "two competing attestations", G.RT) {
		return false, nil
	}
	rec.Count("chain_runs", 2)
	rec.Eval(1)
	rec.Count("chain_genesis_roundtrips", 1)
	rec.Count("chain_genesis_exported_attestations", int64(G.RT.Exported))
	rec.Distinct("genesis|" + p.Type + "|" + fi.Proto + "|" + fmt.Sprint(claimJSON(X)) + "|" + fieldString(X2, fi))
	if G.Unobserved {
		rec.Count("chain_genesis_two_unobserved_competitors", 1)
	}
	moved, dropped, identical := movedVotes(G.RT.Pre, G.RT.Post)
	rec.Count("chain_genesis_records_identical", int64(identical))
	if len(dropped) > 0 {
		// a record that does not survive the round trip: not pooling, outside the statement
		rec.Count("chain_genesis_record_dropped/"+tn+"/"+fi.Proto, int64(len(dropped)))
	}
	desc, other := pairPooled(moved, X, X2, []*chain.Account{w.honest[0], w.honest[2]}, w.byz)
	if other > 0 {
		rec.Count("chain_genesis_votes_moved_elsewhere/"+tn+"/"+fi.Proto, int64(other))
	}
	dG := diffRuns(G.Ctrl, G.Cont, 1, false)
	if len(desc) == 0 {
		if G.Unobserved && len(dropped) == 0 {
			rec.Count("chain_genesis_competitors_kept_apart", 1)
		}
		if len(dG) > 0 {
			// the restart changes what the next blocks do although no vote changed its claim: not a C11 matter
			rec.Count("chain_genesis_roundtrip_changes_outcome/"+tn+"/"+fi.Proto, 1)
			if rec.Get("chain_genesis_outcome_sampled") == 0 {
				rec.Count("chain_genesis_outcome_sampled", 1)
				rec.Sample(map[string]any{"note": "blocks after a genesis export/import differ from the same blocks without it; no vote was moved", "field": fi.Proto, "x": claimJSON(X), "x_prime_value": fieldString(X2, fi), "differences": head(dG, 12)})
			}
		}
		if rec.Get("chain_genesis_sampled") == 0 {
			rec.Count("chain_genesis_sampled", 1)
			rec.Sample(map[string]any{"part": "genesis round trip, two competing attestations", "type": tn, "field": fi.Proto, "x": claimJSON(X), "x_prime_value": fieldString(X2, fi),
				"before_export": G.RT.Pre, "after_import": G.RT.Post, "exported_json_bytes": G.RT.JSONBytes})
		}
		return true, nil
	}
	rec.Count("chain_genesis_pooled/"+tn+"/"+fi.Proto, 1)
	wit := map[string]any{"type": p.Type, "field": fi.Proto, "x": claimJSON(X), "x_prime_value": fieldString(X2, fi), "scenario": p.Base,
		"state": "two competing attestations at one nonce, neither observed: 60 % voted X, 10 % voted X'", "moved_votes": moved, "genesis": G,
		"differences_to_same_blocks_without_export_import": dG}
	switch {
	case len(dG) > 0:
		wit["oracle"] = "genesis-pooled-run-equals-run-without-restart"
		pend = append(pend, pending{0, genesisSig(p.Type, fi.Proto),
			fmt.Sprintf("%s: after a genesis export/import of the skyway state, votes cast for claims that differ in %s (X: %s, X': %s) are on one attestation record (%s) and the following blocks differ from the same blocks without the restart: %s",
				tn, fi.Proto, fieldString(X, fi), fieldString(X2, fi), strings.Join(desc, "; "), strings.Join(head(dG, 3), "; ")), wit})
	case isListed && !caseOnly:
		wit["oracle"] = "listed-field-keeps-votes-apart (genesis export/import, decoded attestation records)"
		pend = append(pend, pending{2, genesisSig(p.Type, fi.Proto),
			fmt.Sprintf("%s: after a genesis export/import of the skyway state, votes cast for claims that differ in %s (%s; X: %s, X': %s) are on one attestation record: %s",
				tn, fi.Proto, listed[fi.Proto], fieldString(X, fi), fieldString(X2, fi), strings.Join(desc, "; ")), wit})
	}
	return true, pend
}

// judgeGenAfterObservation runs and judges the "after-observation" round trip of one pair.
func (w *wstate) judgeGenAfterObservation(rec *fw.Recorder, p params, lw *lateWorld, X, X2 skywaytypes.EthereumClaim, fi fieldInfo, isListed, caseOnly bool) (done bool, pend []pending) {
	tn := shortName(p.Type)
	lv, rt, ran := w.genAfterObservation(lw, X2)
	rec.Count("chain_runs", 1)
	if !ran {
		if rt.Panic != "" {
			rtProblem(rec, "after observation", rt)
		}
		return false, nil
	}
	if rtProblem(rec, "after observation", rt) {
		return false, nil
	}
	rec.Eval(1)
	rec.Count("chain_genesis_roundtrips_after_observation", 1)
	rec.Distinct("genesis-late|" + p.Type + "|" + fi.Proto + "|" + fmt.Sprint(claimJSON(X)) + "|" + fieldString(X2, fi))
	moved, dropped, _ := movedVotes(rt.Pre, rt.Post)
	if len(dropped) > 0 {
		rec.Count("chain_genesis_record_dropped/"+tn+"/"+fi.Proto, int64(len(dropped)))
	}
	desc, other := pairPooled(moved, X, X2, w.honest, w.byz)
	if other > 0 {
		rec.Count("chain_genesis_votes_moved_elsewhere/"+tn+"/"+fi.Proto, int64(other))
	}
	if len(desc) == 0 {
		return true, nil
	}
	rec.Count("chain_genesis_pooled/"+tn+"/"+fi.Proto, 1)
	if isListed && !caseOnly {
		pend = append(pend, pending{2, genesisSig(p.Type, fi.Proto),
			fmt.Sprintf("%s: after a genesis export/import of the skyway state, the late vote for a claim that differs in %s (%s; X: %s, X': %s) and the votes of the observed attestation are on one record: %s",
				tn, fi.Proto, listed[fi.Proto], fieldString(X, fi), fieldString(X2, fi), strings.Join(desc, "; ")),
			map[string]any{"oracle": "listed-field-keeps-votes-apart (genesis export/import, decoded attestation records)", "type": p.Type, "field": fi.Proto,
				"x": claimJSON(X), "x_prime_value": fieldString(X2, fi), "scenario": p.Base,
				"state": "X observed (90 %), the lagging 10 % validator voted X' one block late", "late_vote": lv, "moved_votes": moved, "round_trip": rt}})
	}
	return true, pend
}
