package c16

// The wasm binding of the token factory (x/tokenfactory/bindings) is a SECOND entry point to the
// same keeper: a contract emits a custom JSON message {"token_factory_msg":{"create_denom"|
// "mint_tokens"|"burn_tokens"|"change_admin"|"set_metadata":{...}}}, the wasm keeper hands it to
// the message router app.go installs (util/libwasm.NewRouterMessageDecorator) with the contract's
// address as the acting party. The monitor drives exactly that router, built the way
// app/app.go:buildWasmMessageDecorator builds it, on the keepers of the running app, with the JSON a
// contract would emit. A contract is an account without a key (32- or 20-byte address); everything
// the property says about "the admin" is decided for the contract address.
//
// One call = the messages of one contract response: dispatched in order on a cache context that is
// written back only when all of them succeeded (what the wasm keeper does with the messages of a
// response), between two blocks; the state is observed and compared after the next (empty) block
// like for every other block.

import (
	"crypto/sha256"
	"encoding/json"
	"fmt"
	"math/big"
	"strings"

	"cosmossdk.io/log"
	wasmvmtypes "github.com/CosmWasm/wasmvm/v2/types"
	codectypes "github.com/cosmos/cosmos-sdk/codec/types"
	sdk "github.com/cosmos/cosmos-sdk/types"
	bankkeeper "github.com/cosmos/cosmos-sdk/x/bank/keeper"
	banktypes "github.com/cosmos/cosmos-sdk/x/bank/types"
	"github.com/cosmos/gogoproto/proto"

	"github.com/palomachain/paloma/v2/util/libwasm"
	tfbindings "github.com/palomachain/paloma/v2/x/tokenfactory/bindings"
	tftypes "github.com/palomachain/paloma/v2/x/tokenfactory/types"

	"verif/harness/chain"
	"verif/harness/fw"
)

const viaWasm = "wasm"

// ---------------------------------------------------------------------------------------------
// contract accounts

type contractAcct struct {
	Addr sdk.AccAddress
	Bech string
}

// contractAccts: fixed addresses, 32 bytes (instantiate / instantiate2 addresses of wasmd), 20 bytes
// (legacy length) and 32 bytes again (the one that is funded for a single creation only)
func contractAccts() []contractAcct {
	var cs []contractAcct
	for i, n := range []int{32, 20, 32} {
		h := sha256.Sum256([]byte(fmt.Sprintf("c16/contract/%d", i)))
		a := sdk.AccAddress(append([]byte{}, h[:n]...))
		cs = append(cs, contractAcct{Addr: a, Bech: a.String()})
	}
	return cs
}

var contractFunds = []int64{150_000_000, 80_000_000, 15_000_000} // ugrain; the creation fee is 10_000_000

func isWasmKind(k string) bool { return strings.HasPrefix(k, "wasm-") }

// baseKind: wasm-mint -> mint
func baseKind(k string) string { return strings.TrimPrefix(k, "wasm-") }

// effBase: the bank metadata entry a set_metadata / create_denom-with-metadata of the binding is
// about: the Base the metadata names, or the message's denom when Base is omitted ("bank uses Base
// field, fill it if missing")
func effBase(denom string, md *banktypes.Metadata) string {
	if md != nil && md.Base != "" {
		return md.Base
	}
	return denom
}

// ---------------------------------------------------------------------------------------------
// entry point

type wasmMessenger interface {
	DispatchMsg(ctx sdk.Context, contractAddr sdk.AccAddress, contractIBCPortID string, msg wasmvmtypes.CosmosMsg) ([]sdk.Event, [][]byte, [][]*codectypes.Any, error)
}

type wasmEntry struct {
	m wasmMessenger
}

// newWasmEntry builds the custom-message router the way app/app.go does (buildWasmMessageDecorator:
// bank BaseKeeper + token-factory keeper of the app); only the token-factory leg is populated.
func newWasmEntry(ch *chain.Chain) (*wasmEntry, error) {
	bbk, ok := ch.App.BankKeeper.(bankkeeper.BaseKeeper)
	if !ok {
		return nil, fmt.Errorf("app.BankKeeper is not a bank BaseKeeper")
	}
	dec := libwasm.NewRouterMessageDecorator(log.NewNopLogger(), nil, nil, nil, tfbindings.NewMessenger(&bbk, &ch.App.TokenFactoryKeeper))
	return &wasmEntry{m: dec(nil)}, nil
}

func wasmMetaJSON(md *banktypes.Metadata) map[string]any {
	units := []any{}
	for _, u := range md.DenomUnits {
		if u == nil {
			continue
		}
		al := u.Aliases
		if al == nil {
			al = []string{}
		}
		units = append(units, map[string]any{"denom": u.Denom, "exponent": u.Exponent, "aliases": al})
	}
	return map[string]any{"description": md.Description, "denom_units": units, "base": md.Base, "display": md.Display, "name": md.Name, "symbol": md.Symbol}
}

// customJSON: the payload of CosmosMsg.Custom as a contract emits it. Amounts are written as the
// decimal strings of the spec (so out-of-range values reach the binding's JSON decoder).
func customJSON(ms msgSpec) ([]byte, error) {
	var body map[string]any
	switch ms.K {
	case "wasm-create":
		c := map[string]any{"subdenom": ms.Sub}
		if ms.Meta != nil {
			c["metadata"] = wasmMetaJSON(ms.Meta)
		}
		body = map[string]any{"create_denom": c}
	case "wasm-mint":
		c := map[string]any{"denom": ms.Denom, "mint_to_address": ms.To}
		if ms.AmtClass != "missing" {
			c["amount"] = ms.Amt
		}
		body = map[string]any{"mint_tokens": c}
	case "wasm-burn":
		c := map[string]any{"denom": ms.Denom, "burn_from_address": ms.From}
		if ms.AmtClass != "missing" {
			c["amount"] = ms.Amt
		}
		body = map[string]any{"burn_tokens": c}
	case "wasm-chadmin":
		body = map[string]any{"change_admin": map[string]any{"denom": ms.Denom, "new_admin_address": ms.NewAdmin}}
	case "wasm-setmeta":
		md := ms.Meta
		if md == nil {
			md = &banktypes.Metadata{}
		}
		body = map[string]any{"set_metadata": map[string]any{"denom": ms.Denom, "metadata": wasmMetaJSON(md)}}
	default:
		return nil, fmt.Errorf("unknown binding kind %q", ms.K)
	}
	return json.Marshal(map[string]any{"token_factory_msg": body})
}

type callResult struct {
	OK        bool
	Err       string
	NewDenoms []string // reported by the create_denom responses, in message order
	Raw       []string // the JSON payloads that were dispatched
}

// call dispatches the messages of one contract response. All-or-nothing, like the wasm keeper: each
// message runs on the shared cache context; the first error discards everything.
func (w *wasmEntry) call(ch *chain.Chain, contract sdk.AccAddress, msgs []msgSpec) (res callResult) {
	defer func() {
		if e := recover(); e != nil {
			res.OK, res.Err, res.NewDenoms = false, fmt.Sprintf("PANIC: %v", e), nil
		}
	}()
	cctx, write := ch.Ctx().CacheContext()
	for i, ms := range msgs {
		bz, err := customJSON(ms)
		if err != nil {
			res.Err = fmt.Sprintf("msg %d: cannot build: %v", i, err)
			return res
		}
		res.Raw = append(res.Raw, string(bz))
		_, data, _, err := w.m.DispatchMsg(cctx, contract, "", wasmvmtypes.CosmosMsg{Custom: bz})
		if err != nil {
			res.Err = fmt.Sprintf("msg %d: %v", i, err)
			res.NewDenoms = nil
			return res
		}
		if ms.K == "wasm-create" {
			for _, d := range data {
				var r tftypes.MsgCreateDenomResponse
				if err := proto.Unmarshal(d, &r); err == nil {
					res.NewDenoms = append(res.NewDenoms, r.NewTokenDenom)
				}
			}
		}
	}
	write()
	res.OK = true
	return res
}

// ---------------------------------------------------------------------------------------------
// reference model: a successful call of contract c

func (m *model) applyCall(cIdx int, c contractAcct, tx txSpec, newDenoms []string) (fs []finding, created []string) {
	ni := 0
	judgeMeta := func(who, denom string, md *banktypes.Metadata) {
		eff := effBase(denom, md)
		t, ok := m.tokens[eff]
		if !ok {
			fs = append(fs, finding{"wasm-set-metadata:non-factory-denom", fmt.Sprintf("%s: bank metadata of %q set (message denom %q) but that denom was never created through the factory", who, eff, denom)})
		} else if !sameAccount(t.Admin, c.Addr) {
			fs = append(fs, finding{"wasm-set-metadata:by-non-admin", fmt.Sprintf("%s: bank metadata of %q set (message denom %q) but the current admin of %q is %q", who, eff, denom, eff, t.Admin)})
		}
		w := banktypes.Metadata{}
		if md != nil {
			w = *md
		}
		w.Base = eff
		m.meta[eff] = canonMeta(&w)
	}
	for i, ms := range tx.Msgs {
		who := fmt.Sprintf("msg %d (%s) emitted by contract %s", i, ms.K, c.Bech)
		switch ms.K {
		case "wasm-create":
			if ni >= len(newDenoms) {
				fs = append(fs, finding{"wasm-create:no-denom-reported", who + ": succeeded but the response names no new denom"})
				continue
			}
			d := newDenoms[ni]
			ni++
			if !inNamespaceOf(d, c.Addr) {
				fs = append(fs, finding{"wasm-create:outside-own-namespace", fmt.Sprintf("%s: created %q which is not inside factory/%s/", who, d, c.Bech)})
			}
			if _, ok := m.tokens[d]; ok {
				fs = append(fs, finding{"wasm-create:existing-denom-recreated", fmt.Sprintf("%s: created %q again (factory token, current admin %q)", who, d, m.tokens[d].Admin)})
			} else if m.knownToBank(d) {
				fs = append(fs, finding{"wasm-create:existing-denom-recreated", fmt.Sprintf("%s: created %q although the bank already knows this denom", who, d)})
			}
			m.tokens[d] = &token{Admin: c.Bech, Minted: new(big.Int), Burned: new(big.Int), CreatorIdx: -1, CreatorContract: cIdx, Sub: ms.Sub}
			created = append(created, d)
			if ms.Meta != nil {
				judgeMeta(who, d, ms.Meta)
			}
		case "wasm-mint", "wasm-burn":
			amt := ms.amount()
			t, ok := m.tokens[ms.Denom]
			if !ok {
				fs = append(fs, finding{ms.K + ":non-factory-denom", fmt.Sprintf("%s: %s of %s %q succeeded but that denom was never created through the factory", who, baseKind(ms.K), amt, ms.Denom)})
			} else if !sameAccount(t.Admin, c.Addr) {
				fs = append(fs, finding{ms.K + ":by-non-admin", fmt.Sprintf("%s: %s of %s %q succeeded but the current admin is %q", who, baseKind(ms.K), amt, ms.Denom, t.Admin)})
			}
			if amt.Sign() <= 0 {
				fs = append(fs, finding{ms.K + ":non-positive-amount", fmt.Sprintf("%s: %s of %s %q succeeded", who, baseKind(ms.K), amt, ms.Denom)})
			}
			if ms.K == "wasm-mint" {
				// mint_tokens = mint into the admin's (contract's) own balance + a plain transfer of the
				// new coins by their owner to mint_to_address
				to := c.Bech
				if a, err := sdk.AccAddressFromBech32(ms.To); err == nil {
					to = a.String()
				}
				m.addBal(ms.Denom, to, amt)
				m.addSupply(ms.Denom, amt)
				if ok {
					t.Minted.Add(t.Minted, amt)
				}
			} else {
				if m.balance(ms.Denom, c.Bech).Cmp(amt) < 0 {
					fs = append(fs, finding{"wasm-burn:exceeds-own-balance", fmt.Sprintf("%s: burn of %s %q succeeded but the contract only holds %s", who, amt, ms.Denom, m.balance(ms.Denom, c.Bech))})
				}
				neg := new(big.Int).Neg(amt)
				m.addBal(ms.Denom, c.Bech, neg)
				m.addSupply(ms.Denom, neg)
				if ok {
					t.Burned.Add(t.Burned, amt)
				}
			}
		case "wasm-chadmin":
			t, ok := m.tokens[ms.Denom]
			if !ok {
				fs = append(fs, finding{"wasm-change-admin:non-factory-denom", fmt.Sprintf("%s: admin of %q set to %q but that denom was never created through the factory", who, ms.Denom, ms.NewAdmin)})
				continue
			}
			if !sameAccount(t.Admin, c.Addr) {
				fs = append(fs, finding{"wasm-change-admin:by-non-admin", fmt.Sprintf("%s: admin of %q set to %q but the current admin is %q", who, ms.Denom, ms.NewAdmin, t.Admin)})
			}
			// the binding hands the role to the ACCOUNT new_admin_address designates (canonical bech32)
			t.Admin = ms.NewAdmin
			if a, err := sdk.AccAddressFromBech32(ms.NewAdmin); err == nil {
				t.Admin = a.String()
			}
		case "wasm-setmeta":
			judgeMeta(who, ms.Denom, ms.Meta)
		}
	}
	if ni < len(newDenoms) {
		fs = append(fs, finding{"wasm-create:unrequested-denom-reported", fmt.Sprintf("call of contract %s reported new denoms %v beyond its create_denom messages", c.Bech, newDenoms[ni:])})
	}
	return fs, created
}

// ---------------------------------------------------------------------------------------------
// evidence (never a verdict)

func classifyCall(rec *fw.Recorder, g *gen, m *model, c contractAcct, tx txSpec, ok bool, st *histStats) {
	out := "rejected"
	if ok {
		out = "ok"
	}
	rec.Count("wasm_calls", 1)
	rec.Count("wasm_msgs", int64(len(tx.Msgs)))
	if len(tx.Msgs) != 1 {
		rec.Count("wasm_multimsg_call_"+out, 1)
		var ks []string
		for _, ms := range tx.Msgs {
			if ok {
				rec.Count("wasm_"+baseKind(ms.K)+"_ok", 1)
				st.ok[ms.K]++
			}
			ks = append(ks, ms.K+":"+ms.DenomClass+":"+ms.AmtClass+ms.Variant)
		}
		rec.Distinct("wasm-multi|" + strings.Join(ks, ",") + "|" + out)
		return
	}
	ms := tx.Msgs[0]
	k := baseKind(ms.K)
	rec.Count("wasm_"+k+"_"+out, 1)
	if ok {
		st.ok[ms.K]++
	}
	key := []string{ms.K, ms.DenomClass, ms.AmtClass, ms.Variant, out, fmt.Sprint(len(c.Addr))}
	roleOn := func(d string) (role, adminKind string, isTok bool) {
		t, isTok := m.tokens[d]
		if !isTok {
			return "", "", false
		}
		role = "other"
		switch {
		case sameAccount(t.Admin, c.Addr):
			role = "admin"
		case inNamespaceOf(d, c.Addr):
			role = "creator-not-admin"
		case m.balance(d, c.Bech).Sign() > 0:
			role = "holder"
		}
		adminKind = "non-user"
		switch {
		case t.Admin == "":
			adminKind = "nobody"
		case g.userIdxOf(t.Admin) >= 0:
			adminKind = "user"
		case g.contractIdxOf(t.Admin) >= 0:
			adminKind = "contract"
		}
		return role, adminKind, true
	}
	switch ms.K {
	case "wasm-create":
		d := "factory/" + c.Bech + "/" + ms.Sub
		if _, exists := m.tokens[d]; exists {
			key = append(key, "exists")
			if !ok {
				rec.Count("wasm_create_rejected_existing", 1)
			}
		}
		if ms.Meta != nil {
			key = append(key, "with-metadata")
			if ok {
				rec.Count("wasm_create_with_metadata_ok", 1)
			}
		}
	case "wasm-mint", "wasm-burn", "wasm-chadmin", "wasm-setmeta":
		d := ms.Denom
		if ms.K == "wasm-setmeta" {
			d = effBase(ms.Denom, ms.Meta)
			if ms.Meta != nil && ms.Meta.Base != "" && ms.Meta.Base != ms.Denom {
				// the metadata names ANOTHER denom than the one the message is authorised against
				if t, isTok := m.tokens[ms.Denom]; isTok && sameAccount(t.Admin, c.Addr) {
					cls := "uncreated_or_malformed"
					if bt, isBt := m.tokens[ms.Meta.Base]; isBt {
						cls = "foreign_token"
						if sameAccount(bt.Admin, c.Addr) {
							cls = "other_own_token"
						}
					} else if m.knownToBank(ms.Meta.Base) {
						cls = "native"
					}
					if ok {
						rec.Count("wasm_setmeta_foreign_base_accepted", 1) // the oracle judges it for the denom the entry is written under
					} else {
						rec.Count("wasm_setmeta_rejected_foreign_base", 1)
						rec.Count("wasm_setmeta_rejected_base_"+cls, 1)
					}
					key = append(key, "admin-of-message-denom")
				}
			}
		}
		role, adminKind, isTok := roleOn(d)
		if !isTok {
			key = append(key, "not-a-token")
			if !ok {
				rec.Count("wasm_"+k+"_rejected_nonfactory", 1)
			}
			break
		}
		key = append(key, role, adminKind, supplyClass(m.supplyOf(d)))
		switch {
		case role == "admin" && ok:
			rec.Count("wasm_"+k+"_by_admin_ok", 1)
			if !inNamespaceOf(d, c.Addr) {
				rec.Count("wasm_admin_of_foreign_created_token_ok", 1) // role received through a hand-over
			}
		case role == "admin":
			rec.Count("wasm_"+k+"_by_admin_rejected", 1) // liveness only
		case ok:
			rec.Count("wasm_"+k+"_accepted_nonadmin", 1) // the oracle reports this as a violation
		default:
			rec.Count("wasm_"+k+"_rejected_nonadmin", 1)
			st.rej["wasm-nonadmin"]++
		}
	}
	rec.Distinct(strings.Join(key, "|"))
}

// ---------------------------------------------------------------------------------------------
// workload: what contracts emit

func (g *gen) contractIdxOf(addr string) int {
	for i, c := range g.contracts {
		if sameAccount(addr, c.Addr) {
			return i
		}
	}
	return -1
}

// adminTokensOf: the factory tokens account a currently administers (sorted)
func (g *gen) adminTokensOf(a sdk.AccAddress) []string {
	var out []string
	for _, d := range g.tokenList() {
		if sameAccount(g.m.tokens[d].Admin, a) {
			out = append(out, d)
		}
	}
	return out
}

func (g *gen) otherContract(c int) int {
	if len(g.contracts) < 2 {
		return c
	}
	j := g.r.Intn(len(g.contracts) - 1)
	if j >= c {
		j++
	}
	return j
}

func wcall(c int, note string, msgs ...msgSpec) blockSpec {
	return blockSpec{Txs: []txSpec{{Signer: c, Via: viaWasm, Msgs: msgs, Note: note}}}
}

// wasmDenom: the denom a contract names: a token it administers, any existing token, or hostile
func (g *gen) wasmDenom(c int) (string, string) {
	own := g.adminTokensOf(g.contracts[c].Addr)
	ds := g.tokenList()
	x := g.r.Intn(100)
	switch {
	case x < 52 && len(own) > 0:
		return own[g.r.Intn(len(own))], "administered"
	case x < 76 && len(ds) > 0:
		return ds[g.r.Intn(len(ds))], "existing"
	}
	o := g.users[g.r.Intn(len(g.users))].Bech
	if g.pct(25) {
		o = g.contracts[g.otherContract(c)].Bech
	}
	d, dc, _ := g.hostileDenomFor(g.contracts[c].Bech, o)
	return d, dc
}

// wasmAddr: an address string for mint_to_address / new_admin_address
func (g *gen) wasmAddr(c int, selfPct int) (string, string) {
	x := g.r.Intn(100)
	switch {
	case x < selfPct:
		return g.contracts[c].Bech, "self"
	case x < selfPct+(100-selfPct)*50/100:
		return g.users[g.r.Intn(len(g.users))].Bech, "user"
	case x < selfPct+(100-selfPct)*65/100:
		return g.contracts[g.otherContract(c)].Bech, "other-contract"
	case x < selfPct+(100-selfPct)*75/100:
		return strings.ToUpper(g.users[g.r.Intn(len(g.users))].Bech), "upper-user"
	case x < selfPct+(100-selfPct)*82/100:
		return "", "empty"
	}
	i := g.r.Intn(len(g.strange))
	return g.strange[i], fmt.Sprintf("strange-%d", i)
}

// wasmMetadata: metadata a contract attaches to set_metadata{denom} / create_denom. The Base it
// names is omitted, the message's denom, or ANOTHER denom: somebody else's factory token, the native
// denom, a never-created denom in a foreign / the own namespace, another token of the contract
// itself, a hostile spelling of the message's denom.
func (g *gen) wasmMetadata(c int, denom string) (*banktypes.Metadata, string) {
	cb := g.contracts[c].Bech
	n := g.r.Intn(1000)
	baseClass := "base-omitted"
	base := ""
	foreign := func() string {
		var fs []string
		for _, d := range g.tokenList() {
			if d != denom && !sameAccount(g.m.tokens[d].Admin, g.contracts[c].Addr) {
				fs = append(fs, d)
			}
		}
		if len(fs) == 0 {
			return ""
		}
		return fs[g.r.Intn(len(fs))]
	}
	switch x := g.r.Intn(100); {
	case x < 20:
	case x < 42:
		baseClass, base = "base-is-denom", denom
	case x < 62:
		if f := foreign(); f != "" {
			baseClass, base = "base-foreign-token", f
		} else {
			baseClass, base = "base-native", chain.Denom
		}
	case x < 70:
		baseClass, base = "base-native", chain.Denom
	case x < 79:
		baseClass, base = "base-uncreated-foreign-namespace", "factory/"+g.users[g.r.Intn(len(g.users))].Bech+"/"+g.subs[g.r.Intn(len(g.subs))]
	case x < 85:
		baseClass, base = "base-uncreated-own-namespace", "factory/"+cb+"/"+g.subs[g.r.Intn(len(g.subs))]+"zz"
	case x < 92:
		baseClass, base = "base-is-denom", denom
		var own []string
		for _, d := range g.adminTokensOf(g.contracts[c].Addr) {
			if d != denom {
				own = append(own, d)
			}
		}
		if len(own) > 0 {
			baseClass, base = "base-other-own-token", own[g.r.Intn(len(own))]
		}
	default:
		baseClass = "base-hostile-spelling"
		p := strings.SplitN(denom, "/", 3)
		switch {
		case len(p) == 3 && g.pct(50):
			base = p[0] + "/" + strings.ToUpper(p[1]) + "/" + p[2]
		case g.pct(50):
			base = denom + "/"
		default:
			base = ibcDenom
		}
	}
	eff := base
	if eff == "" {
		eff = denom
	}
	disp := fmt.Sprintf("wdisp%d", n)
	md := &banktypes.Metadata{
		Description: fmt.Sprintf("contract description %d", n),
		DenomUnits:  []*banktypes.DenomUnit{{Denom: eff, Exponent: 0}, {Denom: disp, Exponent: 6}},
		Base:        base, Display: disp, Name: fmt.Sprintf("WName%d", n), Symbol: fmt.Sprintf("WSYM%d", n),
	}
	shape := "valid"
	switch y := g.r.Intn(100); {
	case y < 66:
	case y < 76:
		shape = "display-is-base"
		md.DenomUnits = md.DenomUnits[:1]
		md.Display = eff
	case y < 83: // the display unit names another denom
		shape = "unit-names-foreign-denom"
		other := chain.Denom
		if f := foreign(); f != "" && g.pct(70) {
			other = f
		}
		if other != eff {
			md.DenomUnits[1].Denom, md.Display = other, other
		}
	case y < 88: // first unit = the denom the message is authorised against, Base = another one
		shape = "first-unit-is-message-denom"
		md.DenomUnits[0].Denom = denom
	case y < 92:
		shape = "no-units"
		md.DenomUnits = nil
	case y < 96:
		shape = "blank-name"
		md.Name = " "
	default:
		shape = "aliases"
		md.DenomUnits[0].Aliases = []string{chain.Denom, "alias"}
	}
	return md, baseClass + "/" + shape
}

func (g *gen) wasmCreate(c int) msgSpec {
	sub := g.subs[g.r.Intn(len(g.subs))]
	if g.pct(10) {
		sub = subPool[g.r.Intn(len(subPool))]
	}
	ms := msgSpec{K: "wasm-create", Creator: g.contracts[c].Bech, Sub: sub, DenomClass: subClass(sub)}
	if g.pct(35) {
		ms.Meta, ms.Variant = g.wasmMetadata(c, "factory/"+g.contracts[c].Bech+"/"+sub)
	}
	return ms
}

func (g *gen) wasmMint(c int, d, dc string) msgSpec {
	amt, ac := g.mintAmount(d)
	if g.pct(3) {
		ac = "missing"
		amt = new(big.Int)
	}
	to, v := g.wasmAddr(c, 45)
	return msgSpec{K: "wasm-mint", Creator: g.contracts[c].Bech, Denom: d, Amt: amt.String(), To: to, DenomClass: dc, AmtClass: ac, Variant: "to-" + v}
}

func (g *gen) wasmBurn(c int, d, dc string) msgSpec {
	amt, ac := g.burnAmountFor(d, g.contracts[c].Bech)
	if g.pct(3) {
		ac = "missing"
		amt = new(big.Int)
	}
	from, v := "", "from-empty"
	switch x := g.r.Intn(100); {
	case x < 55:
	case x < 75:
		from, v = g.contracts[c].Bech, "from-self"
	case x < 80:
		from, v = strings.ToUpper(g.contracts[c].Bech), "from-upper-self"
	case x < 94: // somebody else's balance: a holder if there is one
		from, v = g.users[g.r.Intn(len(g.users))].Bech, "from-user"
		if hs := g.holders(d); len(hs) > 0 {
			from, v = g.users[hs[g.r.Intn(len(hs))]].Bech, "from-holder"
		}
	default:
		from, v = "not-an-address", "from-garbage"
	}
	return msgSpec{K: "wasm-burn", Creator: g.contracts[c].Bech, Denom: d, Amt: amt.String(), From: from, DenomClass: dc, AmtClass: ac, Variant: v}
}

func (g *gen) wasmChAdmin(c int, d, dc string) msgSpec {
	na, v := g.wasmAddr(c, 10)
	return msgSpec{K: "wasm-chadmin", Creator: g.contracts[c].Bech, Denom: d, NewAdmin: na, DenomClass: dc, Variant: v}
}

func (g *gen) wasmSetMeta(c int, d, dc string) msgSpec {
	md, v := g.wasmMetadata(c, d)
	return msgSpec{K: "wasm-setmeta", Creator: g.contracts[c].Bech, Denom: d, Meta: md, DenomClass: dc, Variant: v}
}

// wasmSane: an operation of contract c on token d that succeeds when c is d's admin
func (g *gen) wasmSane(c int, d string) msgSpec {
	C := g.contracts[c].Bech
	switch x := g.r.Intn(100); {
	case x < 40:
		to, v := C, "to-self"
		if g.pct(40) {
			to, v = g.users[g.r.Intn(len(g.users))].Bech, "to-user"
		}
		return msgSpec{K: "wasm-mint", Creator: C, Denom: d, Amt: fmt.Sprint(1 + g.r.Intn(1000)), To: to, DenomClass: "administered", AmtClass: "small", Variant: v}
	case x < 65 && g.m.balance(d, C).Sign() > 0:
		amt := new(big.Int).Add(big.NewInt(1), new(big.Int).Rand(g.r, g.m.balance(d, C)))
		if g.pct(50) {
			amt = big.NewInt(1)
		}
		return msgSpec{K: "wasm-burn", Creator: C, Denom: d, Amt: amt.String(), DenomClass: "administered", AmtClass: "within-balance", Variant: "from-empty"}
	}
	n := g.r.Intn(1000)
	return msgSpec{K: "wasm-setmeta", Creator: C, Denom: d, DenomClass: "administered", Variant: "base-omitted/sane",
		Meta: &banktypes.Metadata{Description: fmt.Sprintf("sane %d", n), DenomUnits: []*banktypes.DenomUnit{{Denom: d, Exponent: 0}}, Display: d,
			Name: fmt.Sprintf("Sane%d", n), Symbol: fmt.Sprintf("SANE%d", n)}}
}

func (g *gen) wasmMsg(c int) msgSpec {
	own := g.adminTokensOf(g.contracts[c].Addr)
	x := g.r.Intn(100)
	if len(g.m.tokens) == 0 || (len(own) == 0 && g.pct(50)) {
		x = 0
	}
	if x < 15 {
		return g.wasmCreate(c)
	}
	d, dc := g.wasmDenom(c)
	switch {
	case x < 37:
		return g.wasmMint(c, d, dc)
	case x < 53:
		return g.wasmBurn(c, d, dc)
	case x < 66:
		return g.wasmChAdmin(c, d, dc)
	}
	return g.wasmSetMeta(c, d, dc)
}

// wasmBlock: one call of a contract (1 message, sometimes 2-3 that stand or fall together),
// sometimes two calls of different contracts, sometimes the start of the scripted scenario
func (g *gen) wasmBlock() blockSpec {
	if g.pct(14) && g.wasmScenario() {
		b := g.queue[0]
		g.queue = g.queue[1:]
		return b
	}
	c := g.r.Intn(len(g.contracts))
	mk := func(c int) txSpec {
		tx := txSpec{Signer: c, Via: viaWasm, Note: "wasm"}
		n := 1
		if g.pct(18) {
			n = 2 + g.r.Intn(2)
			tx.Note = "wasm/multi-msg"
		}
		if own := g.adminTokensOf(g.contracts[c].Addr); n > 1 && len(own) > 0 && g.pct(45) {
			// a coherent response on a token the contract administers; the last message is sometimes a
			// random (mostly refused) one: then the earlier ones must leave no trace either
			d := own[g.r.Intn(len(own))]
			tx.Note = "wasm/multi-msg/coherent"
			for i := 0; i < n; i++ {
				tx.Msgs = append(tx.Msgs, g.wasmSane(c, d))
			}
			if g.pct(40) {
				tx.Msgs[n-1] = g.wasmMsg(c)
			}
			return tx
		}
		for i := 0; i < n; i++ {
			ms := g.wasmMsg(c)
			if i > 0 && g.pct(60) {
				// follow-up on the denom of the first message (a create: the denom it is about to produce)
				d := tx.Msgs[0].Denom
				if tx.Msgs[0].K == "wasm-create" {
					d = "factory/" + g.contracts[c].Bech + "/" + tx.Msgs[0].Sub
				}
				switch g.r.Intn(4) {
				case 0:
					ms = g.wasmMint(c, d, "multi")
				case 1:
					ms = g.wasmBurn(c, d, "multi")
				case 2:
					ms = g.wasmChAdmin(c, d, "multi")
				default:
					ms = g.wasmSetMeta(c, d, "multi")
				}
			}
			tx.Msgs = append(tx.Msgs, ms)
		}
		return tx
	}
	b := blockSpec{Txs: []txSpec{mk(c)}}
	if g.pct(10) {
		b.Txs = append(b.Txs, mk(g.otherContract(c)))
	}
	return b
}

// wasmScenario: a contract with a token of its own tries to reach tokens it does not control through
// every field of the binding, then receives the admin role of a user's token by hand-over, uses
// it, hands it back and must have lost it.
func (g *gen) wasmScenario() bool {
	c := g.r.Intn(len(g.contracts) - 1) // one of the two contracts that can pay creation fees
	C := g.contracts[c]
	x := g.r.Intn(len(g.users))
	X := g.users[x].Bech
	w := func(note string, msgs ...msgSpec) blockSpec { return wcall(c, "wasm-scenario/"+note, msgs...) }
	unit := func(d string) []*banktypes.DenomUnit { return []*banktypes.DenomUnit{{Denom: d, Exponent: 0}} }
	n := g.r.Intn(1000)
	// set_metadata{denom: auth, metadata{base: base, ...}} - valid for the bank whenever base is a valid denom
	setMeta := func(auth, base, dc, variant string) msgSpec {
		eff := base
		if eff == "" {
			eff = auth
		}
		return msgSpec{K: "wasm-setmeta", Creator: C.Bech, Denom: auth, DenomClass: dc, Variant: variant,
			Meta: &banktypes.Metadata{Description: fmt.Sprintf("scenario %d", n), DenomUnits: unit(eff), Base: base, Display: eff,
				Name: fmt.Sprintf("Scn%d", n), Symbol: fmt.Sprintf("SCN%d", n)}}
	}
	mint := func(d, amt, to, dc string) msgSpec {
		return msgSpec{K: "wasm-mint", Creator: C.Bech, Denom: d, Amt: amt, To: to, DenomClass: dc, AmtClass: "small", Variant: "to-scripted"}
	}
	burn := func(d string, amt *big.Int, from, ac, v string) msgSpec {
		return msgSpec{K: "wasm-burn", Creator: C.Bech, Denom: d, Amt: amt.String(), From: from, DenomClass: "administered", AmtClass: ac, Variant: v}
	}
	var q []blockSpec
	// a token of its own
	own := ""
	if ds := g.adminTokensOf(C.Addr); len(ds) > 0 && g.pct(60) {
		own = ds[g.r.Intn(len(ds))]
	} else {
		sub := "w" + fmt.Sprint(g.r.Intn(4))
		own = "factory/" + C.Bech + "/" + sub
		q = append(q, w("create-own", msgSpec{K: "wasm-create", Creator: C.Bech, Sub: sub, DenomClass: "sub-plain"}))
	}
	q = append(q,
		w("own-metadata", setMeta(own, "", "administered", "base-omitted/scripted")),
		w("own-metadata", setMeta(own, own, "administered", "base-is-denom/scripted")))
	// a victim: a token somebody else administers (a user's, if there is one)
	victim := ""
	va := -1
	for _, d := range g.tokenList() {
		if i := g.adminIdx(d); i >= 0 && (victim == "" || g.pct(40)) {
			victim, va = d, i
		}
	}
	if victim != "" {
		q = append(q,
			w("foreign-direct", setMeta(victim, "", "existing", "base-omitted/scripted")),
			w("foreign-through-base", setMeta(own, victim, "administered", "base-foreign-token/scripted")),
			w("foreign-mint", mint(victim, "5", C.Bech, "existing")),
			w("foreign-change-admin", msgSpec{K: "wasm-chadmin", Creator: C.Bech, Denom: victim, NewAdmin: C.Bech, DenomClass: "existing", Variant: "self"}))
	}
	unborn := "factory/" + X + "/" + "w" + fmt.Sprint(g.r.Intn(4))
	q = append(q,
		w("native-through-base", setMeta(own, chain.Denom, "administered", "base-native/scripted")),
		w("uncreated-through-base", setMeta(own, unborn, "administered", "base-uncreated-foreign-namespace/scripted")),
		// the rightful owner of that namespace creates the denom afterwards (liveness only)
		one(x, msgSpec{K: "create", Creator: X, Signers: []string{X}, CreatorClass: "self", Sub: strings.TrimPrefix(unborn, "factory/"+X+"/"), DenomClass: "sub-plain"}, "wasm-scenario/owner-creates"),
		// supply: mint to a user, burn only from the own balance
		w("mint-to-user", mint(own, "500", X, "administered")),
		w("burn-from-user", burn(own, big.NewInt(10), X, "within-balance", "from-holder")),
		w("mint-to-self", mint(own, "100", C.Bech, "administered")),
		w("burn-own", burn(own, big.NewInt(40), "", "within-balance", "from-empty")),
		w("burn-more-than-own", burn(own, new(big.Int).Add(g.m.balance(own, C.Bech), big.NewInt(61)), "", "balance+1", "from-empty")))
	if victim != "" {
		// hand-over user -> contract -> user
		A := g.users[va].Bech
		back := g.users[g.otherThan(va)].Bech
		if g.pct(50) {
			back = A
		}
		q = append(q,
			one(va, msgSpec{K: "chadmin", Creator: A, Signers: []string{A}, CreatorClass: "self", Denom: victim, NewAdmin: C.Bech, DenomClass: "existing", Variant: "contract"}, "wasm-scenario/hand-over-to-contract"),
			w("received-mint", mint(victim, "7", C.Bech, "administered")),
			w("received-metadata", setMeta(victim, victim, "administered", "base-is-denom/scripted")),
			one(va, msgSpec{K: "mint", Creator: A, Signers: []string{A}, CreatorClass: "self", Denom: victim, Amt: "3", DenomClass: "existing", AmtClass: "small"}, "wasm-scenario/old-admin"),
			w("hand-back", msgSpec{K: "wasm-chadmin", Creator: C.Bech, Denom: victim, NewAdmin: back, DenomClass: "administered", Variant: "user"}),
			w("after-hand-back", mint(victim, "9", C.Bech, "existing")),
			w("after-hand-back", burn(victim, big.NewInt(1), "", "one", "from-empty")),
			w("after-hand-back", setMeta(own, victim, "administered", "base-foreign-token/scripted")))
	}
	g.queue = append(g.queue, q...)
	return true
}
