package c16

import (
	"bytes"
	"encoding/hex"
	"fmt"
	"math/big"
	"sort"
	"strings"

	"cosmossdk.io/x/feegrant"
	sdk "github.com/cosmos/cosmos-sdk/types"
	banktypes "github.com/cosmos/cosmos-sdk/x/bank/types"
	"github.com/cosmos/gogoproto/proto"

	tftypes "github.com/palomachain/paloma/v2/x/tokenfactory/types"

	"verif/harness/chain"
)

// ---------------------------------------------------------------------------------------------
// operations (JSON-serialisable: they go to the op log and into witnesses)

type msgSpec struct {
	K        string              `json:"k"` // create | mint | burn | chadmin | setmeta | send | grant | revoke | wasm-create | wasm-mint | wasm-burn | wasm-chadmin | wasm-setmeta
	Creator  string              `json:"creator"`
	Signers  []string            `json:"signers"`
	Sub      string              `json:"sub,omitempty"`
	Denom    string              `json:"denom,omitempty"`
	Amt      string              `json:"amt,omitempty"` // decimal big integer, may be negative
	NewAdmin string              `json:"new_admin,omitempty"`
	Meta     *banktypes.Metadata `json:"meta,omitempty"`
	To       string              `json:"to,omitempty"`     // send: recipient; grant / revoke: grantee (Creator = granter); wasm-mint: mint_to_address
	From     string              `json:"from,omitempty"`   // wasm-burn: burn_from_address
	ExpIn    int                 `json:"exp_in,omitempty"` // grant: allowance expires this many seconds after the current block time (0 = never)
	// generator intent labels (never read by the oracle; they only feed the coverage key)
	DenomClass   string `json:"dc,omitempty"`
	CreatorClass string `json:"cc,omitempty"`
	AmtClass     string `json:"ac,omitempty"`
	Variant      string `json:"var,omitempty"`
}

type txSpec struct {
	Signer int       `json:"signer"`        // index into the user list: the account whose key signs (for a delegated message: the grantee); Via = "wasm": index into the contract list
	Via    string    `json:"via,omitempty"` // "" = signed transaction; "wasm" = the custom messages of one response of contract #Signer, dispatched through the wasm binding's message router
	Msgs   []msgSpec `json:"msgs"`
	Note   string    `json:"note,omitempty"`
}

type blockSpec struct {
	Step int      `json:"step"`
	Txs  []txSpec `json:"txs"`
}

func (m msgSpec) amount() *big.Int {
	b, ok := new(big.Int).SetString(m.Amt, 10)
	if !ok {
		return new(big.Int)
	}
	return b
}

// ---------------------------------------------------------------------------------------------
// observation of the real state: complete bank balances / supply / denom metadata and the
// complete tokenfactory store, read after every block.

type observed struct {
	bal      map[string]map[string]*big.Int // denom -> bech32 address -> amount (non-zero)
	supply   map[string]*big.Int            // denom -> amount (non-zero)
	meta     map[string]string              // base -> hex(proto(metadata))
	admin    map[string]string              // denom -> admin string, from "denoms|<denom>|authoritymetadata"
	creators map[string]string              // denom -> creator string, from "creator|<creator>|<denom>"
	unknown  []string                       // tokenfactory store keys of unknown shape
	grants   map[string]map[string]bool     // fee allowances (environment): granter bech32 -> grantee bech32
}

func observe(c *chain.Chain) *observed {
	ctx := c.Ctx()
	o := &observed{bal: map[string]map[string]*big.Int{}, supply: map[string]*big.Int{}, meta: map[string]string{},
		admin: map[string]string{}, creators: map[string]string{}, grants: map[string]map[string]bool{}}
	_ = c.App.FeeGrantKeeper.IterateAllFeeAllowances(ctx, func(gr feegrant.Grant) bool {
		if o.grants[gr.Granter] == nil {
			o.grants[gr.Granter] = map[string]bool{}
		}
		o.grants[gr.Granter][gr.Grantee] = true
		return false
	})
	c.App.BankKeeper.IterateAllBalances(ctx, func(addr sdk.AccAddress, coin sdk.Coin) bool {
		if coin.Amount.IsNil() || coin.Amount.IsZero() {
			return false
		}
		if o.bal[coin.Denom] == nil {
			o.bal[coin.Denom] = map[string]*big.Int{}
		}
		o.bal[coin.Denom][addr.String()] = coin.Amount.BigInt()
		return false
	})
	c.App.BankKeeper.IterateTotalSupply(ctx, func(coin sdk.Coin) bool {
		if !coin.Amount.IsNil() && !coin.Amount.IsZero() {
			o.supply[coin.Denom] = coin.Amount.BigInt()
		}
		return false
	})
	c.App.BankKeeper.IterateAllDenomMetaData(ctx, func(md banktypes.Metadata) bool {
		o.meta[md.Base] = canonMeta(&md)
		return false
	})
	st := c.KVStore(ctx, tftypes.StoreKey)
	it := st.Iterator(nil, nil)
	defer it.Close()
	for ; it.Valid(); it.Next() {
		k := string(it.Key())
		switch {
		case strings.HasPrefix(k, "denoms|") && strings.HasSuffix(k, "|authoritymetadata"):
			denom := strings.TrimSuffix(strings.TrimPrefix(k, "denoms|"), "|authoritymetadata")
			var am tftypes.DenomAuthorityMetadata
			if err := proto.Unmarshal(it.Value(), &am); err != nil {
				o.unknown = append(o.unknown, "undecodable:"+k)
				continue
			}
			o.admin[denom] = am.Admin
		case strings.HasPrefix(k, "creator|"):
			rest := strings.TrimPrefix(k, "creator|")
			i := strings.Index(rest, "|")
			if i < 0 {
				o.unknown = append(o.unknown, k)
				continue
			}
			o.creators[rest[i+1:]] = rest[:i]
		default:
			o.unknown = append(o.unknown, k)
		}
	}
	return o
}

func canonMeta(md *banktypes.Metadata) string {
	b, err := proto.Marshal(md)
	if err != nil {
		return "unmarshalable:" + err.Error()
	}
	return hex.EncodeToString(b)
}

// ---------------------------------------------------------------------------------------------
// reference model

type token struct {
	Admin  string   // current admin (string as handed over; "" = nobody)
	Minted *big.Int // sum of successful mints
	Burned *big.Int // sum of successful burns
	// bookkeeping for the generator / coverage only
	CreatorIdx      int // index of the creating user; -1: created by a contract through the wasm binding
	CreatorContract int // index of the creating contract when CreatorIdx < 0
	Sub             string
}

type model struct {
	tokens map[string]*token              // denoms created through the factory
	bal    map[string]map[string]*big.Int // ALL denoms: denom -> address -> amount
	supply map[string]*big.Int            // ALL denoms
	meta   map[string]string              // ALL bank metadata entries
	// environment: fee allowances between accounts (granter -> grantee). Paloma's ante decorator
	// lets the grantee sign messages whose Metadata.Creator is the granter (delegated signing).
	grants map[string]map[string]bool
}

func newModel(o *observed) *model {
	m := &model{tokens: map[string]*token{}, bal: map[string]map[string]*big.Int{}, supply: map[string]*big.Int{}, meta: map[string]string{}, grants: map[string]map[string]bool{}}
	m.adoptGrants(o)
	for d, mm := range o.bal {
		m.bal[d] = map[string]*big.Int{}
		for a, v := range mm {
			m.bal[d][a] = new(big.Int).Set(v)
		}
	}
	for d, v := range o.supply {
		m.supply[d] = new(big.Int).Set(v)
	}
	for b, v := range o.meta {
		m.meta[b] = v
	}
	return m
}

func (m *model) clone() *model {
	n := &model{tokens: map[string]*token{}, bal: map[string]map[string]*big.Int{}, supply: map[string]*big.Int{}, meta: map[string]string{}, grants: map[string]map[string]bool{}}
	for a, mm := range m.grants {
		n.grants[a] = map[string]bool{}
		for b := range mm {
			n.grants[a][b] = true
		}
	}
	for d, t := range m.tokens {
		tt := *t
		tt.Minted = new(big.Int).Set(t.Minted)
		tt.Burned = new(big.Int).Set(t.Burned)
		n.tokens[d] = &tt
	}
	for d, mm := range m.bal {
		n.bal[d] = map[string]*big.Int{}
		for a, v := range mm {
			n.bal[d][a] = new(big.Int).Set(v)
		}
	}
	for d, v := range m.supply {
		n.supply[d] = new(big.Int).Set(v)
	}
	for b, v := range m.meta {
		n.meta[b] = v
	}
	return n
}

func (m *model) balance(denom, addr string) *big.Int {
	if mm := m.bal[denom]; mm != nil {
		if v := mm[addr]; v != nil {
			return v
		}
	}
	return new(big.Int)
}

func (m *model) addBal(denom, addr string, delta *big.Int) {
	if m.bal[denom] == nil {
		m.bal[denom] = map[string]*big.Int{}
	}
	v := m.bal[denom][addr]
	if v == nil {
		v = new(big.Int)
	}
	m.bal[denom][addr] = new(big.Int).Add(v, delta)
}

func (m *model) addSupply(denom string, delta *big.Int) {
	v := m.supply[denom]
	if v == nil {
		v = new(big.Int)
	}
	m.supply[denom] = new(big.Int).Add(v, delta)
}

func (m *model) supplyOf(denom string) *big.Int {
	if v := m.supply[denom]; v != nil {
		return v
	}
	return new(big.Int)
}

// knownToBank: the denomination exists in some form (has supply, a balance or bank metadata).
func (m *model) knownToBank(denom string) bool {
	if v := m.supply[denom]; v != nil && v.Sign() != 0 {
		return true
	}
	if _, ok := m.meta[denom]; ok {
		return true
	}
	for _, v := range m.bal[denom] {
		if v.Sign() != 0 {
			return true
		}
	}
	return false
}

// sameAccount: does the admin string designate account a? (bech32 in either case decodes to the
// same bytes). "" designates nobody.
func sameAccount(admin string, a sdk.AccAddress) bool {
	if admin == "" {
		return false
	}
	b, err := sdk.AccAddressFromBech32(admin)
	return err == nil && bytes.Equal(b, a)
}

type finding struct {
	sig, msg string
}

// ---------------------------------------------------------------------------------------------
// fee allowances (environment) and the acting party of a message

func (m *model) hasGrant(granter, grantee string) bool { return m.grants[granter][grantee] }

func (m *model) setGrant(granter, grantee string, on bool) {
	if on {
		if m.grants[granter] == nil {
			m.grants[granter] = map[string]bool{}
		}
		m.grants[granter][grantee] = true
		return
	}
	delete(m.grants[granter], grantee)
	if len(m.grants[granter]) == 0 {
		delete(m.grants, granter)
	}
}

func (m *model) grantCount() int {
	n := 0
	for _, mm := range m.grants {
		n += len(mm)
	}
	return n
}

// adoptGrants makes the model's allowance set equal to the observed one and reports how many
// entries differed. Allowances are environment, not part of the property: successful grant /
// revoke messages are applied by applyTx, an expired allowance disappears in the fee-grant
// end-blocker - that is the only difference expected here.
func (m *model) adoptGrants(o *observed) (diff int) {
	for a, mm := range m.grants {
		for b := range mm {
			if !o.grants[a][b] {
				diff++
			}
		}
	}
	for a, mm := range o.grants {
		for b := range mm {
			if !m.grants[a][b] {
				diff++
			}
		}
	}
	m.grants = map[string]map[string]bool{}
	for a, mm := range o.grants {
		m.grants[a] = map[string]bool{}
		for b := range mm {
			m.grants[a][b] = true
		}
	}
	return diff
}

// acting decides which account a message of a transaction signed with the key of users[signerIdx]
// acts for. It is the signer, unless Metadata.Creator designates ANOTHER user that has granted the
// signer a fee allowance: then (Paloma's delegated signing, admitted by
// VerifyAuthorisedSignatureDecorator) the message acts for that creator, and everything the
// property says about "the admin" is said about the creator: it must be the current admin, the
// balance that moves must be the creator's own, a new denom lies in the creator's namespace.
// Without an allowance a foreign creator field gives the signer no rights whatsoever.
func (m *model) acting(users []*chain.Account, signerIdx int, ms msgSpec) (idx int, delegated bool) {
	switch ms.K {
	case "send", "grant", "revoke":
		return signerIdx, false
	}
	signer := users[signerIdx]
	if ms.Creator == "" || sameAccount(ms.Creator, signer.Addr) {
		return signerIdx, false
	}
	for i, u := range users {
		if i != signerIdx && sameAccount(ms.Creator, u.Addr) && m.hasGrant(u.Bech, signer.Bech) {
			return i, true
		}
	}
	return signerIdx, false
}

// inNamespaceOf: denom = factory/<c>/<sub...> where <c> designates account a
func inNamespaceOf(denom string, a sdk.AccAddress) bool {
	p := strings.SplitN(denom, "/", 3)
	return len(p) == 3 && p[0] == "factory" && sameAccount(p[1], a)
}

// applyTx applies a SUCCESSFUL transaction signed with the key of users[signerIdx] to the model,
// message by message, and returns the authorisation findings (a privileged action that succeeded
// although the model says the acting party is not entitled / the denom is not a factory token).
// newDenoms are the denominations the transaction's MsgCreateDenomResponse reported, in message
// order. delegatedKinds lists the kinds of the messages that acted for a granter (evidence only).
func (m *model) applyTx(users []*chain.Account, signerIdx int, tx txSpec, newDenoms []string) (fs []finding, created []string, delegatedKinds []string) {
	ci := 0
	for i, ms := range tx.Msgs {
		actIdx, delegated := m.acting(users, signerIdx, ms)
		act := users[actIdx]
		who := fmt.Sprintf("msg %d (%s) signed by %s", i, ms.K, users[signerIdx].Bech)
		if delegated {
			who += fmt.Sprintf(" for creator %s under a fee allowance", act.Bech)
			delegatedKinds = append(delegatedKinds, ms.K)
		}
		switch ms.K {
		case "create":
			if ci >= len(newDenoms) {
				fs = append(fs, finding{"create:no-denom-reported", who + ": succeeded but the response names no new denom"})
				continue
			}
			d := newDenoms[ci]
			ci++
			if !inNamespaceOf(d, act.Addr) {
				fs = append(fs, finding{"create:outside-own-namespace", fmt.Sprintf("%s: created %q which is not inside factory/%s/", who, d, act.Bech)})
			}
			if _, ok := m.tokens[d]; ok {
				fs = append(fs, finding{"create:existing-denom-recreated", fmt.Sprintf("%s: created %q again (factory token, current admin %q)", who, d, m.tokens[d].Admin)})
			} else if m.knownToBank(d) {
				fs = append(fs, finding{"create:existing-denom-recreated", fmt.Sprintf("%s: created %q although the bank already knows this denom", who, d)})
			}
			// the first admin is the creator, as the string the message names it with (a delegated
			// message may spell the granter in upper case; it designates the same account)
			admin := act.Bech
			if sameAccount(ms.Creator, act.Addr) {
				admin = ms.Creator
			}
			m.tokens[d] = &token{Admin: admin, Minted: new(big.Int), Burned: new(big.Int), CreatorIdx: actIdx, Sub: ms.Sub}
			created = append(created, d)
		case "mint", "burn":
			amt := ms.amount()
			t, ok := m.tokens[ms.Denom]
			if !ok {
				fs = append(fs, finding{ms.K + ":non-factory-denom", fmt.Sprintf("%s: %s of %s %q succeeded but that denom was never created through the factory", who, ms.K, amt, ms.Denom)})
			} else if !sameAccount(t.Admin, act.Addr) {
				fs = append(fs, finding{ms.K + ":by-non-admin", fmt.Sprintf("%s: %s of %s %q succeeded but the current admin is %q", who, ms.K, amt, ms.Denom, t.Admin)})
			}
			if amt.Sign() <= 0 {
				fs = append(fs, finding{ms.K + ":non-positive-amount", fmt.Sprintf("%s: %s of %s %q succeeded", who, ms.K, amt, ms.Denom)})
			}
			if ms.K == "mint" {
				m.addBal(ms.Denom, act.Bech, amt)
				m.addSupply(ms.Denom, amt)
				if ok {
					t.Minted.Add(t.Minted, amt)
				}
			} else {
				if m.balance(ms.Denom, act.Bech).Cmp(amt) < 0 {
					fs = append(fs, finding{"burn:exceeds-own-balance", fmt.Sprintf("%s: burn of %s %q succeeded but the acting account only holds %s", who, amt, ms.Denom, m.balance(ms.Denom, act.Bech))})
				}
				neg := new(big.Int).Neg(amt)
				m.addBal(ms.Denom, act.Bech, neg)
				m.addSupply(ms.Denom, neg)
				if ok {
					t.Burned.Add(t.Burned, amt)
				}
			}
		case "chadmin":
			t, ok := m.tokens[ms.Denom]
			if !ok {
				fs = append(fs, finding{"change-admin:non-factory-denom", fmt.Sprintf("%s: admin of %q set to %q but that denom was never created through the factory", who, ms.Denom, ms.NewAdmin)})
				continue
			}
			if !sameAccount(t.Admin, act.Addr) {
				fs = append(fs, finding{"change-admin:by-non-admin", fmt.Sprintf("%s: admin of %q set to %q but the current admin is %q", who, ms.Denom, ms.NewAdmin, t.Admin)})
			}
			t.Admin = ms.NewAdmin
		case "setmeta":
			base := ""
			if ms.Meta != nil {
				base = ms.Meta.Base
			}
			t, ok := m.tokens[base]
			if !ok {
				fs = append(fs, finding{"set-metadata:non-factory-denom", fmt.Sprintf("%s: metadata of %q set but that denom was never created through the factory", who, base)})
			} else if !sameAccount(t.Admin, act.Addr) {
				fs = append(fs, finding{"set-metadata:by-non-admin", fmt.Sprintf("%s: metadata of %q set but the current admin is %q", who, base, t.Admin)})
			}
			if ms.Meta != nil {
				m.meta[base] = canonMeta(ms.Meta)
			}
		case "send":
			// environment operation (plain bank transfer between users), not a factory message
			amt := ms.amount()
			m.addBal(ms.Denom, act.Bech, new(big.Int).Neg(amt))
			m.addBal(ms.Denom, ms.To, amt)
		case "grant":
			// environment operation: fee allowance granter (= signer) -> grantee
			m.setGrant(ms.Creator, ms.To, true)
		case "revoke":
			m.setGrant(ms.Creator, ms.To, false)
		}
	}
	if ci < len(newDenoms) {
		fs = append(fs, finding{"create:unrequested-denom-reported", fmt.Sprintf("tx signed by %s reported new denoms %v beyond its create messages", users[signerIdx].Bech, newDenoms[ci:])})
	}
	return fs, created, delegatedKinds
}

// compare checks the complete observed state against the model. `kinds` labels the signature
// with the message kinds that were executed in the block; createdNow are the denoms created in
// this block (their default bank metadata and the creators' fee payments are adopted from the
// observation, see adoptAfterCreate).
func (m *model) compare(o *observed, kindsFor func(denom string, prefer ...string) string) (fs []finding) {
	// supply, every denom
	for _, d := range unionKeys(keysB(m.supply), keysB(o.supply)) {
		want, got := m.supplyOf(d), zeroIfNil(o.supply[d])
		if want.Cmp(got) == 0 {
			continue
		}
		if t, ok := m.tokens[d]; ok {
			fs = append(fs, finding{"state:supply-mismatch/after:" + kindsFor(d, "mint", "burn"), fmt.Sprintf("supply of %q is %s but successful mints %s - successful burns %s = %s", d, got, t.Minted, t.Burned, want)})
		} else {
			fs = append(fs, finding{"state:non-factory-supply-changed/after:" + kindsFor(d, "mint", "burn"), fmt.Sprintf("supply of non-factory denom %q is %s, expected unchanged %s", d, got, want)})
		}
	}
	// explicit statement form: supply == sum(mints) - sum(burns)
	for d, t := range m.tokens {
		want := new(big.Int).Sub(t.Minted, t.Burned)
		if got := zeroIfNil(o.supply[d]); want.Cmp(got) != 0 && m.supplyOf(d).Cmp(got) == 0 {
			fs = append(fs, finding{"state:supply-mismatch/after:" + kindsFor(d, "mint", "burn"), fmt.Sprintf("supply of %q is %s but mints %s - burns %s = %s", d, got, t.Minted, t.Burned, want)})
		}
	}
	// balances, every denom and account
	var denoms []string
	for d := range m.bal {
		denoms = append(denoms, d)
	}
	for d := range o.bal {
		denoms = append(denoms, d)
	}
	for _, d := range unionKeys(denoms, nil) {
		var addrs []string
		for a := range m.bal[d] {
			addrs = append(addrs, a)
		}
		for a := range o.bal[d] {
			addrs = append(addrs, a)
		}
		for _, a := range unionKeys(addrs, nil) {
			want, got := m.balance(d, a), zeroIfNil(o.bal[d][a])
			if want.Cmp(got) != 0 {
				cls := "factory"
				if _, ok := m.tokens[d]; !ok {
					cls = "non-factory"
				}
				fs = append(fs, finding{"state:balance-mismatch/after:" + kindsFor(d, "mint", "burn", "send"), fmt.Sprintf("balance of %s in %s denom %q is %s, the model (only the acting admin's balance moves) says %s", a, cls, d, got, want)})
			}
		}
	}
	// bank metadata, every entry
	var bases []string
	for b := range m.meta {
		bases = append(bases, b)
	}
	for b := range o.meta {
		bases = append(bases, b)
	}
	for _, b := range unionKeys(bases, nil) {
		if m.meta[b] != o.meta[b] {
			fs = append(fs, finding{"state:metadata-mismatch/after:" + kindsFor(b, "setmeta", "create"), fmt.Sprintf("bank metadata of %q is %s, the model (only a successful set by the admin changes it) says %s", b, short(o.meta[b]), short(m.meta[b]))})
		}
	}
	// authority metadata: exactly the created denoms, with the model's admin
	var ds []string
	for d := range m.tokens {
		ds = append(ds, d)
	}
	for d := range o.admin {
		ds = append(ds, d)
	}
	for _, d := range unionKeys(ds, nil) {
		t, inModel := m.tokens[d]
		got, inStore := o.admin[d]
		switch {
		case inModel && !inStore:
			fs = append(fs, finding{"state:authority-metadata-missing/after:" + kindsFor(d, "chadmin", "create"), fmt.Sprintf("factory token %q (admin %q) has no authority metadata in the store", d, t.Admin)})
		case !inModel && inStore:
			fs = append(fs, finding{"state:authority-metadata-for-uncreated-denom/after:" + kindsFor(d, "chadmin", "create"), fmt.Sprintf("store holds authority metadata (admin %q) for %q which no successful create produced", got, d)})
		case t.Admin != got:
			fs = append(fs, finding{"state:admin-mismatch/after:" + kindsFor(d, "chadmin", "create"), fmt.Sprintf("admin of %q is %q in the store, the model (only the admin hands the role over) says %q", d, got, t.Admin)})
		}
	}
	return fs
}

// adoptAfterCreate: a successful create pays the configured creation fee (bond denom) and writes
// a default bank metadata entry. Neither amount nor content is part of the property, so for
// blocks that contain a successful create the model adopts (a) the bank metadata of the NEW
// denoms and (b) the balances of non-factory denoms, provided their supply did not change (that
// is checked separately and stays a violation).
func (m *model) adoptAfterCreate(o *observed, created []string) (feeMoved *big.Int) {
	for _, d := range created {
		if v, ok := o.meta[d]; ok {
			m.meta[d] = v
		}
	}
	feeMoved = new(big.Int)
	var denoms []string
	for d := range m.bal {
		denoms = append(denoms, d)
	}
	for d := range o.bal {
		denoms = append(denoms, d)
	}
	for _, d := range unionKeys(denoms, nil) {
		if _, ok := m.tokens[d]; ok {
			continue
		}
		// movement = sum of positive deltas
		var addrs []string
		for a := range m.bal[d] {
			addrs = append(addrs, a)
		}
		for a := range o.bal[d] {
			addrs = append(addrs, a)
		}
		for _, a := range unionKeys(addrs, nil) {
			delta := new(big.Int).Sub(zeroIfNil(o.bal[d][a]), m.balance(d, a))
			if delta.Sign() > 0 {
				feeMoved.Add(feeMoved, delta)
			}
		}
		nm := map[string]*big.Int{}
		for a, v := range o.bal[d] {
			nm[a] = new(big.Int).Set(v)
		}
		m.bal[d] = nm
	}
	return feeMoved
}

func zeroIfNil(v *big.Int) *big.Int {
	if v == nil {
		return new(big.Int)
	}
	return v
}

func keysB(m map[string]*big.Int) []string {
	var k []string
	for d := range m {
		k = append(k, d)
	}
	return k
}

func unionKeys(a, b []string) []string {
	seen := map[string]struct{}{}
	var out []string
	for _, l := range [][]string{a, b} {
		for _, k := range l {
			if _, ok := seen[k]; !ok {
				seen[k] = struct{}{}
				out = append(out, k)
			}
		}
	}
	sort.Strings(out)
	return out
}

func short(s string) string {
	if s == "" {
		return "<none>"
	}
	if len(s) > 96 {
		return s[:96] + "..."
	}
	return s
}
