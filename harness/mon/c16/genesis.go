package c16

import (
	"fmt"
	"sort"

	sdk "github.com/cosmos/cosmos-sdk/types"
	tftypes "github.com/palomachain/paloma/v2/x/tokenfactory/types"

	"verif/harness/chain"
	"verif/harness/fw"
)

// genesisProbe: on a throw-away fork the token factory's state goes through the module's own
// genesis round trip (ExportGenesis -> JSON -> Validate -> InitGenesis into an EMPTIED module
// store, as after a restart from an exported genesis; the bank state stays as it is). "Only its
// current admin" controls a token: the import may not hand any token to somebody else - the admin
// of every denomination (renounced, handed over, kept) must be what it was, and the account that
// created a token whose admin role went elsewhere must still be refused when it mints.
func genesisProbe(ch *chain.Chain, m *model, users []*chain.Account, rec *fw.Recorder, step int) {
	live := observe(ch)
	if len(live.admin) == 0 {
		return
	}
	fctx := ch.Fork(ch.Height+1, ch.Time)
	k := ch.App.TokenFactoryKeeper
	var gs tftypes.GenesisState
	problem := func() (msg string) {
		defer func() {
			if e := recover(); e != nil {
				msg = fmt.Sprint("panic: ", e)
			}
		}()
		exp := k.ExportGenesis(fctx)
		bz, err := ch.App.AppCodec().MarshalJSON(exp)
		if err != nil {
			return "marshal: " + err.Error()
		}
		if err := ch.App.AppCodec().UnmarshalJSON(bz, &gs); err != nil {
			return "unmarshal: " + err.Error()
		}
		if err := gs.Validate(); err != nil {
			return "validate: " + err.Error()
		}
		st := ch.KVStore(fctx, tftypes.StoreKey)
		var keys [][]byte
		it := st.Iterator(nil, nil)
		for ; it.Valid(); it.Next() {
			keys = append(keys, append([]byte(nil), it.Key()...))
		}
		it.Close()
		for _, key := range keys {
			st.Delete(key)
		}
		k.InitGenesis(fctx, gs)
		return ""
	}()
	if problem != "" {
		// a round trip that cannot be made is not something the statement speaks about
		rec.Count("genesis_round_trip_not_possible", 1)
		rec.Sample(map[string]any{"note": "token factory genesis round trip failed", "step": step, "problem": problem})
		return
	}
	rec.Count("genesis_round_trips", 1)
	denoms := make([]string, 0, len(live.admin))
	for d := range live.admin {
		denoms = append(denoms, d)
	}
	sort.Strings(denoms)
	for _, d := range denoms {
		before := live.admin[d]
		am, err := k.GetAuthorityMetadata(fctx, d)
		rec.Eval(1)
		cr, _, derr := tftypes.DeconstructDenom(d)
		class := "kept-by-creator"
		switch {
		case before == "":
			class = "renounced"
		case derr == nil && before != cr:
			class = "handed-over"
			if a, aerr := sdk.AccAddressFromBech32(cr); aerr == nil && sameAccount(before, a) {
				class = "kept-by-creator" // the creator's own account under another spelling
			}
		}
		rec.Count("genesis_round_trip_admins_checked/"+class, 1)
		if err != nil || am.Admin != before {
			rec.Violation("genesis-import:admin-changed/"+class,
				fmt.Sprintf("step %d: after the token factory's own export/import round trip the admin of %s is %q, it was %q (%s)", step, d, am.Admin, before, class),
				map[string]any{"step": step, "denom": d, "admin_before": before, "admin_after": am.Admin, "error": fmt.Sprint(err), "exported_denoms": len(gs.FactoryDenoms)})
			return
		}
		// the creator of a token it no longer administers tries to mint after the import
		if class != "kept-by-creator" && derr == nil {
			msg := &tftypes.MsgMint{Amount: sdk.NewInt64Coin(d, 1)}
			msg.Metadata.Creator = cr
			msg.Metadata.Signers = []string{cr}
			h := ch.App.MsgServiceRouter().Handler(msg)
			cctx, _ := fctx.CacheContext()
			_, herr := func() (res *sdk.Result, err error) {
				defer func() {
					if e := recover(); e != nil {
						err = fmt.Errorf("panic: %v", e)
					}
				}()
				return h(cctx, msg)
			}()
			rec.Eval(1)
			if herr == nil {
				rec.Violation("genesis-import:mint-by-former-admin-accepted/"+class,
					fmt.Sprintf("step %d: after the export/import round trip the creator %s minted %s although its admin is %q", step, cr, d, before),
					map[string]any{"step": step, "denom": d, "admin_before": before})
				return
			}
			rec.Count("genesis_round_trip_former_admin_refused", 1)
		}
	}
	_ = m
	_ = users
}
