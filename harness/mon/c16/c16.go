// Package c16: only a factory token's admin controls it; supply equals mints minus burns.
//
// Deciding step: the REAL paloma app (chain.New, ABCI mode, every message in a signed transaction
// through the complete ante chain) executes seeded histories of create / mint / burn /
// change-admin / set-metadata (plus plain bank transfers as environment). Beside it runs a
// map-based reference model (denoms -> admin, minted, burned; balances; supply; bank metadata).
// After every block the monitor
//   - judges every SUCCESSFUL transaction against the model (was the acting party - the signer, or
//     the granter of a fee allowance it signs for - the current admin?
//     was the denom created through the factory? is a new denom inside factory/<signer>/ and new?),
//   - compares the COMPLETE observed state (all bank balances of all accounts, all supplies, all
//     bank metadata entries, the whole tokenfactory store) with the model in exact big-int
//     arithmetic: any movement the model does not explain is a violation.
//
// Second entry point (wasm.go): contract accounts emit the custom messages of the token factory's
// wasm binding (create_denom / mint_tokens / burn_tokens / change_admin / set_metadata) through the
// custom-message router app.go installs in front of the wasm keeper; same model, same oracle, the
// contract address is the acting party.
package c16

import (
	"fmt"
	"math/big"
	"sort"
	"strings"
	"time"

	sdkmath "cosmossdk.io/math"
	"cosmossdk.io/x/feegrant"
	codectypes "github.com/cosmos/cosmos-sdk/codec/types"
	sdk "github.com/cosmos/cosmos-sdk/types"
	banktypes "github.com/cosmos/cosmos-sdk/x/bank/types"
	"github.com/cosmos/gogoproto/proto"

	tftypes "github.com/palomachain/paloma/v2/x/tokenfactory/types"
	valsettypes "github.com/palomachain/paloma/v2/x/valset/types"

	"verif/harness/chain"
	"verif/harness/fw"
)

type params struct {
	Len int `json:"len"`
}

const (
	richFunds = 1_000_000_000_000 // ugrain; the default creation fee is 10_000_000
	poorFunds = 25_000_000        // pays for two creations, the third must fail
)

func buildMsg(ms msgSpec, now time.Time) (msg sdk.Msg, err error) {
	defer func() {
		if e := recover(); e != nil {
			err = fmt.Errorf("cannot build message: %v", e)
		}
	}()
	md := valsettypes.MsgMetadata{Creator: ms.Creator, Signers: ms.Signers}
	switch ms.K {
	case "create":
		return &tftypes.MsgCreateDenom{Subdenom: ms.Sub, Metadata: md}, nil
	case "mint":
		return &tftypes.MsgMint{Amount: sdk.Coin{Denom: ms.Denom, Amount: sdkmath.NewIntFromBigInt(ms.amount())}, Metadata: md}, nil
	case "burn":
		return &tftypes.MsgBurn{Amount: sdk.Coin{Denom: ms.Denom, Amount: sdkmath.NewIntFromBigInt(ms.amount())}, Metadata: md}, nil
	case "chadmin":
		return &tftypes.MsgChangeAdmin{Denom: ms.Denom, NewAdmin: ms.NewAdmin, Metadata: md}, nil
	case "setmeta":
		m := banktypes.Metadata{}
		if ms.Meta != nil {
			m = *ms.Meta
		}
		return &tftypes.MsgSetDenomMetadata{DenomMetadata: m, Metadata: md}, nil
	case "send":
		return &banktypes.MsgSend{FromAddress: ms.Creator, ToAddress: ms.To,
			Amount: sdk.Coins{sdk.Coin{Denom: ms.Denom, Amount: sdkmath.NewIntFromBigInt(ms.amount())}}}, nil
	case "grant":
		al := &feegrant.BasicAllowance{}
		switch ms.Variant {
		case "spend-limit":
			al.SpendLimit = sdk.NewCoins(sdk.NewInt64Coin(chain.Denom, 1))
		case "expiring":
			exp := now.Add(time.Duration(ms.ExpIn) * time.Second)
			al.Expiration = &exp
		}
		a, err := codectypes.NewAnyWithValue(al)
		if err != nil {
			return nil, err
		}
		return &feegrant.MsgGrantAllowance{Granter: ms.Creator, Grantee: ms.To, Allowance: a}, nil
	case "revoke":
		return &feegrant.MsgRevokeAllowance{Granter: ms.Creator, Grantee: ms.To}, nil
	}
	return nil, fmt.Errorf("unknown kind %q", ms.K)
}

// newDenomsOf extracts the denominations reported by MsgCreateDenomResponse in a tx result
func newDenomsOf(res chain.TxResult) []string {
	var d sdk.TxMsgData
	if err := proto.Unmarshal(res.Data, &d); err != nil {
		return nil
	}
	var out []string
	for _, a := range d.MsgResponses {
		if a == nil || !strings.HasSuffix(a.TypeUrl, "MsgCreateDenomResponse") {
			continue
		}
		var r tftypes.MsgCreateDenomResponse
		if err := proto.Unmarshal(a.Value, &r); err == nil {
			out = append(out, r.NewTokenDenom)
		}
	}
	return out
}

func kindsOf(txs []txSpec, only []bool) string {
	set := map[string]struct{}{}
	for i, tx := range txs {
		if only != nil && !only[i] {
			continue
		}
		for _, m := range tx.Msgs {
			set[m.K] = struct{}{}
		}
	}
	var ks []string
	for k := range set {
		ks = append(ks, k)
	}
	sort.Strings(ks)
	return strings.Join(ks, "+")
}

func supplyClass(v *big.Int) string {
	switch {
	case v.Sign() == 0:
		return "0"
	case v.Cmp(p64) < 0:
		return "<2^64"
	case v.Cmp(max256) == 0:
		return "max"
	case v.Cmp(p255) >= 0:
		return ">=2^255"
	}
	return ">=2^64"
}

type histStats struct {
	ok  map[string]int
	rej map[string]int
}

func run(c fw.Case, tier string, rec *fw.Recorder) {
	var p params
	c.Decode(&p)
	r := c.Rand()

	vals := chain.DefaultValidators("c16", []int64{10_000_000})
	var users []*chain.Account
	funds := map[*chain.Account]sdk.Coins{}
	for i := 0; i < 5; i++ {
		u := chain.NewAccount(fmt.Sprintf("u%d", i), fmt.Sprintf("c16/user/%d", i))
		users = append(users, u)
		amt := int64(richFunds)
		if i == 4 {
			amt = poorFunds
		}
		funds[u] = sdk.NewCoins(sdk.NewInt64Coin(chain.Denom, amt))
	}
	ch := chain.New(chain.Config{Validators: vals, Users: funds})
	defer ch.Close()
	if br := ch.NextBlock(); br.Panic != "" || br.Err != nil {
		rec.Inconclusive(fmt.Sprintf("first block failed: %v %s", br.Err, br.Panic))
		return
	}
	o0 := observe(ch)
	if len(o0.admin) != 0 {
		rec.Inconclusive("tokenfactory store not empty at genesis")
		return
	}
	fee := ch.App.TokenFactoryKeeper.GetParams(ch.Ctx()).DenomCreationFee
	if c.Name == "hist-000" {
		rec.Sample(map[string]any{"creation_fee_at_genesis": fee.String(), "users": len(users), "rich_funds": richFunds, "poor_funds": poorFunds})
	}

	contracts := contractAccts()
	wasm, err := newWasmEntry(ch)
	if err != nil {
		rec.Inconclusive("cannot build the wasm custom-message router: " + err.Error())
		return
	}
	m := newModel(o0)
	g := newGen(r, users, m, vals[0].Acct, contracts)
	stats := histStats{ok: map[string]int{}, rej: map[string]int{}}
	var recent []any
	var sampleOps []string

	for step := 0; step < p.Len; step++ {
		b := g.next()
		rec.Op(b)
		// a block is either a set of signed transactions or a set of contract calls (wasm binding)
		nw := 0
		for _, tx := range b.Txs {
			if tx.Via == viaWasm {
				nw++
			}
		}
		if nw != 0 && nw != len(b.Txs) {
			rec.Inconclusive(fmt.Sprintf("step %d: generator mixed signed transactions and contract calls in one block", b.Step))
			return
		}
		// per transaction of the block: nil = could not be built / signed (never executed)
		type outcome struct {
			ok        bool
			code      uint32
			log       string
			newDenoms []string
			raw       []string
		}
		outs := make([]*outcome, len(b.Txs))
		if nw > 0 {
			// contract calls: dispatched now through the binding's router (all-or-nothing per call), the
			// following block is empty
			for i, tx := range b.Txs {
				if tx.Signer < 0 || tx.Signer >= len(contracts) {
					rec.Inconclusive(fmt.Sprintf("step %d: no contract #%d", b.Step, tx.Signer))
					return
				}
				cr := wasm.call(ch, contracts[tx.Signer].Addr, tx.Msgs)
				o := &outcome{ok: cr.OK, log: cr.Err, newDenoms: cr.NewDenoms, raw: cr.Raw}
				if !cr.OK {
					o.code = 1
				}
				outs[i] = o
			}
		}
		// sign + queue
		seqOff := map[int]uint64{}
		var live []int // indices into b.Txs of the signed txs actually in the block
		for i, tx := range b.Txs {
			if nw > 0 {
				break
			}
			var msgs []sdk.Msg
			berr := ""
			for _, ms := range tx.Msgs {
				mm, err := buildMsg(ms, ch.Time)
				if err != nil {
					berr = err.Error()
					break
				}
				msgs = append(msgs, mm)
			}
			if berr == "" {
				func() {
					defer func() {
						if e := recover(); e != nil {
							berr = fmt.Sprintf("cannot sign: %v", e)
						}
					}()
					if err := ch.QueueTx(users[tx.Signer], seqOff[tx.Signer], msgs...); err != nil {
						berr = err.Error()
					}
				}()
			}
			if berr == "" {
				seqOff[tx.Signer]++
				live = append(live, i)
			} else {
				rec.Count("tx_unbuildable", 1)
			}
		}
		br := ch.NextBlock()
		if br.Panic != "" || br.Err != nil {
			rec.Op(map[string]any{"step": b.Step, "finalize_block_failed": fmt.Sprint(br.Err) + br.Panic})
			rec.Violation("finalize-block:panic-or-error/"+kindsOf(b.Txs, nil),
				fmt.Sprintf("FinalizeBlock failed while executing token-factory messages: %v %s", br.Err, firstLine(br.Panic)),
				map[string]any{"block": b, "recent": recent})
			return
		}
		if len(br.Txs) != len(live) {
			rec.Inconclusive(fmt.Sprintf("step %d: %d tx results for %d queued txs", b.Step, len(br.Txs), len(live)))
			return
		}
		for li, i := range live {
			res := br.Txs[li]
			o := &outcome{ok: res.OK(), code: res.Code, log: res.Log}
			if res.OK() {
				o.newDenoms = newDenomsOf(res)
			}
			outs[i] = o
		}
		rec.Count("blocks", 1)

		// judge + apply
		var findings []finding
		okMask := make([]bool, len(b.Txs))
		deleg := make([][]bool, len(b.Txs)) // per message: does it act for a granter (model state when its tx ran)?
		var created []string
		anyOK := false
		var results []map[string]any
		for i, tx := range b.Txs {
			o := outs[i]
			if o == nil {
				continue
			}
			if tx.Via == viaWasm {
				c := contracts[tx.Signer]
				results = append(results, map[string]any{"contract": tx.Signer, "code": o.code, "log": short(o.log), "custom_msgs": o.raw})
				classifyCall(rec, g, m, c, tx, o.ok, &stats)
				if !o.ok {
					// a failed call must leave no trace: nothing is applied to the model
					continue
				}
				anyOK = true
				okMask[i] = true
				fs, cr := m.applyCall(tx.Signer, c, tx, o.newDenoms)
				findings = append(findings, fs...)
				created = append(created, cr...)
				rec.Eval(int64(len(tx.Msgs)))
				continue
			}
			results = append(results, map[string]any{"signer": tx.Signer, "code": o.code, "log": short(o.log)})
			rec.Count("txs", 1)
			rec.Count("msgs", int64(len(tx.Msgs)))
			pre := m // state before this tx (model is mutated in place below; classify first)
			deleg[i] = make([]bool, len(tx.Msgs))
			for j, ms := range tx.Msgs {
				_, deleg[i][j] = pre.acting(users, tx.Signer, ms)
			}
			classifyTx(rec, g, pre, users, tx, o.ok, &stats)
			if !o.ok {
				// a rejected transaction must leave no trace: nothing is applied to the model
				continue
			}
			anyOK = true
			okMask[i] = true
			fs, cr, dk := m.applyTx(users, tx.Signer, tx, o.newDenoms)
			findings = append(findings, fs...)
			created = append(created, cr...)
			for _, k := range dk {
				rec.Count("delegated_"+k+"_ok", 1)
				stats.ok["delegated"]++
			}
			rec.Eval(int64(len(tx.Msgs)))
		}
		rec.Op(map[string]any{"step": b.Step, "results": results})

		o := observe(ch)
		// signature label: the kinds of the (successful, else all) messages that name the denom
		// the discrepancy is about; falls back to all kinds of the block
		createdBy := map[string]bool{}
		for _, d := range created {
			createdBy[d] = true
		}
		kindsFor := func(denom string, prefer ...string) string {
			set := map[string]string{} // label -> kind; a message that acted for a granter is labelled delegated-<kind>
			collect := func(onlyOK, match bool) {
				for i, tx := range b.Txs {
					if onlyOK && !okMask[i] {
						continue
					}
					for j, ms := range tx.Msgs {
						// the denoms the message names (a binding message may name two: the denom it is
						// authorised against and the Base of its metadata)
						names := []string{ms.Denom}
						if ms.K == "setmeta" && ms.Meta != nil {
							names = []string{ms.Meta.Base}
						}
						if isWasmKind(ms.K) && ms.Meta != nil {
							names = append(names, ms.Meta.Base)
						}
						if baseKind(ms.K) == "create" && createdBy[denom] && onlyOK {
							names = append(names, denom)
						}
						hit := !match
						for _, d := range names {
							hit = hit || d == denom
						}
						if hit {
							label := ms.K
							if deleg[i] != nil && deleg[i][j] {
								label = "delegated-" + ms.K
							}
							set[label] = baseKind(ms.K)
						}
					}
				}
			}
			prefix := ""
			if anyOK {
				collect(true, true)
				if len(set) == 0 {
					collect(true, false)
				}
			} else {
				prefix = "rejected:"
				collect(false, true)
				if len(set) == 0 {
					collect(false, false)
				}
			}
			var ks, pk []string
			for label, k := range set {
				ks = append(ks, label)
				for _, p := range prefer {
					if p == k {
						pk = append(pk, label)
					}
				}
			}
			if len(pk) > 0 {
				ks = pk
			}
			sort.Strings(ks)
			return prefix + strings.Join(ks, "+")
		}
		if len(created) > 0 {
			moved := m.adoptAfterCreate(o, created)
			rec.Count("create_fee_ugrain_moved", moved.Int64())
		}
		findings = append(findings, m.compare(o, kindsFor)...)
		if n := m.adoptGrants(o); n > 0 {
			// environment, not part of the verdict: an allowance expired (fee-grant end-blocker)
			rec.Count("allowances_changed_outside_messages", int64(n))
		}
		if m.grantCount() > 0 {
			rec.Count("blocks_with_allowances", 1)
		}
		nobs := int64(len(o.supply) + len(o.meta) + len(o.admin))
		for _, mm := range o.bal {
			nobs += int64(len(mm))
		}
		rec.Eval(nobs)
		rec.Count("state_comparisons", 1)
		if len(o.unknown) > 0 {
			rec.Count("tokenfactory_store_unknown_keys", int64(len(o.unknown)))
		}
		// the creator index is not part of the property: informational only
		for d := range m.tokens {
			if cr, ok := o.creators[d]; !ok || !strings.HasPrefix(d, "factory/"+cr+"/") {
				rec.Count("creator_index_oddities", 1)
			}
		}

		entry := map[string]any{"block": b, "results": results}
		recent = append(recent, entry)
		if len(recent) > 25 {
			recent = recent[1:]
		}
		if len(sampleOps) < 40 {
			sampleOps = append(sampleOps, describe(b, results))
		}
		if len(findings) == 0 && (step == p.Len/2 || step == p.Len-1) {
			genesisProbe(ch, m, users, rec, step)
		}
		if len(findings) > 0 {
			state := map[string]any{}
			for d, t := range m.tokens {
				state[d] = map[string]string{"admin": t.Admin, "minted": t.Minted.String(), "burned": t.Burned.String(), "supply_observed": zeroIfNil(o.supply[d]).String()}
			}
			seen := map[string]bool{}
			for _, f := range findings {
				if seen[f.sig] {
					continue
				}
				seen[f.sig] = true
				rec.Violation(f.sig, fmt.Sprintf("step %d: %s", b.Step, f.msg), map[string]any{
					"step": b.Step, "block": b, "results": results, "all_findings": findingStrings(findings),
					"model_tokens": state, "history_tail": recent,
					"users": userList(users), "contracts": contractList(contracts),
				})
			}
			return // the model no longer mirrors the chain; stop this history
		}
	}

	// history-level evidence
	rec.Count("histories", 1)
	rec.Count("tokens_created", int64(len(m.tokens)))
	nontrivial := stats.ok["create"] > 0 && stats.ok["mint"] > 0 && stats.ok["burn"] > 0 && stats.ok["chadmin"] > 0 &&
		stats.rej["nonadmin"] > 0
	if nontrivial {
		rec.Count("histories_nontrivial", 1)
	}
	rec.Sample(map[string]any{"case": c.Name, "first_ops": sampleOps, "tokens": len(m.tokens)})
}

func findingStrings(fs []finding) []string {
	var out []string
	for _, f := range fs {
		out = append(out, f.sig+": "+f.msg)
	}
	return out
}

func userList(us []*chain.Account) []string {
	var out []string
	for i, u := range us {
		out = append(out, fmt.Sprintf("%d=%s", i, u.Bech))
	}
	return out
}

func contractList(cs []contractAcct) []string {
	var out []string
	for i, c := range cs {
		out = append(out, fmt.Sprintf("%d=%s (%d bytes)", i, c.Bech, len(c.Addr)))
	}
	return out
}

func firstLine(s string) string {
	if i := strings.Index(s, "\n"); i >= 0 {
		return s[:i]
	}
	return s
}

func describe(b blockSpec, results []map[string]any) string {
	var sb strings.Builder
	ri := 0
	for _, tx := range b.Txs {
		if tx.Via == viaWasm {
			sb.WriteString(fmt.Sprintf("contract%d[", tx.Signer))
		} else {
			sb.WriteString(fmt.Sprintf("u%d[", tx.Signer))
		}
		for i, ms := range tx.Msgs {
			if i > 0 {
				sb.WriteString("; ")
			}
			switch ms.K {
			case "create":
				sb.WriteString(fmt.Sprintf("create %q", ms.Sub))
			case "mint", "burn", "send":
				sb.WriteString(fmt.Sprintf("%s %s(%s) %s", ms.K, ms.AmtClass, trunc(ms.Amt, 12), tail(ms.Denom)))
			case "chadmin":
				sb.WriteString(fmt.Sprintf("chadmin %s -> %s", tail(ms.Denom), ms.Variant))
			case "setmeta":
				sb.WriteString(fmt.Sprintf("setmeta %s (%s)", tail(ms.Denom), ms.Variant))
			case "grant", "revoke":
				sb.WriteString(fmt.Sprintf("%s allowance -> %s (%s)", ms.K, trunc(ms.To[len(ms.To)-4:], 4), ms.Variant))
			case "wasm-create":
				sb.WriteString(fmt.Sprintf("create_denom %q %s", ms.Sub, ms.Variant))
			case "wasm-mint", "wasm-burn":
				sb.WriteString(fmt.Sprintf("%s %s(%s) %s %s", ms.K, ms.AmtClass, trunc(ms.Amt, 12), tail(ms.Denom), ms.Variant))
			case "wasm-chadmin":
				sb.WriteString(fmt.Sprintf("change_admin %s -> %s", tail(ms.Denom), ms.Variant))
			case "wasm-setmeta":
				sb.WriteString(fmt.Sprintf("set_metadata %s (%s)", tail(ms.Denom), ms.Variant))
			}
			if ms.CreatorClass != "" && ms.CreatorClass != "self" {
				sb.WriteString(" as:" + ms.CreatorClass)
			}
		}
		sb.WriteString("]")
		if ri < len(results) {
			if results[ri]["code"].(uint32) == 0 {
				sb.WriteString("=ok ")
			} else {
				sb.WriteString(fmt.Sprintf("=rej(%d) ", results[ri]["code"]))
			}
			ri++
		}
	}
	return strings.TrimSpace(sb.String())
}

func trunc(s string, n int) string {
	if len(s) > n {
		return s[:n] + "…"
	}
	return s
}

// tail shortens factory/<addr>/<sub> to f/<last 4 of addr>/<sub>
func tail(d string) string {
	p := strings.SplitN(d, "/", 3)
	if len(p) == 3 && p[0] == "factory" && len(p[1]) > 6 {
		return "f/" + p[1][len(p[1])-4:] + "/" + p[2]
	}
	return trunc(d, 24)
}

// classifyTx feeds counters and the coverage key (distinct abstract transitions). It reads the
// model BEFORE the transaction is applied. Purely evidence: it never produces a verdict.
func classifyTx(rec *fw.Recorder, g *gen, m *model, users []*chain.Account, tx txSpec, ok bool, st *histStats) {
	out := "rejected"
	if ok {
		out = "ok"
	}
	if len(tx.Msgs) != 1 {
		rec.Count("multimsg_tx_"+out, 1)
		if ok {
			for _, ms := range tx.Msgs {
				st.ok[ms.K]++
				rec.Count(ms.K+"_ok", 1)
			}
		}
		var ks []string
		for _, ms := range tx.Msgs {
			ks = append(ks, ms.K+":"+ms.DenomClass+":"+ms.AmtClass+ms.Variant)
		}
		rec.Distinct("multi|" + strings.Join(ks, ",") + "|" + out)
		return
	}
	ms := tx.Msgs[0]
	actIdx, delegated := m.acting(users, tx.Signer, ms)
	signer := users[actIdx] // the account the message acts for: the key holder, or the granter it signs for
	rec.Count(ms.K+"_"+out, 1)
	if ok {
		st.ok[ms.K]++
	}
	key := []string{ms.K, ms.DenomClass, ms.CreatorClass, ms.AmtClass, ms.Variant, out}
	if delegated {
		key = append(key, "delegated")
		if !ok {
			rec.Count("delegated_"+ms.K+"_rejected", 1)
		}
	} else if ci := g.userIdxOf(ms.Creator); ci >= 0 && ci != tx.Signer && ms.K != "send" && ms.K != "grant" && ms.K != "revoke" {
		// creator = another user, signer holds no allowance from it: the ante chain must refuse
		what := "no_allowance"
		if m.hasGrant(users[tx.Signer].Bech, users[ci].Bech) {
			what = "reverse_allowance_only"
		}
		if ok {
			rec.Count("foreign_creator_accepted_"+what, 1) // the oracle judges it as the signer's own action
		} else {
			rec.Count("foreign_creator_rejected_"+what, 1)
		}
		key = append(key, what)
	}
	switch ms.K {
	case "grant", "revoke":
		key = append(key, fmt.Sprint(m.hasGrant(ms.Creator, ms.To)))
	case "create":
		d := "factory/" + signer.Bech + "/" + ms.Sub
		_, exists := m.tokens[d]
		if exists {
			key = append(key, "exists")
			if !ok && ms.CreatorClass == "self" {
				rec.Count("create_rejected_existing", 1)
			}
			if !ok && delegated {
				rec.Count("delegated_create_rejected_existing", 1)
			}
		}
		if !ok && ms.CreatorClass != "self" && !delegated {
			rec.Count("create_rejected_foreign_creator_field", 1)
		}
	case "mint", "burn", "chadmin", "setmeta":
		t, isTok := m.tokens[ms.Denom]
		if !isTok {
			key = append(key, "not-a-token")
			if !ok {
				rec.Count(ms.K+"_rejected_nonfactory", 1)
			}
			break
		}
		role := "other"
		switch {
		case sameAccount(t.Admin, signer.Addr):
			role = "admin"
		case t.CreatorIdx == actIdx:
			role = "creator-not-admin"
		case m.balance(ms.Denom, signer.Bech).Sign() > 0:
			role = "holder"
		}
		adminKind := "other-user"
		switch {
		case t.Admin == "":
			adminKind = "nobody"
		case t.CreatorIdx >= 0 && sameAccount(t.Admin, users[t.CreatorIdx].Addr):
			adminKind = "creator"
		case g.contractIdxOf(t.Admin) >= 0:
			adminKind = "contract"
		case g.adminIdx(ms.Denom) < 0:
			adminKind = "non-user"
		}
		if t.Admin != strings.ToLower(t.Admin) {
			adminKind += "-upper"
		}
		key = append(key, role, adminKind, supplyClass(m.supplyOf(ms.Denom)))
		if role != "admin" && ms.CreatorClass == "self" {
			if ok {
				rec.Count(ms.K+"_accepted_nonadmin", 1) // the oracle reports this as a violation
			} else {
				rec.Count(ms.K+"_rejected_nonadmin", 1)
				st.rej["nonadmin"]++
			}
		}
		if ms.CreatorClass != "self" && ms.CreatorClass != "" && !ok && !delegated {
			rec.Count("rejected_foreign_creator_field", 1)
		}
		if role == "admin" && ms.CreatorClass == "self" && !ok {
			rec.Count(ms.K+"_by_admin_rejected", 1) // liveness only (amount 0, overflow, own balance too small, invalid metadata, ...)
		}
		if role == "admin" && ok && !delegated {
			rec.Count(ms.K+"_by_admin_ok", 1)
		}
		if role == "admin" && ok && t.CreatorIdx < 0 {
			rec.Count("user_admin_of_contract_created_token_ok", 1) // role received from a contract (wasm binding) by hand-over
		}
		if delegated {
			// the granter the grantee signs for is / is not the current admin
			if role == "admin" && ok {
				rec.Count("delegated_"+ms.K+"_for_admin_ok", 1)
			}
			if role != "admin" {
				if ok {
					rec.Count("delegated_"+ms.K+"_for_nonadmin_accepted", 1) // the oracle reports this as a violation
				} else {
					rec.Count("delegated_rejected_for_nonadmin", 1)
				}
			}
		}
	}
	rec.Distinct(strings.Join(key, "|"))
}

func cases(tier string, seed int64) []fw.Case {
	n, l := 192, 250
	if tier == "thorough" {
		n, l = 1000, 500
	}
	var cs []fw.Case
	for i := 0; i < n; i++ {
		cs = append(cs, fw.MkCase(fmt.Sprintf("hist-%03d", i), seed*1000003+int64(i)*7919+16, params{Len: l}))
	}
	return cs
}

func init() {
	fw.Register(&fw.Prop{
		ID:    "C16",
		Level: "exploration",
		Rule: "one case = one history on a fresh real chain (1 validator, 4 funded users + 1 user that can pay only two creation fees); " +
			"quick 192 histories x 250 blocks, thorough 1000 x 500. A block holds one signed tx with one message (mostly), one tx with 2-3 messages (atomicity) or 2-3 txs of distinct signers. " +
			"Messages: create / mint / burn / change-admin / set-metadata (+ bank sends as environment) by admin, creator-not-admin, holders and outsiders, " +
			"on existing factory tokens, the native denom, IBC-looking, never-created, upper-case-creator and malformed denoms, sub-denoms with slashes / boundary lengths / invalid characters, " +
			"amounts from {small, 1, 0, negative, 2^63-1, 2^63, 2^64+1, 2^128, 2^255, 2^256-1, fill-to-max, one-over-max}, Metadata.Creator/Signers forged in 7 ways, new admins {user, self, \"\", creator, upper-case, module account, unknown account, valoper, wrong hrp, garbage}; " +
			"scripted take-over / hand-over / renounce / holder-burn / create+mint+hand-over-in-one-tx sub-scenarios are injected at random positions. " +
			"Delegated signing: users grant / revoke fee allowances (basic, spend-limited, expiring) as environment; ~45 % of the honest messages of a user that has a grantee are signed by the grantee instead (Metadata.Creator = granter, Signers = [grantee]), " +
			"and a scripted delegation scenario sends create / mint / burn / set-metadata / change-admin through that route with the controls the ante chain must refuse (before the grant, allowance in the wrong direction only, third party, after revocation). " +
			"Second entry point: 3 contract accounts (32-, 20-, 32-byte addresses, funded by bank sends in the first blocks) act through the wasm binding of the token factory: ~13 % of the fresh blocks are contract calls - the JSON custom messages create_denom (with / without metadata) / mint_tokens / burn_tokens / change_admin / set_metadata of one contract response (1 message, sometimes 2-3 that stand or fall together) dispatched through the custom-message router app.go installs in front of the wasm keeper, with the same hostile denoms / amounts / addresses; " +
			"set_metadata / create_denom metadata name as Base: nothing, the message's denom, somebody else's factory token, the native denom, never-created denoms in a foreign / the own namespace, another token of the same contract, hostile spellings; mint_to_address / burn_from_address / new_admin_address from {self, users, other contract, upper-case, \"\", module / unknown / valoper / wrong-hrp / garbage}; users hand tokens over to contracts and back, send them factory tokens, and both routes operate on each other's tokens; a scripted contract scenario tries every field of the binding on a victim token before / after a hand-over. " +
			"distinct_nontrivial = distinct abstract transitions (message kind, denom class, creator-field class, amount class, variant, outcome, signer role, admin kind, supply class); " +
			"evaluations = messages of successful txs judged against the model + state items (balances, supplies, metadata entries, authority entries) compared after every block",
		Assumptions: []string{
			"histories consist of the five token-factory messages, the five custom messages of the token factory's wasm binding, plus plain bank sends and fee-allowance grants / revocations (environment); no skyway/bridge operations",
			"a contract is represented by its address: its custom messages are handed, as the JSON a contract emits, to the custom-message router built like app/app.go:buildWasmMessageDecorator builds it (bank BaseKeeper + token-factory keeper of the running app), the messages of one response on one cache context that is written back only if all succeeded - what the wasm keeper does after executing contract code; no wasm byte code is executed. The acting party of such a message is the contract address",
			"mint_tokens{mint_to_address} of the binding is a mint into the contract's (admin's) own balance followed by a plain transfer of the new coins by their owner; it is judged as such (supply + amount, recipient + amount)",
			"the bank metadata entry a set_metadata / create_denom{metadata} of the binding changes is the entry of the Base the metadata names (of the message's denom when Base is omitted): the contract must be the current admin of THAT denom, which must be a factory token",
			"'the admin' is an account: an admin string designates the account whose address bytes it decodes to (either bech32 case); \"\" designates nobody",
			"the acting party of a message is the account whose key signed the transaction - unless Metadata.Creator designates another account that has granted the signer a fee allowance (Paloma's delegated signing, admitted by VerifyAuthorisedSignatureDecorator): then it is that creator, and 'the admin' / 'the admin's own balance' / 'its own namespace' are decided for the creator. A foreign creator field without such an allowance gives the signer no rights",
			"the set of fee allowances is environment: successful grant / revoke messages are applied by the model, expiry is adopted from the observed fee-grant store after every block",
			"creation fee amount and the default bank metadata written by create are not part of the property: adopted from the observation (supply of the fee denom must still be unchanged)",
			"a rejected admin action (liveness) is not a violation",
		},
		Cases: cases,
		Run:   run,
		MinCounters: []string{"genesis_round_trips", "genesis_round_trip_admins_checked/renounced", "genesis_round_trip_admins_checked/handed-over", "genesis_round_trip_former_admin_refused",
			"create_ok", "create_rejected_existing", "mint_by_admin_ok", "burn_by_admin_ok", "chadmin_by_admin_ok", "setmeta_by_admin_ok",
			"mint_rejected_nonadmin", "burn_rejected_nonadmin", "chadmin_rejected_nonadmin", "setmeta_rejected_nonadmin",
			"mint_rejected_nonfactory", "burn_rejected_nonfactory", "chadmin_rejected_nonfactory", "setmeta_rejected_nonfactory",
			"rejected_foreign_creator_field",
			"grant_ok", "revoke_ok", "delegated_create_ok", "delegated_mint_ok", "delegated_burn_ok", "delegated_chadmin_ok", "delegated_setmeta_ok",
			"delegated_rejected_for_nonadmin", "foreign_creator_rejected_no_allowance", "foreign_creator_rejected_reverse_allowance_only",
			"multimsg_tx_ok", "multimsg_tx_rejected", "state_comparisons", "histories_nontrivial",
			// the wasm-binding entry point (contracts as acting parties)
			"wasm_calls", "wasm_create_ok", "wasm_create_rejected_existing", "wasm_create_with_metadata_ok",
			"wasm_mint_by_admin_ok", "wasm_burn_by_admin_ok", "wasm_chadmin_by_admin_ok", "wasm_setmeta_by_admin_ok",
			"wasm_mint_rejected_nonadmin", "wasm_burn_rejected_nonadmin", "wasm_chadmin_rejected_nonadmin", "wasm_setmeta_rejected_nonadmin",
			"wasm_mint_rejected_nonfactory", "wasm_burn_rejected_nonfactory", "wasm_chadmin_rejected_nonfactory", "wasm_setmeta_rejected_nonfactory",
			"wasm_setmeta_rejected_foreign_base", "wasm_multimsg_call_ok",
			"wasm_admin_of_foreign_created_token_ok", "user_admin_of_contract_created_token_ok",
		},
		TimeoutS: 600,
	})
}
