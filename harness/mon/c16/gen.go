package c16

import (
	"fmt"
	"math/big"
	"math/rand"
	"sort"
	"strings"

	sdk "github.com/cosmos/cosmos-sdk/types"
	authtypes "github.com/cosmos/cosmos-sdk/x/auth/types"
	banktypes "github.com/cosmos/cosmos-sdk/x/bank/types"

	"verif/harness/chain"
)

// The generator is a biased random walk over the operations of the property's quantifier. It
// looks at the reference model (which mirrors the real state as long as no violation occurred) to
// pick enabled and nearly-enabled operations, and injects scripted "nasty" sub-scenarios
// (take-over attempts, hand-over, renounce, holder burns) at random positions. All choices come
// from the case's PRNG, so a case is re-runnable from fw.Case alone.

var (
	two    = big.NewInt(2)
	p63    = new(big.Int).Exp(two, big.NewInt(63), nil)
	p64    = new(big.Int).Exp(two, big.NewInt(64), nil)
	p128   = new(big.Int).Exp(two, big.NewInt(128), nil)
	p255   = new(big.Int).Exp(two, big.NewInt(255), nil)
	p256   = new(big.Int).Exp(two, big.NewInt(256), nil)
	max256 = new(big.Int).Sub(p256, big.NewInt(1))
)

const ibcDenom = "ibc/27394FB092D2ECCD56123C74F36E4C1F926001CEADA9CA97EA622B25F41E5EB2"

var subPool = []string{
	"a", "b", "tok", "x/y", "a/b/c", "", "ugrain", "UGRAIN", "Tok.1:2-3_4", "a/",
	strings.Repeat("s", 44), strings.Repeat("s", 45), "a b", "a,b", "té", "/", "//x", "factory/a", "a|b",
}

type gen struct {
	r       *rand.Rand
	users   []*chain.Account
	m       *model
	subs    []string
	queue   []blockSpec
	step    int
	strange []string // odd addresses: module account, unknown account, valoper, wrong hrp
	// accounts without a key that act through the wasm binding of the token factory (wasm.go)
	contracts []contractAcct
}

func newGen(r *rand.Rand, users []*chain.Account, m *model, val *chain.Account, contracts []contractAcct) *gen {
	g := &gen{r: r, users: users, m: m, contracts: contracts}
	// small worlds collide more: each history works with a handful of sub-denoms
	n := 3 + r.Intn(5)
	perm := r.Perm(len(subPool))
	g.subs = []string{"a"}
	for _, i := range perm[:n] {
		g.subs = append(g.subs, subPool[i])
	}
	unknown := chain.NewAccount("ghost", "c16/ghost")
	g.strange = []string{
		authtypes.NewModuleAddress("tokenfactory").String(),
		authtypes.NewModuleAddress("distribution").String(),
		unknown.Bech,
		val.ValBech(),
		sdk.MustBech32ifyAddressBytes("cosmos", users[0].Addr),
		"paloma1qqqqqqqqqqqqqqqqqqqqqqqqqqqqqqqqqqqqqq",
		"not-an-address",
	}
	// environment: the contracts receive the funds they pay creation fees with (plain bank sends of
	// the rich users, the first blocks of every history)
	for i, c := range contracts {
		s := i % 4
		g.queue = append(g.queue, one(s, msgSpec{K: "send", Creator: users[s].Bech, Denom: chain.Denom, To: c.Bech,
			Amt: fmt.Sprint(contractFunds[i%len(contractFunds)]), Variant: "fund-contract"}, "fund-contract"))
	}
	return g
}

func (g *gen) pct(p int) bool { return g.r.Intn(100) < p }

func (g *gen) tokenList() []string {
	var ds []string
	for d := range g.m.tokens {
		ds = append(ds, d)
	}
	sort.Strings(ds)
	return ds
}

func (g *gen) userIdx(bech string) int {
	for i, u := range g.users {
		if u.Bech == bech {
			return i
		}
	}
	return -1
}

// userIdxOf: index of the user an address string designates (either bech32 case), -1 if none
func (g *gen) userIdxOf(addr string) int {
	for i, u := range g.users {
		if sameAccount(addr, u.Addr) {
			return i
		}
	}
	return -1
}

// grantees: users holding a fee allowance from user s (sorted by index)
func (g *gen) grantees(s int) []int {
	var hs []int
	for i, u := range g.users {
		if i != s && g.m.hasGrant(g.users[s].Bech, u.Bech) {
			hs = append(hs, i)
		}
	}
	return hs
}

func (g *gen) msgGrant(a, h int) msgSpec {
	m := msgSpec{K: "grant", Creator: g.users[a].Bech, To: g.users[h].Bech, Variant: "basic"}
	switch x := g.r.Intn(100); {
	case x < 70:
	case x < 85:
		m.Variant = "spend-limit"
	default:
		m.Variant, m.ExpIn = "expiring", 20+2*g.r.Intn(60)
	}
	return m
}

func (g *gen) msgRevoke(a, h int) msgSpec {
	return msgSpec{K: "revoke", Creator: g.users[a].Bech, To: g.users[h].Bech}
}

// delegate turns an honest message of user s into the delegated form: Creator stays s, the
// transaction is signed by h (Signers = [h]). With an allowance s -> h the ante chain admits it
// and the message acts for s; without one it must be refused.
func (g *gen) delegate(m msgSpec, s, h int, class string) msgSpec {
	m.Creator, m.Signers, m.CreatorClass = g.users[s].Bech, []string{g.users[h].Bech}, class
	if class == "delegated-upper-creator" {
		m.Creator = strings.ToUpper(m.Creator)
	}
	return m
}

// adminIdx: index of the user that currently is admin of d (-1: nobody among the users)
func (g *gen) adminIdx(d string) int {
	t := g.m.tokens[d]
	if t == nil {
		return -1
	}
	for i, u := range g.users {
		if sameAccount(t.Admin, u.Addr) {
			return i
		}
	}
	return -1
}

func (g *gen) holders(d string) []int {
	var hs []int
	for i, u := range g.users {
		if g.m.balance(d, u.Bech).Sign() > 0 {
			hs = append(hs, i)
		}
	}
	return hs
}

func (g *gen) otherThan(i int) int {
	for {
		j := g.r.Intn(len(g.users))
		if j != i || len(g.users) == 1 {
			return j
		}
	}
}

// meta builds the Metadata{Creator,Signers} of a message signed by user s. Most of the time it
// is the honest one; otherwise one of the ways to claim somebody else's identity.
func (g *gen) meta(s int, victim int) (creator string, signers []string, class string) {
	self := g.users[s].Bech
	x := g.r.Intn(1000)
	switch {
	case x < 880 || victim < 0 || victim == s:
		return self, []string{self}, "self"
	case x < 920: // claim the victim as creator, sign as self: the ante decorator must refuse
		return g.users[victim].Bech, []string{self}, "victim-creator/self-signer"
	case x < 950: // claim the victim as creator and signer, but sign with the own key
		return g.users[victim].Bech, []string{g.users[victim].Bech}, "victim-creator/victim-signer/own-key"
	case x < 970:
		return strings.ToUpper(self), []string{self}, "upper-self"
	case x < 980:
		return strings.ToUpper(g.users[victim].Bech), []string{self}, "upper-victim"
	case x < 988:
		return "", []string{self}, "empty-creator"
	case x < 994:
		return g.users[victim].Bech, nil, "victim-creator/no-signers"
	default:
		return g.users[victim].Bech, []string{self, g.users[victim].Bech}, "victim-creator/both-signers/own-key"
	}
}

// hostileDenom: a denomination that is NOT (necessarily) a factory token
func (g *gen) hostileDenom(actor int) (string, string) {
	d, c, _ := g.hostileDenomRel(actor)
	return d, c
}

// hostileDenomRel additionally returns the existing token the hostile string was derived from ("" if none)
func (g *gen) hostileDenomRel(actor int) (string, string, string) {
	return g.hostileDenomFor(g.users[actor].Bech, g.users[g.otherThan(actor)].Bech)
}

// hostileDenomFor: u = the acting account (its "own namespace"), o = another account
func (g *gen) hostileDenomFor(u, o string) (string, string, string) {
	ds := g.tokenList()
	ex := ""
	if len(ds) > 0 {
		ex = ds[g.r.Intn(len(ds))]
	}
	sub := g.subs[g.r.Intn(len(g.subs))]
	switch g.r.Intn(16) {
	case 0:
		return chain.Denom, "native", ""
	case 1:
		return ibcDenom, "ibc", ""
	case 2:
		return "factory/" + u + "/" + sub + "zz", "uncreated-own-namespace", ""
	case 3:
		return "factory/" + o + "/" + sub + "zz", "uncreated-foreign-namespace", ""
	case 4:
		if ex != "" {
			p := strings.SplitN(ex, "/", 3)
			return "factory/" + strings.ToUpper(p[1]) + "/" + p[2], "existing-with-upper-creator", ex
		}
		return "factory/" + strings.ToUpper(u) + "/a", "upper-creator", ""
	case 5:
		if ex != "" {
			return ex + "/", "existing-plus-slash", ex
		}
		return "factory/" + u + "/", "empty-sub", ""
	case 6:
		if ex != "" {
			return strings.ToUpper(ex[:1]) + ex[1:], "existing-upper-prefix", ex
		}
		return "Factory/" + u + "/a", "upper-prefix", ""
	case 7:
		return "factory/" + u, "two-parts", ""
	case 8:
		return "factory//" + sub, "empty-creator-part", ""
	case 9:
		return "factory/not-an-address/a", "garbage-creator-part", ""
	case 10:
		return "", "empty", ""
	case 11:
		return "x", "too-short", ""
	case 12:
		if ex != "" {
			return ex + "/sub", "existing-plus-part", ex
		}
		return "factory/" + u + "/a/sub", "own-plus-part", ""
	case 13:
		return "factory/" + g.strange[3] + "/a", "valoper-creator-part", ""
	case 14:
		if ex != "" && strings.Count(ex, "/") > 2 {
			return ex[:strings.LastIndex(ex, "/")], "existing-prefix", ex
		}
		return "stake", "unknown-native", ""
	default:
		return "factory/" + g.strange[4] + "/a", "wrong-hrp-creator-part", ""
	}
}

func (g *gen) mintAmount(d string) (*big.Int, string) {
	switch x := g.r.Intn(100); {
	case x < 50:
		return big.NewInt(1 + g.r.Int63n(1000)), "small"
	case x < 58:
		return big.NewInt(1), "one"
	case x < 64:
		return new(big.Int).Set(p63), "2^63"
	case x < 70:
		return new(big.Int).Add(p64, big.NewInt(1)), "2^64+1"
	case x < 75:
		return new(big.Int).Set(p128), "2^128"
	case x < 80:
		return new(big.Int).Set(p255), "2^255"
	case x < 84:
		return new(big.Int).Set(max256), "2^256-1"
	case x < 88: // fill the supply exactly up to the maximum
		return new(big.Int).Sub(max256, g.m.supplyOf(d)), "fill-to-max"
	case x < 91:
		return new(big.Int).Add(new(big.Int).Sub(max256, g.m.supplyOf(d)), big.NewInt(1)), "one-over-max"
	case x < 95:
		return new(big.Int), "zero"
	case x < 98:
		return big.NewInt(-1 - g.r.Int63n(5)), "negative"
	default:
		return new(big.Int).Sub(p63, big.NewInt(1)), "2^63-1"
	}
}

func (g *gen) burnAmount(d string, actor int) (*big.Int, string) {
	return g.burnAmountFor(d, g.users[actor].Bech)
}

func (g *gen) burnAmountFor(d string, bech string) (*big.Int, string) {
	bal := g.m.balance(d, bech)
	sup := g.m.supplyOf(d)
	switch x := g.r.Intn(100); {
	case x < 40 && bal.Sign() > 0:
		return new(big.Int).Add(big.NewInt(1), new(big.Int).Rand(g.r, bal)), "within-balance"
	case x < 55 && bal.Sign() > 0:
		return new(big.Int).Set(bal), "whole-balance"
	case x < 70:
		return new(big.Int).Add(bal, big.NewInt(1)), "balance+1"
	case x < 80:
		return new(big.Int).Set(sup), "whole-supply"
	case x < 86:
		return big.NewInt(1), "one"
	case x < 90:
		return new(big.Int).Set(max256), "2^256-1"
	case x < 94:
		return new(big.Int), "zero"
	case x < 97:
		return big.NewInt(-1), "negative"
	default:
		return big.NewInt(1 + g.r.Int63n(1000)), "small"
	}
}

// pickActor for a privileged action on existing token d
func (g *gen) pickActor(d string) (int, string) {
	a := g.adminIdx(d)
	t := g.m.tokens[d]
	x := g.r.Intn(100)
	switch {
	case x < 55 && a >= 0:
		return a, "admin"
	case x < 67 && t != nil && t.CreatorIdx >= 0 && t.CreatorIdx != a:
		return t.CreatorIdx, "creator-not-admin"
	case x < 80:
		hs := g.holders(d)
		if len(hs) > 0 {
			return hs[g.r.Intn(len(hs))], "holder"
		}
	}
	return g.r.Intn(len(g.users)), "random"
}

func (g *gen) msgCreate(s int, sub string) msgSpec {
	c, sg, cc := g.meta(s, g.otherThan(s))
	return msgSpec{K: "create", Creator: c, Signers: sg, Sub: sub, CreatorClass: cc, DenomClass: subClass(sub)}
}

func subClass(sub string) string {
	switch {
	case sub == "":
		return "sub-empty"
	case len(sub) == 44:
		return "sub-44"
	case len(sub) > 44:
		return "sub-45+"
	case sub == "ugrain":
		return "sub-native"
	case strings.Contains(sub, "/"):
		return "sub-slash"
	case strings.ContainsAny(sub, " ,|é"):
		return "sub-invalid-chars"
	}
	return "sub-plain"
}

func (g *gen) honest(s int) (string, []string) {
	return g.users[s].Bech, []string{g.users[s].Bech}
}

func (g *gen) msgMint(s int, d string, dc string) msgSpec {
	amt, ac := g.mintAmount(d)
	c, sg, cc := g.meta(s, g.adminIdx(d))
	return msgSpec{K: "mint", Creator: c, Signers: sg, Denom: d, Amt: amt.String(), DenomClass: dc, AmtClass: ac, CreatorClass: cc}
}

func (g *gen) msgBurn(s int, d string, dc string) msgSpec {
	amt, ac := g.burnAmount(d, s)
	c, sg, cc := g.meta(s, g.adminIdx(d))
	return msgSpec{K: "burn", Creator: c, Signers: sg, Denom: d, Amt: amt.String(), DenomClass: dc, AmtClass: ac, CreatorClass: cc}
}

func (g *gen) newAdmin(s int, d string) (string, string) {
	t := g.m.tokens[d]
	switch x := g.r.Intn(100); {
	case x < 43:
		return g.users[g.otherThan(s)].Bech, "other-user"
	case x < 50 && len(g.contracts) > 0: // hand the token over to a contract (it acts through the wasm binding)
		return g.contracts[g.r.Intn(len(g.contracts))].Bech, "contract"
	case x < 58:
		return g.users[s].Bech, "self"
	case x < 64:
		return "", "nobody"
	case x < 82 && t != nil && t.CreatorIdx >= 0:
		return g.users[t.CreatorIdx].Bech, "creator"
	case x < 87:
		return strings.ToUpper(g.users[g.otherThan(s)].Bech), "upper-other-user"
	default:
		i := g.r.Intn(len(g.strange))
		return g.strange[i], fmt.Sprintf("strange-%d", i)
	}
}

func (g *gen) msgChAdmin(s int, d string, dc string) msgSpec {
	na, v := g.newAdmin(s, d)
	c, sg, cc := g.meta(s, g.adminIdx(d))
	return msgSpec{K: "chadmin", Creator: c, Signers: sg, Denom: d, NewAdmin: na, DenomClass: dc, Variant: v, CreatorClass: cc}
}

func (g *gen) msgSetMeta(s int, base string, dc string) msgSpec {
	n := g.r.Intn(1000)
	disp := fmt.Sprintf("disp%d", n)
	md := &banktypes.Metadata{
		Description: fmt.Sprintf("description %d", n),
		DenomUnits:  []*banktypes.DenomUnit{{Denom: base, Exponent: 0}, {Denom: disp, Exponent: 6}},
		Base:        base, Display: disp, Name: fmt.Sprintf("Name%d", n), Symbol: fmt.Sprintf("SYM%d", n),
	}
	variant := "valid"
	ds := g.tokenList()
	switch x := g.r.Intn(100); {
	case x < 62:
	case x < 70: // unit names another existing denom / the native denom (still valid for the bank)
		variant = "unit-names-foreign-denom"
		other := chain.Denom
		if len(ds) > 0 && g.pct(70) {
			other = ds[g.r.Intn(len(ds))]
			// prefer a token the signer administers (display = own token, base = the target)
			var own []string
			for _, d := range ds {
				if g.adminIdx(d) == s && d != base {
					own = append(own, d)
				}
			}
			if len(own) > 0 && g.pct(70) {
				other = own[g.r.Intn(len(own))]
			}
		}
		if other != base {
			md.DenomUnits[1].Denom = other
			md.Display = other
		}
	case x < 76:
		variant = "aliases"
		md.DenomUnits[0].Aliases = []string{chain.Denom, "alias"}
	case x < 82:
		variant = "blank-name"
		md.Name = " "
	case x < 88: // first unit is the actor's own token, Base somebody else's: Validate must refuse
		variant = "first-unit-not-base"
		own := "factory/" + g.users[s].Bech + "/a"
		md.DenomUnits[0].Denom = own
	case x < 92:
		variant = "no-units"
		md.DenomUnits = nil
	case x < 96:
		variant = "display-is-base"
		md.DenomUnits = md.DenomUnits[:1]
		md.Display = base
	default:
		variant = "uri"
		md.URI, md.URIHash = "https://example.org/"+fmt.Sprint(n), "abcd"
	}
	c, sg, cc := g.meta(s, g.adminIdx(base))
	return msgSpec{K: "setmeta", Creator: c, Signers: sg, Meta: md, Denom: base, DenomClass: dc, Variant: variant, CreatorClass: cc}
}

func (g *gen) msgSend(s int, d string, to int, amt *big.Int) msgSpec {
	return msgSpec{K: "send", Creator: g.users[s].Bech, Denom: d, To: g.users[to].Bech, Amt: amt.String()}
}

func one(s int, m msgSpec, note string) blockSpec {
	return blockSpec{Txs: []txSpec{{Signer: s, Msgs: []msgSpec{m}, Note: note}}}
}

// pickDenom: an existing factory token most of the time, otherwise something hostile
func (g *gen) pickDenom(actorHint int) (string, string, string) {
	ds := g.tokenList()
	if len(ds) > 0 && g.pct(74) {
		d := ds[g.r.Intn(len(ds))]
		return d, "existing", d
	}
	return g.hostileDenomRel(actorHint)
}

// recreate: the original creator of token t tries to create it again (a user by message, a
// contract through the binding)
func (g *gen) recreate(t *token) blockSpec {
	if t.CreatorIdx < 0 {
		return wcall(t.CreatorContract, "recreate", msgSpec{K: "wasm-create", Creator: g.contracts[t.CreatorContract].Bech, Sub: t.Sub, DenomClass: "recreate"})
	}
	c, sg := g.honest(t.CreatorIdx)
	return one(t.CreatorIdx, msgSpec{K: "create", Creator: c, Signers: sg, CreatorClass: "self", Sub: t.Sub, DenomClass: "recreate"}, "recreate")
}

// scenario pushes a scripted multi-block sub-scenario onto the queue
func (g *gen) scenario() bool {
	ds := g.tokenList()
	if len(ds) == 0 {
		return false
	}
	d := ds[g.r.Intn(len(ds))]
	t := g.m.tokens[d]
	a := g.adminIdx(d)
	hc, hs := g.honest, 0
	_ = hs
	mk := func(s int, m msgSpec) msgSpec { m.Creator, m.Signers = hc(s); m.CreatorClass = "self"; return m }
	switch g.r.Intn(7) {
	case 5, 6:
		return g.delegationScenario(d)
	case 0: // take-over attempt by an outsider, everything must bounce
		x := g.otherThan(a)
		if x == a {
			return false
		}
		g.queue = append(g.queue,
			one(x, mk(x, msgSpec{K: "chadmin", Denom: d, NewAdmin: g.users[x].Bech, DenomClass: "existing", Variant: "self"}), "takeover"),
			one(x, mk(x, msgSpec{K: "mint", Denom: d, Amt: "1000", DenomClass: "existing", AmtClass: "small"}), "takeover"),
			one(x, mk(x, msgSpec{K: "burn", Denom: d, Amt: "1", DenomClass: "existing", AmtClass: "one"}), "takeover"),
			one(x, mk(x, g.msgSetMeta(x, d, "existing")), "takeover"),
			g.recreate(t),
		)
	case 1: // hand-over: the old admin loses every right, the new one gains them, own balances only
		if a < 0 {
			return false
		}
		b := g.otherThan(a)
		g.queue = append(g.queue,
			one(a, mk(a, msgSpec{K: "mint", Denom: d, Amt: "500", DenomClass: "existing", AmtClass: "small"}), "handover"),
			one(a, mk(a, msgSpec{K: "chadmin", Denom: d, NewAdmin: g.users[b].Bech, DenomClass: "existing", Variant: "other-user"}), "handover"),
			one(a, mk(a, msgSpec{K: "mint", Denom: d, Amt: "7", DenomClass: "existing", AmtClass: "small"}), "handover-old-admin"),
			one(a, mk(a, msgSpec{K: "burn", Denom: d, Amt: "7", DenomClass: "existing", AmtClass: "within-balance"}), "handover-old-admin"),
			one(a, mk(a, msgSpec{K: "chadmin", Denom: d, NewAdmin: g.users[a].Bech, DenomClass: "existing", Variant: "self"}), "handover-old-admin"),
			one(b, mk(b, msgSpec{K: "burn", Denom: d, Amt: new(big.Int).Add(g.m.balance(d, g.users[b].Bech), big.NewInt(1)).String(), DenomClass: "existing", AmtClass: "balance+1"}), "handover-new-admin"),
			one(b, mk(b, msgSpec{K: "mint", Denom: d, Amt: "9", DenomClass: "existing", AmtClass: "small"}), "handover-new-admin"),
			one(b, mk(b, msgSpec{K: "burn", Denom: d, Amt: "4", DenomClass: "existing", AmtClass: "within-balance"}), "handover-new-admin"),
			g.recreate(t),
		)
	case 2: // renounce: nobody is admin afterwards
		if a < 0 || !g.pct(50) {
			return false
		}
		g.queue = append(g.queue,
			one(a, mk(a, msgSpec{K: "chadmin", Denom: d, NewAdmin: "", DenomClass: "existing", Variant: "nobody"}), "renounce"),
			one(a, mk(a, msgSpec{K: "mint", Denom: d, Amt: "5", DenomClass: "existing", AmtClass: "small"}), "renounced"),
			one(a, mk(a, msgSpec{K: "burn", Denom: d, Amt: "1", DenomClass: "existing", AmtClass: "one"}), "renounced"),
			one(a, mk(a, msgSpec{K: "chadmin", Denom: d, NewAdmin: g.users[a].Bech, DenomClass: "existing", Variant: "self"}), "renounced"),
			one(a, mk(a, g.msgSetMeta(a, d, "existing")), "renounced"),
			g.recreate(t),
		)
	case 3: // a holder who is not admin tries to burn; the admin tries to burn more than it holds
		if a < 0 {
			return false
		}
		x := g.otherThan(a)
		if x == a {
			return false
		}
		g.queue = append(g.queue,
			one(a, mk(a, msgSpec{K: "mint", Denom: d, Amt: "300", DenomClass: "existing", AmtClass: "small"}), "holder"),
			one(a, g.msgSend(a, d, x, big.NewInt(200)), "holder"),
			one(x, mk(x, msgSpec{K: "burn", Denom: d, Amt: "50", DenomClass: "existing", AmtClass: "within-balance"}), "holder-burn"),
			one(a, mk(a, msgSpec{K: "burn", Denom: d, Amt: new(big.Int).Add(g.m.balance(d, g.users[a].Bech), big.NewInt(150)).String(), DenomClass: "existing", AmtClass: "balance+1"}), "admin-burn-others"),
		)
	default: // create + mint + hand-over in ONE transaction, then the creator tries again
		s := g.r.Intn(len(g.users))
		sub := g.subs[g.r.Intn(len(g.subs))]
		nd := "factory/" + g.users[s].Bech + "/" + sub
		b := g.otherThan(s)
		g.queue = append(g.queue,
			blockSpec{Txs: []txSpec{{Signer: s, Note: "create+mint+handover", Msgs: []msgSpec{
				mk(s, msgSpec{K: "create", Sub: sub, DenomClass: subClass(sub)}),
				mk(s, msgSpec{K: "mint", Denom: nd, Amt: "1000", DenomClass: "just-created", AmtClass: "small"}),
				mk(s, msgSpec{K: "chadmin", Denom: nd, NewAdmin: g.users[b].Bech, DenomClass: "just-created", Variant: "other-user"}),
			}}}},
			one(s, mk(s, msgSpec{K: "mint", Denom: nd, Amt: "1", DenomClass: "existing", AmtClass: "one"}), "after-handover"),
			one(s, mk(s, msgSpec{K: "create", Sub: sub, DenomClass: "recreate"}), "recreate"),
		)
	}
	return true
}

// delegationScenario: the delegated-signing route for every operation kind on token d. The admin
// a grants user h a fee allowance; h then signs create / mint / burn / set-metadata / change-admin
// messages whose Metadata.Creator is a. Controls that the ante chain must refuse: the same message
// before the grant, with an allowance in the wrong direction only, signed by a third user, and
// after the revocation. Between mint and burn a plain transfer gives h a balance of its own, so
// that "the balance that moves is the admin's" is decidable for the burn too.
func (g *gen) delegationScenario(d string) bool {
	a := g.adminIdx(d)
	if a < 0 {
		return false
	}
	A := g.users[a].Bech
	// prefer a grantee that holds no allowance from a yet
	h := g.otherThan(a)
	for i := 0; i < 6 && g.m.hasGrant(A, g.users[h].Bech); i++ {
		h = g.otherThan(a)
	}
	if h == a {
		return false
	}
	x := g.otherThan(a)
	for i := 0; i < 8 && (x == h || x == a); i++ {
		x = g.r.Intn(len(g.users))
	}
	own := func(s int, m msgSpec) msgSpec { m.Creator, m.Signers = g.honest(s); m.CreatorClass = "self"; return m }
	// message of a, signed by s
	via := func(s int, m msgSpec, class, note string) blockSpec {
		return one(s, g.delegate(own(a, m), a, s, class), note)
	}
	mint := func(amt string) msgSpec {
		return msgSpec{K: "mint", Denom: d, Amt: amt, DenomClass: "existing", AmtClass: "small"}
	}
	burn := func(amt *big.Int, ac string) msgSpec {
		return msgSpec{K: "burn", Denom: d, Amt: amt.String(), DenomClass: "existing", AmtClass: ac}
	}
	q := []blockSpec{}
	if g.m.hasGrant(A, g.users[h].Bech) {
		q = append(q, one(a, g.msgRevoke(a, h), "delegation/revoke-first"))
	}
	q = append(q, via(h, mint("11"), "no-allowance-control", "delegation/control-before-grant"))
	if g.pct(50) {
		if !g.m.hasGrant(g.users[h].Bech, A) {
			q = append(q, one(h, g.msgGrant(h, a), "delegation/reverse-grant"))
		}
		q = append(q,
			via(h, mint("12"), "reverse-allowance-control", "delegation/control-reverse-grant"),
			via(h, burn(big.NewInt(1), "one"), "reverse-allowance-control", "delegation/control-reverse-grant"))
	}
	gr := g.msgGrant(a, h)
	if gr.Variant == "expiring" {
		gr.ExpIn += 40 // must outlive the scripted part
	}
	q = append(q, one(a, gr, "delegation/grant"))
	bal := new(big.Int).Set(g.m.balance(d, A))
	if g.pct(50) {
		// burn first: the admin mints for itself, hands part of it to h, h burns as the admin
		q = append(q,
			one(a, own(a, mint("300")), "delegation/admin-mints"),
			one(a, g.msgSend(a, d, h, big.NewInt(120)), "delegation/transfer-to-grantee"),
			via(h, burn(big.NewInt(50), "within-balance"), "delegated", "delegation/burn"),
			via(h, mint("600"), "delegated", "delegation/mint"))
		bal.Add(bal, big.NewInt(300-120-50+600))
	} else {
		q = append(q,
			via(h, mint("600"), "delegated", "delegation/mint"),
			one(a, g.msgSend(a, d, h, big.NewInt(120)), "delegation/transfer-to-grantee"),
			via(h, burn(big.NewInt(50), "within-balance"), "delegated", "delegation/burn"))
		bal.Add(bal, big.NewInt(600-120-50))
	}
	q = append(q,
		via(h, burn(new(big.Int).Add(bal, big.NewInt(1)), "balance+1"), "delegated", "delegation/burn-more-than-admin-holds"),
		via(x, mint("5"), "no-allowance-control", "delegation/control-third-party"),
		via(h, g.msgSetMeta(a, d, "existing"), "delegated", "delegation/set-metadata"),
		via(h, msgSpec{K: "create", Sub: g.subs[g.r.Intn(len(g.subs))], DenomClass: "delegated-create"}, "delegated", "delegation/create"),
	)
	switch g.r.Intn(3) {
	case 0: // the grantee hands the role over in the admin's name; the old admin's name is worthless afterwards
		b := g.otherThan(a)
		q = append(q,
			via(h, msgSpec{K: "chadmin", Denom: d, NewAdmin: g.users[b].Bech, DenomClass: "existing", Variant: "other-user"}, "delegated", "delegation/change-admin"),
			via(h, mint("7"), "delegated", "delegation/after-hand-over"),
			via(h, burn(big.NewInt(1), "one"), "delegated", "delegation/after-hand-over"),
			one(a, g.msgRevoke(a, h), "delegation/revoke"))
	case 1: // revocation: the route is closed again
		q = append(q,
			one(a, g.msgRevoke(a, h), "delegation/revoke"),
			via(h, mint("9"), "no-allowance-control", "delegation/control-after-revoke"),
			via(h, burn(big.NewInt(1), "one"), "no-allowance-control", "delegation/control-after-revoke"),
			via(h, msgSpec{K: "chadmin", Denom: d, NewAdmin: g.users[h].Bech, DenomClass: "existing", Variant: "self"}, "no-allowance-control", "delegation/control-after-revoke"))
	default: // the allowance stays: the random walk keeps using the delegated route
	}
	g.queue = append(g.queue, q...)
	return true
}

func (g *gen) next() blockSpec {
	g.step++
	if len(g.queue) > 0 {
		b := g.queue[0]
		g.queue = g.queue[1:]
		b.Step = g.step
		return b
	}
	b := g.fresh()
	b.Step = g.step
	return b
}

// single: one message and the user whose key signs it. An honest factory message of a user that
// has granted somebody a fee allowance is often sent through the delegated route instead (same
// Creator, signed by the grantee): every operation kind, every actor role, every denom / amount /
// variant class therefore also arrives with creator != signer.
func (g *gen) single() (int, msgSpec, string) {
	s, m, note := g.single0()
	if m.K == "send" || m.K == "grant" || m.K == "revoke" || m.CreatorClass != "self" {
		return s, m, note
	}
	if hs := g.grantees(s); len(hs) > 0 && g.pct(45) {
		h := hs[g.r.Intn(len(hs))]
		class := "delegated"
		if g.pct(4) {
			class = "delegated-upper-creator"
		}
		return h, g.delegate(m, s, h, class), note + "/delegated"
	}
	return s, m, note
}

// allowanceOp: environment - a user grants / revokes a fee allowance (mostly an admin of some
// token grants one to another user; an existing one is revoked or granted again, which must fail)
func (g *gen) allowanceOp() (int, msgSpec, string) {
	a := g.r.Intn(len(g.users))
	if ds := g.tokenList(); len(ds) > 0 && g.pct(70) {
		if i := g.adminIdx(ds[g.r.Intn(len(ds))]); i >= 0 {
			a = i
		}
	}
	if hs := g.grantees(a); len(hs) > 0 && g.pct(40) {
		h := hs[g.r.Intn(len(hs))]
		if g.pct(75) {
			return a, g.msgRevoke(a, h), "revoke"
		}
		return a, g.msgGrant(a, h), "grant-again"
	}
	h := g.otherThan(a)
	if g.pct(3) {
		h = a // self-grant: refused by the fee-grant module
	}
	if !g.m.hasGrant(g.users[a].Bech, g.users[h].Bech) || g.pct(30) {
		return a, g.msgGrant(a, h), "grant"
	}
	return a, g.msgRevoke(a, h), "revoke"
}

func (g *gen) single0() (int, msgSpec, string) {
	ds := g.tokenList()
	x := g.r.Intn(100)
	if len(ds) == 0 && x >= 30 {
		x = 0
	}
	switch {
	case x < 18: // create
		s := g.r.Intn(len(g.users))
		sub := g.subs[g.r.Intn(len(g.subs))]
		if g.pct(10) {
			sub = subPool[g.r.Intn(len(subPool))]
		}
		return s, g.msgCreate(s, sub), "create"
	case x < 22 && len(ds) > 0: // deliberate re-creation by the original creator
		d := ds[g.r.Intn(len(ds))]
		t := g.m.tokens[d]
		if t.CreatorIdx < 0 { // created by a contract: wasmBlock / recreate cover that; a plain create instead
			s := g.r.Intn(len(g.users))
			return s, g.msgCreate(s, g.subs[g.r.Intn(len(g.subs))]), "create"
		}
		m := g.msgCreate(t.CreatorIdx, t.Sub)
		m.DenomClass = "recreate"
		return t.CreatorIdx, m, "recreate"
	case x < 45: // mint
		d, dc, rel := g.pickDenom(g.r.Intn(len(g.users)))
		s := g.r.Intn(len(g.users))
		if rel != "" && (rel == d || g.pct(70)) {
			s, _ = g.pickActor(rel) // hostile variants of an existing token are mostly tried by its admin
		}
		return s, g.msgMint(s, d, dc), "mint"
	case x < 65: // burn
		d, dc, rel := g.pickDenom(g.r.Intn(len(g.users)))
		s := g.r.Intn(len(g.users))
		if rel != "" && (rel == d || g.pct(70)) {
			s, _ = g.pickActor(rel) // hostile variants of an existing token are mostly tried by its admin
		}
		return s, g.msgBurn(s, d, dc), "burn"
	case x < 78: // change admin
		d, dc, rel := g.pickDenom(g.r.Intn(len(g.users)))
		s := g.r.Intn(len(g.users))
		if rel != "" && (rel == d || g.pct(70)) {
			s, _ = g.pickActor(rel) // hostile variants of an existing token are mostly tried by its admin
		}
		return s, g.msgChAdmin(s, d, dc), "chadmin"
	case x < 90: // set metadata
		d, dc, rel := g.pickDenom(g.r.Intn(len(g.users)))
		s := g.r.Intn(len(g.users))
		if rel != "" && (rel == d || g.pct(70)) {
			s, _ = g.pickActor(rel) // hostile variants of an existing token are mostly tried by its admin
		}
		return s, g.msgSetMeta(s, d, dc), "setmeta"
	default: // plain bank transfer of a factory token between users
		if len(ds) > 0 {
			d := ds[g.r.Intn(len(ds))]
			hs := g.holders(d)
			if len(hs) > 0 {
				s := hs[g.r.Intn(len(hs))]
				bal := g.m.balance(d, g.users[s].Bech)
				amt := new(big.Int).Add(big.NewInt(1), new(big.Int).Rand(g.r, bal))
				if g.pct(10) {
					amt = new(big.Int).Add(bal, big.NewInt(1))
				}
				if amt.Cmp(max256) > 0 {
					amt = new(big.Int).Set(bal)
				}
				return s, g.msgSend(s, d, g.otherThan(s), amt), "send"
			}
		}
		s := g.r.Intn(len(g.users))
		return s, g.msgCreate(s, g.subs[g.r.Intn(len(g.subs))]), "create"
	}
}

func (g *gen) fresh() blockSpec {
	x := g.r.Intn(100)
	switch {
	case x < 7:
		if g.scenario() {
			b := g.queue[0]
			g.queue = g.queue[1:]
			return b
		}
	case x < 14: // one transaction with 2-3 messages of the same signer (atomicity)
		s, m0, _ := g.single()
		msgs := []msgSpec{m0}
		n := 1 + g.r.Intn(2)
		as := s // the account the follow-up messages are meant to act for (the granter when m0 is delegated)
		if strings.HasPrefix(m0.CreatorClass, "delegated") {
			if i := g.userIdxOf(m0.Creator); i >= 0 {
				as = i
			}
		}
		for i := 0; i < n; i++ {
			var m msgSpec
			ds := g.tokenList()
			d := ""
			if m0.Denom != "" && g.pct(70) {
				d = m0.Denom
			} else if len(ds) > 0 {
				d = ds[g.r.Intn(len(ds))]
			} else {
				d = "factory/" + g.users[as].Bech + "/" + m0.Sub
			}
			switch g.r.Intn(4) {
			case 0:
				m = g.msgMint(as, d, "multi")
			case 1:
				m = g.msgBurn(as, d, "multi")
			case 2:
				m = g.msgChAdmin(as, d, "multi")
			default:
				m = g.msgSetMeta(as, d, "multi")
			}
			if m0.K != "send" {
				m.Creator, m.Signers, m.CreatorClass = m0.Creator, m0.Signers, m0.CreatorClass
			} else {
				m.Creator, m.Signers = g.honest(s)
				m.CreatorClass = "self"
			}
			msgs = append(msgs, m)
		}
		return blockSpec{Txs: []txSpec{{Signer: s, Msgs: msgs, Note: "multi-msg"}}}
	case x < 20: // one block with 2-3 transactions of distinct signers
		n := 2 + g.r.Intn(2)
		var txs []txSpec
		used := map[int]bool{}
		for i := 0; i < n*3 && len(txs) < n; i++ {
			s, m, note := g.single()
			if used[s] {
				continue
			}
			used[s] = true
			txs = append(txs, txSpec{Signer: s, Msgs: []msgSpec{m}, Note: "multi-tx/" + note})
		}
		return blockSpec{Txs: txs}
	case x < 24: // environment: fee allowance granted / revoked
		s, m, note := g.allowanceOp()
		return one(s, m, note)
	case x < 37 && len(g.contracts) > 0: // the second entry point: a contract acts through the wasm binding
		return g.wasmBlock()
	}
	s, m, note := g.single()
	return one(s, m, note)
}
