package c04

// IN-SITU part: the real application (chain.New), real MsgAddEvidence / MsgAddMessageGasEstimates
// transactions through the full ante chain, the real end-blockers. The monitor keeps its own
// record of ACCEPTED submissions per queued message and, after every block, compares what the
// chain did (message removed? effects? elected estimate?) with the reference (ref.go) evaluated
// on that record and the current snapshot's shares.

import (
	"fmt"
	"math/big"
	"math/rand"
	"os"
	"sort"
	"strings"

	sdkmath "cosmossdk.io/math"
	abci "github.com/cometbft/cometbft/abci/types"
	sdk "github.com/cosmos/cosmos-sdk/types"
	stakingtypes "github.com/cosmos/cosmos-sdk/x/staking/types"
	"github.com/ethereum/go-ethereum/common"

	consensustypes "github.com/palomachain/paloma/v2/x/consensus/types"
	evmtypes "github.com/palomachain/paloma/v2/x/evm/types"

	"verif/harness/chain"
	"verif/harness/fw"
	"verif/harness/world"
)

type situParams struct {
	Mode     string `json:"mode"`
	Index    int    `json:"index"`
	Thorough bool   `json:"thorough,omitempty"`
	// Script "" = the standard phases (turnstone / reference block / balances); "reassign" = the
	// orphan re-assignment history of situ_reassign.go.
	Script string `json:"script,omitempty"`
}

const (
	kindTurnstone = "turnstone-message"
	kindBalances  = "validator-balances"
	kindRefBlock  = "reference-block"
)

var situChains = []string{"eth-main", "bnb-main"}

var queueSub = map[string]string{
	kindTurnstone: "evm-turnstone-message",
	kindBalances:  "validators-balances",
	kindRefBlock:  "reference-block",
}

// situProof: an evidence value together with what applying it must leave behind.
type situProof struct {
	pv       proofValue
	refH     uint64
	refHash  string
	balances []string
	errMsg   string
	isTx     bool
	delivers uint64 // != 0: a transaction that really carries the message; applying it puts this valset id live on the chain
}

type tracked struct {
	kind, chainRef, queue string
	id                    uint64
	addedAt               int64
	reqGas                bool
	evid                  []submission
	proofs                map[string]situProof
	est                   []estimateSub
	elected               uint64
	lateEst               int // estimates accepted after the election was observed
	gasStuckReported      bool
	gasQuorumBlocks       int
	quorumBlocks          int
	done                  bool
	outcome               string
	valAddrs              [][]byte // balances request
	hexAddrs              []string
	refEpisode            int
}

type situ struct {
	ch        *chain.Chain
	rec       *fw.Recorder
	r         *rand.Rand
	accts     map[string]*chain.Account // by raw val address
	members   []*chain.Account          // current snapshot members (refreshed)
	outsiders []*chain.Account          // bonded, alive, not in the snapshot
	all       []*chain.Account
	snap      *refSnapshot
	snapID    uint64
	msgs      map[string]*tracked
	order     []*tracked
	refCount  map[string]int
	lastBlock *chain.BlockResult
	failed    bool
	history   []string
}

type qtx struct {
	signer   *chain.Account
	msg      sdk.Msg
	desc     string
	onAccept func()
	onReject func(log string)
}

func (s *situ) note(f string, a ...any) {
	if len(s.history) < 400 {
		s.history = append(s.history, fmt.Sprintf("h%d: ", s.ch.Height+1)+fmt.Sprintf(f, a...))
	}
}

func (s *situ) witness(m *tracked, extra map[string]any) map[string]any {
	w := map[string]any{"history": s.history, "snapshot_id": s.snapID, "snapshot_shares": s.describeSnap()}
	if m != nil {
		w["message"] = fmt.Sprintf("%s id=%d", m.queue, m.id)
		var ev []string
		for _, e := range m.evid {
			ev = append(ev, s.name([]byte(e.val))+" -> "+m.proofs[e.key].pv.desc)
		}
		w["accepted_evidence_in_order"] = ev
		var es []string
		for _, e := range m.est {
			es = append(es, fmt.Sprintf("%s: %d", s.name([]byte(e.val)), e.value))
		}
		if len(es) > 0 {
			w["accepted_estimates_in_order"] = es
		}
	}
	for k, v := range extra {
		w[k] = v
	}
	return w
}

func (s *situ) name(val []byte) string {
	a := s.accts[string(val)]
	if a == nil {
		return fmt.Sprintf("%x", val)
	}
	if _, ok := s.snap.shares[string(val)]; ok {
		return a.Name + "(" + s.snap.shares[string(val)].String() + ")"
	}
	return a.Name + "(OUTSIDER)"
}

func (s *situ) describeSnap() map[string]string {
	out := map[string]string{"TOTAL": s.snap.total.String()}
	for k, v := range s.snap.shares {
		if a := s.accts[k]; a != nil {
			out[a.Name] = v.String()
		}
	}
	return out
}

// readSnapshot builds the reference view of the chain's current snapshot.
func (s *situ) readSnapshot() (changed bool) {
	snap, err := s.ch.App.ValsetKeeper.GetCurrentSnapshot(s.ch.Ctx())
	if err != nil || snap == nil {
		s.rec.Inconclusive(fmt.Sprintf("cannot read current snapshot: %v", err))
		s.failed = true
		return false
	}
	if s.snap != nil && snap.Id == s.snapID {
		return false
	}
	ref := newRefSnapshot()
	for _, v := range snap.Validators {
		ref.add(v.Address, v.ShareCount.BigInt())
	}
	if ref.total.Cmp(snap.TotalShares.BigInt()) != 0 {
		s.rec.Inconclusive(fmt.Sprintf("snapshot %d: TotalShares %s != sum of shares %s (C10 territory)", snap.Id, snap.TotalShares, ref.total))
		s.failed = true
	}
	changed = s.snap != nil
	s.snap, s.snapID = ref, snap.Id
	s.members, s.outsiders = nil, nil
	for _, a := range s.all {
		if _, ok := ref.shares[string(a.ValAddr())]; ok {
			s.members = append(s.members, a)
		} else {
			s.outsiders = append(s.outsiders, a)
		}
	}
	return changed
}

// block executes the given txs in one block and runs the oracle.
func (s *situ) block(txs ...qtx) {
	if s.failed {
		return
	}
	seq := map[string]uint64{}
	for _, t := range txs {
		s.rec.Op(map[string]any{"h": s.ch.Height + 1, "tx": t.desc})
		if err := s.ch.QueueTx(t.signer, seq[t.signer.Bech], t.msg); err != nil {
			s.rec.Inconclusive("cannot sign tx: " + err.Error())
			s.failed = true
			return
		}
		seq[t.signer.Bech]++
	}
	pre, preID := s.snap, s.snapID
	br := s.ch.NextBlock()
	s.lastBlock = br
	s.rec.Count("situ_blocks", 1)
	if br.Panic != "" || br.Err != nil {
		// a crashing end-blocker is C09's business; without blocks this history cannot go on
		s.rec.Inconclusive(fmt.Sprintf("block %d failed: %.300s %v", br.Height, br.Panic, br.Err))
		s.failed = true
		return
	}
	for i, t := range txs {
		if i < len(br.Txs) && br.Txs[i].OK() {
			s.note("ACCEPTED %s", t.desc)
			if t.onAccept != nil {
				t.onAccept()
			}
		} else {
			lg := ""
			if i < len(br.Txs) {
				lg = br.Txs[i].Log
			}
			s.note("rejected %s (%.80s)", t.desc, lg)
			if t.onReject != nil {
				t.onReject(lg)
			}
		}
	}
	s.readSnapshot()
	snapChanged := s.snapID != preID
	if snapChanged {
		s.rec.Count("situ_snapshot_changes", 1)
		s.note("snapshot %d -> %d built in this block: %v", preID, s.snapID, s.describeSnap())
	}
	s.oracle(pre, snapChanged, br)
	s.discover()
}

func (s *situ) skipTo(h int64) {
	for s.ch.Height < h && !s.failed {
		s.block()
	}
}

// discover starts tracking queued messages the monitor has not seen yet.
func (s *situ) discover() {
	ctx := s.ch.Ctx()
	for _, cr := range situChains {
		for _, kind := range []string{kindTurnstone, kindBalances, kindRefBlock} {
			q := world.QueueName(queueSub[kind], cr)
			msgs, err := s.ch.App.ConsensusKeeper.GetMessagesFromQueue(ctx, q, 0)
			if err != nil {
				continue
			}
			for _, qm := range msgs {
				key := fmt.Sprintf("%s/%d", q, qm.GetId())
				if s.msgs[key] != nil {
					continue
				}
				t := &tracked{kind: kind, chainRef: cr, queue: q, id: qm.GetId(), addedAt: qm.GetAddedAtBlockHeight(),
					reqGas: qm.GetRequireGasEstimation(), proofs: map[string]situProof{}}
				if kind == kindBalances {
					cm, err := qm.ConsensusMsg(s.ch.App.AppCodec())
					if err == nil {
						if req, ok := cm.(*evmtypes.ValidatorBalancesAttestation); ok {
							for i := range req.HexAddresses {
								t.valAddrs = append(t.valAddrs, req.ValAddresses[i])
								t.hexAddrs = append(t.hexAddrs, req.HexAddresses[i])
							}
						}
					}
				}
				if kind == kindRefBlock {
					t.refEpisode = s.refCount[cr]
					s.refCount[cr]++
				}
				s.msgs[key] = t
				s.order = append(s.order, t)
				s.rec.Count("situ_messages_tracked_"+kind, 1)
				s.note("tracking new message %s id=%d (needs gas estimate: %v)", q, t.id, t.reqGas)
			}
		}
	}
}

func (s *situ) queueIDs(q string) map[uint64]consensustypes.QueuedSignedMessageI {
	out := map[uint64]consensustypes.QueuedSignedMessageI{}
	msgs, err := s.ch.App.ConsensusKeeper.GetMessagesFromQueue(s.ch.Ctx(), q, 0)
	if err != nil {
		return out
	}
	for _, m := range msgs {
		out[m.GetId()] = m
	}
	return out
}

// oracle: evaluated after every block. pre = the snapshot the consensus end-blocker of this block
// saw (it runs before the valset end-blocker that may build a new one).
func (s *situ) oracle(pre *refSnapshot, snapChanged bool, br *chain.BlockResult) {
	cache := map[string]map[uint64]consensustypes.QueuedSignedMessageI{}
	for _, m := range s.order {
		if m.done {
			continue
		}
		if cache[m.queue] == nil {
			cache[m.queue] = s.queueIDs(m.queue)
		}
		qm, present := cache[m.queue][m.id]
		s.rec.Eval(1)
		d := decideEvidence(m.evid, pre)
		decided := d.decided
		if snapChanged && !decided {
			// tolerate either snapshot in the block in which it changed
			decided = decideEvidence(m.evid, s.snap).decided
		}
		if !present {
			m.done = true
			age := br.Height - m.addedAt
			switch {
			case m.kind == kindTurnstone && snapChanged && !d.decided:
				m.outcome = "superseded"
				s.rec.Count("situ_messages_superseded_by_new_snapshot", 1)
				s.note("message %s id=%d superseded", m.queue, m.id)
			case age > 300 && !d.decided:
				m.outcome = "pruned"
				s.rec.Count("situ_messages_pruned", 1)
			case !decided:
				m.outcome = "VIOLATION"
				sig, detail := "x/evm.attest/"+m.kind+"/removed-without-two-thirds-identical-evidence", ""
				if a, b, ok := s.pooled(m, d, pre); ok {
					sig = "x/evm.attest/" + m.kind + "/pools-byte-different-evidence"
					detail = fmt.Sprintf("; byte-different evidence was pooled: %s and %s", a.pv.desc, b.pv.desc)
				}
				s.rec.Violation(sig, fmt.Sprintf("message %s id=%d was attested and removed in block %d although the best byte-identical evidence is backed by only %s of %s snapshot shares (< 2/3)%s",
					m.queue, m.id, br.Height, d.bestSum, pre.total, detail), s.witness(m, s.effectsNow(m)))
			default:
				m.outcome = "attested"
				s.rec.Count("situ_messages_attested", 1)
				s.rec.Count("situ_messages_attested_"+m.kind, 1)
				s.note("message %s id=%d attested and removed", m.queue, m.id)
				s.checkEffects(m, d, br)
			}
			continue
		}
		// still queued
		if d.decided && !snapChanged {
			m.quorumBlocks++
			if m.quorumBlocks == 3 {
				s.rec.Violation("x/evm.attest/"+m.kind+"/not-processed-despite-two-thirds-identical-evidence",
					fmt.Sprintf("message %s id=%d has had identical evidence from %s of %s shares (>= 2/3) for 3 blocks and is still queued at block %d", m.queue, m.id, d.bestSum, pre.total, br.Height),
					s.witness(m, nil))
			}
		} else {
			m.quorumBlocks = 0
		}
		if !m.reqGas {
			continue
		}
		// gas estimate
		s.rec.Eval(1)
		e := decideEstimates(m.est, pre)
		quorum := e.quorum
		if snapChanged && !quorum {
			quorum = decideEstimates(m.est, s.snap).quorum
		}
		obs := qm.GetGasEstimate()
		vals := make([]uint64, len(m.est))
		for i := range m.est {
			vals[i] = m.est[i].value
		}
		cls := medianInputClass(vals)
		switch {
		case m.elected != 0:
			if obs != m.elected {
				s.rec.Violation("x/consensus.estimate/elected-estimate-changed",
					fmt.Sprintf("message %s id=%d: elected gas estimate changed from %d to %d in block %d", m.queue, m.id, m.elected, obs, br.Height), s.witness(m, nil))
				m.elected = obs
			}
		case obs != 0:
			m.elected = obs
			s.rec.Count("situ_estimates_elected", 1)
			s.note("message %s id=%d: estimate %d elected", m.queue, m.id, obs)
			if !quorum {
				s.rec.Violation("x/consensus.estimate/elected-below-two-thirds",
					fmt.Sprintf("message %s id=%d: estimate %d elected in block %d although submitters hold only %s of %s shares (< 2/3)", m.queue, m.id, obs, br.Height, e.memberSum, pre.total), s.witness(m, nil))
			} else if new(big.Int).SetUint64(obs).Cmp(e.median) != 0 {
				s.rec.Violation("x/consensus.estimate/elected-not-median/"+cls,
					fmt.Sprintf("message %s id=%d: elected %d, exact median of the submitted values %v is %s (min %s, max %s)", m.queue, m.id, obs, u64s(vals), e.median, e.min, e.max), s.witness(m, nil))
			}
			if e.outsiders > 0 {
				s.rec.Count("situ_elections_with_outsider_values", 1)
			}
		case e.quorum && !snapChanged:
			m.gasQuorumBlocks++
			if m.gasQuorumBlocks >= 3 && !m.gasStuckReported {
				m.gasStuckReported = true
				s.rec.Violation("x/consensus.estimate/no-election-despite-quorum/"+cls,
					fmt.Sprintf("message %s id=%d: submitters hold %s of %s shares (>= 2/3) since 3 blocks, values %v (exact median %s), but no estimate is elected", m.queue, m.id, e.memberSum, pre.total, u64s(vals), e.median), s.witness(m, nil))
			}
		default:
			m.gasQuorumBlocks = 0
		}
	}
}

// pooled: (only to NAME a violation) do two byte-different submitted values with the same field
// characters together hold two thirds?
func (s *situ) pooled(m *tracked, d evidenceVerdict, snap *refSnapshot) (situProof, situProof, bool) {
	byClass := map[int][]string{}
	for k := range d.groupSums {
		c := m.proofs[k].pv.sameFieldsClass
		byClass[c] = append(byClass[c], k)
	}
	for _, ks := range byClass {
		if len(ks) < 2 {
			continue
		}
		sort.Strings(ks)
		sum := new(big.Int)
		for _, k := range ks {
			sum.Add(sum, d.groupSums[k])
		}
		if snap.reaches(sum) {
			return m.proofs[ks[0]], m.proofs[ks[1]], true
		}
	}
	return situProof{}, situProof{}, false
}

func (s *situ) effectsNow(m *tracked) map[string]any {
	out := map[string]any{}
	ctx := s.ch.Ctx()
	switch m.kind {
	case kindRefBlock:
		if ci, err := s.ch.App.EvmKeeper.GetChainInfo(ctx, m.chainRef); err == nil {
			out["chain_reference_block_now"] = fmt.Sprintf("height %d hash %q", ci.ReferenceBlockHeight, ci.ReferenceBlockHash)
		}
	case kindBalances:
		var bs []string
		for i, va := range m.valAddrs {
			bs = append(bs, s.storedBalance(va, m.chainRef, m.hexAddrs[i]))
		}
		out["stored_balances_now"] = bs
	}
	return out
}

func (s *situ) storedBalance(val []byte, chainRef, hexAddr string) string {
	infos, err := s.ch.App.ValsetKeeper.GetValidatorChainInfos(s.ch.Ctx(), sdk.ValAddress(val))
	if err != nil {
		return "?"
	}
	for _, ci := range infos {
		if ci.GetChainReferenceID() == chainRef && strings.EqualFold(ci.GetAddress(), hexAddr) {
			return ci.Balance
		}
	}
	return "?"
}

// checkEffects: the effects applied on removal are those of the winning (byte-identical, 2/3) evidence.
func (s *situ) checkEffects(m *tracked, d evidenceVerdict, br *chain.BlockResult) {
	if !d.decided {
		return // decided only under the post-block snapshot; nothing to compare the effects with
	}
	w := m.proofs[d.winner]
	s.rec.Eval(1)
	bad := ""
	switch m.kind {
	case kindRefBlock:
		ci, err := s.ch.App.EvmKeeper.GetChainInfo(s.ch.Ctx(), m.chainRef)
		if err != nil || ci.ReferenceBlockHeight != w.refH || ci.ReferenceBlockHash != w.refHash {
			bad = fmt.Sprintf("chain reference block is (%d, %q), winning evidence says (%d, %q)", ci.GetReferenceBlockHeight(), ci.GetReferenceBlockHash(), w.refH, w.refHash)
		}
		s.rec.Count("situ_effects_checked_reference_block", 1)
	case kindBalances:
		for i, va := range m.valAddrs {
			got := s.storedBalance(va, m.chainRef, m.hexAddrs[i])
			want, _ := new(big.Int).SetString(w.balances[i], 10)
			g, ok := new(big.Int).SetString(got, 10)
			if !ok || want == nil || g.Cmp(want) != 0 {
				bad = fmt.Sprintf("stored balance of %s on %s is %q, winning evidence says %q", s.name(va), m.chainRef, got, w.balances[i])
				break
			}
		}
		s.rec.Count("situ_effects_checked_balances", 1)
	case kindTurnstone:
		if w.delivers != 0 {
			live, err := s.ch.App.ValsetKeeper.GetLatestSnapshotOnChain(s.ch.Ctx(), m.chainRef)
			if err != nil || live == nil || live.Id != w.delivers {
				bad = fmt.Sprintf("delivery of valset %d attested, but the snapshot live on %s is %v (err %v)", w.delivers, m.chainRef, live.GetId(), err)
			}
			s.rec.Count("situ_effects_checked_valset_delivered", 1)
			break
		}
		if w.isTx {
			s.rec.Count("situ_effects_tx_proof_removal_only", 1)
			return
		}
		found := false
		for _, e := range br.Events {
			if eventHas(e, "action", "SmartContractExecutionFailed") && eventHas(e, "MessageID", fmt.Sprint(m.id)) {
				found = true
				if !eventHas(e, "ErrorMessage", w.errMsg) {
					bad = fmt.Sprintf("SmartContractExecutionFailed event does not carry the winning error message %q: %v", w.errMsg, e.Attributes)
				}
			}
		}
		if !found {
			bad = "no SmartContractExecutionFailed event for the message in the block that removed it"
		}
		s.rec.Count("situ_effects_checked_error_event", 1)
	}
	if bad != "" {
		sig := "x/evm.attest/" + m.kind + "/effects-not-those-of-winning-evidence"
		for k := range d.groupSums {
			if k != d.winner && m.proofs[k].pv.sameFieldsClass == w.pv.sameFieldsClass {
				sig = "x/evm.attest/" + m.kind + "/pools-byte-different-evidence"
				bad += fmt.Sprintf(" (byte-different %s was pooled with the winner %s)", m.proofs[k].pv.desc, w.pv.desc)
				break
			}
		}
		s.rec.Violation(sig, fmt.Sprintf("message %s id=%d removed in block %d: %s", m.queue, m.id, br.Height, bad), s.witness(m, nil))
	}
}

func eventHas(e abci.Event, key, val string) bool {
	for _, a := range e.Attributes {
		if a.Key == key && a.Value == val {
			return true
		}
	}
	return false
}

// ---------------------------------------------------------------------------------------------
// workload

// proofsFor builds the 3 candidate evidence values of an episode on message m.
func (s *situ) proofsFor(m *tracked, hostile bool) []situProof {
	var out []situProof
	switch m.kind {
	case kindRefBlock:
		base := uint64(1000)
		for i := 0; i < m.refEpisode; i++ {
			base *= 100
		}
		hash := fmt.Sprintf("0x%x", pureAddr("blockhash", int(m.id)))
		if hostile {
			h0 := base + 7
			out = append(out,
				situProof{pv: refProof(h0, "5"+hash, 0), refH: h0, refHash: "5" + hash},
				situProof{pv: refProof(h0*10+5, hash, 0), refH: h0*10 + 5, refHash: hash},
				situProof{pv: refProof(base+9, hash, 1), refH: base + 9, refHash: hash})
		} else {
			out = append(out,
				situProof{pv: refProof(base+1, hash, 0), refH: base + 1, refHash: hash},
				situProof{pv: refProof(base+1, hash+"ff", 1), refH: base + 1, refHash: hash + "ff"},
				situProof{pv: refProof(base+2, hash, 2), refH: base + 2, refHash: hash})
		}
	case kindBalances:
		mk := func(h uint64, bump int, class int) situProof {
			bals := make([]string, len(m.hexAddrs))
			for i := range bals {
				bals[i] = fmt.Sprint(1_000_000_000 + uint64(m.id)*1000 + uint64(i))
			}
			if bump >= 0 && len(bals) > 0 {
				bals[bump%len(bals)] = fmt.Sprint(2_000_000_000 + uint64(m.id))
			}
			return situProof{pv: balProof(h, bals, class), balances: bals}
		}
		h := 5000 + m.id*10
		out = append(out, mk(h, -1, 0), mk(h, int(m.id), 1), mk(h+1, -1, 2))
	case kindTurnstone:
		switch s.r.Intn(3) {
		case 0:
			for k := 0; k < 3; k++ {
				msg := fmt.Sprintf("execution reverted: message %d variant %d", m.id, k)
				out = append(out, situProof{pv: errProof(msg, k), errMsg: msg})
			}
		case 1:
			// three different transactions, each with its (successful) receipt. A proof without
			// receipt is not acceptable evidence for this queue (routerAttester needs the receipt).
			for k := 0; k < 3; k++ {
				out = append(out, situProof{pv: txProof(m.id*16+uint64(k), receiptBytes(1, 21000), "ok", k), isTx: true})
			}
		default:
			// the same transaction with different receipts (the receipt is part of the evidence)
			n := m.id*16 + 8
			out = append(out,
				situProof{pv: txProof(n, receiptBytes(1, 21000), "ok", 0), isTx: true},
				situProof{pv: txProof(n, receiptBytes(1, 21001), "ok gas+1", 1), isTx: true},
				situProof{pv: txProof(n, receiptBytes(0, 21000), "failed", 2), isTx: true})
		}
	}
	for _, p := range out {
		m.proofs[p.pv.key()] = p
	}
	return out
}

func (s *situ) evidenceTx(m *tracked, who *chain.Account, p situProof) qtx {
	msg := &consensustypes.MsgAddEvidence{Proof: p.pv.any(), MessageID: m.id, QueueTypeName: m.queue, Metadata: world.Meta(who)}
	val := string(who.ValAddr())
	return qtx{signer: who, msg: msg, desc: fmt.Sprintf("MsgAddEvidence %s id=%d by %s: %s", m.queue, m.id, s.name(who.ValAddr()), p.pv.desc),
		onAccept: func() {
			s.rec.Count("situ_evidence_txs_accepted", 1)
			if m.done {
				return
			}
			for _, e := range m.evid {
				if e.val == val {
					s.rec.Count("situ_replaced_evidence", 1)
					break
				}
			}
			m.evid = append(m.evid, submission{val: val, key: p.pv.key()})
			if _, member := s.snap.shares[val]; !member {
				s.rec.Count("situ_outsider_evidence_accepted", 1)
			}
			d := decideEvidence(m.evid, s.snap)
			switch d.bestClass {
			case mcExact:
				s.rec.Count("situ_boundary_exactly_two_thirds", 1)
			case mcOneShort:
				s.rec.Count("situ_boundary_one_share_short", 1)
			case mcJustAbove:
				s.rec.Count("situ_boundary_one_share_above", 1)
			}
			if d.groups >= 2 {
				s.rec.Count("situ_split_vote_states", 1)
			}
			if !d.decided && s.snap.reaches(d.memberSum) {
				s.rec.Count("situ_all_evidence_two_thirds_but_no_identical_two_thirds", 1)
			}
		},
		onReject: func(string) { s.rec.Count("situ_evidence_txs_rejected", 1) }}
}

func (s *situ) estimateTx(m *tracked, who *chain.Account, v uint64) qtx {
	val := string(who.ValAddr())
	return qtx{signer: who, msg: world.MsgEstimate(who, m.queue, m.id, v), desc: fmt.Sprintf("MsgAddMessageGasEstimates %s id=%d by %s: %d", m.queue, m.id, s.name(who.ValAddr()), v),
		onAccept: func() {
			s.rec.Count("situ_estimate_txs_accepted", 1)
			if m.done {
				return
			}
			if m.elected != 0 {
				s.rec.Count("situ_late_estimates_after_election", 1)
				m.lateEst++
			}
			m.est = append(m.est, estimateSub{val: val, value: v})
			if _, member := s.snap.shares[val]; !member {
				s.rec.Count("situ_outsider_estimates_accepted", 1)
			}
			switch decideEstimates(m.est, s.snap).class {
			case mcExact:
				s.rec.Count("situ_gas_boundary_exactly_two_thirds", 1)
			case mcOneShort:
				s.rec.Count("situ_gas_boundary_one_share_short", 1)
			}
		},
		onReject: func(string) { s.rec.Count("situ_estimate_txs_rejected", 1) }}
}

// pickCamp chooses a subset of the snapshot members, steered to the two-thirds boundary.
func (s *situ) pickCamp() []*chain.Account {
	n := len(s.members)
	// bucket the subsets by margin 3*sum-2*total: -1 (tightest miss), 0 (exact), -3..-2, 1..3, far
	const (
		bMinus1 = iota
		bExact
		bShort
		bAbove
		bFarAbove
		bFarBelow
		nBuckets
	)
	buckets := make([][]int, nBuckets)
	for mask := 1; mask < 1<<n; mask++ {
		sum := new(big.Int)
		for i := 0; i < n; i++ {
			if mask&(1<<i) != 0 {
				sum.Add(sum, s.snap.shares[string(s.members[i].ValAddr())])
			}
		}
		mg := s.snap.margin(sum)
		b := bFarBelow
		switch {
		case mg.Sign() == 0:
			b = bExact
		case mg.Cmp(big.NewInt(-1)) == 0:
			b = bMinus1
		case mg.Sign() < 0 && mg.Cmp(big.NewInt(-3)) >= 0:
			b = bShort
		case mg.Sign() > 0 && mg.Cmp(big3) <= 0:
			b = bAbove
		case mg.Sign() > 0:
			b = bFarAbove
		}
		buckets[b] = append(buckets[b], mask)
	}
	weights := [nBuckets]int{bMinus1: 25, bExact: 30, bShort: 15, bAbove: 15, bFarAbove: 15, bFarBelow: 10}
	tot := 0
	for b, w := range weights {
		if len(buckets[b]) > 0 {
			tot += w
		}
	}
	x := s.r.Intn(tot)
	var mask int
	for b, w := range weights {
		if len(buckets[b]) == 0 {
			continue
		}
		if x < w {
			mask = buckets[b][s.r.Intn(len(buckets[b]))]
			break
		}
		x -= w
	}
	var camp []*chain.Account
	for i := 0; i < n; i++ {
		if mask&(1<<i) != 0 {
			camp = append(camp, s.members[i])
		}
	}
	return camp
}

// send delivers txs, mostly one per block, sometimes two or three in one block.
func (s *situ) send(txs []qtx) {
	for i := 0; i < len(txs) && !s.failed; {
		k := 1
		if s.r.Intn(4) == 0 {
			k = 2 + s.r.Intn(2)
		}
		if i+k > len(txs) {
			k = len(txs) - i
		}
		s.block(txs[i : i+k]...)
		i += k
	}
}

// evidenceEpisode: a camp steered to the boundary votes value 0, the others abstain / vote other
// values, with re-submissions, outsiders, a late defection, optionally completion by switching.
func (s *situ) evidenceEpisode(m *tracked) {
	if m.done || s.failed {
		return
	}
	hostile := m.kind == kindRefBlock && s.r.Intn(3) == 0
	var vals []situProof
	if m.kind == kindTurnstone && m.elected != 0 && s.r.Intn(5) < 2 {
		vals = s.deliveryPrelude(m)
		if s.failed || m.done {
			return
		}
	}
	if vals == nil {
		vals = s.proofsFor(m, hostile)
	}
	camp := s.pickCamp()
	inCamp := map[string]bool{}
	for _, a := range camp {
		inCamp[a.Bech] = true
	}
	s.note("EPISODE evidence on %s id=%d: camp %v (hostile values: %v)", m.queue, m.id, names(camp), hostile)
	s.rec.Count("situ_evidence_episodes", 1)
	restMode := s.r.Intn(3)
	var txs []qtx
	perm := s.r.Perm(len(s.members))
	firstCamp := true
	for _, i := range perm {
		a := s.members[i]
		if inCamp[a.Bech] {
			v := vals[0]
			if hostile {
				// the camp agrees on the characters but one member splits the fields differently
				if firstCamp && len(camp) > 1 {
					v = vals[1]
				}
				firstCamp = false
			} else if s.r.Intn(4) == 0 {
				txs = append(txs, s.evidenceTx(m, a, vals[1+s.r.Intn(2)])) // will be replaced below
			}
			txs = append(txs, s.evidenceTx(m, a, v))
			continue
		}
		switch restMode {
		case 1:
			txs = append(txs, s.evidenceTx(m, a, vals[2]))
		case 2:
			if s.r.Intn(2) == 0 {
				txs = append(txs, s.evidenceTx(m, a, vals[1+s.r.Intn(2)]))
			}
		}
	}
	// outsiders side with the camp (they must not tip the balance)
	for _, o := range s.outsiders {
		if s.r.Intn(10) < 7 {
			pos := s.r.Intn(len(txs) + 1)
			txs = append(txs[:pos], append([]qtx{s.evidenceTx(m, o, vals[0])}, txs[pos:]...)...)
		}
	}
	if s.r.Intn(6) == 0 && len(camp) > 0 {
		txs = append(txs, s.evidenceTx(m, camp[s.r.Intn(len(camp))], vals[2])) // late defection
	}
	s.send(txs)
	s.block()
	s.block()
	// completion: the others come round to value 0 one by one (replacing their evidence)
	if !m.done && !hostile && s.r.Intn(2) == 0 {
		for _, i := range s.r.Perm(len(s.members)) {
			if m.done || s.failed {
				break
			}
			a := s.members[i]
			if !inCamp[a.Bech] {
				s.block(s.evidenceTx(m, a, vals[0]))
			}
		}
		s.block()
	}
}

func names(as []*chain.Account) []string {
	var out []string
	for _, a := range as {
		out = append(out, a.Name)
	}
	return out
}

func (s *situ) gasEpisode(m *tracked, mode int) {
	if m.done || s.failed || !m.reqGas {
		return
	}
	camp := s.pickCamp()
	inCamp := map[string]bool{}
	for _, a := range camp {
		inCamp[a.Bech] = true
	}
	val := func() uint64 {
		switch mode {
		case 1:
			return s.r.Uint64() | 1<<63
		case 2:
			return randEstimate(s.r)
		}
		return 21_000 + uint64(s.r.Intn(5_000_000))
	}
	s.note("EPISODE gas estimates on %s id=%d: camp %v mode %d", m.queue, m.id, names(camp), mode)
	s.rec.Count("situ_gas_episodes", 1)
	var txs []qtx
	for _, i := range s.r.Perm(len(camp)) {
		txs = append(txs, s.estimateTx(m, camp[i], val()))
	}
	for _, o := range s.outsiders {
		if s.r.Intn(10) < 7 {
			v := uint64(1)
			if s.r.Intn(2) == 0 {
				v = ^uint64(0) - uint64(s.r.Intn(3))
			}
			pos := s.r.Intn(len(txs) + 1)
			txs = append(txs[:pos], append([]qtx{s.estimateTx(m, o, v)}, txs[pos:]...)...)
		}
	}
	// a second estimate of the same validator (the chain keeps at most one per validator)
	if len(camp) > 0 && s.r.Intn(2) == 0 {
		txs = append(txs, s.estimateTx(m, camp[0], val()))
	}
	s.send(txs)
	s.block()
	s.block()
	// the rest submits late: may complete the quorum, or arrive after the election
	for _, i := range s.r.Perm(len(s.members)) {
		a := s.members[i]
		if !inCamp[a.Bech] && s.r.Intn(3) > 0 {
			s.block(s.estimateTx(m, a, val()))
		}
	}
	s.block()
	s.block()
}

func (s *situ) pending(kind string) []*tracked {
	var out []*tracked
	for _, m := range s.order {
		if !m.done && (kind == "" || m.kind == kind) {
			out = append(out, m)
		}
	}
	return out
}

// snapshotChange alters the validator set (an outsider completes its registration and joins, or a
// member's stake grows) and lets the valset end-blocker build the next snapshot at height%50==0.
func (s *situ) snapshotChange() {
	if s.failed {
		return
	}
	if len(s.outsiders) > 0 && s.r.Intn(3) > 0 {
		o := s.outsiders[s.r.Intn(len(s.outsiders))]
		s.block(qtx{signer: o, msg: world.MsgRegister(o, situChains), desc: "outsider " + o.Name + " registers on all chains (will join the next snapshot)"})
	} else {
		a := s.members[s.r.Intn(len(s.members))]
		amt := int64(1+s.r.Intn(3))*1_000_000 + int64(s.r.Intn(3))
		s.block(qtx{signer: a, msg: &stakingtypes.MsgDelegate{DelegatorAddress: a.Bech, ValidatorAddress: a.ValBech(), Amount: sdk.NewCoin(chain.Denom, sdkmath.NewInt(amt))},
			desc: fmt.Sprintf("member %s delegates %d more", a.Name, amt)})
	}
	before := s.snapID
	s.skipTo((s.ch.Height/50 + 1) * 50)
	s.block()
	if s.snapID != before {
		s.rec.Count("situ_snapshot_change_phases", 1)
	}
}

// exactSubsetExists: some subset of units sums to exactly two thirds of the total.
func exactSubsetExists(units []int64) bool {
	var tot int64
	for _, u := range units {
		tot += u
	}
	if tot*2%3 != 0 {
		return false
	}
	for mask := 1; mask < 1<<len(units); mask++ {
		var sum int64
		for i, u := range units {
			if mask&(1<<i) != 0 {
				sum += u
			}
		}
		if sum*3 == tot*2 {
			return true
		}
	}
	return false
}

func runSitu(c fw.Case, rec *fw.Recorder) {
	var p situParams
	c.Decode(&p)
	r := c.Rand()
	// validator set: shares are unit*1e6 (+ a few ugrain on some, so that totals are not
	// divisible by 3 and "one share short" exists)
	nMembers := 3 + r.Intn(5)
	var units []int64
	for try := 0; ; try++ {
		units = units[:0]
		for i := 0; i < nMembers; i++ {
			units = append(units, int64(1+r.Intn(7)))
		}
		if exactSubsetExists(units) || try > 200 {
			break
		}
	}
	stakes := make([]int64, 0, nMembers+2)
	for _, u := range units {
		st := u * 1_000_000
		if p.Index%3 == 2 {
			// a few single ugrain on top of an exactly-2/3-capable unit vector: margins of
			// -2, -1, +1 shares (totals not divisible by 3)
			st += []int64{0, 0, 1, 1, 2}[r.Intn(5)]
		} else if p.Index%3 == 1 && r.Intn(4) == 0 {
			st += 1
		}
		stakes = append(stakes, st)
	}
	nOut := p.Index % 3
	for i := 0; i < nOut; i++ {
		stakes = append(stakes, int64(1+r.Intn(7))*1_000_000)
	}
	vals := chain.DefaultValidators(fmt.Sprintf("c04/%d", c.Seed), stakes)
	var specs []chain.EVMChainSpec
	for i, cr := range situChains {
		specs = append(specs, chain.EVMChainSpec{RefID: cr, ChainID: uint64(1 + i*55)})
	}
	debug := os.Getenv("VERIF_C04_DEBUG") != ""
	ch := chain.New(chain.Config{Validators: vals, EVMChains: specs, WithCompass: true, CaptureLog: debug})
	defer ch.Close()
	if debug {
		defer func() {
			for k, v := range ch.Log.Distinct() {
				if k[0] == 'E' || k[0] == 'W' {
					fmt.Printf("LOG %4d %s\n", v, k)
				}
			}
		}()
	}
	s := &situ{ch: ch, rec: rec, r: r, accts: map[string]*chain.Account{}, msgs: map[string]*tracked{}, refCount: map[string]int{}}
	accts := world.Accts(vals)
	for i, a := range accts {
		if i < nMembers {
			a.Name = fmt.Sprintf("member%d", i)
		} else {
			a.Name = fmt.Sprintf("outsider%d", i-nMembers)
		}
		s.accts[string(a.ValAddr())] = a
		s.all = append(s.all, a)
	}
	rec.Count("situ_histories", 1)
	ch.Skip(1)
	if err := world.Bootstrap(ch, accts[:nMembers], situChains); err != nil {
		rec.Inconclusive("bootstrap: " + err.Error())
		return
	}
	// outsiders: bonded and alive, but registered on one chain only -> never in a snapshot
	for _, o := range accts[nMembers:] {
		ch.QueueTx(o, 0, world.MsgRegister(o, situChains[:1]))
		ch.QueueTx(o, 1, world.MsgKeepAlive(o, world.PigeonVersion))
	}
	if br := ch.NextBlock(); br.Panic != "" || br.Err != nil {
		rec.Inconclusive("outsider registration block failed")
		return
	}
	for _, cr := range situChains {
		if err := world.ActivateChain(ch, cr, "0x00000000000000000000000000000000000c0de1", []byte("compass-"+cr)); err != nil {
			rec.Inconclusive("activate chain: " + err.Error())
			return
		}
	}
	if br := ch.Skip(int(50 - ch.Height)); br != nil && (br.Panic != "" || br.Err != nil) {
		rec.Inconclusive("blocks up to the first snapshot failed")
		return
	}
	s.readSnapshot()
	if s.failed {
		return
	}
	if len(s.members) != nMembers || len(s.outsiders) != nOut {
		rec.Inconclusive(fmt.Sprintf("snapshot has %d members / %d outsiders, expected %d / %d", len(s.members), len(s.outsiders), nMembers, nOut))
		return
	}
	s.note("snapshot %d: %v; outsiders %v", s.snapID, s.describeSnap(), names(s.outsiders))
	s.discover()
	s.block()

	if p.Script == "reassign" {
		s.scriptReassign(p)
	} else {
		s.standardPhases(p)
	}
	s.block()
	s.block()
	for _, m := range s.order {
		if !m.done {
			rec.Count("situ_messages_left_undecided", 1)
		}
	}
	// distinct: the abstract history (shares, per message the accepted submissions)
	var sb strings.Builder
	fmt.Fprintf(&sb, "%v|", stakes)
	for _, m := range s.order {
		fmt.Fprintf(&sb, "%s/%d:", m.kind, len(m.evid))
		for _, e := range m.evid {
			fmt.Fprintf(&sb, "%s>%d,", s.accts[e.val].Name, m.proofs[e.key].pv.sameFieldsClass)
		}
		for _, e := range m.est {
			fmt.Fprintf(&sb, "%s=%d,", s.accts[e.val].Name, e.value)
		}
	}
	rec.Distinct("situ:" + sb.String())
	if p.Index < 2 {
		h := s.history
		if len(h) > 40 {
			h = h[:40]
		}
		rec.Sample(map[string]any{"part": "in-situ", "stakes": stakes, "outsiders": nOut, "first_steps": h})
	}
}

// standardPhases: turnstone messages (gas estimates, evidence), reference blocks, balances, with one
// change of the validator set somewhere in between.
func (s *situ) standardPhases(p situParams) {
	r := s.r
	changeAt := r.Intn(3) // after which phase the validator set changes (2 = never before the end)

	// phase T: turnstone (update-valset) messages: gas estimates, then evidence
	for i, m := range s.pending(kindTurnstone) {
		s.gasEpisode(m, (p.Index+i)%3)
	}
	if p.Index%2 == 1 {
		// every second history: the orphan housekeeping runs between the elections (with their late
		// estimates) and the relay; no randomness is drawn, the episodes below stay as they are
		s.housekeeping(1)
		s.block()
	}
	for _, m := range s.pending(kindTurnstone) {
		s.evidenceEpisode(m)
	}
	if changeAt == 0 {
		s.snapshotChange()
		for i, m := range s.pending(kindTurnstone) { // the superseding update-valset messages
			s.gasEpisode(m, (p.Index+i+1)%3)
			s.evidenceEpisode(m)
		}
	}

	// phase R: reference-block messages, one chain after the other; a chain with an undecided
	// reference-block message gets no further one (heights must keep increasing)
	for round := 0; round < 2 && !s.failed; round++ {
		for _, cr := range situChains {
			blocked := false
			for _, m := range s.pending(kindRefBlock) {
				if m.chainRef == cr {
					blocked = true
				}
			}
			if blocked {
				continue
			}
			s.note("scheduling reference-block request for %s (keeper function of the evm end-blocker)", cr)
			if err := s.ch.App.EvmKeeper.ScheduleReferenceBlockForChain(s.ch.Ctx(), cr); err != nil {
				s.rec.Inconclusive("ScheduleReferenceBlockForChain: " + err.Error())
				s.failed = true
				return
			}
			s.block()
			for _, m := range s.pending(kindRefBlock) {
				if m.chainRef == cr && len(m.evid) == 0 {
					s.evidenceEpisode(m)
				}
			}
		}
	}
	if changeAt == 1 {
		s.snapshotChange()
		// undecided messages are re-tallied with the new snapshot; give them more evidence too
		for _, m := range s.pending(kindRefBlock) {
			s.completeWith(m)
		}
	}

	// phase B: validator-balances messages scheduled by the real evm end-blocker at height 300
	if s.ch.Height < 300 {
		s.skipTo(300)
		s.block()
	}
	for _, m := range s.pending(kindBalances) {
		s.evidenceEpisode(m)
	}
	if changeAt == 2 && r.Intn(2) == 0 {
		s.snapshotChange()
		for _, m := range s.pending(kindBalances) {
			s.completeWith(m)
		}
	}
}

// completeWith: after a snapshot change, members that have not submitted join the best-backed value.
func (s *situ) completeWith(m *tracked) {
	if m.done || s.failed || len(m.evid) == 0 {
		return
	}
	d := decideEvidence(m.evid, s.snap)
	best, ok := m.proofs[d.bestKey]
	if !ok {
		return
	}
	if m.kind == kindRefBlock && best.pv.sameFieldsClass == 0 && strings.HasPrefix(best.refHash, "5") {
		return
	}
	has := map[string]bool{}
	for _, e := range m.evid {
		has[e.val] = true
	}
	for _, a := range s.members {
		if m.done || s.failed {
			return
		}
		if !has[string(a.ValAddr())] && s.r.Intn(3) > 0 {
			s.block(s.evidenceTx(m, a, best))
		}
	}
	s.block()
}

// deliveryPrelude runs the relay of an update-valset message the way pigeons do (signatures of
// all members, public access data by the assignee with the hash of a transaction whose call data
// is built with the public compass ABI) and returns three candidate proofs: the delivering
// transaction with its receipt, the same transaction with another receipt, a foreign transaction.
func (s *situ) deliveryPrelude(m *tracked) []situProof {
	var txs []qtx
	for _, v := range s.members {
		sm, err := world.MsgSign(s.ch, v, m.queue, m.id)
		if err != nil {
			return nil
		}
		txs = append(txs, qtx{signer: v, msg: sm, desc: fmt.Sprintf("MsgAddMessagesSignatures %s id=%d by %s", m.queue, m.id, v.Name)})
	}
	s.block(txs...)
	qm := s.queueIDs(m.queue)[m.id]
	if qm == nil || s.failed {
		return nil
	}
	tm := world.TurnstoneMsg(s.ch, qm)
	if tm == nil {
		return nil
	}
	uv, ok := tm.Action.(*evmtypes.Message_UpdateValset)
	if !ok {
		return nil
	}
	var relayer *chain.Account
	for _, a := range s.all {
		if a.ValBech() == tm.Assignee {
			relayer = a
		}
	}
	if relayer == nil {
		return nil
	}
	valsetID := s.snapID
	if ls, err := s.ch.App.ValsetKeeper.GetLatestSnapshotOnChain(s.ch.Ctx(), m.chainRef); err == nil && ls != nil {
		valsetID = ls.Id
	}
	vs, err := world.ValsetOnChain(s.ch, m.chainRef, valsetID)
	if err != nil {
		return nil
	}
	data, err := world.CallData(s.ch, qm, vs, 0)
	if err != nil {
		return nil
	}
	ci, err := s.ch.App.EvmKeeper.GetChainInfo(s.ch.Ctx(), m.chainRef)
	if err != nil {
		return nil
	}
	to := common.HexToAddress(ci.SmartContractAddr)
	rtx, err := world.NewRemoteTx(relayer.EthKey, ci.ChainID, m.id, &to, data, 1)
	if err != nil {
		return nil
	}
	accepted := false
	s.block(qtx{signer: relayer, msg: world.MsgPublicAccess(relayer, m.queue, m.id, rtx.Hash().Bytes(), valsetID),
		desc:     fmt.Sprintf("MsgSetPublicAccessData %s id=%d by assignee %s (tx %s, valset %d)", m.queue, m.id, relayer.Name, rtx.Hash().Hex(), valsetID),
		onAccept: func() { accepted = true }})
	if !accepted {
		return nil
	}
	s.rec.Count("situ_delivery_preludes", 1)
	target := uv.UpdateValset.Valset.ValsetID
	p0, _ := rtx.Proof(false)
	rtx.Receipt.CumulativeGasUsed++
	p1, _ := rtx.Proof(false)
	foreign, _ := world.NewRemoteTx(relayer.EthKey, ci.ChainID, m.id+1000, &to, []byte{0xde, 0xad, byte(m.id)}, 1)
	p2, _ := foreign.Proof(false)
	out := []situProof{
		{pv: mkProof(p0, fmt.Sprintf("TxExecutedProof{DELIVERING tx %s, receipt ok}", rtx.Hash().Hex()[:10]), 0), isTx: true, delivers: target},
		{pv: mkProof(p1, fmt.Sprintf("TxExecutedProof{DELIVERING tx %s, receipt ok gas+1}", rtx.Hash().Hex()[:10]), 1), isTx: true, delivers: target},
		{pv: mkProof(p2, "TxExecutedProof{foreign tx, receipt ok}", 2), isTx: true},
	}
	for _, p := range out {
		m.proofs[p.pv.key()] = p
	}
	return out
}
