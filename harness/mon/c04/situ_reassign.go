package c04

// Orphan re-assignment histories ("the elected estimate, once elected, never changes" while the
// message is handed to another relayer).
//
// A queued turnstone message that nobody relays is given a new assignee by
// ConsensusKeeper.ReassignOrphanedMessages (x/consensus/keeper/cleanup.go). At the pinned commit NO
// begin/end-blocker calls that function (see NOTES.md); it is the consensus keeper's exported
// housekeeping entry point and the only code that rewrites a queued message outside the
// estimate/evidence/signature paths. The monitor calls it at a block boundary on the chain's working
// state - the way situ.go already drives EvmKeeper.ScheduleReferenceBlockForChain - and then lets
// the real end-blockers run again.
//
// History per message: a camp holding >= 2/3 hands in estimates -> the end-blocker elects -> the
// remaining validators and the outsiders hand in (very different) estimates AFTER the election
// (Queue.AddGasEstimate accepts them) -> blocks pass until the message is older than the
// housekeeping age -> housekeeping -> end-blocker again. Oracle (unchanged, situ.go): per message,
// once an elected estimate > 0 was observed, every later observation shows the same value;
// observations are made after every block and, additionally, directly after the housekeeping call.

import (
	"fmt"
	"math/big"
	"strconv"

	sdk "github.com/cosmos/cosmos-sdk/types"

	"verif/harness/chain"
	"verif/harness/world"
)

// housekeeping calls the consensus keeper's orphan re-assignment for messages older than age
// blocks, then re-observes every elected estimate.
func (s *situ) housekeeping(age int64) {
	if s.failed {
		return
	}
	type before struct{ assignee, remote string }
	pre := map[*tracked]before{}
	for _, m := range s.pending(kindTurnstone) {
		if qm := s.queueIDs(m.queue)[m.id]; qm != nil {
			if tm := world.TurnstoneMsg(s.ch, qm); tm != nil {
				pre[m] = before{tm.Assignee, tm.AssigneeRemoteAddress}
			}
		}
	}
	s.rec.Op(map[string]any{"h": s.ch.Height, "op": "ConsensusKeeper.ReassignOrphanedMessages", "age": age})
	s.note("HOUSEKEEPING after block %d: ConsensusKeeper.ReassignOrphanedMessages(age > %d blocks)", s.ch.Height, age)
	em := sdk.NewEventManager()
	var err error
	func() {
		defer func() {
			if e := recover(); e != nil {
				err = fmt.Errorf("panic: %v", e)
			}
		}()
		err = s.ch.App.ConsensusKeeper.ReassignOrphanedMessages(s.ch.Ctx().WithEventManager(em), age)
	}()
	s.rec.Count("situ_housekeeping_calls", 1)
	if err != nil {
		// not this property's business (no validator to pick, ...): the history goes on
		s.rec.Count("situ_housekeeping_errors", 1)
		s.note("housekeeping returned: %.200s", err.Error())
	}
	// which tracked messages were handed over (the function emits one event per message)
	handed := map[uint64]bool{}
	for _, e := range em.Events() {
		isReassign, id := false, uint64(0)
		for _, a := range e.Attributes {
			switch {
			case a.Key == sdk.AttributeKeyAction && a.Value == "OrphanedMessagesReassigner":
				isReassign = true
			case a.Key == "msg-id":
				id, _ = strconv.ParseUint(a.Value, 10, 64)
			}
		}
		if isReassign {
			handed[id] = true
			s.rec.Count("situ_orphan_reassignments", 1)
		}
	}
	for _, m := range s.pending(kindTurnstone) {
		if !handed[m.id] {
			continue
		}
		if _, known := pre[m]; !known {
			continue
		}
		if qm := s.queueIDs(m.queue)[m.id]; qm != nil {
			if tm := world.TurnstoneMsg(s.ch, qm); tm != nil {
				if (before{tm.Assignee, tm.AssigneeRemoteAddress}) != pre[m] {
					s.rec.Count("situ_orphan_reassignments_to_another_relayer", 1)
				}
				s.note("message %s id=%d handed over: %s -> %s", m.queue, m.id, pre[m].assignee, tm.Assignee)
			}
		}
		if m.elected != 0 {
			s.rec.Count("situ_reassigned_with_elected_estimate", 1)
			if m.lateEst > 0 {
				s.rec.Count("situ_reassigned_after_election_and_late_estimates", 1)
			}
		}
	}
	s.observeElected("by-orphan-reassignment", "the orphan re-assignment")
}

// observeElected: an additional observation point of the "never changes" clause at a block
// boundary, after an operation op on the working state. The record of the elected value
// (m.elected) is left alone: the oracle after the next block compares with it again.
func (s *situ) observeElected(sigSuffix, op string) {
	cache := map[string]map[uint64]uint64{}
	for _, m := range s.order {
		if m.done || !m.reqGas || m.elected == 0 {
			continue
		}
		if cache[m.queue] == nil {
			cache[m.queue] = map[uint64]uint64{}
			for id, qm := range s.queueIDs(m.queue) {
				cache[m.queue][id] = qm.GetGasEstimate()
			}
		}
		obs, present := cache[m.queue][m.id]
		if !present {
			continue // removal is judged by the oracle after the next block
		}
		s.rec.Eval(1)
		s.rec.Count("situ_elected_estimates_reobserved_after_housekeeping", 1)
		if obs != m.elected {
			s.rec.Violation("x/consensus.estimate/elected-estimate-changed/"+sigSuffix,
				fmt.Sprintf("message %s id=%d: elected gas estimate was %d, after %s (block boundary after block %d) it is %d", m.queue, m.id, m.elected, op, s.ch.Height, obs),
				s.witness(m, nil))
		}
	}
}

// pickQuorumCamp: a subset of the snapshot members holding at least two thirds, steered to the
// boundary (exactly 2/3, at most one share above, anything above, everybody).
func (s *situ) pickQuorumCamp() []*chain.Account {
	n := len(s.members)
	var exact, above, far []int
	for mask := 1; mask < 1<<n; mask++ {
		sum := new(big.Int)
		for i := 0; i < n; i++ {
			if mask&(1<<i) != 0 {
				sum.Add(sum, s.snap.shares[string(s.members[i].ValAddr())])
			}
		}
		mg := s.snap.margin(sum)
		switch {
		case mg.Sign() < 0 || mask == 1<<n-1:
		case mg.Sign() == 0:
			exact = append(exact, mask)
		case mg.Cmp(big3) <= 0:
			above = append(above, mask)
		default:
			far = append(far, mask)
		}
	}
	mask := 1<<n - 1
	x := s.r.Intn(100)
	switch {
	case x < 40 && len(exact) > 0:
		mask = exact[s.r.Intn(len(exact))]
	case x < 55 && len(above) > 0:
		mask = above[s.r.Intn(len(above))]
	case x < 90 && len(far) > 0:
		mask = far[s.r.Intn(len(far))]
	case x < 90 && len(exact) > 0:
		mask = exact[s.r.Intn(len(exact))]
	}
	var camp []*chain.Account
	for i := 0; i < n; i++ {
		if mask&(1<<i) != 0 {
			camp = append(camp, s.members[i])
		}
	}
	return camp
}

// reassignPlan: what is still to be sent for one message after its election.
type reassignPlan struct {
	m    *tracked
	late []qtx // estimates of those that did not take part in the election
}

// electThenLate: estimates of a quorum camp, election by the end-blocker; returns the estimate
// transactions of everybody else (members outside the camp, outsiders), with values far away from
// the elected one (all above or all below it), to be sent AFTER the election.
func (s *situ) electThenLate(m *tracked, mode int) reassignPlan {
	pl := reassignPlan{m: m}
	if m.done || s.failed || !m.reqGas || m.elected != 0 {
		return pl
	}
	camp := s.pickQuorumCamp()
	inCamp := map[string]bool{}
	for _, a := range camp {
		inCamp[a.Bech] = true
	}
	val := func() uint64 {
		switch mode {
		case 1:
			return s.r.Uint64()>>1 | 1<<62 // [2^62, 2^63): huge, and room above and below
		case 2:
			return 2 + uint64(s.r.Intn(40)) // tiny values, many ties
		}
		return 21_000 + uint64(s.r.Intn(5_000_000))
	}
	s.note("EPISODE election then late estimates on %s id=%d: camp %v mode %d", m.queue, m.id, names(camp), mode)
	s.rec.Count("situ_reassign_episodes", 1)
	var txs []qtx
	for _, i := range s.r.Perm(len(camp)) {
		txs = append(txs, s.estimateTx(m, camp[i], val()))
	}
	earlyOutsider := map[string]bool{}
	for _, o := range s.outsiders {
		if s.r.Intn(3) == 0 {
			earlyOutsider[o.Bech] = true
			pos := s.r.Intn(len(txs) + 1)
			txs = append(txs[:pos], append([]qtx{s.estimateTx(m, o, val())}, txs[pos:]...)...)
		}
	}
	s.send(txs)
	s.block()
	if m.elected == 0 {
		s.block()
	}
	if m.elected == 0 || m.done {
		s.rec.Count("situ_reassign_episodes_without_election", 1)
		return pl
	}
	// the late values: all on one side of the elected value
	high := s.r.Intn(2) == 0
	if m.elected <= 3 {
		high = true
	}
	lateVal := func() uint64 {
		if high {
			switch s.r.Intn(3) {
			case 0:
				return ^uint64(0) - uint64(s.r.Intn(3))
			case 1:
				if m.elected < 1<<62 {
					return m.elected*3 + 1 + uint64(s.r.Intn(1000))
				}
			}
			return m.elected + 1 + uint64(s.r.Int63n(1<<40))
		}
		switch s.r.Intn(3) {
		case 0:
			return 1
		case 1:
			return m.elected/2 + 1
		}
		return 1 + uint64(s.r.Int63n(int64(min(m.elected-1, 1<<62))))
	}
	for _, i := range s.r.Perm(len(s.members)) {
		if a := s.members[i]; !inCamp[a.Bech] {
			pl.late = append(pl.late, s.estimateTx(m, a, lateVal()))
		}
	}
	for _, o := range s.outsiders {
		if !earlyOutsider[o.Bech] {
			pl.late = append(pl.late, s.estimateTx(m, o, lateVal()))
		}
	}
	return pl
}

// ageAll lets empty blocks pass until every pending turnstone message is older than age blocks.
func (s *situ) ageAll(age int64) {
	for !s.failed {
		young := false
		for _, m := range s.pending(kindTurnstone) {
			if s.ch.Height-m.addedAt <= age {
				young = true
			}
		}
		if !young {
			return
		}
		s.block()
	}
}

// scriptReassign: two rounds (the second one on the update-valset messages that follow a change of
// the validator set): elections, late estimates, housekeeping, end-blockers; three placements of
// the late estimates relative to the housekeeping runs.
func (s *situ) scriptReassign(p situParams) {
	for round := 0; round < 2 && !s.failed; round++ {
		var plans []reassignPlan
		for i, m := range s.pending(kindTurnstone) {
			plans = append(plans, s.electThenLate(m, (p.Index+i+round)%3))
		}
		placement := (p.Index/3 + round) % 3
		sendLate := func(part int) {
			for i := range plans {
				pl := &plans[i]
				if pl.m.done || len(pl.late) == 0 {
					continue
				}
				k := len(pl.late)
				if part == 0 && placement == 2 {
					k = (k + 1) / 2
				}
				s.send(pl.late[:k])
				pl.late = pl.late[k:]
			}
			s.block()
		}
		if placement != 1 {
			sendLate(0) // 0: all of them before the first housekeeping run, 2: the first half
		}
		age := []int64{1, 2, 5, 20}[s.r.Intn(4)]
		s.ageAll(age)
		s.housekeeping(age)
		s.block()
		s.block()
		if placement != 0 {
			sendLate(1) // 1: all of them between the first and the second run, 2: the second half
		}
		s.housekeeping(age)
		s.block()
		// a run directly after a run, and one without any block in between
		s.housekeeping(1)
		s.housekeeping(age)
		s.block()
		s.block()
		// the messages are relayed / attested as usual under their new assignee
		for _, m := range s.pending(kindTurnstone) {
			s.evidenceEpisode(m)
		}
		if round == 0 {
			s.snapshotChange()
		}
	}
}
