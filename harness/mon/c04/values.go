package c04

// Evidence values (proofs) used by the workloads, grouped in families. A family is a list of
// pairwise byte-different proofs. Some families are "framing-hostile": their members differ byte
// for byte but are built so that a digest over a naive concatenation of their fields cannot tell
// them apart (same technique an adversarial validator would use). The oracle does not know or
// care: it compares type URL + value bytes.

import (
	"crypto/sha256"
	"fmt"
	"math/big"

	"github.com/cosmos/cosmos-sdk/codec"
	codectypes "github.com/cosmos/cosmos-sdk/codec/types"
	"github.com/cosmos/gogoproto/proto"
	"github.com/ethereum/go-ethereum/common"
	ethtypes "github.com/ethereum/go-ethereum/core/types"
	ethcrypto "github.com/ethereum/go-ethereum/crypto"

	evmtypes "github.com/palomachain/paloma/v2/x/evm/types"
)

var (
	ifaceRegistry = func() codectypes.InterfaceRegistry {
		r := codectypes.NewInterfaceRegistry()
		evmtypes.RegisterInterfaces(r)
		return r
	}()
	protoCdc = codec.NewProtoCodec(ifaceRegistry)
)

type proofValue struct {
	typeURL string
	value   []byte
	desc    string
	// sameFieldsClass: members of a family with the same class consist of the same field
	// characters in the same order, only split differently over the fields (or over types).
	// Only used to NAME a violation (signature), never to decide one.
	sameFieldsClass int
}

func (p proofValue) key() string { return p.typeURL + "\x00" + string(p.value) }

// any returns a fresh Any as it would come out of a decoded transaction / the store (no cached
// value).
func (p proofValue) any() *codectypes.Any {
	return &codectypes.Any{TypeUrl: p.typeURL, Value: append([]byte(nil), p.value...)}
}

func mkProof(m proto.Message, desc string, class int) proofValue {
	a, err := codectypes.NewAnyWithValue(m)
	if err != nil {
		panic(err)
	}
	return proofValue{typeURL: a.TypeUrl, value: a.Value, desc: desc, sameFieldsClass: class}
}

type family struct {
	name    string
	vals    []proofValue
	hostile bool // contains byte-different values with identical field concatenation
	kinds   string
}

func ethKey(i int) []byte {
	h := sha256.Sum256([]byte(fmt.Sprintf("c04/ethkey/%d", i)))
	return h[:]
}

// signedTx: a really signed legacy Ethereum transaction, serialised as pigeon does.
func signedTx(nonce uint64, data []byte) []byte {
	k, err := ethcrypto.ToECDSA(ethKey(1))
	if err != nil {
		panic(err)
	}
	to := common.HexToAddress("0x00000000000000000000000000000000000c0de1")
	tx := ethtypes.NewTx(&ethtypes.LegacyTx{Nonce: nonce, GasPrice: big.NewInt(1_000_000_000), Gas: 300_000, To: &to, Value: big.NewInt(0), Data: data})
	stx, err := ethtypes.SignTx(tx, ethtypes.NewEIP155Signer(big.NewInt(1)), k)
	if err != nil {
		panic(err)
	}
	bz, err := stx.MarshalBinary()
	if err != nil {
		panic(err)
	}
	return bz
}

func receiptBytes(status uint64, gasUsed uint64) []byte {
	r := &ethtypes.Receipt{Type: ethtypes.LegacyTxType, Status: status, CumulativeGasUsed: gasUsed, Logs: []*ethtypes.Log{}}
	bz, err := r.MarshalBinary()
	if err != nil {
		panic(err)
	}
	return bz
}

func errProof(msg string, class int) proofValue {
	return mkProof(&evmtypes.SmartContractExecutionErrorProof{ErrorMessage: msg}, fmt.Sprintf("ErrorProof{%q}", msg), class)
}

func balProof(h uint64, bals []string, class int) proofValue {
	return mkProof(&evmtypes.ValidatorBalancesAttestationRes{BlockHeight: h, Balances: bals}, fmt.Sprintf("BalancesRes{height:%d balances:%q}", h, bals), class)
}

func refProof(h uint64, hash string, class int) proofValue {
	return mkProof(&evmtypes.ReferenceBlockAttestationRes{BlockHeight: h, BlockHash: hash}, fmt.Sprintf("ReferenceBlockRes{height:%d hash:%q}", h, hash), class)
}

func txProof(nonce uint64, receipt []byte, rdesc string, class int) proofValue {
	return mkProof(&evmtypes.TxExecutedProof{SerializedTX: signedTx(nonce, []byte{0xc0, 0x4, byte(nonce)}), SerializedReceipt: receipt},
		fmt.Sprintf("TxExecutedProof{tx nonce %d, receipt %s}", nonce, rdesc), class)
}

// families for the PURE part (each has >= 4 pairwise byte-different values).
func pureFamilies() []family {
	return []family{
		{name: "error-proof", kinds: "SmartContractExecutionErrorProof", vals: []proofValue{
			errProof("execution reverted: 0", 0), errProof("execution reverted: 1", 1), errProof("execution reverted: 2", 2), errProof("", 3)}},
		{name: "balances", kinds: "ValidatorBalancesAttestationRes", vals: []proofValue{
			balProof(100, []string{"1000", "2000"}, 0), balProof(100, []string{"1000", "2001"}, 1), balProof(101, []string{"1000", "2000"}, 2), balProof(100, []string{"1000"}, 3)}},
		{name: "reference-block", kinds: "ReferenceBlockAttestationRes", vals: []proofValue{
			refProof(1000, "0xaa", 0), refProof(1000, "0xab", 1), refProof(1001, "0xaa", 2), refProof(1002, "", 3)}},
		{name: "tx-proof", kinds: "TxExecutedProof (no receipt)", vals: []proofValue{
			txProof(0, nil, "none", 0), txProof(1, nil, "none", 1), txProof(2, nil, "none", 2), txProof(3, nil, "none", 3)}},
		{name: "tx-proof-receipt", kinds: "TxExecutedProof (same tx, different receipts)", vals: []proofValue{
			txProof(7, receiptBytes(1, 21000), "ok", 0), txProof(7, receiptBytes(0, 21000), "failed", 1), txProof(7, nil, "none", 2), txProof(7, receiptBytes(1, 21001), "ok gas+1", 3)}},
		{name: "mixed-types", kinds: "all four proof types", vals: []proofValue{
			errProof("oops", 0), refProof(5, "0x05", 1), balProof(5, []string{"5"}, 2), txProof(9, nil, "none", 3)}},
		// framing-hostile families
		{name: "reference-block-field-split", hostile: true, kinds: "ReferenceBlockAttestationRes", vals: []proofValue{
			refProof(12, "3abc", 0), refProof(123, "abc", 0), refProof(1, "23abc", 0), refProof(1234, "bc", 1)}},
		{name: "balances-field-split", hostile: true, kinds: "ValidatorBalancesAttestationRes", vals: []proofValue{
			balProof(5, []string{"1", "2"}, 0), balProof(5, []string{"1\n2"}, 0), balProof(5, []string{"12"}, 1), balProof(51, []string{"2"}, 2)}},
		{name: "cross-type-field-split", hostile: true, kinds: "ErrorProof + ReferenceBlockRes + BalancesRes", vals: []proofValue{
			errProof("123abc", 0), refProof(123, "abc", 0), refProof(12, "3abc", 0), balProof(123, nil, 1)}},
	}
}

func familyByName(name string) family {
	for _, f := range pureFamilies() {
		if f.name == name {
			return f
		}
	}
	panic("unknown family " + name)
}
