package c04

// PURE part, gas estimates: the real palomath.Median and the real
// libcons.ConsensusChecker.VerifyGasEstimates against refMedian / decideEstimates (ref.go).

import (
	"context"
	"errors"
	"fmt"
	"math"
	"math/big"
	"math/rand"
	"strings"

	"cosmossdk.io/log"
	sdk "github.com/cosmos/cosmos-sdk/types"

	"github.com/palomachain/paloma/v2/util/libcons"
	"github.com/palomachain/paloma/v2/util/palomath"
	consensustypes "github.com/palomachain/paloma/v2/x/consensus/types"

	"verif/harness/fw"
)

// nopLogProvider satisfies liblog.LogProvider (VerifyGasEstimates only logs through it).
type nopLogProvider struct{}

func (nopLogProvider) Logger(context.Context) log.Logger { return log.NewNopLogger() }

// special values of the estimate space (DESIGN W.a plus neighbours)
var specialEstimates = []uint64{1, 2, 3, math.MaxUint32, 1 << 32, 1<<63 - 1, 1 << 63, 1<<63 + 1, math.MaxUint64 - 1, math.MaxUint64}

func u64s(v []uint64) []string {
	out := make([]string, len(v))
	for i, x := range v {
		out[i] = fmt.Sprintf("%d", x)
	}
	return out
}

// checkMedian calls the real Median on a copy of vals. Returns false on violation.
func checkMedian(rec *fw.Recorder, vals []uint64) bool {
	in := append([]uint64(nil), vals...)
	var got uint64
	var panicked any
	func() {
		defer func() { panicked = recover() }()
		got = palomath.Median(in)
	}()
	want, lo, hi := refMedian(vals)
	cls := medianInputClass(vals)
	if panicked != nil {
		rec.Violation("palomath.Median/panic/"+cls, fmt.Sprintf("Median panicked: %v", panicked), map[string]any{"values": u64s(vals)})
		return false
	}
	g := new(big.Int).SetUint64(got)
	if g.Cmp(want) != 0 {
		where := "inside [min,max] but not the median"
		if g.Cmp(lo) < 0 {
			where = "BELOW the lowest submitted value"
		} else if g.Cmp(hi) > 0 {
			where = "ABOVE the highest submitted value"
		}
		rec.Violation("palomath.Median/wrong-result/"+cls,
			fmt.Sprintf("Median(%v) = %d, exact median is %s (min %s, max %s): result is %s", u64s(vals), got, want, lo, hi, where),
			map[string]any{"values": u64s(vals), "got": fmt.Sprint(got), "want": want.String(), "min": lo.String(), "max": hi.String()})
		return false
	}
	return true
}

type medianParams struct {
	Mode    string `json:"mode"`
	MaxSize int    `json:"maxsize,omitempty"`
	Hist    int    `json:"hist,omitempty"`
}

// multisets of size k over specialEstimates (non-decreasing index sequences)
func multisets(k, nvals int, f func(idx []int)) {
	idx := make([]int, k)
	var rec func(i, from int)
	rec = func(i, from int) {
		if i == k {
			f(idx)
			return
		}
		for v := from; v < nvals; v++ {
			idx[i] = v
			rec(i+1, v)
		}
	}
	rec(0, 0)
}

func runMedianExhaustive(c fw.Case, rec *fw.Recorder) {
	var p medianParams
	c.Decode(&p)
	r := c.Rand()
	var evals, n, evenOverflow, even, odd int64
	for k := 1; k <= p.MaxSize; k++ {
		multisets(k, len(specialEstimates), func(idx []int) {
			vals := make([]uint64, k)
			for i, j := range idx {
				vals[i] = specialEstimates[j]
			}
			n++
			switch medianInputClass(vals) {
			case "odd-count":
				odd++
			case "even-count":
				even++
			default:
				evenOverflow++
			}
			// sorted, reversed and one random order: the result must not depend on the order
			checkMedian(rec, vals)
			rev := make([]uint64, k)
			for i := range vals {
				rev[k-1-i] = vals[i]
			}
			checkMedian(rec, rev)
			sh := append([]uint64(nil), vals...)
			r.Shuffle(k, func(i, j int) { sh[i], sh[j] = sh[j], sh[i] })
			checkMedian(rec, sh)
			evals += 3
			if n%1500 == 7 {
				rec.Sample(map[string]any{"part": "pure/median/exhaustive", "values": u64s(sh)})
			}
		})
	}
	rec.Eval(evals)
	rec.DistinctByConstruction(n)
	rec.Count("pure_median_evaluations", evals)
	rec.Count("pure_median_multisets_exhaustive", n)
	rec.Count("pure_median_odd_count", odd)
	rec.Count("pure_median_even_count", even)
	rec.Count("pure_median_even_count_middle_sum_exceeds_uint64", evenOverflow)
}

func randEstimate(r *rand.Rand) uint64 {
	switch r.Intn(6) {
	case 0:
		return specialEstimates[r.Intn(len(specialEstimates))]
	case 1:
		return r.Uint64() | 1<<63 // upper half
	case 2:
		return r.Uint64()
	case 3:
		return 1 + uint64(r.Intn(10))
	default:
		return 21_000 + uint64(r.Intn(5_000_000)) // realistic gas
	}
}

func runMedianRandom(c fw.Case, rec *fw.Recorder) {
	var p medianParams
	c.Decode(&p)
	r := c.Rand()
	var evenOverflow, even, odd int64
	for h := 0; h < p.Hist; h++ {
		n := 1 + r.Intn(12)
		if r.Intn(5) == 0 {
			n = 1 + r.Intn(200)
		}
		vals := make([]uint64, n)
		mode := r.Intn(3)
		for i := range vals {
			switch mode {
			case 0:
				vals[i] = randEstimate(r)
			case 1:
				vals[i] = r.Uint64() | 1<<63
			default:
				vals[i] = 21_000 + uint64(r.Intn(5_000_000))
			}
		}
		switch medianInputClass(vals) {
		case "odd-count":
			odd++
		case "even-count":
			even++
		default:
			evenOverflow++
		}
		checkMedian(rec, vals)
		rec.Distinct("pure/median/random:" + strings.Join(u64s(vals), ","))
	}
	rec.Eval(int64(p.Hist))
	rec.Count("pure_median_evaluations", int64(p.Hist))
	rec.Count("pure_median_odd_count", odd)
	rec.Count("pure_median_even_count", even)
	rec.Count("pure_median_even_count_middle_sum_exceeds_uint64", evenOverflow)
}

// ---------------------------------------------------------------------------------------------
// VerifyGasEstimates

type gasCounters struct {
	evals, quorum, noQuorum, exact, oneShort, justAbove, outsider, outsiderShiftsMedian, evenOverflow int64
}

func (c *gasCounters) flush(rec *fw.Recorder) {
	rec.Eval(c.evals)
	rec.Count("pure_gas_evaluations", c.evals)
	rec.Count("pure_gas_quorum", c.quorum)
	rec.Count("pure_gas_no_quorum", c.noQuorum)
	rec.Count("pure_gas_boundary_exactly_two_thirds", c.exact)
	rec.Count("pure_gas_boundary_one_share_short", c.oneShort)
	rec.Count("pure_gas_boundary_one_share_above", c.justAbove)
	rec.Count("pure_gas_outsider_submissions", c.outsider)
	rec.Count("pure_gas_outsider_value_shifts_median", c.outsiderShiftsMedian)
	rec.Count("pure_gas_quorum_even_count_middle_sum_exceeds_uint64", c.evenOverflow)
	*c = gasCounters{}
}

type gasSub struct {
	Who   int    `json:"w"`
	Value uint64 `json:"v"`
}

func (w *pureWorld) checkGas(rec *fw.Recorder, subs []gasSub, cnt *gasCounters, witness func() any) bool {
	ests := make([]libcons.GasEstimate, 0, len(subs))
	rsubs := make([]estimateSub, 0, len(subs))
	vals := make([]uint64, 0, len(subs))
	var memberVals []uint64
	for _, s := range subs {
		a := w.addrOf(s.Who)
		ests = append(ests, &consensustypes.GasEstimate{ValAddress: sdk.ValAddress(a), Value: s.Value})
		rsubs = append(rsubs, estimateSub{val: string(a), value: s.Value})
		vals = append(vals, s.Value)
		if s.Who >= 0 {
			memberVals = append(memberVals, s.Value)
		}
	}
	want := decideEstimates(rsubs, w.ref)
	var got uint64
	var err error
	var panicked any
	func() {
		defer func() { panicked = recover() }()
		got, err = w.checker.VerifyGasEstimates(context.Background(), nopLogProvider{}, ests)
	}()
	cnt.evals++
	cls := medianInputClass(vals)
	if want.quorum {
		cnt.quorum++
		if cls == "even-count/middle-sum-exceeds-uint64" {
			cnt.evenOverflow++
		}
	} else {
		cnt.noQuorum++
	}
	switch want.class {
	case mcExact:
		cnt.exact++
	case mcOneShort:
		cnt.oneShort++
	case mcJustAbove:
		cnt.justAbove++
	}
	if want.outsiders > 0 {
		cnt.outsider++
		if want.quorum {
			if mm, _, _ := refMedian(memberVals); mm.Cmp(want.median) != 0 {
				cnt.outsiderShiftsMedian++
			}
		}
	}
	if panicked != nil {
		rec.Violation("libcons.VerifyGasEstimates/panic", fmt.Sprintf("VerifyGasEstimates panicked: %v", panicked), witness())
		return false
	}
	if !want.quorum {
		if err == nil {
			rec.Violation("libcons.VerifyGasEstimates/elected-below-two-thirds",
				fmt.Sprintf("estimate %d elected although submitters hold only %s of %s shares (< 2/3)", got, want.memberSum, w.ref.total), witness())
			return false
		}
		if !errors.Is(err, libcons.ErrConsensusNotAchieved) {
			rec.Violation("libcons.VerifyGasEstimates/unexpected-error", fmt.Sprintf("no quorum, but error is %v", err), witness())
			return false
		}
		return true
	}
	// quorum: must elect the exact median
	if err != nil {
		rec.Violation("libcons.VerifyGasEstimates/no-election-despite-quorum/"+cls,
			fmt.Sprintf("submitters hold %s of %s shares (>= 2/3), values %v, exact median %s, but VerifyGasEstimates returns error %q", want.memberSum, w.ref.total, u64s(vals), want.median, err.Error()), witness())
		return false
	}
	g := new(big.Int).SetUint64(got)
	if g.Cmp(want.median) != 0 {
		where := "inside [min,max] but not the median"
		if g.Cmp(want.min) < 0 {
			where = "BELOW the lowest submitted value"
		} else if g.Cmp(want.max) > 0 {
			where = "ABOVE the highest submitted value"
		}
		rec.Violation("libcons.VerifyGasEstimates/elected-not-median/"+cls,
			fmt.Sprintf("elected %d for values %v; exact median %s (min %s max %s): %s", got, u64s(vals), want.median, want.min, want.max, where), witness())
		return false
	}
	return true
}

type gasParams struct {
	Mode   string `json:"mode"`
	N      int    `json:"n,omitempty"`
	Sorted bool   `json:"sorted,omitempty"`
	Hist   int    `json:"hist,omitempty"`
	MaxN   int    `json:"maxn,omitempty"`
	Bits   int    `json:"bits,omitempty"`
	// HugeOneIn: one in HugeOneIn enumerated cases draws its values from the upper half of
	// the uint64 range (the rest uses realistic gas values)
	HugeOneIn int `json:"huge_one_in,omitempty"`
}

// exhaustive over (share vector, set of submitting members, number of outsiders 0..2); values
// are drawn from the seed.
func runGasExhaustive(c fw.Case, rec *fw.Recorder) {
	var p gasParams
	c.Decode(&p)
	r := c.Rand()
	var cnt gasCounters
	var n int64
	shareVectors(p.N, p.Sorted, 0, func(sv []int) {
		shares := make([]*big.Int, len(sv))
		for i, v := range sv {
			shares[i] = big.NewInt(int64(v))
		}
		w := newPureWorld(shares)
		for mask := 0; mask < 1<<p.N; mask++ {
			for outs := 0; outs <= 2; outs++ {
				if mask == 0 && outs == 0 {
					continue // VerifyGasEstimates is only called with at least one estimate
				}
				huge := r.Intn(p.HugeOneIn) == 0
				val := func() uint64 {
					if huge {
						if r.Intn(3) == 0 {
							return specialEstimates[5+r.Intn(5)]
						}
						return r.Uint64() | 1<<63
					}
					return 21_000 + uint64(r.Intn(5_000_000))
				}
				var subs []gasSub
				for i := 0; i < p.N; i++ {
					if mask&(1<<i) != 0 {
						subs = append(subs, gasSub{i, val()})
					}
				}
				for o := 0; o < outs; o++ {
					// outsiders bid extreme values
					v := uint64(1)
					if o == 1 || huge {
						v = math.MaxUint64 - uint64(r.Intn(3))
					}
					pos := r.Intn(len(subs) + 1)
					subs = append(subs[:pos], append([]gasSub{{-1 - o, v}}, subs[pos:]...)...)
				}
				svc, sc := append([]int(nil), sv...), subs
				w.checkGas(rec, subs, &cnt, func() any {
					return map[string]any{"shares": svc, "estimates(w<0=outsider)": describeGas(sc)}
				})
				n++
				if n%40000 == 11 {
					rec.Sample(map[string]any{"part": "pure/gas/exhaustive", "shares": svc, "estimates": describeGas(sc)})
				}
			}
		}
	})
	rec.DistinctByConstruction(n)
	rec.Count("pure_gas_exhaustive_cases", n)
	cnt.flush(rec)
}

func describeGas(subs []gasSub) []string {
	out := make([]string, len(subs))
	for i, s := range subs {
		who := fmt.Sprintf("validator#%d", s.Who)
		if s.Who < 0 {
			who = fmt.Sprintf("OUTSIDER#%d", -1-s.Who)
		}
		out[i] = fmt.Sprintf("%s: %d", who, s.Value)
	}
	return out
}

func runGasRandom(c fw.Case, rec *fw.Recorder) {
	var p gasParams
	c.Decode(&p)
	r := c.Rand()
	var cnt gasCounters
	for h := 0; h < p.Hist; h++ {
		n := 1 + r.Intn(p.MaxN)
		shares := make([]*big.Int, n)
		for i := range shares {
			if r.Intn(2) == 0 {
				shares[i] = randBig(r, p.Bits)
			} else {
				shares[i] = randBig(r, 24)
			}
		}
		perm := r.Perm(n)
		k := 1 + r.Intn(n)
		camp, rest := perm[:k], perm[k:]
		steer := r.Intn(5)
		if len(rest) > 0 && steer < 4 {
			R := new(big.Int)
			for _, i := range rest {
				R.Add(R, shares[i])
			}
			S := new(big.Int)
			for _, i := range camp[1:] {
				S.Add(S, shares[i])
			}
			target := new(big.Int).Mul(R, big2)
			target.Add(target, big.NewInt(int64(steer-2)))
			if need := new(big.Int).Sub(target, S); need.Sign() > 0 {
				shares[camp[0]] = need
			}
		}
		w := newPureWorld(shares)
		mode := r.Intn(4)
		val := func() uint64 {
			switch mode {
			case 0:
				return r.Uint64() | 1<<63
			case 1:
				return randEstimate(r)
			}
			return 21_000 + uint64(r.Intn(5_000_000))
		}
		var subs []gasSub
		for _, i := range camp {
			subs = append(subs, gasSub{i, val()})
		}
		for o := r.Intn(4); o > 0; o-- {
			subs = append(subs, gasSub{-o, randEstimate(r)})
		}
		r.Shuffle(len(subs), func(i, j int) { subs[i], subs[j] = subs[j], subs[i] })
		shs, sc := shares, subs
		w.checkGas(rec, subs, &cnt, func() any {
			ss := make([]string, len(shs))
			for i, s := range shs {
				ss[i] = s.String()
			}
			return map[string]any{"shares": ss, "estimates(w<0=outsider)": describeGas(sc)}
		})
		var sb strings.Builder
		for _, s := range shares {
			sb.WriteString(s.Text(62) + ",")
		}
		for _, s := range subs {
			fmt.Fprintf(&sb, ";%d:%d", s.Who, s.Value)
		}
		rec.Distinct("pure/gas/random:" + sb.String())
	}
	rec.Count("pure_gas_random_histories", int64(p.Hist))
	cnt.flush(rec)
}
