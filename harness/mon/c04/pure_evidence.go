package c04

// PURE part, evidence: the real QueuedSignedMessage.AddEvidence (replace-per-validator) feeding
// the real libcons.ConsensusChecker.VerifyEvidence over generated snapshots, against
// decideEvidence (ref.go).

import (
	"context"
	"crypto/sha256"
	"errors"
	"fmt"
	"math/big"
	"math/rand"
	"strings"

	sdkmath "cosmossdk.io/math"
	sdk "github.com/cosmos/cosmos-sdk/types"
	"github.com/cosmos/gogoproto/proto"

	"github.com/palomachain/paloma/v2/util/libcons"
	consensustypes "github.com/palomachain/paloma/v2/x/consensus/types"
	valsettypes "github.com/palomachain/paloma/v2/x/valset/types"

	"verif/harness/fw"
)

func pureAddr(kind string, i int) []byte {
	h := sha256.Sum256([]byte(fmt.Sprintf("c04/%s/%d", kind, i)))
	return h[:20]
}

// world of one pure evaluation: a snapshot as the valset keeper would hand it out plus the
// reference view of the same data.
type pureWorld struct {
	snap    *valsettypes.Snapshot
	ref     *refSnapshot
	members [][]byte
	checker *libcons.ConsensusChecker
}

func newPureWorld(shares []*big.Int) *pureWorld {
	w := &pureWorld{snap: &valsettypes.Snapshot{Id: 1, Height: 1, TotalShares: sdkmath.ZeroInt()}, ref: newRefSnapshot()}
	for i, s := range shares {
		a := pureAddr("val", i)
		w.members = append(w.members, a)
		sh := sdkmath.NewIntFromBigInt(s)
		w.snap.Validators = append(w.snap.Validators, valsettypes.Validator{Address: a, ShareCount: sh, State: valsettypes.ValidatorState_ACTIVE})
		w.snap.TotalShares = w.snap.TotalShares.Add(sh)
		w.ref.add(a, s)
	}
	w.checker = libcons.New(func(context.Context) (*valsettypes.Snapshot, error) { return w.snap, nil }, protoCdc)
	return w
}

// pureSub: who (member index >= 0, outsider index encoded as -1-k) submits which family value.
type pureSub struct {
	Who int `json:"w"`
	Val int `json:"v"`
}

func (w *pureWorld) addrOf(who int) []byte {
	if who >= 0 {
		return w.members[who]
	}
	return pureAddr("outsider", -1-who)
}

type evidenceCounters struct {
	evals, decided, undecided, exact, oneShort, justAbove, split, replaced, outsider, totalQuorumNoWinner int64
}

func (c *evidenceCounters) flush(rec *fw.Recorder, prefix string) {
	rec.Eval(c.evals)
	rec.Count(prefix+"evaluations", c.evals)
	rec.Count(prefix+"consensus_reached", c.decided)
	rec.Count(prefix+"consensus_not_reached", c.undecided)
	rec.Count(prefix+"boundary_exactly_two_thirds", c.exact)
	rec.Count(prefix+"boundary_one_share_short", c.oneShort)
	rec.Count(prefix+"boundary_one_share_above", c.justAbove)
	rec.Count(prefix+"split_votes", c.split)
	rec.Count(prefix+"replaced_evidence", c.replaced)
	rec.Count(prefix+"outsider_submissions", c.outsider)
	rec.Count(prefix+"all_evidence_two_thirds_but_no_identical_two_thirds", c.totalQuorumNoWinner)
	*c = evidenceCounters{}
}

// checkEvidence runs one evaluation. Returns false if a violation was recorded.
func (w *pureWorld) checkEvidence(rec *fw.Recorder, fam *family, subs []pureSub, cnt *evidenceCounters, witness func() any) bool {
	// the real queue item: AddEvidence replaces per validator
	msg := &consensustypes.QueuedSignedMessage{Id: 1}
	rsubs := make([]submission, 0, len(subs))
	for _, s := range subs {
		a := w.addrOf(s.Who)
		pv := fam.vals[s.Val]
		msg.AddEvidence(consensustypes.Evidence{ValAddress: sdk.ValAddress(a), Proof: pv.any()})
		rsubs = append(rsubs, submission{val: string(a), key: pv.key()})
	}
	want := decideEvidence(rsubs, w.ref)

	evs := make([]libcons.Evidence, 0, len(msg.GetEvidence()))
	for _, e := range msg.GetEvidence() {
		evs = append(evs, e)
	}
	var res *libcons.Result
	var err error
	var panicked any
	func() {
		defer func() { panicked = recover() }()
		res, err = w.checker.VerifyEvidence(context.Background(), evs)
	}()

	cnt.evals++
	if want.decided {
		cnt.decided++
	} else {
		cnt.undecided++
	}
	switch want.bestClass {
	case mcExact:
		cnt.exact++
	case mcOneShort:
		cnt.oneShort++
	case mcJustAbove:
		cnt.justAbove++
	}
	if want.groups >= 2 {
		cnt.split++
	}
	if want.replaced > 0 {
		cnt.replaced++
	}
	if want.outsiders > 0 {
		cnt.outsider++
	}
	if !want.decided && w.ref.reaches(want.memberSum) {
		cnt.totalQuorumNoWinner++
	}

	if panicked != nil {
		rec.Violation("libcons.VerifyEvidence/panic", fmt.Sprintf("VerifyEvidence panicked on well-formed evidence: %v", panicked), witness())
		return false
	}
	gotDecided := err == nil
	if err != nil && !errors.Is(err, libcons.ErrConsensusNotAchieved) {
		rec.Violation("libcons.VerifyEvidence/unexpected-error", fmt.Sprintf("VerifyEvidence returned %v on well-formed evidence", err), witness())
		return false
	}
	switch {
	case want.decided && !gotDecided:
		rec.Violation("libcons.VerifyEvidence/no-consensus-although-two-thirds-identical",
			fmt.Sprintf("identical evidence backed by %s of %s shares (>= 2/3) but VerifyEvidence says consensus not achieved", want.bestSum, w.ref.total), witness())
		return false
	case !want.decided && gotDecided:
		// name the violation: did the code pool byte-different evidence, or accept < 2/3?
		sig := "libcons.VerifyEvidence/consensus-below-two-thirds"
		detail := ""
		if wv, ok := winnerValue(fam, res.Winner); ok {
			pooled := new(big.Int)
			var other *proofValue
			for i := range fam.vals {
				if fam.vals[i].sameFieldsClass == wv.sameFieldsClass {
					if s := want.groupSums[fam.vals[i].key()]; s != nil {
						pooled.Add(pooled, s)
						if fam.vals[i].key() != wv.key() {
							other = &fam.vals[i]
						}
					}
				}
			}
			if other != nil && w.ref.reaches(pooled) {
				sig = "libcons.VerifyEvidence/pools-byte-different-evidence/" + pooledSuffix(wv, *other)
				detail = fmt.Sprintf("; winner %s was pooled with the different %s", wv.desc, other.desc)
			}
		}
		rec.Violation(sig, fmt.Sprintf("consensus declared although the best byte-identical evidence is backed by only %s of %s shares (< 2/3)%s", want.bestSum, w.ref.total, detail), witness())
		return false
	case want.decided && gotDecided:
		wv, ok := winnerValue(fam, res.Winner)
		if !ok || wv.key() != want.winner {
			sig, detail := "libcons.VerifyEvidence/wrong-winner", ""
			for i := range fam.vals {
				if ok && fam.vals[i].key() == want.winner && fam.vals[i].sameFieldsClass == wv.sameFieldsClass {
					// the 2/3 evidence was pooled with a byte-different minority submission and
					// the minority's version is handed out as the winner
					sig = "libcons.VerifyEvidence/pools-byte-different-evidence/" + pooledSuffix(wv, fam.vals[i])
					detail = fmt.Sprintf(": %s (backed by %s of %s shares) is returned instead of %s (backed by %s)", wv.desc, want.groupSums[wv.key()], w.ref.total, fam.vals[i].desc, want.bestSum)
				}
			}
			rec.Violation(sig, fmt.Sprintf("winner %v is not the evidence backed by two thirds%s", res.Winner, detail), witness())
			return false
		}
	}
	return true
}

func pooledSuffix(a, b proofValue) string {
	if a.typeURL == b.typeURL {
		return "same-proof-type-fields-split-differently"
	}
	return "different-proof-types"
}

// winnerValue maps the Winner handed back by the code to the family value it is byte-identical to.
func winnerValue(fam *family, winner any) (proofValue, bool) {
	pm, ok := winner.(proto.Message)
	if !ok {
		return proofValue{}, false
	}
	bz, err := proto.Marshal(pm)
	if err != nil {
		return proofValue{}, false
	}
	url := "/" + proto.MessageName(pm)
	for _, v := range fam.vals {
		if v.typeURL == url && string(v.value) == string(bz) {
			return v, true
		}
	}
	return proofValue{}, false
}

// ---------------------------------------------------------------------------------------------
// bounded-exhaustive part

// assignments enumerates, for n validators, every map validator -> {abstain, value 0..2} up to
// renaming of values (restricted growth strings with abstention): -1 = abstain.
func assignments(n int, f func(a []int)) {
	a := make([]int, n)
	var rec func(i, used int)
	rec = func(i, used int) {
		if i == n {
			f(a)
			return
		}
		a[i] = -1
		rec(i+1, used)
		for g := 0; g <= used && g < 3; g++ {
			a[i] = g
			nu := used
			if g == used {
				nu++
			}
			rec(i+1, nu)
		}
	}
	rec(0, 0)
}

// shareVectors: all vectors in {1..7}^n, or only the non-increasing ones with first element
// `first` (sorted=true; VerifyEvidence does not depend on the order of snapshot validators and
// assignments() ranges over all maps, so nothing is lost).
func shareVectors(n int, sorted bool, first int, f func(s []int)) {
	s := make([]int, n)
	var rec func(i int)
	rec = func(i int) {
		if i == n {
			f(s)
			return
		}
		lo, hi := 1, 7
		if sorted && i > 0 {
			hi = s[i-1]
		}
		if i == 0 && first > 0 {
			lo, hi = first, first
		}
		for v := lo; v <= hi; v++ {
			s[i] = v
			rec(i + 1)
		}
	}
	rec(0)
}

type exhParams struct {
	Mode   string `json:"mode"`
	Family string `json:"family"`
	N      int    `json:"n"`
	Sorted bool   `json:"sorted,omitempty"`
	First  int    `json:"first,omitempty"`
	Stride int    `json:"stride,omitempty"` // >1: only every Stride-th (shares, assignment) pair (sample, not exhaustive)
	Offset int    `json:"offset,omitempty"`
}

// variants of one (shares, assignment) pair: how the final state is reached.
const (
	varPlain     = 0 // each participating validator submits once
	varReplace   = 1 // each first submits ANOTHER value, then its final one (latest counts)
	varOutsiders = 2 // plus two validators outside the snapshot, voting value 0 resp. 1
)

func buildSubs(a []int, variant int) []pureSub {
	var subs []pureSub
	switch variant {
	case varPlain:
		for i, g := range a {
			if g >= 0 {
				subs = append(subs, pureSub{i, g})
			}
		}
	case varReplace:
		for i, g := range a {
			if g >= 0 {
				subs = append(subs, pureSub{i, (g + 1) % 3})
			}
		}
		for i := len(a) - 1; i >= 0; i-- {
			if a[i] >= 0 {
				subs = append(subs, pureSub{i, a[i]})
			}
		}
	case varOutsiders:
		subs = append(subs, pureSub{-1, 0})
		for i, g := range a {
			if g >= 0 {
				subs = append(subs, pureSub{i, g})
			}
		}
		subs = append(subs, pureSub{-2, 1}, pureSub{-1, 0})
	}
	return subs
}

func runEvidenceExhaustive(c fw.Case, rec *fw.Recorder) {
	var p exhParams
	c.Decode(&p)
	fam := familyByName(p.Family)
	var cnt evidenceCounters
	idx := 0
	var nontrivial int64
	sampled := 0
	shareVectors(p.N, p.Sorted, p.First, func(sv []int) {
		shares := make([]*big.Int, len(sv))
		for i, v := range sv {
			shares[i] = big.NewInt(int64(v))
		}
		w := newPureWorld(shares)
		assignments(p.N, func(a []int) {
			idx++
			if p.Stride > 1 && idx%p.Stride != p.Offset%p.Stride {
				return
			}
			someone := false
			for _, g := range a {
				if g >= 0 {
					someone = true
				}
			}
			for variant := 0; variant < 3; variant++ {
				subs := buildSubs(a, variant)
				svc, ac := append([]int(nil), sv...), append([]int(nil), a...)
				wit := func() any {
					return map[string]any{"family": fam.name, "shares": svc, "assignment(-1=abstain)": ac, "variant": variant, "submissions": describeSubs(&fam, subs)}
				}
				w.checkEvidence(rec, &fam, subs, &cnt, wit)
				if someone {
					nontrivial++
				}
				if sampled < 2 && someone && variant == 2 && idx%97 == 0 {
					sampled++
					rec.Sample(map[string]any{"part": "pure/evidence/exhaustive", "family": fam.name, "shares": svc, "submissions": describeSubs(&fam, subs)})
				}
			}
		})
	})
	// every (shares, assignment, variant) triple is produced once by the enumeration
	rec.DistinctByConstruction(nontrivial)
	cnt.flush(rec, "pure_evidence_")
	rec.Count("pure_evidence_exhaustive_triples", nontrivial)
}

func describeSubs(fam *family, subs []pureSub) []string {
	out := make([]string, 0, len(subs))
	for _, s := range subs {
		who := fmt.Sprintf("validator#%d", s.Who)
		if s.Who < 0 {
			who = fmt.Sprintf("OUTSIDER#%d", -1-s.Who)
		}
		out = append(out, who+" -> "+fam.vals[s.Val].desc)
	}
	return out
}

// ---------------------------------------------------------------------------------------------
// random large part

type rndParams struct {
	Mode string `json:"mode"`
	Hist int    `json:"hist"`
	MaxN int    `json:"maxn"`
	Bits int    `json:"bits"`
}

func randBig(r *rand.Rand, maxBits int) *big.Int {
	bits := 1 + r.Intn(maxBits)
	b := new(big.Int).Rand(r, new(big.Int).Lsh(big.NewInt(1), uint(bits)))
	return b.Add(b, big.NewInt(1))
}

func runEvidenceRandom(c fw.Case, rec *fw.Recorder) {
	var p rndParams
	c.Decode(&p)
	r := c.Rand()
	fams := pureFamilies()
	var cnt evidenceCounters
	for h := 0; h < p.Hist; h++ {
		fam := fams[r.Intn(len(fams))]
		n := 30 + r.Intn(p.MaxN-29)
		if r.Intn(4) == 0 {
			n = 1 + r.Intn(8)
		}
		shares := make([]*big.Int, n)
		for i := range shares {
			switch r.Intn(3) {
			case 0:
				shares[i] = randBig(r, p.Bits)
			case 1:
				shares[i] = randBig(r, 64)
			default:
				shares[i] = randBig(r, 20)
			}
		}
		// pick the camp that should sit at the boundary and steer its weight: with the rest
		// R fixed, camp sum S reaches two thirds iff S >= 2R.
		perm := r.Perm(n)
		k := 1 + r.Intn(n)
		camp, rest := perm[:k], perm[k:]
		steer := r.Intn(5)
		if len(rest) > 0 && steer < 4 {
			R := new(big.Int)
			for _, i := range rest {
				R.Add(R, shares[i])
			}
			S := new(big.Int)
			for _, i := range camp[1:] {
				S.Add(S, shares[i])
			}
			target := new(big.Int).Mul(R, big2)
			target.Add(target, big.NewInt(int64(steer-2))) // 2R-2, 2R-1 (short), 2R (exact), 2R+1
			need := new(big.Int).Sub(target, S)
			if need.Sign() > 0 {
				shares[camp[0]] = need
			}
		}
		w := newPureWorld(shares)
		// rest: abstain, or split over the other values
		var subs []pureSub
		nv := len(fam.vals)
		campVal := r.Intn(nv)
		restMode := r.Intn(3) // 0 abstain, 1 all vote another value, 2 random
		order := r.Perm(n)
		inCamp := map[int]bool{}
		for _, i := range camp {
			inCamp[i] = true
		}
		for _, i := range order {
			if inCamp[i] {
				if r.Intn(4) == 0 { // re-submission: first something else
					subs = append(subs, pureSub{i, r.Intn(nv)})
				}
				subs = append(subs, pureSub{i, campVal})
				continue
			}
			switch restMode {
			case 1:
				subs = append(subs, pureSub{i, (campVal + 1) % nv})
			case 2:
				if r.Intn(2) == 0 {
					subs = append(subs, pureSub{i, r.Intn(nv)})
				}
			}
		}
		// late changes of mind: a camp member defects at the end (latest submission counts)
		if r.Intn(5) == 0 {
			subs = append(subs, pureSub{camp[r.Intn(len(camp))], (campVal + 1 + r.Intn(nv-1)) % nv})
		}
		// outsiders
		for o := r.Intn(4); o > 0; o-- {
			pos := r.Intn(len(subs) + 1)
			s := pureSub{-1 - r.Intn(3), campVal}
			if r.Intn(3) == 0 {
				s.Val = r.Intn(nv)
			}
			subs = append(subs[:pos], append([]pureSub{s}, subs[pos:]...)...)
		}
		rec.Op(map[string]any{"h": h, "family": fam.name, "n": n})
		shs, sbs := shares, subs
		famc := fam
		wit := func() any {
			ss := make([]string, len(shs))
			for i, s := range shs {
				ss[i] = s.String()
			}
			return map[string]any{"family": famc.name, "shares": ss, "submissions": describeSubs(&famc, sbs)}
		}
		w.checkEvidence(rec, &fam, subs, &cnt, wit)
		var sb strings.Builder
		sb.WriteString(fam.name)
		for _, s := range shares {
			sb.WriteString("," + s.Text(62))
		}
		for _, s := range subs {
			fmt.Fprintf(&sb, ";%d>%d", s.Who, s.Val)
		}
		rec.Distinct("pure/evidence/random:" + sb.String())
		if h < 1 {
			rec.Sample(map[string]any{"part": "pure/evidence/random", "family": fam.name, "validators": n, "submissions": len(subs), "largest_share_bits": maxBits(shares)})
		}
	}
	cnt.flush(rec, "pure_evidence_")
	rec.Count("pure_evidence_random_histories", int64(p.Hist))
}

func maxBits(s []*big.Int) int {
	m := 0
	for _, x := range s {
		if x.BitLen() > m {
			m = x.BitLen()
		}
	}
	return m
}
