// Package c04: a message in a cross-chain consensus queue is declared delivered / failed /
// answered - and only then removed with its effects applied - when validators holding at least
// two thirds of the current snapshot's shares have supplied byte-identical evidence (each
// validator once, latest submission, outsiders ignored); the elected gas estimate needs
// submissions from two thirds of the shares, is the median of the submitted values and never
// changes once elected.
//
// Deciding step: reference models (ref.go: exact rationals / big integers, byte identity of the
// submitted proof) observe executions of the REAL code:
//
//	pure part:    QueuedSignedMessage.AddEvidence + libcons.VerifyEvidence, libcons.VerifyGasEstimates,
//	              palomath.Median on generated snapshots/submissions (bounded-exhaustive + random huge);
//	in-situ part: the real app (chain.New), real MsgAddEvidence / MsgAddMessageGasEstimates
//	              transactions, the consensus end-blocker; after every block the queues, elected
//	              estimates and effects are compared with the reference computed from the monitor's
//	              own record of accepted transactions.
package c04

import (
	"fmt"

	"verif/harness/fw"
)

type modeOnly struct {
	Mode string `json:"mode"`
}

func init() {
	fw.Register(&fw.Prop{
		ID:    "C04",
		Level: "exploration",
		Rule: "Fixed seed-determined case list. PURE: (a) bounded-exhaustive: every share vector of 1..4 validators with shares in {1..7} " +
			"(5 validators: every non-increasing vector) x every assignment validator->{abstain, one of <=3 evidence values} up to renaming of values " +
			"x 3 ways of reaching it (plain, every validator first submits another value and then replaces it, two outsiders added), per evidence family; " +
			"every multiset of size <=N over 10 boundary uint64 values for Median (3 orders each); every (share vector, submitting subset, 0..2 outsiders) for VerifyGasEstimates. " +
			"The quick tier runs this scope completely for the family 'error-proof' and a 1/8 sample of the 4- and 5-validator part for the other 8 evidence families; the thorough tier runs it completely for all families (and, for 'error-proof', all 7^5 vectors of 5 validators plus the non-increasing vectors of 6); " +
			"(b) random: 30..175 validators with shares up to 2^200 steered to the 2/3 boundary (one below / exact / one above), re-submissions, outsiders. " +
			"IN SITU: seeded histories on the real app: per history one validator set (3..7 members, 0..2 bonded outsiders), per queued message an episode of evidence/estimate transactions " +
			"steered to the boundary; oracle evaluated after every block. Orphan re-assignment histories (situ-reassign-*; also one step in every second standard history): " +
			"a camp holding >= 2/3 gets an estimate elected, everybody else hands in far-away estimates after the election, the message ages, ConsensusKeeper.ReassignOrphanedMessages hands it to a relayer " +
			"(called at a block boundary; three placements of the late estimates relative to repeated runs), end-blockers again; elected estimates are re-observed after the call and after every block. A case counts as distinct & non-trivial if at least one snapshot member submitted; " +
			"'evaluations' counts single oracle comparisons (one VerifyEvidence/VerifyGasEstimates/Median call, or one tracked message checked after one block).",
		Assumptions: []string{
			"evidence identity = type URL + value bytes of the submitted proof Any (canonical protobuf encodings only are generated)",
			"'submitted values' of a gas-estimate election = all accepted estimates, including those of bonded validators outside the snapshot (as the code does); quorum counts snapshot members only",
			"only well-formed evidence of the type the queue expects is generated (nil/garbage proofs and wrong-type evidence abort the end-blocker: property C09)",
			"in situ, a message that has had >= 2/3 identical evidence for 3 consecutive blocks and is still queued counts as 'not processed' (the end-blocker aborts its loop for one block after some attestations)",
			"update-valset messages superseded by a newly built snapshot are not judged (removal by supersession is not an attestation)",
			"ConsensusKeeper.ReassignOrphanedMessages (orphan re-assignment) is part of the histories although no begin/end-blocker of the pinned tree calls it: it is driven by a direct keeper call on the working state at a block boundary, with ages 1..20 blocks",
			"reference-block messages are scheduled through the exported keeper function the end-blocker calls at height%10000==0; balances messages by the real end-blocker at height 300 in every history that runs the balances phase",
		},
		Exhaustive:  func(tier string) bool { return true },
		Cases:       cases,
		Run:         run,
		MinCounters: []string{"pure_evidence_boundary_exactly_two_thirds", "pure_evidence_boundary_one_share_short", "pure_evidence_split_votes", "pure_evidence_replaced_evidence", "pure_evidence_outsider_submissions", "pure_gas_quorum", "pure_median_evaluations", "situ_messages_attested", "situ_estimates_elected", "situ_boundary_exactly_two_thirds", "situ_outsider_evidence_accepted", "situ_replaced_evidence", "situ_reassigned_after_election_and_late_estimates"},
		Workers:     16,
		TimeoutS:    1500,
	})
}

func cases(tier string, seed int64) []fw.Case {
	var cs []fw.Case
	add := func(name string, k int64, p any) {
		cs = append(cs, fw.MkCase(name, seed*1_000_003+k, p))
	}
	thorough := tier == "thorough"
	fams := pureFamilies()
	k := int64(0)
	// in-situ histories first (they take longest)
	nSitu := 40
	if thorough {
		nSitu = 150
	}
	for i := 0; i < nSitu; i++ {
		k++
		add(fmt.Sprintf("situ-%03d", i), k, situParams{Mode: "situ", Index: i, Thorough: thorough})
	}
	// in-situ orphan re-assignment histories (situ_reassign.go). Their seeds come from a range of their
	// own, so that the cases above and below are the ones they were before these were added.
	nRe := 10
	if thorough {
		nRe = 36
	}
	for i := 0; i < nRe; i++ {
		add(fmt.Sprintf("situ-reassign-%03d", i), 900_000+int64(i), situParams{Mode: "situ", Index: i, Thorough: thorough, Script: "reassign"})
	}
	// pure / evidence / exhaustive
	for fi, f := range fams {
		full := thorough || fi == 0
		for n := 1; n <= 4; n++ {
			k++
			p := exhParams{Mode: "ev-exh", Family: f.name, N: n}
			if n == 4 && !full {
				p.Stride, p.Offset = 8, int(seed%8+8)%8
			}
			add(fmt.Sprintf("pure-evidence-exh-%s-n%d", f.name, n), k, p)
		}
		for first := 1; first <= 7; first++ {
			k++
			// non-increasing share vectors (every multiset once); thorough + first family: every vector
			p := exhParams{Mode: "ev-exh", Family: f.name, N: 5, Sorted: !(thorough && fi == 0), First: first}
			if !full {
				p.Stride, p.Offset = 8, int(seed%8+8)%8
			}
			add(fmt.Sprintf("pure-evidence-exh-%s-n5-first%d", f.name, first), k, p)
		}
		if thorough && fi == 0 {
			for first := 1; first <= 7; first++ {
				k++
				add(fmt.Sprintf("pure-evidence-exh-%s-n6-first%d", f.name, first), k, exhParams{Mode: "ev-exh", Family: f.name, N: 6, Sorted: true, First: first})
			}
		}
	}
	// pure / evidence / random huge
	nr, hist := 8, 150
	if thorough {
		nr, hist = 32, 400
	}
	for i := 0; i < nr; i++ {
		k++
		add(fmt.Sprintf("pure-evidence-rnd-%02d", i), k, rndParams{Mode: "ev-rnd", Hist: hist, MaxN: 175, Bits: 200})
	}
	// pure / median
	k++
	ms := 5
	if thorough {
		ms = 7
	}
	add("pure-median-exh", k, medianParams{Mode: "med-exh", MaxSize: ms})
	nm := 2
	if thorough {
		nm = 8
	}
	for i := 0; i < nm; i++ {
		k++
		add(fmt.Sprintf("pure-median-rnd-%02d", i), k, medianParams{Mode: "med-rnd", Hist: 20000})
	}
	// pure / gas estimates
	for n := 1; n <= 5; n++ {
		k++
		add(fmt.Sprintf("pure-gas-exh-n%d", n), k, gasParams{Mode: "gas-exh", N: n, Sorted: n == 5, HugeOneIn: 50})
	}
	ng := 4
	if thorough {
		ng = 16
	}
	for i := 0; i < ng; i++ {
		k++
		add(fmt.Sprintf("pure-gas-rnd-%02d", i), k, gasParams{Mode: "gas-rnd", Hist: 3000, MaxN: 120, Bits: 200})
	}
	return cs
}

func run(c fw.Case, tier string, rec *fw.Recorder) {
	var m modeOnly
	c.Decode(&m)
	switch m.Mode {
	case "ev-exh":
		runEvidenceExhaustive(c, rec)
	case "ev-rnd":
		runEvidenceRandom(c, rec)
	case "med-exh":
		runMedianExhaustive(c, rec)
	case "med-rnd":
		runMedianRandom(c, rec)
	case "gas-exh":
		runGasExhaustive(c, rec)
	case "gas-rnd":
		runGasRandom(c, rec)
	case "situ":
		runSitu(c, rec)
	default:
		rec.Inconclusive("unknown mode " + m.Mode)
	}
}
