package c04

// Reference model for C04. Nothing in this file calls into the code under test: quorum is decided
// with exact rationals (math/big), evidence identity is byte identity of the submitted proof
// (type URL + value bytes), the median is computed over big integers.

import (
	"math/big"
	"sort"
)

var (
	big2      = big.NewInt(2)
	big3      = big.NewInt(3)
	twoThirds = big.NewRat(2, 3)
	two64     = new(big.Int).Lsh(big.NewInt(1), 64)
)

// refSnapshot: what the property calls "the current snapshot": shares per validator and total.
type refSnapshot struct {
	shares map[string]*big.Int // key: raw validator address bytes as string
	total  *big.Int
}

func newRefSnapshot() *refSnapshot {
	return &refSnapshot{shares: map[string]*big.Int{}, total: new(big.Int)}
}

func (s *refSnapshot) add(addr []byte, shares *big.Int) {
	s.shares[string(addr)] = new(big.Int).Set(shares)
	s.total.Add(s.total, shares)
}

// reaches: sum / total >= 2/3, exact.
func (s *refSnapshot) reaches(sum *big.Int) bool {
	if s.total.Sign() <= 0 {
		return false
	}
	return new(big.Rat).SetFrac(sum, s.total).Cmp(twoThirds) >= 0
}

// margin = 3*sum - 2*total (0: exactly two thirds; -3..-1: less than one share short).
func (s *refSnapshot) margin(sum *big.Int) *big.Int {
	l := new(big.Int).Mul(sum, big3)
	return l.Sub(l, new(big.Int).Mul(s.total, big2))
}

type marginClass int

const (
	mcFarBelow  marginClass = iota
	mcOneShort              // adding a single share unit would reach two thirds
	mcExact                 // exactly two thirds
	mcJustAbove             // removing a single share unit would drop below
	mcFarAbove
)

func (s *refSnapshot) class(sum *big.Int) marginClass {
	m := s.margin(sum)
	switch {
	case m.Sign() == 0:
		return mcExact
	case m.Sign() < 0 && m.Cmp(big.NewInt(-3)) >= 0:
		return mcOneShort
	case m.Sign() < 0:
		return mcFarBelow
	case m.Cmp(big3) <= 0:
		return mcJustAbove
	}
	return mcFarAbove
}

// submission: one accepted evidence submission, in acceptance order.
type submission struct {
	val string // raw validator address bytes
	key string // identity of the evidence: type URL + 0x00 + value bytes
}

type evidenceVerdict struct {
	decided    bool   // some byte-identical evidence is backed by >= 2/3 of snapshot shares
	winner     string // its key
	bestKey    string // key of the best-backed evidence (for witnesses)
	bestSum    *big.Int
	memberSum  *big.Int // shares of snapshot members that submitted anything (each once)
	groups     int      // distinct evidence values among snapshot members' latest submissions
	outsiders  int      // distinct non-members that submitted
	replaced   int      // submissions that replaced an earlier one of the same validator
	groupSums  map[string]*big.Int
	bestClass  marginClass
	totalClass marginClass
}

// decideEvidence: each validator once (its latest submission), outsiders ignored, evidence
// compared byte for byte.
func decideEvidence(subs []submission, snap *refSnapshot) evidenceVerdict {
	latest := map[string]string{}
	var order []string
	v := evidenceVerdict{bestSum: new(big.Int), memberSum: new(big.Int), groupSums: map[string]*big.Int{}}
	for _, s := range subs {
		if _, ok := latest[s.val]; ok {
			v.replaced++
		} else {
			order = append(order, s.val)
		}
		latest[s.val] = s.key
	}
	for _, val := range order {
		sh, member := snap.shares[val]
		if !member {
			v.outsiders++
			continue
		}
		k := latest[val]
		if v.groupSums[k] == nil {
			v.groupSums[k] = new(big.Int)
		}
		v.groupSums[k].Add(v.groupSums[k], sh)
		v.memberSum.Add(v.memberSum, sh)
	}
	v.groups = len(v.groupSums)
	keys := make([]string, 0, len(v.groupSums))
	for k := range v.groupSums {
		keys = append(keys, k)
	}
	sort.Strings(keys)
	for _, k := range keys {
		if v.groupSums[k].Cmp(v.bestSum) > 0 {
			v.bestSum, v.bestKey = v.groupSums[k], k
		}
	}
	if v.bestKey != "" && snap.reaches(v.bestSum) {
		v.decided, v.winner = true, v.bestKey
	}
	v.bestClass = snap.class(v.bestSum)
	v.totalClass = snap.class(v.memberSum)
	return v
}

// estimateSub: one accepted gas estimate (the chain accepts at most one per validator and message).
type estimateSub struct {
	val   string
	value uint64
}

type estimateVerdict struct {
	quorum    bool
	median    *big.Int // median of ALL submitted values (members and outsiders alike)
	min, max  *big.Int
	memberSum *big.Int
	outsiders int
	class     marginClass
}

func decideEstimates(subs []estimateSub, snap *refSnapshot) estimateVerdict {
	v := estimateVerdict{memberSum: new(big.Int)}
	seen := map[string]bool{}
	vals := make([]uint64, 0, len(subs))
	for _, s := range subs {
		vals = append(vals, s.value)
		if seen[s.val] {
			continue
		}
		seen[s.val] = true
		if sh, ok := snap.shares[s.val]; ok {
			v.memberSum.Add(v.memberSum, sh)
		} else {
			v.outsiders++
		}
	}
	v.quorum = snap.reaches(v.memberSum)
	v.class = snap.class(v.memberSum)
	v.median, v.min, v.max = refMedian(vals)
	return v
}

// refMedian: exact median of a multiset of uint64 values: middle element, or the mean of the two
// middle elements rounded down, computed over big integers. Also returns min and max.
func refMedian(vals []uint64) (med, lo, hi *big.Int) {
	if len(vals) == 0 {
		return new(big.Int), new(big.Int), new(big.Int)
	}
	w := append([]uint64(nil), vals...)
	sort.Slice(w, func(i, j int) bool { return w[i] < w[j] })
	lo, hi = new(big.Int).SetUint64(w[0]), new(big.Int).SetUint64(w[len(w)-1])
	c := len(w) / 2
	if len(w)%2 == 1 {
		return new(big.Int).SetUint64(w[c]), lo, hi
	}
	s := new(big.Int).SetUint64(w[c-1])
	s.Add(s, new(big.Int).SetUint64(w[c]))
	return s.Rsh(s, 1), lo, hi
}

// medianInputClass describes the input pattern of a median computation (used in signatures):
// for an even count, whether the sum of the two middle elements exceeds the uint64 range.
func medianInputClass(vals []uint64) string {
	if len(vals) == 0 {
		return "empty"
	}
	if len(vals)%2 == 1 {
		return "odd-count"
	}
	w := append([]uint64(nil), vals...)
	sort.Slice(w, func(i, j int) bool { return w[i] < w[j] })
	c := len(w) / 2
	s := new(big.Int).SetUint64(w[c-1])
	s.Add(s, new(big.Int).SetUint64(w[c]))
	if s.Cmp(two64) >= 0 {
		return "even-count/middle-sum-exceeds-uint64"
	}
	return "even-count"
}
