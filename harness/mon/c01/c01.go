//go:build verif

// Package c01: bridge escrow conservation and all-or-nothing transfer lifecycle.
//
// The REAL application runs ABCI histories of send / cancel / batch build / estimates / confirms /
// time-outs / executed-batch attestations / deposits while (1) a ledger keyed by transfer id is
// compared with pool, batches, escrow balance and supply at every block boundary, and (2) at
// sampled boundaries every bridge step is re-run on throw-away forks with a fault injected at the
// k-th collaborator call for every k (bank transfers, relayer selection, chain-info and address
// lookups), checking that a step that reports failure leaves the state untouched and that the
// ledger invariants hold after every step.
package c01

import (
	"context"
	"fmt"
	abci "github.com/cometbft/cometbft/abci/types"
	codectypes "github.com/cosmos/cosmos-sdk/codec/types"
	banktypes "github.com/cosmos/cosmos-sdk/x/bank/types"
	"math/rand"
	"sort"
	"strings"
	"time"

	sdkmath "cosmossdk.io/math"
	sdk "github.com/cosmos/cosmos-sdk/types"

	skywaytypes "github.com/palomachain/paloma/v2/x/skyway/types"

	"verif/harness/chain"
	"verif/harness/fw"
	"verif/harness/world"
)

type params struct {
	Stakes       []int64 `json:"stakes"`
	NUsers       int     `json:"users"`
	NChains      int     `json:"chains"`
	Subs         int     `json:"subs"`
	MapUgrain    bool    `json:"ugrain"`
	SameERC20    bool    `json:"same_erc20"`
	Blocks       int     `json:"blocks"`
	FaultBounds  int     `json:"fault_boundaries"`
	LateFeeChain bool    `json:"late_fee_chain"` // validators set their relayer fee for the last chain only late in the history
	Tax          bool    `json:"tax"`
	Activations  bool    `json:"activations,omitempty"` // the chains are re-activated in mid-history (activate.go)
}

type entry struct {
	ID     uint64
	Sender string
	Denom  string
	Chain  string
	Paid   sdkmath.Int // what the sender was charged (amount + tax), measured from its balance
	Status string      // pending | refunded | burned
}

type event struct {
	Chain      string
	Nonce      uint64
	Kind       string // deposit | batch
	ERC20      string
	Amount     sdkmath.Int
	Receiver   string
	BatchNonce uint64
	EthHeight  uint64
}

type mon struct {
	intruderStage int
	rec           *fw.Recorder
	r             *rand.Rand
	w             *world.BridgeWorld
	c             *chain.Chain
	p             params
	ledger        map[uint64]*entry
	denoms        []string
	tokenOf       map[string]string // chain|erc20(lower) -> denom
	supply        map[string]sdkmath.Int
	evNonce       map[string]uint64
	events        map[string]*event // chain|nonce -> event
	seenObs       map[string]bool
	todo          map[string][]sdk.Msg // validator bech -> FIFO of msgs
	claimed       map[string]bool      // batch key -> executed event already emitted
	lateFee       string
	ethH          uint64
	stopped       bool
	lastObserved  []string
	plan          []*actPlan // planned re-activations of served chains (activate.go)
	acts          []actDone
	nAct          int
	forkActs      int
	activated     map[string]bool // chains re-activated in this history so far
}

func batchKey(bt skywaytypes.InternalOutgoingTxBatch) string {
	return fmt.Sprintf("%s:%d", strings.ToLower(bt.TokenContract.GetAddress().Hex()), bt.BatchNonce)
}

func descs(p []pendingTx) []string {
	var out []string
	for _, x := range p {
		out = append(out, x.kind+" "+x.actor.Name+" "+x.desc)
	}
	return out
}

func tokKey(ch, erc string) string { return ch + "|" + strings.ToLower(erc) }

func (m *mon) vio(sig, msg string, wit any) {
	m.rec.Violation(sig, msg, wit)
}

type view struct {
	pool    []*skywaytypes.InternalOutgoingTransferTx
	batches []skywaytypes.InternalOutgoingTxBatch
	escrow  map[string]sdkmath.Int
	supply  map[string]sdkmath.Int
	place   map[uint64][]string // id -> places
	held    map[string]sdkmath.Int
	err     string
}

// observe reads pool, batches, escrow and supply through exported keeper APIs under ctx.
func (m *mon) observe(ctx sdk.Context) *view {
	v := &view{escrow: map[string]sdkmath.Int{}, supply: map[string]sdkmath.Int{}, place: map[uint64][]string{}, held: map[string]sdkmath.Int{}}
	k := m.c.App.SkywayKeeper
	var err error
	v.pool, err = k.GetUnbatchedTransactions(ctx)
	if err != nil {
		v.err = "GetUnbatchedTransactions: " + err.Error()
		return v
	}
	v.batches, err = k.GetOutgoingTxBatches(ctx)
	if err != nil {
		v.err = "GetOutgoingTxBatches: " + err.Error()
		return v
	}
	for _, d := range m.denoms {
		v.held[d] = sdkmath.ZeroInt()
	}
	add := func(tx *skywaytypes.InternalOutgoingTransferTx, where string) {
		v.place[tx.Id] = append(v.place[tx.Id], where)
		// the denom a transfer is held in is the one its sender paid in (ledger); for ids the
		// ledger does not know, fall back to the (chain, erc20) mapping
		d := ""
		if e, ok := m.ledger[tx.Id]; ok {
			d = e.Denom
		} else {
			d = m.tokenOf[tokKey(tx.Erc20Token.ChainReferenceID, tx.Erc20Token.Contract.GetAddress().Hex())]
		}
		if _, ok := v.held[d]; ok {
			v.held[d] = v.held[d].Add(tx.Erc20Token.Amount).Add(tx.BridgeTaxAmount)
		}
	}
	for _, tx := range v.pool {
		add(tx, "pool")
	}
	for _, b := range v.batches {
		for _, tx := range b.Transactions {
			add(tx, fmt.Sprintf("batch:%s:%d", strings.ToLower(b.TokenContract.GetAddress().Hex()), b.BatchNonce))
		}
	}
	mod := chain.ModuleAddr(skywaytypes.ModuleName)
	for _, d := range m.denoms {
		v.escrow[d] = m.c.App.BankKeeper.GetBalance(ctx, mod, d).Amount
		v.supply[d] = m.c.App.BankKeeper.GetSupply(ctx, d).Amount
	}
	return v
}

// checkView evaluates the conservation and placement invariants on a view. where = context for
// signatures ("history" or "fault/<step>/<call>").
func (m *mon) checkView(v *view, where string, wit map[string]any) bool {
	ok := true
	if v.err != "" {
		m.vio(where+"/state-unreadable", v.err, wit)
		return false
	}
	for _, d := range m.denoms {
		m.rec.Eval(1)
		if !v.escrow[d].Equal(v.held[d]) {
			ok = false
			m.vio(where+"/escrow-mismatch", fmt.Sprintf("denom %s: escrow balance %s != sum(amount+tax) over pool and open batches %s", d, v.escrow[d], v.held[d]), wit)
		}
	}
	for id, e := range m.ledger {
		m.rec.Eval(1)
		pl := v.place[id]
		switch e.Status {
		case "pending":
			if len(pl) != 1 {
				ok = false
				kind := "transfer-nowhere"
				if len(pl) > 1 {
					kind = "transfer-duplicated"
				}
				m.vio(where+"/"+kind, fmt.Sprintf("accepted transfer %d (sender %s, %s) is in %d places %v; must be in exactly one of pool / one batch / refunded / burned", id, e.Sender, e.Denom, len(pl), pl), wit)
			}
		default:
			if len(pl) != 0 {
				ok = false
				m.vio(where+"/transfer-resurrected", fmt.Sprintf("transfer %d is %s but still present in %v", id, e.Status, pl), wit)
			}
		}
	}
	for id, pl := range v.place {
		if _, known := m.ledger[id]; !known {
			ok = false
			m.vio(where+"/unknown-transfer", fmt.Sprintf("transfer id %d in %v was never accepted", id, pl), wit)
		}
	}
	return ok
}

func (m *mon) signerFree(used map[string]bool, a *chain.Account) bool {
	if used[a.Bech] {
		return false
	}
	used[a.Bech] = true
	return true
}

func parseID(s string) uint64 {
	s = strings.Trim(s, "\"")
	var id uint64
	fmt.Sscanf(s, "%d", &id)
	return id
}

type pendingTx struct {
	kind   string
	actor  *chain.Account
	denom  string
	chain  string
	amount sdkmath.Int
	id     uint64
	before sdkmath.Int
	desc   string
}

func run(c fw.Case, tier string, rec *fw.Recorder) {
	var p params
	c.Decode(&p)
	world.InstallSkywayFaults()
	world.Plan.Reset()
	r := c.Rand()
	var chains []string
	for i := 0; i < p.NChains; i++ {
		chains = append(chains, []string{"eth-main", "bnb-main", "arb-main"}[i])
	}
	var subs []string
	for i := 0; i < p.Subs; i++ {
		subs = append(subs, []string{"tka", "tkb", "tkc"}[i])
	}
	noFee := ""
	if p.LateFeeChain {
		noFee = chains[len(chains)-1]
	}
	w, err := world.NewBridgeWorld(world.BridgeOpts{Prefix: fmt.Sprintf("c01-%d", c.Seed), Stakes: p.Stakes, NUsers: p.NUsers, Chains: chains,
		FactorySubs: subs, MapUgrain: p.MapUgrain, SameERC20: p.SameERC20, CaptureLog: true, NoFeeFor: noFee})
	if w != nil && w.C != nil {
		defer w.C.Close()
	}
	if err != nil {
		rec.Inconclusive("bring-up failed: " + err.Error())
		return
	}
	m := &mon{rec: rec, r: r, w: w, c: w.C, p: p, ledger: map[uint64]*entry{}, tokenOf: map[string]string{}, supply: map[string]sdkmath.Int{},
		evNonce: map[string]uint64{}, events: map[string]*event{}, seenObs: map[string]bool{}, todo: map[string][]sdk.Msg{}, claimed: map[string]bool{}, activated: map[string]bool{}, ethH: 1000}
	dset := map[string]bool{}
	for _, t := range w.Tokens {
		m.tokenOf[tokKey(t.ChainRef, t.ERC20)] = t.Denom
		dset[t.Denom] = true
	}
	for d := range dset {
		m.denoms = append(m.denoms, d)
	}
	sort.Strings(m.denoms)
	for _, d := range m.denoms {
		m.supply[d] = m.c.Supply(d)
	}
	m.lateFee = noFee // natural fault: no eligible relayer for this chain until the validators set a fee
	if p.Tax {
		for i, d := range m.denoms {
			rate := []string{"0.01", "1/3", "0", "0.000001"}[i%4]
			_ = m.c.App.SkywayKeeper.SetBridgeTax(m.c.Ctx(), &skywaytypes.BridgeTax{Token: d, Rate: rate})
		}
	}
	rec.Sample(map[string]any{"params": p, "tokens": w.Tokens})
	m.planActivations(c.Seed)

	faultEvery := 0
	if p.FaultBounds > 0 {
		faultEvery = p.Blocks / p.FaultBounds
		if faultEvery == 0 {
			faultEvery = 1
		}
	}
	faultsDone := 0
	for b := 0; b < p.Blocks && !m.stopped; b++ {
		if m.lateFee != "" && b == p.Blocks*2/3 {
			for _, v := range w.Vals {
				_ = m.c.QueueTx(v, 0, world.MsgRelayerFee(v, map[string]string{m.lateFee: "1.2"}))
			}
			m.lateFee = ""
			m.block(true)
			continue
		}
		m.activationOps(b)
		if m.stopped {
			break
		}
		if b%400 == 10 {
			w.KeepAlive()
			// keep-alives occupy the validators' tx slot of this block
			m.block(true)
		} else {
			m.block(false)
		}
		if m.stopped {
			break
		}
		if rec.Violations() > 0 {
			faultEvery = 0 // fault enumeration already found something: only the committed history goes on
		}
		if faultEvery > 0 && faultsDone < p.FaultBounds && (b%faultEvery == faultEvery-1 || m.interesting()) && b > 5 {
			v := m.observe(m.c.Ctx())
			if len(v.pool) > 0 || len(v.batches) > 0 {
				m.faultEnumeration()
				faultsDone++
			}
		}
	}
	for k, n := range m.c.Log.Distinct() {
		if strings.HasPrefix(k, "WARN") || strings.HasPrefix(k, "ERROR") {
			rec.Count("log:"+k, int64(n))
		}
	}
}

func (m *mon) interesting() bool { return m.r.Intn(40) == 0 }

// block: choose operations, deliver them in one block, update ledger, check invariants.
func (m *mon) block(valsBusy bool) {
	c, r, w := m.c, m.r, m.w
	used := map[string]bool{}
	var pend []pendingTx
	base := c.PendingCount()
	pre := m.observe(c.Ctx())
	queue := func(pt pendingTx, msg sdk.Msg) {
		m.rec.Op(map[string]any{"h": c.Height + 1, "op": pt.kind, "actor": pt.actor.Name, "desc": pt.desc})
		if err := c.QueueTx(pt.actor, 0, msg); err != nil {
			return
		}
		pend = append(pend, pt)
	}
	// a user with a token of its own tries to register it on an ERC-20 contract that already serves another token of
	// that chain (pool, batches, refunds, burns and deposits are all keyed by the contract address): one step per block
	if intr := w.Users[len(w.Users)-1]; m.intruderStage < 4 && c.Height > 20 && m.signerFree(used, intr) {
		dx := world.FactoryDenom(intr, "tkx")
		t0 := w.Tokens[0]
		switch m.intruderStage {
		case 0:
			queue(pendingTx{kind: "aux", actor: intr, desc: "create denom tkx"}, world.MsgCreateDenom(intr, "tkx"))
		case 1:
			queue(pendingTx{kind: "aux", actor: intr, desc: "mint tkx"}, world.MsgMint(intr, dx, sdkmath.NewInt(1_000_000_000)))
		case 2:
			queue(pendingTx{kind: "aux", actor: intr, desc: "share tkx"}, &banktypes.MsgSend{FromAddress: intr.Bech, ToAddress: w.Users[0].Bech, Amount: sdk.NewCoins(sdk.NewCoin(dx, sdkmath.NewInt(400_000_000)))})
		case 3:
			queue(pendingTx{kind: "map-second-denom", actor: intr, denom: dx, chain: t0.ChainRef, desc: "register tkx on " + t0.ERC20 + " (" + t0.ChainRef + "), which serves " + t0.Denom}, world.MsgMapERC20(intr, dx, t0.ChainRef, t0.ERC20))
		}
		m.intruderStage++
		used[intr.Bech] = true
	}
	// users
	for _, u := range w.Users {
		x := r.Intn(100)
		switch {
		case x < 22: // send
			if !m.signerFree(used, u) {
				continue
			}
			t := w.Tokens[r.Intn(len(w.Tokens))]
			amt := sdkmath.NewInt(int64(1 + r.Intn(5000)))
			if r.Intn(20) == 0 {
				amt = sdkmath.NewInt(int64(1 + r.Intn(5)))
			}
			if r.Intn(40) == 0 {
				amt = sdkmath.NewInt(2_000_000_000_000) // more than the user has
			}
			dest := fmt.Sprintf("0x%040x", 0xAA00+r.Intn(4))
			if r.Intn(30) == 0 {
				dest = "0x0000000000000000000000000000000000000000"
			}
			queue(pendingTx{kind: "send", actor: u, denom: t.Denom, chain: t.ChainRef, amount: amt, before: c.Balance(u.Addr, t.Denom),
				desc: fmt.Sprintf("%s %s -> %s %s", amt, t.Denom, t.ChainRef, dest)}, world.MsgSend(u, t.ChainRef, dest, sdk.NewCoin(t.Denom, amt)))
		case x < 34: // cancel
			if len(m.ledger) == 0 || !m.signerFree(used, u) {
				continue
			}
			var ids []uint64
			for id := range m.ledger {
				ids = append(ids, id)
			}
			sort.Slice(ids, func(i, j int) bool { return ids[i] < ids[j] })
			id := ids[r.Intn(len(ids))]
			if r.Intn(15) == 0 {
				id = uint64(90000 + r.Intn(10))
			}
			den := ""
			bal := sdkmath.ZeroInt()
			if e, ok := m.ledger[id]; ok {
				den = e.Denom
				bal = c.Balance(u.Addr, den)
			}
			queue(pendingTx{kind: "cancel", actor: u, id: id, denom: den, before: bal, desc: fmt.Sprintf("id %d", id)}, world.MsgCancel(u, id))
		}
	}
	// remote world: emit events
	if r.Intn(6) == 0 {
		m.emitDeposit()
	}
	for _, bt := range pre.batches {
		key := batchKey(bt)
		if !m.claimed[key] && r.Intn(12) == 0 {
			m.claimed[key] = true
			m.emitBatchExecuted(bt.ChainReferenceID, bt.TokenContract.GetAddress().Hex(), bt.BatchNonce)
		}
		// estimates and confirms by pigeons
		for _, v := range w.Vals {
			if r.Intn(10) == 0 {
				if bt.GasEstimate == 0 {
					m.todo[v.Bech] = append(m.todo[v.Bech], world.MsgBatchEstimate(v, bt.BatchNonce, bt.TokenContract.GetAddress().Hex(), uint64(100000+r.Intn(5)*1000)))
				} else if cm, err := world.MsgBatchConfirm(c, v, bt); err == nil {
					m.todo[v.Bech] = append(m.todo[v.Bech], cm)
				}
			}
		}
	}
	if r.Intn(60) == 0 && len(m.claimed) > 0 { // replayed / bogus executed-batch event
		t := w.Tokens[r.Intn(len(w.Tokens))]
		m.emitBatchExecuted(t.ChainRef, t.ERC20, uint64(1+r.Intn(6)))
	}
	// validators: one tx each from their todo queue
	if !valsBusy {
		for _, v := range w.Vals {
			q := m.todo[v.Bech]
			if len(q) == 0 || r.Intn(5) == 0 {
				continue
			}
			msg := q[0]
			m.todo[v.Bech] = q[1:]
			queue(pendingTx{kind: "val:" + strings.TrimPrefix(sdk.MsgTypeURL(msg), "/palomachain.paloma.skyway."), actor: v}, msg)
		}
	}
	dt := 2 * time.Second
	if r.Intn(45) == 0 {
		dt = 11 * time.Minute // lets open batches time out
		m.rec.Count("time_jumps", 1)
	}
	if m.p.Tax && r.Intn(50) == 0 {
		d := m.denoms[r.Intn(len(m.denoms))]
		rate := []string{"0.02", "1/7", "0", "0.5"}[r.Intn(4)]
		_ = c.App.SkywayKeeper.SetBridgeTax(c.Ctx(), &skywaytypes.BridgeTax{Token: d, Rate: rate})
		m.rec.Count("tax_changes", 1)
	}
	br := c.NextBlockAfter(dt)
	if br.Panic != "" || br.Err != nil {
		m.rec.Inconclusive(fmt.Sprintf("block %d aborted (C09 territory): %s %v", br.Height, firstLine(br.Panic), br.Err))
		m.stopped = true
		return
	}
	m.rec.Count("blocks", 1)
	// results
	for i, pt := range pend {
		res := br.Txs[base+i]
		m.rec.Count("tx:"+pt.kind+okStr(res.OK()), 1)
		switch pt.kind {
		case "map-second-denom":
			if res.OK() {
				// the chain took the registration: from now on transfers of that token are part of the workload and of the ledger
				m.rec.Count("second_denom_registered_on_served_contract", 1)
				w.Tokens = append(w.Tokens, world.Token{Denom: pt.denom, ChainRef: pt.chain, ERC20: w.Tokens[0].ERC20})
				m.denoms = append(m.denoms, pt.denom)
			} else {
				m.rec.Count("second_denom_registration_refused", 1)
			}
		case "send":
			spent, recvd := chain.CoinFlow(res.Events, pt.actor.Bech, pt.denom)
			after := pt.before.Sub(spent).Add(recvd)
			if res.OK() {
				idStr, _ := chain.EventAttr(res.Events, "EventOutgoingTxId", "tx_id")
				id := parseID(idStr)
				paid := pt.before.Sub(after)
				if paid.LT(pt.amount) {
					m.vio("history/send-undercharged", fmt.Sprintf("send of %s %s charged only %s", pt.amount, pt.denom, paid), pt.desc)
				}
				m.ledger[id] = &entry{ID: id, Sender: pt.actor.Bech, Denom: pt.denom, Chain: pt.chain, Paid: paid, Status: "pending"}
				m.rec.Count("transfers_accepted", 1)
			} else if !after.Equal(pt.before) {
				m.vio("history/failed-send-changed-balance", fmt.Sprintf("failed send changed sender balance %s -> %s (%s)", pt.before, after, res.Log), pt.desc)
			}
		case "cancel":
			e, known := m.ledger[pt.id]
			if res.OK() {
				if !known || e.Status != "pending" || e.Sender != pt.actor.Bech {
					m.vio("history/cancel-accepted-wrongly", fmt.Sprintf("cancel of id %d by %s accepted although entry=%+v", pt.id, pt.actor.Bech, e), pt.desc)
					continue
				}
				if len(pre.place[pt.id]) == 1 && pre.place[pt.id][0] != "pool" {
					m.vio("history/cancel-of-batched-accepted", fmt.Sprintf("cancel of id %d accepted although it was in %v", pt.id, pre.place[pt.id]), pt.desc)
				}
				spent, recvd := chain.CoinFlow(res.Events, pt.actor.Bech, e.Denom)
				after := pt.before.Sub(spent).Add(recvd)
				if !after.Sub(pt.before).Equal(e.Paid) {
					m.vio("history/refund-not-full", fmt.Sprintf("cancel of id %d refunded %s but sender had paid %s", pt.id, after.Sub(pt.before), e.Paid), pt.desc)
				}
				e.Status = "refunded"
				m.rec.Count("transfers_refunded", 1)
			} else if known {
				spent, recvd := chain.CoinFlow(res.Events, pt.actor.Bech, e.Denom)
				after := pt.before.Sub(spent).Add(recvd)
				if !after.Equal(pt.before) {
					m.vio("history/failed-cancel-changed-balance", fmt.Sprintf("failed cancel changed balance %s -> %s", pt.before, after), pt.desc)
				}
			}
		}
	}
	// newly observed attestations -> expected supply changes and burns
	post := m.observe(c.Ctx())
	expSupply := map[string]sdkmath.Int{}
	for _, d := range m.denoms {
		expSupply[d] = pre.supply[d]
	}
	m.lastObserved = nil
	for _, ch := range w.Chains {
		_ = c.App.SkywayKeeper.IterateAttestations(c.Ctx(), ch, false, func(key []byte, att skywaytypes.Attestation) bool {
			if !att.Observed {
				return false
			}
			k := ch + "|" + string(key)
			if m.seenObs[k] {
				return false
			}
			m.seenObs[k] = true
			claim, err := c.App.SkywayKeeper.UnpackAttestationClaim(&att)
			if err != nil {
				return false
			}
			m.lastObserved = append(m.lastObserved, fmt.Sprintf("%s nonce=%d %v", claim.GetType(), claim.GetSkywayNonce(), claim))
			switch cl := claim.(type) {
			case *skywaytypes.MsgSendToPalomaClaim:
				m.rec.Count("deposits_observed", 1)
				if m.activated[ch] {
					m.rec.Count("deposits_observed_after_activation", 1)
				}
				if d, ok := m.tokenOf[tokKey(ch, cl.TokenContract)]; ok {
					expSupply[d] = expSupply[d].Add(cl.Amount)
					m.rec.Count("deposits_minted", 1)
				}
			case *skywaytypes.MsgBatchSendToRemoteClaim:
				m.rec.Count("batch_claims_observed", 1)
				matched := false
				for _, bt := range pre.batches {
					if bt.BatchNonce == cl.BatchNonce && strings.EqualFold(bt.TokenContract.GetAddress().Hex(), cl.TokenContract) {
						matched = true
						m.rec.Count("batches_executed", 1)
						if m.activated[ch] {
							m.rec.Count("batches_executed_after_activation", 1)
						}
						execNote := fmt.Sprintf("batch %s/%d token %s:", bt.ChainReferenceID, bt.BatchNonce, cl.TokenContract)
						for _, tx := range bt.Transactions {
							st := "?"
							if e, ok := m.ledger[tx.Id]; ok {
								st = e.Status + "/paid=" + e.Paid.String() + "/" + e.Denom
							}
							execNote += fmt.Sprintf(" tx%d(%s amount=%s)", tx.Id, st, tx.Erc20Token.Amount)
						}
						m.lastObserved = append(m.lastObserved, execNote)
						for _, tx := range bt.Transactions {
							if e, ok := m.ledger[tx.Id]; ok && e.Status == "pending" {
								e.Status = "burned"
								expSupply[e.Denom] = expSupply[e.Denom].Sub(e.Paid)
								m.rec.Count("transfers_burned", 1)
							}
						}
					}
				}
				if _, ok := m.tokenOf[tokKey(ch, cl.TokenContract)]; ok && !matched && batchBuiltInBlock(br.Events, cl.BatchNonce) {
					// The batch the claim names did not exist before this block: the end-blocker BUILT it (heights = 0 mod 50,
					// batches are built before attestations are tallied) and the tally executed it right away (validators had
					// voted for that nonce in advance). Its transfers sat in the pool before the block and are nowhere now.
					m.rec.Count("batches_built_and_executed_in_one_block", 1)
					var ids []uint64
					for id, e := range m.ledger {
						// the pool is indexed by token contract: every pooled transfer whose (chain, denom) maps to the claim's
						// contract address belongs to it (with one ERC-20 address on two chains that includes the other chain's)
						if e.Status == "pending" && m.tokenOf[tokKey(e.Chain, cl.TokenContract)] == e.Denom && len(post.place[id]) == 0 &&
							((len(pre.place[id]) == 1 && pre.place[id][0] == "pool") || len(pre.place[id]) == 0) { // pooled before the block, or accepted in this very block
							ids = append(ids, id)
						}
					}
					sort.Slice(ids, func(i, j int) bool { return ids[i] < ids[j] })
					note := fmt.Sprintf("batch %s/%d token %s built and executed inside this block:", ch, cl.BatchNonce, cl.TokenContract)
					for _, id := range ids {
						e := m.ledger[id]
						e.Status = "burned"
						expSupply[e.Denom] = expSupply[e.Denom].Sub(e.Paid)
						m.rec.Count("transfers_burned", 1)
						note += fmt.Sprintf(" tx%d(paid=%s)", id, e.Paid)
					}
					m.lastObserved = append(m.lastObserved, note)
					other := ""
					for id, e := range m.ledger {
						if e.Status == "pending" && len(post.place[id]) == 0 {
							other += fmt.Sprintf(" tx%d(%s %s paid=%s was %v)", id, e.Chain, e.Denom, e.Paid, pre.place[id])
						}
					}
					if other != "" {
						m.lastObserved = append(m.lastObserved, "still pending in the ledger but nowhere on the chain:"+other)
					}
				}
			}
			return false
		})
	}
	wit := map[string]any{"height": c.Height, "block_ops": descs(pend), "newly_observed": m.lastObserved}
	for _, d := range m.denoms {
		m.rec.Eval(1)
		if !post.supply[d].Equal(expSupply[d]) {
			m.vio("history/supply-mismatch", fmt.Sprintf("height %d denom %s: supply %s, expected %s (previous %s adjusted by observed deposits and executed batches only)", c.Height, d, post.supply[d], expSupply[d], pre.supply[d]), wit)
			m.stopped = true
		}
	}
	if len(post.batches) > len(pre.batches) {
		m.rec.Count("batches_built", int64(len(post.batches)-len(pre.batches)))
	}
	// batch -> pool moves (time-outs)
	for id, pl := range post.place {
		if len(pl) == 1 && pl[0] == "pool" && len(pre.place[id]) == 1 && strings.HasPrefix(pre.place[id][0], "batch:") {
			m.rec.Count("transfers_repooled", 1)
		}
	}
	if !m.checkView(post, "history", wit) {
		// the ledger and the chain have diverged: everything observed from here on (including
		// fault enumeration on forks of this state) would only repeat this violation
		m.stopped = true
		m.rec.Count("histories_stopped_at_violation", 1)
	}
	m.rec.Distinct(m.abstract(post))
}

// batchBuiltInBlock: did this block emit the skyway "outgoing batch created" event for that batch nonce?
func batchBuiltInBlock(evs []abci.Event, nonce uint64) bool {
	want := fmt.Sprintf("%d", nonce)
	for _, e := range evs {
		if !strings.HasSuffix(e.Type, "EventOutgoingBatch") {
			continue
		}
		for _, a := range e.Attributes {
			if a.Key == "nonce" && strings.Trim(a.Value, "\"") == want {
				return true
			}
		}
	}
	return false
}

func okStr(ok bool) string {
	if ok {
		return ":ok"
	}
	return ":rejected"
}

func firstLine(s string) string {
	if i := strings.IndexByte(s, '\n'); i >= 0 {
		return s[:i]
	}
	return s
}

// abstract: ledger state abstraction (counts per status and place kind, batches per token)
func (m *mon) abstract(v *view) string {
	cnt := map[string]int{}
	for id, e := range m.ledger {
		pl := "none"
		if p := v.place[id]; len(p) > 0 {
			pl = strings.SplitN(p[0], ":", 2)[0]
		}
		cnt[e.Status+"/"+pl+"/"+e.Denom+"/"+e.Chain]++
	}
	var ks []string
	for k, n := range cnt {
		ks = append(ks, fmt.Sprintf("%s=%d", k, n))
	}
	sort.Strings(ks)
	return strings.Join(ks, ",") + fmt.Sprintf("|b=%d", len(v.batches))
}

func (m *mon) emitDeposit() {
	w, r := m.w, m.r
	ch := w.Chains[r.Intn(len(w.Chains))]
	m.evNonce[ch]++
	m.ethH += uint64(1 + r.Intn(5))
	ev := &event{Chain: ch, Nonce: m.evNonce[ch], Kind: "deposit", EthHeight: m.ethH}
	var toks []world.Token
	for _, t := range w.Tokens {
		if t.ChainRef == ch {
			toks = append(toks, t)
		}
	}
	if len(toks) > 0 && r.Intn(8) != 0 {
		ev.ERC20 = toks[r.Intn(len(toks))].ERC20
	} else {
		ev.ERC20 = fmt.Sprintf("0x%040x", 0xDEAD00+r.Intn(3)) // not a bridged token
	}
	ev.Amount = sdkmath.NewInt(int64(1 + r.Intn(100000)))
	switch r.Intn(8) {
	case 0:
		ev.Receiver = "invalid-receiver"
	case 1:
		ev.Receiver = chain.ModuleAddr("distribution").String() // blocked address
	default:
		ev.Receiver = w.Users[r.Intn(len(w.Users))].Bech
	}
	m.events[fmt.Sprintf("%s|%d", ch, ev.Nonce)] = ev
	for _, v := range w.Vals {
		m.todo[v.Bech] = append(m.todo[v.Bech], world.MsgDepositClaim(v, ch, w.Compass[ch], ev.Nonce, ev.EthHeight, ev.ERC20, ev.Amount, "0x00000000000000000000000000000000000000e1", ev.Receiver))
	}
	m.rec.Count("events_deposit", 1)
}

func (m *mon) emitBatchExecuted(ch, erc string, batchNonce uint64) {
	w, r := m.w, m.r
	m.evNonce[ch]++
	m.ethH += uint64(1 + r.Intn(5))
	ev := &event{Chain: ch, Nonce: m.evNonce[ch], Kind: "batch", ERC20: erc, BatchNonce: batchNonce, EthHeight: m.ethH}
	m.events[fmt.Sprintf("%s|%d", ch, ev.Nonce)] = ev
	for _, v := range w.Vals {
		m.todo[v.Bech] = append(m.todo[v.Bech], world.MsgBatchClaim(v, ch, w.Compass[ch], ev.Nonce, ev.EthHeight, batchNonce, erc))
	}
	m.rec.Count("events_batch_executed", 1)
}

// ---------------------------------------------------------------------------------------------
// fault enumeration on forks

type step struct {
	kind string
	// run executes the step on ctx and reports whether the step REPORTED FAILURE.
	run func(ctx sdk.Context) (failed bool, info string)
	// strict: a reported failure must leave skyway+bank stores byte-identical
	strict bool
	// expected supply delta per denom given the outcome (nil = none)
	supplyDelta func(failed bool) map[string]sdkmath.Int
	// skippable: a step that reported SUCCESS may also have applied nothing at all (the tally marks an event observed
	// and logs-and-skips a handler that failed: "can't recover it, log and move on") - then supply is unchanged
	skippable bool
}

func (m *mon) steps() []step {
	c, r, w := m.c, m.r, m.w
	k := c.App.SkywayKeeper
	cur := m.observe(c.Ctx())
	var st []step
	// keeper-level operations that end-of-block housekeeping / attestation handling start
	seenTok := map[string]bool{}
	for _, tx := range cur.pool {
		tk := tokKey(tx.Erc20Token.ChainReferenceID, tx.Erc20Token.Contract.GetAddress().Hex())
		if seenTok[tk] {
			continue
		}
		seenTok[tk] = true
		ch, contract := tx.Erc20Token.ChainReferenceID, tx.Erc20Token.Contract
		st = append(st, step{kind: "BuildOutgoingTXBatch", strict: true, run: func(ctx sdk.Context) (bool, string) {
			_, err := k.BuildOutgoingTXBatch(ctx, ch, contract, 100)
			return err != nil, errStr(err)
		}})
	}
	for _, bt := range cur.batches {
		bt := bt
		st = append(st, step{kind: "CancelOutgoingTXBatch", strict: true, run: func(ctx sdk.Context) (bool, string) {
			err := k.CancelOutgoingTXBatch(ctx, bt.TokenContract, bt.BatchNonce)
			return err != nil, errStr(err)
		}})
		if bt.GasEstimate == 0 {
			st = append(st, step{kind: "UpdateBatchGasEstimate", strict: true, run: func(ctx sdk.Context) (bool, string) {
				err := k.UpdateBatchGasEstimate(ctx, bt, 123456)
				return err != nil, errStr(err)
			}})
		}
		claim := skywaytypes.MsgBatchSendToRemoteClaim{EventNonce: 1, SkywayNonce: 1, EthBlockHeight: 5, BatchNonce: bt.BatchNonce,
			TokenContract: bt.TokenContract.GetAddress().Hex(), ChainReferenceId: bt.ChainReferenceID, Orchestrator: w.Vals[0].Bech}
		burn := map[string]sdkmath.Int{}
		for _, tx := range bt.Transactions {
			if e, ok := m.ledger[tx.Id]; ok {
				if _, ok := burn[e.Denom]; !ok {
					burn[e.Denom] = sdkmath.ZeroInt()
				}
				burn[e.Denom] = burn[e.Denom].Sub(e.Paid)
			}
		}
		st = append(st, step{kind: "OutgoingTxBatchExecuted", strict: true, run: func(ctx sdk.Context) (bool, string) {
			err := k.OutgoingTxBatchExecuted(ctx, bt.TokenContract, claim)
			return err != nil, errStr(err)
		}, supplyDelta: func(failed bool) map[string]sdkmath.Int {
			if failed {
				return nil
			}
			return burn
		}})
	}
	// whole end-of-block housekeeping at the next batch-building height, and with a time jump
	endBlock := func(ctx sdk.Context) (bool, string) {
		mod, ok := c.App.ModuleManager.Modules[skywaytypes.ModuleName].(interface{ EndBlock(context.Context) error })
		if !ok {
			return true, "no EndBlock"
		}
		err := mod.EndBlock(ctx)
		return err != nil, errStr(err)
	}
	st = append(st, step{kind: "EndBlock@50", run: endBlock})
	st = append(st, step{kind: "EndBlock@timeout", run: endBlock})
	// transactions with baseapp semantics (message handler in a cache context, kept only on success)
	if len(w.Tokens) > 0 {
		t := w.Tokens[r.Intn(len(w.Tokens))]
		u := w.Users[r.Intn(len(w.Users))]
		msg := world.MsgSend(u, t.ChainRef, "0x00000000000000000000000000000000000000bb", sdk.NewInt64Coin(t.Denom, int64(1+r.Intn(1000))))
		st = append(st, step{kind: "tx:SendToRemote", strict: true, run: m.txStep(msg)})
	}
	for _, tx := range cur.pool {
		if e, ok := m.ledger[tx.Id]; ok {
			var u *chain.Account
			for _, x := range w.Users {
				if x.Bech == e.Sender {
					u = x
				}
			}
			if u != nil {
				st = append(st, step{kind: "tx:CancelSendToRemote", strict: true, run: m.txStep(world.MsgCancel(u, tx.Id))})
				break
			}
		}
	}
	// attested deposit through the real attestation handler (processAttestation semantics: kept only on success)
	if len(w.Tokens) > 0 {
		t := w.Tokens[r.Intn(len(w.Tokens))]
		rcv := w.Users[r.Intn(len(w.Users))].Bech
		if r.Intn(3) == 0 {
			rcv = "not-an-address"
		}
		amt := sdkmath.NewInt(int64(1 + r.Intn(100000)))
		claim := &skywaytypes.MsgSendToPalomaClaim{EventNonce: 1, SkywayNonce: 1, EthBlockHeight: 5, TokenContract: t.ERC20, Amount: amt,
			EthereumSender: "0x00000000000000000000000000000000000000e1", PalomaReceiver: rcv, Orchestrator: w.Vals[0].Bech, ChainReferenceId: t.ChainRef}
		st = append(st, step{kind: "attested:SendToPaloma", strict: true, run: func(ctx sdk.Context) (bool, string) {
			cctx, write := ctx.CacheContext()
			err := k.AttestationHandler.Handle(cctx, skywaytypes.Attestation{Observed: true}, claim)
			if err == nil {
				write()
			}
			return err != nil, errStr(err)
		}, supplyDelta: func(failed bool) map[string]sdkmath.Int {
			if failed {
				return nil
			}
			return map[string]sdkmath.Int{t.Denom: amt}
		}})
	}
	// the same, but through the REAL tally path: an attestation carrying the votes of every validator is handed to
	// TryAttestation (threshold test, cursor, observed flag, handler, observation event with its chain-info lookup).
	// A reported failure must leave supply and balances alone whatever collaborator call failed inside.
	if len(w.Tokens) > 0 {
		t := w.Tokens[r.Intn(len(w.Tokens))]
		rcv := w.Users[r.Intn(len(w.Users))].Bech
		if r.Intn(4) == 0 {
			rcv = "not-an-address"
		}
		amt := sdkmath.NewInt(int64(1 + r.Intn(100000)))
		st = append(st, step{kind: "tally:SendToPaloma", strict: false, skippable: true, run: func(ctx sdk.Context) (bool, string) {
			last, err := k.GetLastObservedSkywayNonce(ctx, t.ChainRef)
			if err != nil {
				return true, errStr(err)
			}
			claim := &skywaytypes.MsgSendToPalomaClaim{EventNonce: last + 1, SkywayNonce: last + 1, EthBlockHeight: 900000, TokenContract: t.ERC20, Amount: amt,
				EthereumSender: "0x00000000000000000000000000000000000000e1", PalomaReceiver: rcv, Orchestrator: w.Vals[0].Bech, ChainReferenceId: t.ChainRef, CompassId: w.Compass[t.ChainRef]}
			anyClaim, err := codectypes.NewAnyWithValue(claim)
			if err != nil {
				return true, errStr(err)
			}
			att := &skywaytypes.Attestation{Observed: false, Height: uint64(ctx.BlockHeight()), Claim: anyClaim}
			for _, v := range w.Vals {
				att.Votes = append(att.Votes, v.ValBech())
			}
			hash, err := claim.ClaimHash()
			if err != nil {
				return true, errStr(err)
			}
			k.SetAttestation(ctx, t.ChainRef, claim.SkywayNonce, hash, att)
			err = k.TryAttestation(ctx, att)
			return err != nil, errStr(err)
		}, supplyDelta: func(failed bool) map[string]sdkmath.Int {
			if failed {
				return nil
			}
			return map[string]sdkmath.Int{t.Denom: amt}
		}})
	}
	st = append(st, m.activationSteps(cur)...)
	return st
}

func errStr(err error) string {
	if err == nil {
		return ""
	}
	return firstLine(err.Error())
}

func (m *mon) txStep(msg sdk.Msg) func(ctx sdk.Context) (bool, string) {
	return func(ctx sdk.Context) (failed bool, info string) {
		h := m.c.App.MsgServiceRouter().Handler(msg)
		cctx, write := ctx.CacheContext()
		_, err := h(cctx, msg)
		if err == nil {
			write()
		}
		return err != nil, errStr(err)
	}
}

func (m *mon) forkFor(kind string) sdk.Context {
	c := m.c
	h := c.Height + 1
	t := c.Time.Add(2 * time.Second)
	switch kind {
	case "EndBlock@50":
		h = (c.Height/50 + 1) * 50
	case "EndBlock@timeout":
		t = c.Time.Add(11 * time.Minute)
		if h%50 == 0 {
			h++
		}
	}
	return c.Fork(h, t)
}

func (m *mon) faultEnumeration() {
	c := m.c
	m.rec.Count("fault_boundaries", 1)
	for _, s := range m.steps() {
		// dry run: how many collaborator calls does the step make?
		ctx := m.forkFor(s.kind)
		world.Plan.CountOnly()
		failed0, info0 := m.safeRun(s, ctx)
		calls := world.Plan.Calls()
		world.Plan.Reset()
		m.rec.Count("steps:"+s.kind, 1)
		m.checkStep(s, ctx, failed0, info0, "none", 0, calls)
		for kth := 1; kth <= len(calls); kth++ {
			ctx := m.forkFor(s.kind)
			world.Plan.FailKth(kth)
			failed, info := m.safeRun(s, ctx)
			name := world.Plan.Failed
			world.Plan.Reset()
			if name == "" {
				continue // control flow changed, k-th call not reached
			}
			m.rec.Count("fault_points", 1)
			m.rec.Count("fault:"+s.kind+"/"+name, 1)
			if failed {
				m.rec.Count("fault_points_step_failed", 1)
			}
			m.rec.Distinct(fmt.Sprintf("fault|%s|%s|%d|%v", s.kind, name, kth, failed))
			m.checkStep(s, ctx, failed, info, name, kth, calls)
		}
	}
	_ = c
}

func (m *mon) safeRun(s step, ctx sdk.Context) (failed bool, info string) {
	defer func() {
		if e := recover(); e != nil {
			failed, info = true, fmt.Sprintf("PANIC: %v", e)
		}
	}()
	return s.run(ctx)
}

// checkStep compares the fork's state after the step with the committed state before it.
func (m *mon) checkStep(s step, after sdk.Context, failed bool, info, faultName string, kth int, calls []string) {
	c := m.c
	where := fmt.Sprintf("fault/%s/%s", s.kind, faultName)
	wit := map[string]any{"height": c.Height, "step": s.kind, "fault": faultName, "kth": kth, "calls": calls, "step_failed": failed, "step_error": info}
	base := c.Ctx()
	if failed && s.strict {
		m.rec.Eval(1)
		d0 := c.DigestStores(base, "skyway", "bank")
		d1 := c.DigestStores(after, "skyway", "bank")
		if d0 != d1 {
			diff := chain.DiffStores(c.DumpStore(base, "skyway"), c.DumpStore(after, "skyway"))
			diffB := chain.DiffStores(c.DumpStore(base, "bank"), c.DumpStore(after, "bank"))
			wit["skyway_keys_changed"] = trunc(diff, 8)
			wit["bank_keys_changed"] = trunc(diffB, 8)
			m.vio(where+"/state-changed-on-failure", fmt.Sprintf("%s reported failure (%s) with a fault at %s (call %d) but left skyway/bank state changed (%d skyway keys, %d bank keys)", s.kind, info, faultName, kth, len(diff), len(diffB)), wit)
		}
	}
	v := m.observe(after)
	// ledger view for the fork: executed batches burn their transfers
	saved := map[uint64]string{}
	if !failed && s.kind == "OutgoingTxBatchExecuted" {
		for id, e := range m.ledger {
			if e.Status == "pending" && len(v.place[id]) == 0 {
				saved[id] = e.Status
				e.Status = "burned"
			}
		}
	}
	if !failed && s.kind == "tx:CancelSendToRemote" {
		for id, e := range m.ledger {
			if e.Status == "pending" && len(v.place[id]) == 0 {
				saved[id] = e.Status
				e.Status = "refunded"
			}
		}
	}
	if !failed && s.kind == stepActivate {
		// an activation may hand open transfers back to their senders: refunded in full is a legal place
		for _, id := range m.refundedByStep(m.observe(base), v, m.senderBalances(base), m.senderBalances(after)) {
			saved[id] = m.ledger[id].Status
			m.ledger[id].Status = "refunded"
		}
	}
	if !failed && s.kind == "tx:SendToRemote" {
		// the new transfer is not in the ledger: add it temporarily
		for id := range v.place {
			if _, ok := m.ledger[id]; !ok {
				d := ""
				for _, tx := range v.pool {
					if tx.Id == id {
						d = m.tokenOf[tokKey(tx.Erc20Token.ChainReferenceID, tx.Erc20Token.Contract.GetAddress().Hex())]
					}
				}
				m.ledger[id] = &entry{ID: id, Denom: d, Status: "pending", Paid: sdkmath.ZeroInt()}
				saved[id] = "new"
			}
		}
		v = m.observe(after)
	}
	m.checkView(v, where, wit)
	for id, st := range saved {
		if st == "new" {
			delete(m.ledger, id)
		} else {
			m.ledger[id].Status = st
		}
	}
	// supply
	b := m.observe(base)
	var delta map[string]sdkmath.Int
	if s.supplyDelta != nil {
		delta = s.supplyDelta(failed)
	}
	for _, d := range m.denoms {
		exp := b.supply[d]
		if x, ok := delta[d]; ok {
			exp = exp.Add(x)
		}
		m.rec.Eval(1)
		if s.skippable && !failed && v.supply[d].Equal(b.supply[d]) {
			continue
		}
		if !v.supply[d].Equal(exp) {
			m.vio(where+"/supply-mismatch", fmt.Sprintf("%s (failed=%v, fault %s#%d): supply of %s is %s, expected %s", s.kind, failed, faultName, kth, d, v.supply[d], exp), wit)
		}
	}
}

func trunc(s []string, n int) []string {
	if len(s) > n {
		return append(s[:n:n], fmt.Sprintf("... %d more", len(s)-n))
	}
	return s
}

func cases(tier string, seed int64) []fw.Case {
	var cs []fw.Case
	n, blocks, fb := 64, 300, 12
	if tier == "thorough" {
		n, blocks, fb = 192, 520, 50
	}
	stakeSets := [][]int64{
		{40e6, 30e6, 20e6, 10e6},
		{25e6, 25e6, 25e6, 25e6, 20e6},
		{34e6, 33e6, 33e6, 5e6, 5e6, 5e6},
		{10e6, 10e6, 10e6, 10e6, 10e6, 10e6, 10e6},
	}
	for i := 0; i < n; i++ {
		p := params{Stakes: stakeSets[i%len(stakeSets)], NUsers: 4 + i%3, NChains: 1 + i%2, Subs: 1 + i%2, MapUgrain: i%3 != 1,
			Blocks: blocks, FaultBounds: fb, Tax: i%2 == 0, LateFeeChain: i%4 == 3, Activations: i%5 < 2}
		if i%8 == 7 { // the same ERC-20 address on two chains (CREATE2-style deployment): the pool index is shared
			p.SameERC20, p.NChains = true, 2
		}
		cs = append(cs, fw.MkCase(fmt.Sprintf("hist-%03d", i), seed*7919+int64(i), p))
	}
	return cs
}

func init() {
	fw.Register(&fw.Prop{
		ID:    "C01",
		Level: "fault_enumeration",
		Rule: "seeded ABCI histories of the real app (send / cancel own+foreign+batched+unknown / batch build at h%50 / batch gas estimates + election / confirms / time-outs by block-time jumps / executed-batch claims incl. bogus and replayed / deposits to valid, invalid and blocked receivers and of unmapped tokens / tax changes; in 2 of 5 histories the served chains are re-activated in mid-history - newer compass, retried upload with a new unique id, re-announcement - at boundaries where the chain has open batches and pooled transfers or a batch with an elected gas estimate), ledger oracle at every block boundary and right after every activation; " +
			"at sampled boundaries with a non-empty pool or batch every bridge step (BuildOutgoingTXBatch, CancelOutgoingTXBatch, UpdateBatchGasEstimate, OutgoingTxBatchExecuted, whole skyway EndBlock at the next h%50 and with a time jump, SendToRemote / CancelSendToRemote txs with baseapp semantics, attested deposit through the real handler and through the tally, re-activation of every chain that has pooled or batched transfers) is run on a throw-away fork once fault-free and then once per collaborator call k with exactly the k-th call failed. " +
			"evaluations = oracle comparisons (escrow per denom, placement per transfer, supply per denom, digest on failure); distinct_nontrivial = distinct ledger abstractions (status x place x denom x chain counts) seen at boundaries + distinct (step, failed call, k, outcome) fault points",
		Assumptions: []string{
			"faults are collaborator ERRORS at the hooked interface calls (bank: SendCoinsFromAccountToModule/ModuleToAccount/ModuleToModule/MintCoins/BurnCoins; evm: PickValidatorForMessage/GetChainInfo/GetEthAddressByValidator/GetValidatorAddressByEthAddress); crashes below ABCI are the SDK's atomic commit",
			"which claims get observed is taken from the chain (oracle safety is C02); tax arithmetic is C15",
			"tokenfactory mints happen only during bring-up, so supply changes afterwards are the bridge's",
		},
		Cases:       cases,
		Run:         run,
		MinCounters: []string{"transfers_accepted", "transfers_refunded", "batches_built", "fault_points", "fault_points_step_failed", "deposits_minted", "activations_with_open_batches", "steps:ActivateChainReferenceID"},
		TimeoutS:    1500,
	})
}
