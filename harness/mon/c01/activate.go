//go:build verif

package c01

// Re-activation of a served chain in mid-history (added after seed C01-h was missed, see NOTES.md).
//
// Every history used to live in ONE activation state: each chain activated once during bring-up.
// On a live network a compass (bridge contract) deployment is attested for a chain again and
// again: a newer compass takes over, an upload is retried, the active one is announced once more.
// All of them end in EvmKeeper.ActivateChainReferenceID (the call world.ActivateChain makes during
// bring-up), which publishes EVMActivatedChain; the skyway keeper subscribes to it. What that
// subscriber does to pool, batches and escrow is bridge behaviour like any other step, so:
//
//   - a part of the histories (params.Activations) re-activates its chains at block boundaries
//     chosen from the state: right away, once the chain has an open batch AND pooled transfers,
//     or once a batch of the chain has an elected gas estimate (confirmations are being
//     collected). The ledger oracle (placement / escrow / supply) is evaluated immediately after
//     the activation and the history goes on under the new deployment (claims carry the compass
//     id the bridge recorded, event nonces follow the chain's last observed nonce);
//   - at every fault boundary the activation is also run on a throw-away fork for every chain
//     that has pooled or batched transfers (step ActivateChainReferenceID), judged by the same
//     oracles.
//
// Nothing is demanded about WHAT the activation does with open batches: they may stay open, go
// back to the pool, or be refunded in full to the senders (recognised from the senders' balances)
// - only that afterwards every accepted transfer is in exactly one place, escrow = sum of pending
// and supply is unchanged.

import (
	"fmt"
	"math/rand"
	"sort"

	sdkmath "cosmossdk.io/math"
	sdk "github.com/cosmos/cosmos-sdk/types"

	evmtypes "github.com/palomachain/paloma/v2/x/evm/types"
	skywaytypes "github.com/palomachain/paloma/v2/x/skyway/types"
)

const (
	actNewer      = "newer-contract/new-unique-id"
	actNotNewer   = "not-newer-contract/new-unique-id"
	actReannounce = "re-announce/current-unique-id"

	whenNow       = "now"
	whenOpenBatch = "open-batch+pooled"
	whenEstimated = "estimated-batch"

	stepActivate = "ActivateChainReferenceID"
)

var actKinds = []string{actNewer, actNotNewer, actReannounce}

type actPlan struct {
	From  int // block index of the history from which the activation is due
	Chain string
	Kind  string
	When  string // state the boundary must be in (whenNow: none)
	Wait  int    // boundaries to wait for that state at most; then the activation is performed anyway
	done  bool
}

type actDone struct {
	Height   int64  `json:"at_boundary_after_height"`
	Chain    string `json:"chain_reference_id"`
	Kind     string `json:"kind"`
	Contract uint64 `json:"smart_contract_id"`
	UniqueID string `json:"unique_id"`
	Open     int    `json:"open_batches_of_chain"`
	Pooled   int    `json:"pooled_transfers_of_chain"`
}

// planActivations draws the activation plan of a history from its own random stream (the main
// stream is untouched: histories without a plan run exactly as before).
func (m *mon) planActivations(seed int64) {
	if !m.p.Activations {
		return
	}
	ar := rand.New(rand.NewSource(seed*2_654_435_761 + 101))
	for _, ch := range m.w.Chains {
		t := 25 + ar.Intn(70)
		for t < m.p.Blocks-20 {
			kind := []string{actNewer, actNewer, actNewer, actNewer, actNotNewer, actNotNewer, actNotNewer, actReannounce}[ar.Intn(8)]
			when := []string{whenNow, whenOpenBatch, whenOpenBatch, whenOpenBatch, whenEstimated, whenEstimated}[ar.Intn(6)]
			m.plan = append(m.plan, &actPlan{From: t, Chain: ch, Kind: kind, When: when, Wait: 70})
			t += 60 + ar.Intn(90)
		}
	}
}

// chainLoad: what the bridge holds for one chain.
type chainLoad struct {
	open, pooled, estimated, confirmed int
}

func (m *mon) loadOf(ctx sdk.Context, v *view, ch string) chainLoad {
	var l chainLoad
	for _, tx := range v.pool {
		if tx.Erc20Token.ChainReferenceID == ch {
			l.pooled++
		}
	}
	for _, b := range v.batches {
		if b.ChainReferenceID != ch {
			continue
		}
		l.open++
		if b.GasEstimate != 0 {
			l.estimated++
		}
		if cs, err := m.c.App.SkywayKeeper.GetBatchConfirmByNonceAndTokenContract(ctx, b.BatchNonce, b.TokenContract); err == nil && len(cs) > 0 {
			l.confirmed++
		}
	}
	return l
}

// activationOps performs the activations that are due at the boundary before block index b.
func (m *mon) activationOps(b int) {
	busy := map[string]bool{}
	var cur *view
	for _, pl := range m.plan {
		if pl.done || busy[pl.Chain] || m.stopped {
			continue
		}
		busy[pl.Chain] = true // one plan per chain at a time, in order
		if b < pl.From {
			continue
		}
		if cur == nil {
			cur = m.observe(m.c.Ctx())
			if cur.err != "" {
				return
			}
		}
		l := m.loadOf(m.c.Ctx(), cur, pl.Chain)
		ready := true
		switch pl.When {
		case whenOpenBatch:
			ready = l.open > 0 && l.pooled > 0
		case whenEstimated:
			ready = l.estimated > 0
		}
		if !ready && b-pl.From < pl.Wait {
			continue
		}
		pl.done = true
		m.activateInHistory(pl, cur, l)
		cur = nil
	}
}

// doActivate: one attested compass deployment of the given kind for chain ch on ctx, through the
// keeper function the deployment flow ends in. tag makes address and unique id distinct.
func (m *mon) doActivate(ctx sdk.Context, ch, kind string, tag int, uidPrefix string) (sc *evmtypes.SmartContract, uid string, err error) {
	k := m.c.App.EvmKeeper
	ci, err := k.GetChainInfo(ctx, ch)
	if err != nil {
		return nil, "", fmt.Errorf("chain info: %w", err)
	}
	// the contract the chain runs now, as the deployment record of a retried upload carries it
	sc = &evmtypes.SmartContract{Id: ci.GetActiveSmartContractID(), AbiJSON: ci.GetAbi(), Bytecode: ci.GetBytecode()}
	uid = fmt.Sprintf("%s-%s-%d", uidPrefix, ch, tag)
	addr := fmt.Sprintf("0x%040x", 0xC0DE100+tag)
	switch kind {
	case actNewer:
		nsc, err := k.SaveNewSmartContract(ctx, ci.GetAbi(), ci.GetBytecode())
		if err != nil {
			return nil, "", fmt.Errorf("saving a newer compass contract: %w", err)
		}
		sc = nsc
	case actReannounce:
		uid = string(ci.GetSmartContractUniqueID())
		addr = ci.GetSmartContractAddr()
	}
	return sc, uid, k.ActivateChainReferenceID(ctx, ch, sc, addr, []byte(uid))
}

// senderBalances: balances of the senders of all pending transfers, per sender|denom.
func (m *mon) senderBalances(ctx sdk.Context) map[string]sdkmath.Int {
	out := map[string]sdkmath.Int{}
	for _, e := range m.ledger {
		if e.Status != "pending" || e.Sender == "" {
			continue
		}
		key := e.Sender + "|" + e.Denom
		if _, ok := out[key]; ok {
			continue
		}
		addr, err := sdk.AccAddressFromBech32(e.Sender)
		if err != nil {
			continue
		}
		out[key] = m.c.App.BankKeeper.GetBalance(ctx, addr, e.Denom).Amount
	}
	return out
}

// refundedByStep: pending transfers that are in no place any more after a step although they were
// before it, and whose sender received exactly what it had paid for all of them: "refunded in full
// to its sender" is one of the places the property allows. Returns their ids (sorted).
func (m *mon) refundedByStep(pre, post *view, balBefore, balAfter map[string]sdkmath.Int) []uint64 {
	gone := map[string][]uint64{}
	sum := map[string]sdkmath.Int{}
	for id, e := range m.ledger {
		if e.Status != "pending" || len(post.place[id]) != 0 || len(pre.place[id]) == 0 {
			continue
		}
		key := e.Sender + "|" + e.Denom
		gone[key] = append(gone[key], id)
		if _, ok := sum[key]; !ok {
			sum[key] = sdkmath.ZeroInt()
		}
		sum[key] = sum[key].Add(e.Paid)
	}
	var ids []uint64
	for key, l := range gone {
		b0, ok0 := balBefore[key]
		b1, ok1 := balAfter[key]
		if ok0 && ok1 && b1.Sub(b0).Equal(sum[key]) {
			ids = append(ids, l...)
		}
	}
	sort.Slice(ids, func(i, j int) bool { return ids[i] < ids[j] })
	return ids
}

func (m *mon) activateInHistory(pl *actPlan, pre *view, l chainLoad) {
	c := m.c
	m.nAct++
	balBefore := m.senderBalances(c.Ctx())
	m.rec.Op(map[string]any{"h": c.Height, "op": "activate-chain", "chain": pl.Chain, "kind": pl.Kind, "when": pl.When,
		"open_batches": l.open, "pooled": l.pooled, "estimated": l.estimated, "confirmed": l.confirmed})
	d0 := c.DigestStores(c.Ctx(), "skyway", "bank")
	var sc *evmtypes.SmartContract
	var uid string
	var err error
	func() {
		defer func() {
			if e := recover(); e != nil {
				err = fmt.Errorf("PANIC: %v", e)
			}
		}()
		sc, uid, err = m.doActivate(c.Ctx(), pl.Chain, pl.Kind, m.nAct, "compass")
	}()
	done := actDone{Height: c.Height, Chain: pl.Chain, Kind: pl.Kind, UniqueID: uid, Open: l.open, Pooled: l.pooled}
	if sc != nil {
		done.Contract = sc.GetId()
	}
	m.acts = append(m.acts, done)
	wit := map[string]any{"height": c.Height, "activation": done, "activations_so_far": m.acts, "when": pl.When,
		"batches_with_elected_estimate": l.estimated, "batches_with_confirmations": l.confirmed}
	where := "history/activate-chain"
	m.rec.Count("activations", 1)
	m.rec.Count("activations:"+pl.Kind, 1)
	if l.open > 0 {
		m.rec.Count("activations_with_open_batches", 1)
	}
	if l.open > 0 && l.pooled > 0 {
		m.rec.Count("activations_with_open_batches_and_pooled", 1)
	}
	if l.estimated > 0 {
		m.rec.Count("activations_with_estimated_batches", 1)
	}
	if l.confirmed > 0 {
		m.rec.Count("activations_with_confirmed_batches", 1)
	}
	m.rec.Distinct(fmt.Sprintf("activate|%s|%v|%v|%v|%v", pl.Kind, l.open > 0, l.pooled > 0, l.estimated > 0, l.confirmed > 0))
	if err != nil {
		// an activation that reports failure must not have touched pool, batches or balances
		wit["step_error"] = firstLine(err.Error())
		m.rec.Count("activations_reported_failure", 1)
		m.rec.Eval(1)
		if d1 := c.DigestStores(c.Ctx(), "skyway", "bank"); d1 != d0 {
			m.vio(where+"/state-changed-on-failure", fmt.Sprintf("activation of %s (%s) reported failure (%s) but left skyway/bank state changed", pl.Chain, pl.Kind, firstLine(err.Error())), wit)
		}
	}
	post := m.observe(c.Ctx())
	for _, id := range m.refundedByStep(pre, post, balBefore, m.senderBalances(c.Ctx())) {
		m.ledger[id].Status = "refunded"
		m.rec.Count("transfers_refunded_by_activation", 1)
	}
	ok := true
	for _, d := range m.denoms {
		m.rec.Eval(1)
		if !post.supply[d].Equal(pre.supply[d]) {
			ok = false
			m.vio(where+"/supply-mismatch", fmt.Sprintf("activation of %s (%s) changed the supply of %s: %s -> %s", pl.Chain, pl.Kind, d, pre.supply[d], post.supply[d]), wit)
		}
	}
	for id, p := range post.place {
		if len(p) == 1 && p[0] == "pool" && len(pre.place[id]) == 1 && pre.place[id][0] != "pool" {
			m.rec.Count("transfers_repooled_by_activation", 1)
		}
	}
	if !m.checkView(post, where, wit) {
		ok = false
	}
	if !ok {
		m.stopped = true
		m.rec.Count("histories_stopped_at_violation", 1)
		return
	}
	m.followDeployment(pl.Chain, post)
}

// followDeployment: the remote side of the history moves to the new deployment. Claims carry the
// compass id the bridge has on record now, event nonces continue from the chain's last observed
// nonce (both READ from the chain, not modelled); claims of the previous deployment that pigeons
// had not delivered yet are dropped, executed-batch events for batches that are still open will be
// reported again by the new deployment.
func (m *mon) followDeployment(ch string, post *view) {
	k := m.c.App.SkywayKeeper
	ctx := m.c.Ctx()
	m.activated[ch] = true
	if id := k.GetLatestCompassID(ctx, ch); id != "" {
		m.w.Compass[ch] = id
	}
	if n, err := k.GetLastObservedSkywayNonce(ctx, ch); err == nil {
		m.evNonce[ch] = n
	}
	for vb, q := range m.todo {
		keep := q[:0:0]
		for _, msg := range q {
			switch cl := msg.(type) {
			case *skywaytypes.MsgSendToPalomaClaim:
				if cl.ChainReferenceId == ch {
					continue
				}
			case *skywaytypes.MsgBatchSendToRemoteClaim:
				if cl.ChainReferenceId == ch {
					continue
				}
			}
			keep = append(keep, msg)
		}
		m.todo[vb] = keep
	}
	for _, bt := range post.batches {
		if bt.ChainReferenceID == ch {
			delete(m.claimed, batchKey(bt))
		}
	}
}

// activationSteps: the activation as a fork step of the fault enumeration, one per chain that has
// pooled or batched transfers; the kind rotates with the boundary.
func (m *mon) activationSteps(cur *view) []step {
	var st []step
	for i, ch := range m.w.Chains {
		l := m.loadOf(m.c.Ctx(), cur, ch)
		if l.open == 0 && l.pooled == 0 {
			continue
		}
		ch := ch
		kind := actKinds[(m.forkActs+i)%len(actKinds)]
		tag := 100000 + m.forkActs
		if l.open > 0 {
			m.rec.Count("fork_activations_with_open_batches", 1)
		}
		st = append(st, step{kind: stepActivate, run: func(ctx sdk.Context) (bool, string) {
			_, _, err := m.doActivate(ctx, ch, kind, tag, "compass-fork")
			return err != nil, errStr(err)
		}})
	}
	m.forkActs++
	return st
}
