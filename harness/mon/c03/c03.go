//go:build verif

// Package c03: only the principal (or governance) changes state held in its name.
//
// Every Paloma message type the chain accepts is discovered from the interface registry at run
// time. For each type an honest instance is built from a live world state in the name of a
// principal B (validator, user or the governance authority); it is first delivered honestly
// (template validity), then as attacks by an account A that holds no fee grant from B:
//
//	foreign-signer   creator = B, signers = [A], signed by A
//	creator-swapped  creator = A, signers = [A], signed by A, body unchanged (still naming B / B's things)
//	authority-*      for authority-gated messages: authority kept / replaced by A
//
// All through the application's REAL ante chain and message router (baseapp runTx semantics on a
// fork of the state). Oracle: if an attack is accepted, the view of B (everything Paloma keeps in
// B's name, read through exported getters) and the governance view must be unchanged.
package c03

import (
	"encoding/hex"
	"encoding/json"
	"fmt"
	"github.com/cosmos/cosmos-sdk/x/authz"
	gogoproto "github.com/cosmos/gogoproto/proto"
	"math/rand"
	"reflect"
	"sort"
	"strings"
	"time"

	sdkmath "cosmossdk.io/math"
	"cosmossdk.io/x/feegrant"
	codectypes "github.com/cosmos/cosmos-sdk/codec/types"
	sdk "github.com/cosmos/cosmos-sdk/types"
	banktypes "github.com/cosmos/cosmos-sdk/x/bank/types"

	consensustypes "github.com/palomachain/paloma/v2/x/consensus/types"
	evmtypes "github.com/palomachain/paloma/v2/x/evm/types"
	palomatypes "github.com/palomachain/paloma/v2/x/paloma/types"
	schedulertypes "github.com/palomachain/paloma/v2/x/scheduler/types"
	skywaytypes "github.com/palomachain/paloma/v2/x/skyway/types"
	tftypes "github.com/palomachain/paloma/v2/x/tokenfactory/types"
	treasurytypes "github.com/palomachain/paloma/v2/x/treasury/types"
	valsettypes "github.com/palomachain/paloma/v2/x/valset/types"

	"verif/harness/chain"
	"verif/harness/fw"
	"verif/harness/world"
)

type params struct {
	Stakes  []int64 `json:"stakes"`
	NChains int     `json:"chains"`
	Stage   int     `json:"stage"` // how far the world is driven before the matrix is run
}

type mon struct {
	rec       *fw.Recorder
	r         *rand.Rand
	w         *world.BridgeWorld
	c         *chain.Chain
	p         params
	VA, VB    *chain.Account // validators: attacker, victim
	UA, UB    *chain.Account // users: attacker, victim
	jobIDs    []string
	allDenoms []string
	denomB    string
	denomAB   string // created by the attacker, administered by B since a hand-over
	poolTxB   uint64
	uscB      uint64
	fresh     int
	batch     *skywaytypes.InternalOutgoingTxBatch
	queueMsg  uint64
	queue     string
	evNonce   map[string]uint64
	accepted  []acceptedAttack
	puppet    *chain.Account // an account of the attacker that has granted fee allowances to the attackers
}

type acceptedAttack struct {
	desc string
	tx   []byte
}

type template struct {
	kind  string // validator | user | gov
	owner *chain.Account
	msg   sdk.Msg
	note  string
}

func (m *mon) freshAcct(tag string) *chain.Account {
	m.fresh++
	return chain.NewAccount(tag, fmt.Sprintf("c03-fresh-%s-%d", tag, m.fresh))
}

func gm() valsettypes.MsgMetadata {
	return valsettypes.MsgMetadata{Creator: chain.GovAuthority(), Signers: []string{chain.GovAuthority()}}
}

// templates: honest instances of every message type, built from the live state.
func (m *mon) templates() map[string][]template {
	c, w := m.c, m.w
	VB, UB := m.VB, m.UB
	ch := w.Chains[0]
	t := map[string][]template{}
	add := func(kind string, owner *chain.Account, msg sdk.Msg, note string) {
		u := sdk.MsgTypeURL(msg)
		t[u] = append(t[u], template{kind: kind, owner: owner, msg: msg, note: note})
	}
	// ---- valset / treasury
	add("validator", VB, world.MsgKeepAlive(VB, "v2.4.1"), "")
	add("validator", VB, world.MsgRegister(VB, w.Chains, "mev"), "adds the mev trait")
	add("validator", VB, world.MsgRelayerFee(VB, map[string]string{ch: "1.7"}), "")
	// ---- consensus queue messages
	if m.queueMsg != 0 {
		if sm, err := world.MsgSign(c, VB, m.queue, m.queueMsg); err == nil {
			add("validator", VB, sm, "signature by B's external key")
		}
		add("validator", VB, world.MsgEstimate(VB, m.queue, m.queueMsg, 321000), "")
		add("validator", VB, world.MsgPublicAccess(VB, m.queue, m.queueMsg, []byte{1, 2, 3, 4}, 1), "")
		add("validator", VB, world.MsgErrorData(VB, m.queue, m.queueMsg, []byte("boom")), "")
		if ev, err := world.MsgEvidence(VB, m.queue, m.queueMsg, &evmtypes.SmartContractExecutionErrorProof{ErrorMessage: "x"}); err == nil {
			add("validator", VB, ev, "")
		}
	}
	// ---- skyway oracle claims in B's name
	tok := w.Tokens[0]
	n := m.evNonce[ch] + 1
	add("validator", VB, world.MsgDepositClaim(VB, ch, w.Compass[ch], n, 5000+n, tok.ERC20, sdkmath.NewInt(777), "0x00000000000000000000000000000000000000e1", m.UA.Bech), "orchestrator = B")
	add("validator", VB, world.MsgBatchClaim(VB, ch, w.Compass[ch], n, 5000+n, 77, tok.ERC20), "orchestrator = B")
	add("validator", VB, world.MsgSaleClaim(VB, ch, w.Compass[ch], n, 5000+n, m.freshAcct("sale").Bech, sdkmath.NewInt(1000), "0x00000000000000000000000000000000005a1e00"), "orchestrator = B")
	if m.batch != nil {
		if cf, err := world.MsgBatchConfirm(c, VB, *m.batch); err == nil {
			add("validator", VB, cf, "B's own external signature (allowed to be relayed by anyone)")
		}
		add("validator", VB, world.MsgBatchEstimate(VB, m.batch.BatchNonce, m.batch.TokenContract.GetAddress().Hex(), 250000), "")
	}
	add("validator", VB, &palomatypes.MsgAddStatusUpdate{Status: "hello", Level: palomatypes.MsgAddStatusUpdate_LEVEL_INFO, Metadata: world.Meta(VB)}, "")
	// ---- users: bridge
	add("user", UB, world.MsgSend(UB, tok.ChainRef, "0x00000000000000000000000000000000000000aa", sdk.NewInt64Coin(tok.Denom, 10)), "")
	if m.poolTxB != 0 {
		add("user", UB, world.MsgCancel(UB, m.poolTxB), "B's pending transfer")
	}
	if len(w.Chains) > 1 {
		add("user", UB, world.MsgMapERC20(UB, m.denomB, w.Chains[1], "0x00000000000000000000000000000000000e2cbb"), "B's denom on another chain")
	} else {
		nd := m.denomB + "x"
		add("user", UB, world.MsgMapERC20(UB, nd, ch, "0x00000000000000000000000000000000000e2cbb"), "unknown denom")
	}
	// ---- users: scheduler
	def, _ := json.Marshal(map[string]string{"abi": "[]", "address": "0x00000000000000000000000000000000000beef1"})
	pay, _ := json.Marshal(map[string]string{"hexPayload": "c0ffee"})
	add("user", UB, &schedulertypes.MsgCreateJob{Job: &schedulertypes.Job{ID: fmt.Sprintf("jobnew%d", m.fresh), Routing: schedulertypes.Routing{ChainType: "evm", ChainReferenceID: ch},
		Definition: def, Payload: pay, IsPayloadModifiable: true}, Metadata: world.Meta(UB)}, "")
	if len(m.jobIDs) > 0 {
		add("user", UB, &schedulertypes.MsgCreateJob{Job: &schedulertypes.Job{ID: m.jobIDs[0], Routing: schedulertypes.Routing{ChainType: "evm", ChainReferenceID: ch},
			Definition: def, Payload: []byte(`{"hexPayload":"00"}`), Owner: m.UA.Addr}, Metadata: world.Meta(UB)}, "re-creation of B's job id")
		add("user", UB, &schedulertypes.MsgExecuteJob{JobID: m.jobIDs[0], Payload: pay, Metadata: world.Meta(UB)}, "")
	}
	// ---- users: user smart contracts
	add("user", UB, &evmtypes.MsgUploadUserSmartContractRequest{Metadata: world.Meta(UB), Title: "t", AbiJson: `[{"inputs":[],"stateMutability":"nonpayable","type":"constructor"}]`, Bytecode: "0x6001", ConstructorInput: ""}, "")
	if m.uscB != 0 {
		add("user", UB, &evmtypes.MsgDeployUserSmartContractRequest{Metadata: world.Meta(UB), Id: m.uscB, TargetChain: ch}, "B's contract")
		add("user", UB, &evmtypes.MsgRemoveUserSmartContractRequest{Metadata: world.Meta(UB), Id: m.uscB}, "B's contract")
	}
	// ---- users: token factory
	add("user", UB, world.MsgCreateDenom(UB, fmt.Sprintf("sub%d", m.fresh)), "")
	add("user", UB, world.MsgMint(UB, m.denomB, sdkmath.NewInt(5)), "B's denom")
	add("user", UB, &tftypes.MsgBurn{Amount: sdk.NewInt64Coin(m.denomB, 3), Metadata: world.Meta(UB)}, "B's denom")
	add("user", UB, &tftypes.MsgChangeAdmin{Denom: m.denomB, NewAdmin: m.UA.Bech, Metadata: world.Meta(UB)}, "hand B's denom to A")
	add("user", UB, &tftypes.MsgSetDenomMetadata{DenomMetadata: banktypes.Metadata{Description: "d", Base: m.denomB, Display: m.denomB, Name: "n", Symbol: "S",
		DenomUnits: []*banktypes.DenomUnit{{Denom: m.denomB, Exponent: 0}}}, Metadata: world.Meta(UB)}, "B's denom")
	if m.denomAB != "" {
		add("user", UB, world.MsgMint(UB, m.denomAB, sdkmath.NewInt(5)), "token created by A, handed to B")
		add("user", UB, &tftypes.MsgChangeAdmin{Denom: m.denomAB, NewAdmin: m.UA.Bech, Metadata: world.Meta(UB)}, "token created by A, handed to B")
		add("user", UB, &tftypes.MsgSetDenomMetadata{DenomMetadata: banktypes.Metadata{Description: "d2", Base: m.denomAB, Display: m.denomAB, Name: "n2", Symbol: "S2",
			DenomUnits: []*banktypes.DenomUnit{{Denom: m.denomAB, Exponent: 0}}}, Metadata: world.Meta(UB)}, "token created by A, handed to B")
		add("user", UB, world.MsgMapERC20(UB, m.denomAB, ch, "0x00000000000000000000000000000000000e2cab"), "token created by A, handed to B")
	}
	// ---- users: light node
	add("user", UB, &palomatypes.MsgAddLightNodeClientLicense{Metadata: world.Meta(UB), ClientAddress: m.freshAcct("lic").Bech, Amount: sdk.NewInt64Coin(chain.Denom, 1000), VestingMonths: 12}, "")
	add("user", UB, &palomatypes.MsgRegisterLightNodeClient{Metadata: world.Meta(UB)}, "")
	add("user", UB, &palomatypes.MsgAuthLightNodeClient{Metadata: world.Meta(UB)}, "")
	// ---- governance-only messages (authority = gov module account)
	gov := &chain.Account{Name: "gov", Bech: chain.GovAuthority(), Addr: chain.ModuleAddr("gov")}
	add("gov", gov, &skywaytypes.MsgUpdateParams{Authority: gov.Bech, Metadata: gm(), Params: m.c.App.SkywayKeeper.GetParams(m.c.Ctx())}, "")
	add("gov", gov, &skywaytypes.MsgNonceOverrideProposal{Metadata: gm(), ChainReferenceId: ch, Nonce: 42}, "")
	add("gov", gov, &skywaytypes.MsgSetERC20MappingProposal{Metadata: gm(), Authority: gov.Bech, Mappings: []skywaytypes.MsgSetERC20MappingProposal_ERC20ToDenomMapping{{ChainReferenceId: ch, Erc20: "0x00000000000000000000000000000000000e2cff", Denom: "ugrain"}}}, "")
	add("gov", gov, &skywaytypes.MsgReplenishLostGrainsProposal{Metadata: gm()}, "")
	pp := m.c.App.PalomaKeeper.GetParams(m.c.Ctx())
	pp.GasExemptAddresses = append(pp.GasExemptAddresses, m.UA.Bech)
	add("gov", gov, &palomatypes.MsgUpdateParams{Authority: gov.Bech, Metadata: gm(), Params: pp}, "adds A to the gas-exempt list")
	add("gov", gov, &palomatypes.MsgSetLegacyLightNodeClients{Metadata: gm()}, "")
	add("gov", gov, &tftypes.MsgUpdateParams{Authority: gov.Bech, Metadata: gm(), Params: tftypes.Params{DenomCreationFee: sdk.NewCoins(sdk.NewInt64Coin(chain.Denom, 1))}}, "")
	add("gov", gov, &evmtypes.MsgDeployNewSmartContractProposalV2{Metadata: gm(), Authority: gov.Bech, AbiJSON: chain.CompassABI(), BytecodeHex: "0x6001"}, "")
	add("gov", gov, &evmtypes.MsgProposeNewReferenceBlockAttestation{Metadata: gm(), Authority: gov.Bech, ChainReferenceId: ch, BlockHeight: 999999, BlockHash: "0x" + strings.Repeat("cd", 32)}, "")
	add("gov", gov, &evmtypes.MsgRemoveSmartContractDeploymentRequest{Metadata: gm(), SmartContractID: 1, ChainReferenceID: ch}, "")
	return t
}

// setMeta sets Metadata{Creator, Signers} on a message by reflection; ok=false if it has none.
func setMeta(msg sdk.Msg, creator, signer string) bool {
	v := reflect.ValueOf(msg).Elem()
	f := v.FieldByName("Metadata")
	if !f.IsValid() || !f.CanSet() {
		return false
	}
	md, ok := f.Interface().(valsettypes.MsgMetadata)
	if !ok {
		return false
	}
	md.Creator = creator
	md.Signers = []string{signer}
	f.Set(reflect.ValueOf(md))
	return true
}

func setMetaMany(msg sdk.Msg, creator string, signers []string) bool {
	v := reflect.ValueOf(msg).Elem()
	f := v.FieldByName("Metadata")
	if !f.IsValid() || !f.CanSet() {
		return false
	}
	md, ok := f.Interface().(valsettypes.MsgMetadata)
	if !ok {
		return false
	}
	md.Creator = creator
	md.Signers = append([]string{}, signers...)
	f.Set(reflect.ValueOf(md))
	return true
}

// attackerAccounts: existing accounts other than the victim (users first, then validators), all under the attacker's control.
func (m *mon) attackerAccounts(victim *chain.Account) []*chain.Account {
	var out []*chain.Account
	for _, a := range append(append([]*chain.Account{}, m.w.Users...), m.w.Vals...) {
		if a.Bech != victim.Bech && a.Bech != m.UB.Bech && a.Bech != m.VB.Bech {
			out = append(out, a)
		}
	}
	return out
}

func setAuthority(msg sdk.Msg, a string) bool {
	f := reflect.ValueOf(msg).Elem().FieldByName("Authority")
	if !f.IsValid() || f.Kind() != reflect.String {
		return false
	}
	f.SetString(a)
	return true
}

func clone(c *chain.Chain, msg sdk.Msg) sdk.Msg {
	anyv, err := codectypes.NewAnyWithValue(msg)
	if err != nil {
		panic(err)
	}
	bz, _ := c.App.AppCodec().Marshal(anyv)
	var a2 codectypes.Any
	if err := c.App.AppCodec().Unmarshal(bz, &a2); err != nil {
		panic(err)
	}
	var out sdk.Msg
	if err := c.App.InterfaceRegistry().UnpackAny(&a2, &out); err != nil {
		panic(err)
	}
	return out
}

// aliasSpellings of an identifier that a lenient lookup might fold onto the original.
func aliasSpellings(id string) []string {
	out := []string{strings.ToUpper(id), " " + id, id + " "}
	if len(id) > 0 {
		out = append(out, strings.ToUpper(id[:1])+id[1:])
	}
	var uniq []string
	for _, a := range out {
		if a != id {
			uniq = append(uniq, a)
		}
	}
	return uniq
}

// aliasVariants: clones of msg in which the identifier of B's existing thing is re-spelled.
func aliasVariants(c *chain.Chain, msg sdk.Msg) []sdk.Msg {
	var out []sdk.Msg
	switch t := msg.(type) {
	case *schedulertypes.MsgCreateJob:
		if t.Job != nil {
			for _, a := range aliasSpellings(t.Job.ID) {
				cl := clone(c, msg).(*schedulertypes.MsgCreateJob)
				cl.Job.ID = a
				out = append(out, cl)
			}
		}
	case *schedulertypes.MsgExecuteJob:
		for _, a := range aliasSpellings(t.JobID) {
			cl := clone(c, msg).(*schedulertypes.MsgExecuteJob)
			cl.JobID = a
			out = append(out, cl)
		}
	case *tftypes.MsgMint:
		for _, a := range aliasSpellings(t.Amount.Denom) {
			cl := clone(c, msg).(*tftypes.MsgMint)
			cl.Amount.Denom = a
			out = append(out, cl)
		}
	case *tftypes.MsgBurn:
		for _, a := range aliasSpellings(t.Amount.Denom) {
			cl := clone(c, msg).(*tftypes.MsgBurn)
			cl.Amount.Denom = a
			out = append(out, cl)
		}
	case *tftypes.MsgChangeAdmin:
		for _, a := range aliasSpellings(t.Denom) {
			cl := clone(c, msg).(*tftypes.MsgChangeAdmin)
			cl.Denom = a
			out = append(out, cl)
		}
	case *skywaytypes.MsgSetERC20ToTokenDenom:
		for _, a := range aliasSpellings(t.Denom) {
			cl := clone(c, msg).(*skywaytypes.MsgSetERC20ToTokenDenom)
			cl.Denom = a
			out = append(out, cl)
		}
	}
	return out
}

type attack struct {
	name   string
	signer *chain.Account
	msg    sdk.Msg
	pre    []sdk.Msg        // messages placed BEFORE msg in the same tx (multi-message attacks)
	co     []*chain.Account // further accounts of the attacker that sign the tx as well (multi-signer attacks)
	exempt string           // non-empty: an accepted change of B's view is allowed by the property (reason)
}

func (m *mon) attacks(tp template, url string) []attack {
	c := m.c
	var out []attack
	attackers := []*chain.Account{m.UA}
	if tp.kind == "validator" {
		attackers = []*chain.Account{m.VA, m.UA}
	}
	if tp.kind == "gov" {
		attackers = []*chain.Account{m.UA, m.VA}
	}
	for _, X := range attackers {
		who := "user"
		if X == m.VA {
			who = "validator"
		}
		a1 := clone(c, tp.msg)
		if setMeta(a1, tp.owner.Bech, X.Bech) {
			out = append(out, attack{name: "foreign-signer-by-" + who, signer: X, msg: a1})
			// the same forged message travelling BEHIND a legitimately delegated one in one tx: the
			// attacker's own puppet account has granted A an allowance, B has not
			if m.puppet != nil && tp.kind != "gov" {
				decoy := &palomatypes.MsgAddStatusUpdate{Status: "decoy", Level: palomatypes.MsgAddStatusUpdate_LEVEL_INFO,
					Metadata: valsettypes.MsgMetadata{Creator: m.puppet.Bech, Signers: []string{X.Bech}}}
				out = append(out, attack{name: "foreign-signer-behind-delegated-message-by-" + who, signer: X, msg: clone(c, a1), pre: []sdk.Msg{decoy}})
			}
			// a forged message that lists NO signers at all (creator B) needs no signature of its own; it travels behind a
			// message A sends in its own name, which supplies the signature the transaction needs
			{
				own := &palomatypes.MsgAddStatusUpdate{Status: "own", Level: palomatypes.MsgAddStatusUpdate_LEVEL_INFO,
					Metadata: valsettypes.MsgMetadata{Creator: X.Bech, Signers: []string{X.Bech}}}
				if as := clone(c, tp.msg); setMetaMany(as, tp.owner.Bech, nil) {
					out = append(out, attack{name: "foreign-creator-without-signers-behind-own-message-by-" + who, signer: X, msg: as, pre: []sdk.Msg{own}})
				}
			}
			// ... and behind a message A sends in its OWN name (creator A, signer A)
			if tp.kind != "gov" {
				own := &palomatypes.MsgAddStatusUpdate{Status: "own", Level: palomatypes.MsgAddStatusUpdate_LEVEL_INFO,
					Metadata: valsettypes.MsgMetadata{Creator: X.Bech, Signers: []string{X.Bech}}}
				out = append(out, attack{name: "foreign-signer-behind-own-message-by-" + who, signer: X, msg: clone(c, a1), pre: []sdk.Msg{own}})
			}
		}
		// the forged message signed by SEVERAL accounts of the attacker (3 and 5 signers, none of them B, in both
		// orders): signer lists longer than one take other paths through decoding and validation
		if X == m.UA {
			pool := m.attackerAccounts(tp.owner)
			for _, n := range []int{3, 5} {
				if len(pool) < n {
					continue
				}
				for variant := 0; variant < 2; variant++ {
					set := append([]*chain.Account{}, pool[:n]...)
					if variant == 1 {
						for i, j := 0, len(set)-1; i < j; i, j = i+1, j-1 {
							set[i], set[j] = set[j], set[i]
						}
					}
					am := clone(c, tp.msg)
					var names []string
					for _, a := range set {
						names = append(names, a.Bech)
					}
					if setMetaMany(am, tp.owner.Bech, names) {
						out = append(out, attack{name: fmt.Sprintf("foreign-signers-%d-order-%d-by-user", n, variant), signer: set[0], co: set[1:], msg: am})
					}
				}
			}
		}
		// the forged message (creator B, signers [A]) wrapped in an authz MsgExec sent by A: nested messages must not
		// escape the ownership check
		if aw := clone(c, tp.msg); setMeta(aw, tp.owner.Bech, X.Bech) && tp.kind != "gov" {
			if any, err := codectypes.NewAnyWithValue(aw.(gogoproto.Message)); err == nil {
				out = append(out, attack{name: "foreign-signer-inside-authz-exec-by-" + who, signer: X, msg: &authz.MsgExec{Grantee: X.Bech, Msgs: []*codectypes.Any{any}}})
				// ... and the same behind two and three levels of wrapping
				inner := &authz.MsgExec{Grantee: X.Bech, Msgs: []*codectypes.Any{any}}
				for depth := 2; depth <= 3; depth++ {
					wrapped, werr := codectypes.NewAnyWithValue(inner)
					if werr != nil {
						break
					}
					inner = &authz.MsgExec{Grantee: X.Bech, Msgs: []*codectypes.Any{wrapped}}
					out = append(out, attack{name: fmt.Sprintf("foreign-signer-inside-authz-exec-depth-%d-by-%s", depth, who), signer: X, msg: inner})
				}
			}
		}
		a2 := clone(c, tp.msg)
		if setMeta(a2, X.Bech, X.Bech) {
			ex := ""
			if url == "/palomachain.paloma.skyway.MsgConfirmBatch" {
				ex = "batch confirmation carrying B's own external signature over the exact checkpoint"
			}
			out = append(out, attack{name: "creator-swapped-by-" + who, signer: X, msg: a2, exempt: ex})
		}
		// A's OWN well-formed message that names one of B's things under an alias spelling (other letter case,
		// surrounding blanks): identifiers that are normalised on one path and compared raw on another let A
		// overwrite or use what B owns without ever forging a creator.
		for i, al := range aliasVariants(c, tp.msg) {
			if setMeta(al, X.Bech, X.Bech) {
				out = append(out, attack{name: fmt.Sprintf("creator-swapped-alias-id-%d-by-%s", i, who), signer: X, msg: al})
			}
		}
		if tp.kind == "gov" {
			a3 := clone(c, tp.msg)
			if setAuthority(a3, X.Bech) {
				setMeta(a3, X.Bech, X.Bech)
				out = append(out, attack{name: "authority-swapped-by-" + who, signer: X, msg: a3})
			}
		}
	}
	// a confirmation that names B but carries A's signature must never be recorded for B
	if cf, ok := tp.msg.(*skywaytypes.MsgConfirmBatch); ok && m.batch != nil {
		if forged, err := world.MsgBatchConfirm(c, m.VA, *m.batch); err == nil {
			forged.Orchestrator = cf.Orchestrator
			forged.EthSigner = cf.EthSigner
			out = append(out, attack{name: "confirm-with-foreign-signature", signer: m.VA, msg: forged})
		}
	}
	return out
}

func (m *mon) sign(signer *chain.Account, msgs ...sdk.Msg) ([]byte, error) {
	return m.c.SignTx([]*chain.Account{signer}, msgs, chain.TxOpts{})
}

func keyClass(d string) string {
	d = strings.TrimLeft(d, "+-~")
	if i := strings.IndexByte(d, '/'); i > 0 {
		return d[:i]
	}
	return d
}

func short(url string) string { return strings.TrimPrefix(url, "/palomachain.paloma.") }

func run(c fw.Case, tier string, rec *fw.Recorder) {
	var p params
	c.Decode(&p)
	r := c.Rand()
	chains := []string{"eth-main", "bnb-main"}[:p.NChains]
	w, err := world.NewBridgeWorld(world.BridgeOpts{Prefix: fmt.Sprintf("c03-%d", c.Seed), Stakes: p.Stakes, NUsers: 3, Chains: chains,
		FactorySubs: []string{"tka"}, MapUgrain: true, CaptureLog: true})
	if w != nil && w.C != nil {
		defer w.C.Close()
	}
	if err != nil {
		rec.Inconclusive("bring-up failed: " + err.Error())
		return
	}
	m := &mon{rec: rec, r: r, w: w, c: w.C, p: p, VA: w.Vals[0], VB: w.Vals[1], UA: w.Users[0], UB: w.Users[2], evNonce: map[string]uint64{}}
	if err := m.prepare(); err != nil {
		rec.Inconclusive("world preparation failed: " + err.Error())
		return
	}
	m.matrix()
	m.crossCheck()
}

// prepare drives the world into a state where B owns something of every kind.
func (m *mon) prepare() error {
	c, w := m.c, m.w
	UB := m.UB
	must := func(what string, r chain.TxResult) error {
		if !r.OK() {
			return fmt.Errorf("%s: %s", what, r.Log)
		}
		return nil
	}
	_ = c.App.TreasuryKeeper.SetCommunityFundFee(c.Ctx(), "0.01")
	_ = c.App.TreasuryKeeper.SetSecurityFee(c.Ctx(), "0.02")
	if snap, err := c.App.ValsetKeeper.GetCurrentSnapshot(c.Ctx()); err == nil && snap != nil {
		_ = c.App.EvmKeeper.PublishSnapshotToAllChains(c.Ctx(), snap, true)
	}
	ch := w.Chains[0]
	m.queue = world.TurnstoneQueue(ch)
	if msgs := world.QueueMsgs(c, m.queue); len(msgs) > 0 {
		m.queueMsg = msgs[0].GetId()
	}
	// B's own denom, mapped and partly in flight
	if err := must("create denom", c.Deliver(UB, world.MsgCreateDenom(UB, "tkb"))); err != nil {
		return err
	}
	m.denomB = world.FactoryDenom(UB, "tkb")
	m.allDenoms = []string{m.denomB, world.FactoryDenom(w.Users[0], "tka")}
	if err := must("mint", c.Deliver(UB, world.MsgMint(UB, m.denomB, sdkmath.NewInt(1_000_000)))); err != nil {
		return err
	}
	if err := must("map", c.Deliver(UB, world.MsgMapERC20(UB, m.denomB, ch, "0x00000000000000000000000000000000000e2cb0"))); err != nil {
		return err
	}
	// a token CREATED by the attacker and then handed to B: the former creator/admin is just another stranger now
	if err := must("create denom ab", c.Deliver(m.UA, world.MsgCreateDenom(m.UA, "tkab"))); err != nil {
		return err
	}
	m.denomAB = world.FactoryDenom(m.UA, "tkab")
	m.allDenoms = append(m.allDenoms, m.denomAB)
	if err := must("mint ab", c.Deliver(m.UA, world.MsgMint(m.UA, m.denomAB, sdkmath.NewInt(5000)))); err != nil {
		return err
	}
	if err := must("hand over ab", c.Deliver(m.UA, &tftypes.MsgChangeAdmin{Denom: m.denomAB, NewAdmin: UB.Bech, Metadata: world.Meta(m.UA)})); err != nil {
		return err
	}
	// the attackers hold some of B's token (so that "burn B's token from my own balance" is possible at all)
	for _, x := range []*chain.Account{m.UA, m.VA} {
		if err := must("give", c.Deliver(UB, &banktypes.MsgSend{FromAddress: UB.Bech, ToAddress: x.Bech, Amount: sdk.NewCoins(sdk.NewInt64Coin(m.denomB, 1000))})); err != nil {
			return err
		}
	}
	tok := w.Tokens[0]
	if err := must("send1", c.Deliver(UB, world.MsgSend(UB, tok.ChainRef, "0x00000000000000000000000000000000000000aa", sdk.NewInt64Coin(tok.Denom, 100)))); err != nil {
		return err
	}
	if m.p.Stage >= 1 {
		for c.Height%50 != 0 {
			c.Skip(1)
		}
		bs, _ := c.App.SkywayKeeper.GetOutgoingTxBatches(c.Ctx())
		if len(bs) > 0 {
			m.batch = &bs[0]
		}
	}
	res := c.Deliver(UB, world.MsgSend(UB, tok.ChainRef, "0x00000000000000000000000000000000000000ab", sdk.NewInt64Coin(tok.Denom, 50)))
	if err := must("send2", res); err != nil {
		return err
	}
	if id, ok := chain.EventAttr(res.Events, "EventOutgoingTxId", "tx_id"); ok {
		fmt.Sscanf(strings.Trim(id, "\""), "%d", &m.poolTxB)
	}
	// job, user smart contract, licence, grant-free
	def, _ := json.Marshal(map[string]string{"abi": "[]", "address": "0x00000000000000000000000000000000000beef0"})
	pay, _ := json.Marshal(map[string]string{"hexPayload": "aabb"})
	if err := must("job", c.Deliver(UB, &schedulertypes.MsgCreateJob{Job: &schedulertypes.Job{ID: "jobb", Routing: schedulertypes.Routing{ChainType: "evm", ChainReferenceID: ch},
		Definition: def, Payload: pay, IsPayloadModifiable: true}, Metadata: world.Meta(UB)})); err != nil {
		return err
	}
	m.jobIDs = []string{"jobb"}
	r2 := c.Deliver(UB, &evmtypes.MsgUploadUserSmartContractRequest{Metadata: world.Meta(UB), Title: "mine", AbiJson: `[{"inputs":[],"stateMutability":"nonpayable","type":"constructor"}]`, Bytecode: "0x6001"})
	if r2.OK() {
		if cs, err := c.App.EvmKeeper.UserSmartContracts(c.Ctx(), UB.ValBech()); err == nil && len(cs) > 0 {
			m.uscB = cs[0].Id
		}
	} else {
		m.rec.Count("prepare_skipped:user-smart-contract", 1)
		m.rec.Count("prepare_failed_usc:"+r2.Log[:min(len(r2.Log), 150)], 1)
	}
	// the attacker's puppet: a second account of the attacker that grants the attackers a fee allowance
	// (the ordinary validator -> relayer-key arrangement, here between two accounts of one party)
	m.puppet = chain.NewAccount("puppet", fmt.Sprintf("c03-puppet-%d", m.c.Height))
	if err := must("fund puppet", c.Deliver(m.UA, &banktypes.MsgSend{FromAddress: m.UA.Bech, ToAddress: m.puppet.Bech, Amount: sdk.NewCoins(sdk.NewInt64Coin(chain.Denom, 1_000_000))})); err != nil {
		return err
	}
	for _, x := range []*chain.Account{m.UA, m.VA} {
		g, err := feegrant.NewMsgGrantAllowance(&feegrant.BasicAllowance{}, m.puppet.Addr, x.Addr)
		if err != nil {
			return err
		}
		if err := must("grant", c.Deliver(m.puppet, g)); err != nil {
			return err
		}
	}
	// a pending oracle event exists (nonce = cursor + 1), some validators voted already
	for _, chn := range w.Chains {
		n, _ := c.App.SkywayKeeper.GetLastObservedSkywayNonce(c.Ctx(), chn)
		m.evNonce[chn] = n
	}
	if m.p.Stage >= 2 {
		n := m.evNonce[ch] + 1
		v := w.Vals[2]
		_ = must("claim", c.Deliver(v, world.MsgDepositClaim(v, ch, w.Compass[ch], n, 5000+n, tok.ERC20, sdkmath.NewInt(777), "0x00000000000000000000000000000000000000e1", m.UA.Bech)))
	}
	return nil
}

func (m *mon) matrix() {
	c := m.c
	reg := c.App.InterfaceRegistry()
	var urls []string
	for _, u := range reg.ListImplementations("cosmos.base.v1beta1.Msg") {
		if strings.HasPrefix(u, "/palomachain.paloma.") && !strings.HasSuffix(u, "Response") {
			urls = append(urls, u)
		}
	}
	sort.Strings(urls)
	tps := m.templates()
	m.rec.Count("message_types_registered", int64(len(urls)))
	var skipped []string
	for _, u := range urls {
		if c.App.MsgServiceRouter().HandlerByTypeURL(u) == nil {
			m.rec.Count("message_types_without_handler", 1)
			continue
		}
		list := tps[u]
		if len(list) == 0 {
			skipped = append(skipped, short(u))
			m.rec.Count("message_types_skipped", 1)
			continue
		}
		m.rec.Count("message_types_covered", 1)
		for _, tp := range list {
			m.oneTemplate(u, tp)
		}
	}
	for u := range tps {
		found := false
		for _, x := range urls {
			if x == u {
				found = true
			}
		}
		if !found {
			m.rec.Count("templates_for_unregistered_types", 1)
		}
	}
	m.rec.Sample(map[string]any{"types_skipped_no_template": skipped})
}

func (m *mon) oneTemplate(url string, tp template) {
	c := m.c
	h, t := c.Height+1, c.Time.Add(2*time.Second)
	base := c.Ctx()
	victims := []*chain.Account{m.VB, m.UB}
	before := map[string]view{"gov": m.govView(base)}
	for _, v := range victims {
		before[v.Name] = m.principalView(base, v)
	}
	// honest delivery (template validity): signed by its owner; governance templates cannot be signed
	if tp.kind != "gov" {
		if tx, err := m.sign(tp.owner, tp.msg); err == nil {
			ctx := c.Fork(h, t)
			ae, me := c.RunTxOnFork(ctx, tx)
			if ae == nil && me == nil {
				m.rec.Count("honest_accepted", 1)
				m.rec.Distinct("honest|" + url + "|" + tp.note)
			} else {
				m.rec.Count("honest_rejected:"+short(url), 1)
				m.rec.Sample(map[string]any{"honest_rejected": short(url), "note": tp.note, "ante_err": fmt.Sprint(ae), "msg_err": fmt.Sprint(me)})
			}
		}
	}
	for _, at := range m.attacks(tp, url) {
		tx, err := m.c.SignTx(append([]*chain.Account{at.signer}, at.co...), append(append([]sdk.Msg{}, at.pre...), at.msg), chain.TxOpts{})
		if err != nil {
			m.rec.Count("attack_unsignable", 1)
			continue
		}
		desc := fmt.Sprintf("%s %s (%s)", short(url), at.name, tp.note)
		m.rec.Op(map[string]any{"attack": desc})
		ctx := c.Fork(h, t)
		ae, me := c.RunTxOnFork(ctx, tx)
		m.rec.Eval(1)
		m.rec.Count("attacks", 1)
		m.rec.Distinct("attack|" + url + "|" + at.name + "|" + tp.note)
		switch {
		case ae != nil:
			m.rec.Count("attacks_rejected_at_ante", 1)
			continue
		case me != nil:
			m.rec.Count("attacks_rejected_in_handler", 1)
			continue
		}
		m.rec.Count("attacks_accepted", 1)
		m.accepted = append(m.accepted, acceptedAttack{desc: desc, tx: tx})
		after := map[string]view{"gov": m.govView(ctx)}
		for _, v := range victims {
			after[v.Name] = m.principalView(ctx, v)
		}
		for who, bv := range before {
			d := diff(bv, after[who])
			m.rec.Eval(1)
			if len(d) == 0 {
				continue
			}
			if at.exempt != "" {
				m.rec.Count("allowed_exception:"+short(url), 1)
				continue
			}
			whose := "B"
			if who == "gov" {
				whose = "governance"
			}
			m.rec.Violation(fmt.Sprintf("%s/%s/%s:%s", short(url), at.name, whose, keyClass(d[0])),
				fmt.Sprintf("tx signed only by %s (no fee grant) was accepted and changed state held for %s: %v", at.signer.Name, who, d),
				map[string]any{"message": fmt.Sprint(at.msg), "attack": at.name, "changed": d, "tx": hex.EncodeToString(tx)})
		}
	}
	// control: the same foreign-signer delivery WITH a fee grant from B is allowed
	if tp.kind != "gov" {
		X := m.UA
		if tp.kind == "validator" {
			X = m.VA
		}
		a1 := clone(c, tp.msg)
		if setMeta(a1, tp.owner.Bech, X.Bech) {
			ctx := c.Fork(h, t)
			_ = c.App.FeeGrantKeeper.GrantAllowance(ctx, tp.owner.Addr, X.Addr, &feegrant.BasicAllowance{})
			if tx, err := m.sign(X, a1); err == nil {
				ae, me := c.RunTxOnFork(ctx, tx)
				if ae == nil && me == nil {
					m.rec.Count("granted_delegation_accepted", 1)
				} else if ae != nil {
					m.rec.Count("granted_delegation_rejected_at_ante", 1)
				}
			}
		}
	}
}

// crossCheck: a few accepted attacks are replayed as REAL blocks to make sure the fork semantics
// match ABCI (acceptance must agree).
func (m *mon) crossCheck() {
	n := 0
	for _, a := range m.accepted {
		if n >= 6 {
			break
		}
		n++
		m.c.Queue(a.tx)
		br := m.c.NextBlock()
		if br.Panic != "" || br.Err != nil || len(br.Txs) == 0 {
			m.rec.Inconclusive("cross-check block failed")
			return
		}
		m.rec.Count("abci_crosschecks", 1)
		// the state moved on between fork and replay, so only a sequence mismatch is tolerated as a reason to differ
		if !br.Txs[0].OK() && !strings.Contains(br.Txs[0].Log, "sequence") {
			m.rec.Count("abci_crosscheck_differs", 1)
		}
	}
}

func cases(tier string, seed int64) []fw.Case {
	var cs []fw.Case
	stakes := [][]int64{{40e6, 30e6, 20e6, 10e6}, {25e6, 25e6, 25e6, 25e6}, {30e6, 30e6, 20e6, 10e6, 10e6}}
	n := 36
	if tier == "thorough" {
		n = 60
	}
	for i := 0; i < n; i++ {
		cs = append(cs, fw.MkCase(fmt.Sprintf("world-%02d", i), seed*6700417+int64(i), params{Stakes: stakes[i%len(stakes)], NChains: 1 + i%2, Stage: i % 3}))
	}
	return cs
}

func init() {
	fw.Register(&fw.Prop{
		ID:    "C03",
		Level: "exploration",
		Rule: "per world state (several stages: fresh / with an open batch / with pending oracle votes; 1-2 chains): every sdk.Msg type registered under /palomachain.paloma.* with a handler is enumerated from the interface registry; for each an honest instance in the name of principal B (a validator, a user, or the governance authority) is built from the live state and delivered honestly, then as attacks signed only by A (a validator and a plain user, no grant from B): foreign-signer (creator B, signers [A]), creator-swapped (creator A, body still naming B), authority-swapped, confirmation with a foreign external signature - through the real ante chain and message router with baseapp runTx semantics on a fork; a sample of accepted attacks is replayed through real ABCI blocks. Oracle: after an accepted attack the view of B (oracle votes and cursors, batch confirms/estimates, signatures/estimates/evidence/public-access/error data on queued messages, keep-alive, external accounts, relayer fees, jail state, pending transfers, jobs, user contracts, denoms and admin roles, licences, balances, grants) and the governance view (module params, chain infos, taxes, limits, mappings, sale contracts, cursors, fees, pigeon requirements, funders) are unchanged. " +
			"evaluations = attack deliveries + view comparisons; distinct_nontrivial = distinct (message type, attack, template variant) triples",
		Assumptions: []string{
			"allowed by the property and therefore exempt: fee-grant delegation, batch confirmations carrying B's own external signature, licences created FOR a fresh address",
			"compass deployment bookkeeping (smart-contract deployment records) is operational state, not attributed to a principal, and is outside the views",
			"bad-signature evidence (jailing by proof of B's own signature) is C13's subject and not generated here",
		},
		Cases:       cases,
		Run:         run,
		MinCounters: []string{"attacks", "attacks_accepted", "attacks_rejected_at_ante", "honest_accepted", "granted_delegation_accepted", "message_types_covered"},
		TimeoutS:    1200,
	})
}

var _ = consensustypes.Queue
var _ = treasurytypes.ModuleName
