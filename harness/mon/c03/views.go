//go:build verif

package c03

import (
	"fmt"
	"sort"
	"strings"

	"cosmossdk.io/x/feegrant"
	sdk "github.com/cosmos/cosmos-sdk/types"

	consensustypes "github.com/palomachain/paloma/v2/x/consensus/types"
	skywaytypes "github.com/palomachain/paloma/v2/x/skyway/types"

	"verif/harness/chain"
	"verif/harness/world"
)

type view map[string]string

func (v view) put(key string, val any) { v[key] = fmt.Sprint(val) }

func diff(a, b view) []string {
	var d []string
	for k, x := range a {
		if y, ok := b[k]; !ok {
			d = append(d, "-"+k)
		} else if x != y {
			d = append(d, "~"+k)
		}
	}
	for k := range b {
		if _, ok := a[k]; !ok {
			d = append(d, "+"+k)
		}
	}
	sort.Strings(d)
	return d
}

var subQueues = []string{"evm-turnstone-message", "validators-balances", "reference-block", "collect-fund-events"}

// principalView: everything Paloma keeps in the name of account p (as validator and as user).
func (m *mon) principalView(ctx sdk.Context, p *chain.Account) view {
	v := view{}
	c := m.c
	app := c.App
	val := p.ValBech()
	// --- validator: oracle votes and cursors
	for _, ch := range m.w.Chains {
		_ = app.SkywayKeeper.IterateAttestations(ctx, ch, false, func(key []byte, att skywaytypes.Attestation) bool {
			n := 0
			for _, vt := range att.Votes {
				if vt == val {
					n++
				}
			}
			if n > 0 {
				v.put(fmt.Sprintf("oracle-vote/%s/%x", ch, key), n)
			}
			return false
		})
		_ = app.SkywayKeeper.IterateValidatorLastEventNonces(ctx, ch, func(key []byte, nonce uint64) bool {
			if strings.Contains(string(key), string(p.ValAddr())) {
				v.put("oracle-cursor/"+ch, nonce)
			}
			return false
		})
	}
	// --- validator: batch confirmations and batch gas estimates
	app.SkywayKeeper.IterateBatchConfirms(ctx, func(key []byte, cf skywaytypes.MsgConfirmBatch) bool {
		if cf.Orchestrator == p.Bech {
			v.put(fmt.Sprintf("batch-confirm/%x", key), cf.String())
		}
		return false
	})
	app.SkywayKeeper.IterateBatchGasEstimates(ctx, func(key []byte, e skywaytypes.MsgEstimateBatchGas) bool {
		if e.Metadata.Creator == p.Bech {
			v.put(fmt.Sprintf("batch-estimate/%x", key), e.String())
		}
		return false
	})
	// --- validator: everything attributed to it on queued cross-chain messages
	for _, ch := range m.w.Chains {
		for _, sq := range subQueues {
			qn := consensustypes.Queue(sq, "evm", ch)
			msgs, err := app.ConsensusKeeper.GetMessagesFromQueue(ctx, qn, 0)
			if err != nil {
				continue
			}
			for _, qm := range msgs {
				pre := fmt.Sprintf("queue/%s/%d/", qn, qm.GetId())
				for _, sd := range qm.GetSignData() {
					if sd.ValAddress.Equals(p.ValAddr()) {
						v.put(pre+"signature", sd.String())
					}
				}
				for _, ge := range qm.GetGasEstimates() {
					if ge.ValAddress.Equals(p.ValAddr()) {
						v.put(pre+"gas-estimate", ge.Value)
					}
				}
				for _, ev := range qm.GetEvidence() {
					if ev.ValAddress.Equals(p.ValAddr()) {
						v.put(pre+"evidence", ev.String())
					}
				}
				if pa := qm.GetPublicAccessData(); pa != nil && pa.ValAddress.Equals(p.ValAddr()) {
					v.put(pre+"public-access-data", pa.String())
				}
				if ed := qm.GetErrorData(); ed != nil && ed.ValAddress.Equals(p.ValAddr()) {
					v.put(pre+"error-data", ed.String())
				}
			}
		}
	}
	// --- validator: keep-alive, external accounts, relayer fees, jail state
	if ka, err := app.ValsetKeeper.ValidatorKeepAliveData(ctx, p.ValAddr()); err == nil {
		v.put("keep-alive", fmt.Sprint(ka.AliveUntilBlockHeight, ka.PigeonVersion, ka.ContactedAt.Unix()))
	}
	if ci, err := app.ValsetKeeper.GetValidatorChainInfos(ctx, p.ValAddr()); err == nil {
		v.put("external-chain-infos", fmt.Sprint(ci))
	}
	if fees, err := app.TreasuryKeeper.GetRelayerFees(ctx); err == nil {
		for _, f := range fees {
			if f.ValAddress == val {
				v.put("relayer-fees", f.String())
			}
		}
	}
	if sv, err := app.StakingKeeper.GetValidator(ctx, p.ValAddr()); err == nil {
		v.put("staking-jailed", sv.Jailed)
		v.put("staking-status", sv.Status)
	}
	// --- user: pending transfers (pool and batches)
	if pool, err := app.SkywayKeeper.GetUnbatchedTransactions(ctx); err == nil {
		for _, tx := range pool {
			if tx.Sender.Equals(p.Addr) {
				v.put(fmt.Sprintf("transfer/%d", tx.Id), fmt.Sprintf("pool %v", tx.ToExternal()))
			}
		}
	}
	if bs, err := app.SkywayKeeper.GetOutgoingTxBatches(ctx); err == nil {
		for _, b := range bs {
			for _, tx := range b.Transactions {
				if tx.Sender.Equals(p.Addr) {
					v.put(fmt.Sprintf("transfer/%d", tx.Id), fmt.Sprintf("batch %d %v", b.BatchNonce, tx.ToExternal()))
				}
			}
		}
	}
	// --- user: jobs, user smart contracts, denoms, licences, balances, grants
	for _, id := range m.jobIDs {
		if j, err := app.SchedulerKeeper.GetJob(ctx, id); err == nil && j != nil && j.Owner.Equals(p.Addr) {
			v.put("job/"+id, j.String())
		}
	}
	if cs, err := app.EvmKeeper.UserSmartContracts(ctx, p.ValBech()); err == nil {
		for _, sc := range cs {
			v.put(fmt.Sprintf("user-smart-contract/%d", sc.Id), sc.String())
		}
	}
	for _, d := range app.TokenFactoryKeeper.GetDenomsFromCreator(ctx, p.Bech) {
		md, _ := app.TokenFactoryKeeper.GetAuthorityMetadata(ctx, d)
		bm, _ := app.BankKeeper.GetDenomMetaData(ctx, d)
		v.put("denom/"+d, fmt.Sprint("admin=", md.Admin, " supply=", app.BankKeeper.GetSupply(ctx, d).Amount, " meta=", bm.String()))
	}
	for _, d := range m.allDenoms {
		if md, err := app.TokenFactoryKeeper.GetAuthorityMetadata(ctx, d); err == nil && md.Admin == p.Bech {
			bm, _ := app.BankKeeper.GetDenomMetaData(ctx, d)
			maps := ""
			for _, ch := range m.w.Chains {
				if e, err := app.SkywayKeeper.GetERC20OfDenom(ctx, ch, d); err == nil && e != nil {
					maps += ch + "=" + e.GetAddress().Hex() + ";"
				}
			}
			v.put("denom-admin/"+d, fmt.Sprint("supply=", app.BankKeeper.GetSupply(ctx, d).Amount, " meta=", bm.String(), " bridged=", maps))
		}
	}
	if lic, err := app.PalomaKeeper.GetLightNodeClientLicense(ctx, p.Bech); err == nil && lic != nil {
		v.put("licence", lic.String())
	}
	if cl, err := app.PalomaKeeper.GetLightNodeClient(ctx, p.Bech); err == nil && cl != nil {
		v.put("light-node-client", cl.String())
	}
	v.put("balances", app.BankKeeper.GetAllBalances(ctx, p.Addr).String())
	if gr, err := app.FeeGrantKeeper.AllowancesByGranter(ctx, &feegrant.QueryAllowancesByGranterRequest{Granter: p.Bech}); err == nil {
		for _, g := range gr.Allowances {
			v.put("grant-to/"+g.Grantee, g.Allowance.String())
		}
	}
	if acc := app.AccountKeeper.GetAccount(ctx, p.Addr); acc != nil {
		v.put("account-type", fmt.Sprintf("%T", acc))
	}
	return v
}

// govView: settings only the governance authority may change.
func (m *mon) govView(ctx sdk.Context) view {
	v := view{}
	app := m.c.App
	v.put("params/consensus", app.ConsensusKeeper.GetParams(ctx))
	v.put("params/evm", app.EvmKeeper.GetParams(ctx))
	v.put("params/valset", app.ValsetKeeper.GetParams(ctx))
	v.put("params/skyway", app.SkywayKeeper.GetParams(ctx))
	v.put("params/paloma", app.PalomaKeeper.GetParams(ctx))
	v.put("params/scheduler", app.SchedulerKeeper.GetParams(ctx))
	v.put("params/metrix", app.MetrixKeeper.GetParams(ctx))
	v.put("params/tokenfactory", app.TokenFactoryKeeper.GetParams(ctx))
	if cis, err := app.EvmKeeper.GetAllChainInfos(ctx); err == nil {
		for _, ci := range cis {
			// governed fields of a chain (reference block and the active contract are set by attested flows)
			v.put("chain/"+ci.ChainReferenceID, fmt.Sprint(ci.ChainID, ci.Status, ci.MinOnChainBalance, ci.RelayWeights, ci.FeeManagerAddr, ci.SmartContractDeployerAddr,
				ci.ActiveSmartContractID, ci.SmartContractAddr, string(ci.SmartContractUniqueID), ci.ReferenceBlockHeight, ci.ReferenceBlockHash))
		}
	}
	if t, err := app.SkywayKeeper.AllBridgeTaxes(ctx); err == nil {
		v.put("bridge-taxes", t)
	}
	if t, err := app.SkywayKeeper.AllBridgeTransferLimits(ctx); err == nil {
		v.put("bridge-limits", t)
	}
	if t, err := app.SkywayKeeper.GetAllERC20ToDenoms(ctx); err == nil {
		v.put("erc20-mappings", t)
	}
	if t, err := app.SkywayKeeper.AllLightNodeSaleContracts(ctx); err == nil {
		v.put("sale-contracts", t)
	}
	for _, ch := range m.w.Chains {
		n, _ := app.SkywayKeeper.GetLastObservedSkywayNonce(ctx, ch)
		v.put("oracle-cursor/"+ch, n)
		v.put("compass-id/"+ch, app.SkywayKeeper.GetLatestCompassID(ctx, ch))
	}
	if f, err := app.TreasuryKeeper.GetFees(ctx); err == nil {
		v.put("treasury-fees", f.String())
	}
	if r, err := app.ValsetKeeper.PigeonRequirements(ctx); err == nil {
		v.put("pigeon-requirements", r)
	}
	if r, err := app.ValsetKeeper.ScheduledPigeonRequirements(ctx); err == nil {
		v.put("pigeon-requirements-scheduled", r)
	}
	if f, err := app.PalomaKeeper.LightNodeClientFunders(ctx); err == nil {
		v.put("light-node-funders", f)
	}
	if f, err := app.PalomaKeeper.LightNodeClientFeegranter(ctx); err == nil {
		v.put("light-node-feegranter", f)
	}
	if sc, err := app.EvmKeeper.GetLastCompassContract(ctx); err == nil && sc != nil {
		v.put("compass-contract-id", sc.Id)
	}
	if d, err := app.EvmKeeper.AllSmartContractsDeployments(ctx); err == nil {
		v.put("compass-deployments", len(d))
	}
	return v
}

var _ = world.Meta
