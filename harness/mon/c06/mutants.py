#!/usr/bin/env python3
# Mutant runner used for the validation in NOTES.md: needs the scratch worktree
#   git -C /repo worktree add --detach /tmp/mut-c06 ; mkdir -p /tmp/c06-mut ; python3 mutants.py [names...]
import subprocess,sys,os,re
W='/tmp/mut-c06'
env=dict(os.environ,GOFLAGS='-mod=mod',GOPROXY='off',GOSUMDB='off',GOTOOLCHAIN='local')
M={}
def mut(name,file,old,new,count=1):
    M.setdefault(name,[]).append((file,old,new,count))

# --- design list
mut('M1-keep-signdata-on-election','x/consensus/types/consensus.go','	q.SignData = nil\n	q.GasEstimate = estimate','	q.GasEstimate = estimate')
mut('M2-skip-delete-batch-confirms','x/skyway/keeper/batch.go','	store.Set(key, k.cdc.MustMarshal(&externalBatch))\n	return k.DeleteBatchConfirms(ctx, batch)','	store.Set(key, k.cdc.MustMarshal(&externalBatch))\n	return nil')
mut('M3-drop-duplicate-key-test','x/consensus/keeper/consensus/consensus.go','		if bytes.Equal(existingSigData.PublicKey, signData.PublicKey) {','		if false && bytes.Equal(existingSigData.PublicKey, signData.PublicKey) {')
mut('M4a-verify-against-pre-election-bytes-cq','x/consensus/keeper/consensus/consensus.go','	bytesToSign, err := msg.GetBytesToSign(c.qo.Cdc)\n	if err != nil {\n		return err\n	}\n\n	if !c.qo.VerifySignature(',
 '	bytesToSign, err := msg.GetBytesToSign(c.qo.Cdc)\n	if err != nil {\n		return err\n	}\n	if qm, ok := msg.(*types.QueuedSignedMessage); ok {\n		cp := *qm\n		cp.GasEstimate = 0\n		bytesToSign, err = cp.GetBytesToSign(c.qo.Cdc)\n		if err != nil {\n			return err\n		}\n	}\n\n	if !c.qo.VerifySignature(')
mut('M4b-verify-against-pre-election-checkpoint-batch','x/skyway/keeper/msg_server.go','	checkpoint, err := batch.GetCheckpoint(string(ci.SmartContractUniqueID))\n	if err != nil {\n		return nil, err\n	}\n\n	orchaddr','	preElection := *batch\n	preElection.GasEstimate = 0\n	checkpoint, err := preElection.GetCheckpoint(string(ci.SmartContractUniqueID))\n	if err != nil {\n		return nil, err\n	}\n\n	orchaddr')
# --- own
mut('M5-drop-duplicate-validator-test','x/consensus/keeper/consensus/consensus.go','		if signData.ValAddress.Equals(existingSigData.ValAddress) {','		if false && signData.ValAddress.Equals(existingSigData.ValAddress) {')
mut('M7-skip-verify-signature-cq','x/consensus/keeper/consensus/consensus.go','	if !c.qo.VerifySignature(bytesToSign, signData.Signature, signData.PublicKey) {','	if false && !c.qo.VerifySignature(bytesToSign, signData.Signature, signData.PublicKey) {')
mut('M8-skip-verify-signature-batch','x/skyway/keeper/msg_server.go','	err = types.ValidateEthereumSignature(checkpoint, sigBytes, *ethAddressFromStore)\n	if err != nil {','	err = types.ValidateEthereumSignature(checkpoint, sigBytes, *ethAddressFromStore)\n	if false && err != nil {')
mut('M9a-signing-key-ignores-chain','x/valset/keeper/keeper.go','		if acc.ChainReferenceID == chainReferenceID && acc.ChainType == chainType && acc.Address == signedByAddress {','		if acc.ChainType == chainType && acc.Address == signedByAddress {')
mut('M9b-eth-address-ignores-chain','x/evm/keeper/keeper.go','	for _, chainInfo := range chainInfos {\n		if chainInfo.GetChainReferenceID() == chainReferenceId {\n			ethAddress = &skywaymoduletypes.EthAddress{}','	for _, chainInfo := range chainInfos {\n		if chainInfo.GetChainReferenceID() == chainReferenceId || len(chainInfos) > 1 {\n			ethAddress = &skywaymoduletypes.EthAddress{}')
mut('M10-delete-confirms-skips-first','x/skyway/keeper/keeper_batch.go','	for _, confirm := range batchConfirms {\n		orchestrator, err','	for i, confirm := range batchConfirms {\n		if i == 0 && len(batchConfirms) > 2 {\n			continue\n		}\n		orchestrator, err')
mut('M12-confirm-accepts-any-signer','x/skyway/keeper/msg_server.go','	if *ethAddressFromStore != *submittedEthAddress {','	if false && *ethAddressFromStore != *submittedEthAddress {')
mut('M12-confirm-accepts-any-signer','x/skyway/keeper/msg_server.go','	err = types.ValidateEthereumSignature(checkpoint, sigBytes, *ethAddressFromStore)','	err = types.ValidateEthereumSignature(checkpoint, sigBytes, *submittedEthAddress)')
mut('M13-election-clears-only-when-more-than-one-sig','x/consensus/types/consensus.go','	q.SignData = nil\n	q.GasEstimate = estimate','	if len(q.SignData) > 1 {\n		q.SignData = q.SignData[:1]\n	}\n	q.GasEstimate = estimate')
# --- candidate fixes (expect: the three findings disappear)
mut('FIX-all','x/consensus/keeper/consensus/consensus.go','	msg.Msg = anyMsg\n\n	return c.save(ctx, msg)','	msg.Msg = anyMsg\n	// the relayer address is covered by the signing bytes\n	msg.SignData = nil\n\n	return c.save(ctx, msg)')
mut('FIX-all','x/skyway/keeper/msg_server.go','	key, err := k.SetBatchConfirm(ctx, msg)','	existing, err := k.GetBatchConfirmByNonceAndTokenContract(ctx, msg.Nonce, *contract)\n	if err != nil {\n		return nil, err\n	}\n	for _, c := range existing {\n		if strings.EqualFold(c.EthSigner, msg.EthSigner) {\n			return nil, sdkerrors.Wrap(types.ErrDuplicate, "eth key already confirmed this batch")\n		}\n	}\n	key, err := k.SetBatchConfirm(ctx, msg)')
mut('FIX-all','x/valset/keeper/keeper.go','				if newChainInfo.GetAddress() == existingChainInfo.GetAddress() || bytes.Equal(newChainInfo.GetPubkey(), existingChainInfo.GetPubkey()) {','				if sameExternalKey(newChainInfo, existingChainInfo) {')
mut('FIX-all','x/valset/keeper/keeper.go','func (k Keeper) SetExternalChainInfoState(','// sameExternalKey compares two external accounts in the canonical form their consumers use\n// (20-byte EVM address: case-insensitive hex string, right-most 20 bytes of the key field).\nfunc sameExternalKey(a, b *types.ExternalChainInfo) bool {\n	if a.GetAddress() == b.GetAddress() || bytes.Equal(a.GetPubkey(), b.GetPubkey()) {\n		return true\n	}\n	if a.GetChainType() != "evm" {\n		return false\n	}\n	canon := func(i *types.ExternalChainInfo) [][]byte {\n		var out [][]byte\n		s := strings.TrimPrefix(strings.ToLower(i.GetAddress()), "0x")\n		if bz, err := hex.DecodeString(s); err == nil && len(bz) > 0 {\n			out = append(out, last20(bz))\n		}\n		if len(i.GetPubkey()) > 0 {\n			out = append(out, last20(i.GetPubkey()))\n		}\n		return out\n	}\n	for _, x := range canon(a) {\n		for _, y := range canon(b) {\n			if bytes.Equal(x, y) {\n				return true\n			}\n		}\n	}\n	return false\n}\n\nfunc last20(b []byte) []byte {\n	if len(b) > 20 {\n		b = b[len(b)-20:]\n	}\n	out := make([]byte, 20)\n	copy(out[20-len(b):], b)\n	return out\n}\n\nfunc (k Keeper) SetExternalChainInfoState(')

def sh(cmd,**kw):
    return subprocess.run(cmd,shell=True,env=env,capture_output=True,text=True,**kw)

def apply(name):
    files=set()
    for file,old,new,count in M[name]:
        p=os.path.join(W,file)
        s=open(p).read()
        if s.count(old)<1:
            print('  PATTERN NOT FOUND',file,repr(old[:60])); return None
        s=s.replace(old,new,count)
        open(p,'w').write(s)
        files.add(file)
    return files

names=sys.argv[1:] or list(M)
for name in names:
    print('==',name,flush=True)
    sh('git -C %s checkout -- .'%W)
    files=apply(name)
    if files is None: continue
    if name=='FIX-all':
        # imports
        p=os.path.join(W,'x/valset/keeper/keeper.go'); s=open(p).read()
        for imp in ['"encoding/hex"','"strings"']:
            if imp not in s.split(')')[0]:
                s=s.replace('import (\n','import (\n\t%s\n'%imp,1)
        open(p,'w').write(s)
        p=os.path.join(W,'x/skyway/keeper/msg_server.go'); s=open(p).read()
        if '"strings"' not in s.split(')')[0]:
            s=s.replace('import (\n','import (\n\t"strings"\n',1)
        open(p,'w').write(s)
    pk=' '.join(sorted(set('./'+os.path.dirname(f)+'/...' for f in files)))
    r=sh('cd %s && go build ./x/... ./app/... 2>&1 | tail -5'%W)
    if r.stdout.strip():
        print('  BUILD FAILED:\n'+r.stdout); continue
    d=sh('git -C %s diff --stat | tail -1'%W).stdout.strip()
    print('  builds;',d,flush=True)
    r=sh('cd /verif && VERIF_REPO=%s tools/devcheck.sh C06 quick 2>&1'%W)
    open('/tmp/c06-mut/%s.out'%name,'w').write(r.stdout+r.stderr)
    sigs=sorted(set(re.findall(r'signature=(\S+)',r.stdout)))
    print('  exit',r.returncode,'signatures:',flush=True)
    for s_ in sigs: print('     ',s_)
sh('git -C %s checkout -- .'%W)
