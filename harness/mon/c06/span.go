package c06

// Spanning signature transactions: ONE MsgAddMessagesSignatures (or one transaction with several of
// them, or several transactions of one block) of a validator that carries signatures for messages in
// the queues of SEVERAL chains, while the validator has a DIFFERENT external account on every chain
// (registered with real MsgAddExternalChainInfoForValidator transactions). Every position of the list
// is tried with the account + key the validator registered for ANOTHER chain (signed over the real
// signing bytes of the message it is filed for), legitimate entries around it - in particular a
// legitimate use of that very account (for a message of the chain it belongs to) in front of it.
//
// Nothing is judged here: the invariant of oracle.go decides at the block boundary whether whatever got
// stored verifies under a key the validator had registered FOR THE CHAIN OF THAT QUEUE when it signed
// (cq/signature-by-key-not-registered-when-signed). The counters cq/span/* and batch/span/* only show
// that the situations occurred and what the chain answered.
//
// The same for skyway: one transaction with MsgConfirmBatch messages for batches of several chains, one
// of them made with the account of another chain.

import (
	"fmt"
	"strings"

	sdk "github.com/cosmos/cosmos-sdk/types"

	consensustypes "github.com/palomachain/paloma/v2/x/consensus/types"
	skywaytypes "github.com/palomachain/paloma/v2/x/skyway/types"

	"verif/harness/chain"
	"verif/harness/world"
)

// spanLayout: n entries alternating between two chains (entry i is for chain (start+i)%2, so the entry in
// front of a wrong one always belongs to the chain whose account the wrong one borrows); wrong = the
// positions filed with the other chain's account.
type spanLayout struct {
	n     int
	wrong []int
}

// every position of lists of 2..4 entries, none, several, all
var spanLayouts = []spanLayout{
	{2, []int{1}}, {2, []int{0}}, {3, []int{1}}, {3, []int{2}}, {2, nil}, {3, []int{0}}, {4, []int{3}}, {3, []int{1, 2}},
	{4, []int{2}}, {3, nil}, {4, []int{1}}, {2, []int{0, 1}}, {4, []int{0}}, {4, []int{1, 3}}, {4, nil}, {3, []int{0, 1, 2}},
}

var spanCarriers = []string{"one-msg", "one-msg", "one-msg", "msgs-in-one-tx", "txs-in-one-block"}

func (l spanLayout) mode() string {
	switch {
	case len(l.wrong) == 0:
		return "span/valid"
	case len(l.wrong) == l.n:
		return "span/wrong-chain-key/all"
	case len(l.wrong) > 1:
		return "span/wrong-chain-key/several"
	case l.wrong[0] == 0:
		return "span/wrong-chain-key/first"
	case l.wrong[0] == l.n-1:
		return "span/wrong-chain-key/last"
	}
	return "span/wrong-chain-key/middle"
}

func (l spanLayout) isWrong(i int) bool {
	for _, w := range l.wrong {
		if w == i {
			return true
		}
	}
	return false
}

type spanCand struct {
	q  string
	qm consensustypes.QueuedSignedMessageI
}

// spanCandidates: the messages of all consensus queues of ch that v has not signed yet (turnstone first).
func (h *hist) spanCandidates(v *chain.Account, ch string) []spanCand {
	var out []spanCand
	for _, qk := range queueKinds {
		q := world.QueueName(qk, ch)
		for _, qm := range h.msgs(q) {
			signed := false
			for _, sd := range qm.GetSignData() {
				if sd.ValAddress.Equals(v.ValAddr()) {
					signed = true
				}
			}
			if !signed {
				out = append(out, spanCand{q, qm})
			}
		}
	}
	return out
}

// perChainKeys: v has, for every chain, a plain registration (no alias) and the keys of any two chains differ.
func (h *hist) perChainKeys(v *chain.Account) bool {
	if len(h.chains) < 2 {
		return false
	}
	for _, ch := range h.chains {
		if h.alias[v.ValBech()][ch] != nil || h.infos[v.ValBech()][ch] == nil || h.keys[v.ValBech()][ch] == nil {
			return false
		}
		if oi, _ := h.otherChain(v, ch, h.keys); oi == nil {
			return false
		}
		if oi, _ := h.otherChain(v, ch, h.skyKeys); oi == nil {
			return false
		}
	}
	return true
}

// giveOwnKeyPerChain queues a re-registration that leaves v with different accounts on its chains
// (a fresh key for one of them). False if v cannot take part (alias registration in force).
func (h *hist) giveOwnKeyPerChain(v *chain.Account) bool {
	for _, ch := range h.chains {
		if h.alias[v.ValBech()][ch] != nil || h.infos[v.ValBech()][ch] == nil {
			return false
		}
	}
	ch := h.chains[h.r.Intn(len(h.chains))]
	h.keyGen++
	k := newKey(fmt.Sprintf("%s/%s/span/%d", v.Name, ch, h.keyGen))
	h.register(v, ch, plainInfo(ch, k), k, k, nil, "re-register/per-chain-key", false)
	return true
}

// spanSign: one spanning signature round of v in the given layout; the transactions are queued, the
// caller ends the block. Returns false if there was nothing to build.
func (h *hist) spanSign(v *chain.Account, l spanLayout, carrier string) bool {
	if !h.perChainKeys(v) {
		return false
	}
	start := h.r.Intn(len(h.chains))
	cands := map[string][]spanCand{}
	for _, ch := range h.chains {
		cs := h.spanCandidates(v, ch)
		h.r.Shuffle(len(cs), func(i, j int) { cs[i], cs[j] = cs[j], cs[i] })
		cands[ch] = cs
	}
	var sigs []*consensustypes.ConsensusMessageSignature
	var wrong []bool
	chainsUsed := map[string]bool{}
	for i := 0; i < l.n; i++ {
		ch := h.chains[(start+i)%len(h.chains)]
		if len(cands[ch]) == 0 {
			break
		}
		c := cands[ch][0]
		cands[ch] = cands[ch][1:]
		mode := "valid"
		if l.isWrong(i) {
			mode = "other-chains-key"
		}
		s := h.mkSig(v, c.q, c.qm, mode)
		if s == nil {
			break
		}
		sigs = append(sigs, s)
		wrong = append(wrong, l.isWrong(i))
		chainsUsed[ch] = true
	}
	if len(sigs) < l.n || len(chainsUsed) < 2 {
		h.rec.Count("cq/span/not_enough_unsigned_messages", 1)
		return false
	}
	mode := l.mode()
	// the situation a per-request shortcut keyed by the account alone would get wrong: the account was
	// used legitimately (message of its own chain) earlier in the same list
	behind := 0
	for k := range sigs {
		if !wrong[k] {
			continue
		}
		for j := 0; j < k; j++ {
			if !wrong[j] && sigs[j].SignedByAddress == sigs[k].SignedByAddress {
				behind++
				break
			}
		}
	}
	h.rec.Count("cq/span/rounds/"+carrier+"/"+strings.TrimPrefix(mode, "span/"), 1)
	h.rec.Count("cq/span/signatures_submitted", int64(len(sigs)))
	nWrong := 0
	for _, w := range wrong {
		if w {
			nWrong++
		}
	}
	h.rec.Count("cq/span/signatures_submitted_with_other_chains_account", int64(nWrong))
	outcome := func(r chain.TxResult, m string, hasWrong bool, behindLegit int) {
		switch {
		case r.OK() && hasWrong:
			h.rec.Count("cq/span/txs_with_other_chains_account_accepted", 1) // 0 on a tree that keeps the property
		case r.OK():
			h.rec.Count("cq/span/valid_txs_accepted", 1)
		case hasWrong:
			h.rec.Count("cq/span/txs_with_other_chains_account_rejected/"+reason(r.Log), 1)
		default:
			h.rec.Count("cq/span/valid_txs_rejected/"+reason(r.Log), 1)
		}
		// reached the key lookup: accepted, or refused because of the key
		if behindLegit > 0 && (r.OK() || reason(r.Log) == "signing-key-not-found") {
			h.rec.Count("cq/span/other_chains_account_behind_its_legitimate_use_decided", int64(behindLegit))
		}
	}
	switch carrier {
	case "txs-in-one-block":
		// one transaction per entry, all in the same block, in list order
		for k, s := range sigs {
			m := &consensustypes.MsgAddMessagesSignatures{Metadata: world.Meta(v), SignedMessages: []*consensustypes.ConsensusMessageSignature{s}}
			md, w := "span-block/valid", wrong[k]
			if w {
				md = "span-block/wrong-chain-key"
			}
			h.queueSignTx(v, []*consensustypes.MsgAddMessagesSignatures{m}, md, func(r chain.TxResult) { outcome(r, md, w, 0) })
		}
	case "msgs-in-one-tx":
		// one transaction, one MsgAddMessagesSignatures per entry
		var ms []*consensustypes.MsgAddMessagesSignatures
		for _, s := range sigs {
			ms = append(ms, &consensustypes.MsgAddMessagesSignatures{Metadata: world.Meta(v), SignedMessages: []*consensustypes.ConsensusMessageSignature{s}})
		}
		md := strings.Replace(mode, "span/", "span-tx/", 1)
		h.queueSignTx(v, ms, md, func(r chain.TxResult) { outcome(r, md, nWrong > 0, 0) })
	default:
		m := &consensustypes.MsgAddMessagesSignatures{Metadata: world.Meta(v), SignedMessages: sigs}
		h.queueSignTx(v, []*consensustypes.MsgAddMessagesSignatures{m}, mode, func(r chain.TxResult) { outcome(r, mode, nWrong > 0, behind) })
	}
	return true
}

// opSpanSign (walk): a spanning round of one or two validators; a validator that still has one account
// for all chains registers a second one first.
func (h *hist) opSpanSign() {
	if len(h.chains) < 2 {
		return
	}
	vs := h.perm()[:1+h.r.Intn(2)]
	need := false
	for _, v := range vs {
		if !h.perChainKeys(v) && h.giveOwnKeyPerChain(v) {
			need = true
		}
	}
	if need {
		h.block()
	}
	any := false
	for _, v := range vs {
		l := spanLayouts[h.r.Intn(len(spanLayouts))]
		if h.spanSign(v, l, spanCarriers[h.r.Intn(len(spanCarriers))]) {
			any = true
		}
	}
	if !any {
		// nothing unsigned on one of the chains: new messages for both, the next round finds them
		for _, ch := range h.chains {
			h.execJobOn(ch)
		}
	}
	h.block()
}

// spanConfirm: one transaction of v with confirms for one batch of each of two chains; wrong = index of the
// confirm made with the account v registered for the other chain (-1: none).
func (h *hist) spanConfirm(v *chain.Account, wrong int) bool {
	if !h.perChainKeys(v) {
		return false
	}
	per := map[string][]skywaytypes.InternalOutgoingTxBatch{}
	for _, b := range h.batchesNow() {
		per[b.ChainReferenceID] = append(per[b.ChainReferenceID], b)
	}
	start := h.r.Intn(len(h.chains))
	var msgs []sdk.Msg
	var cms []*skywaytypes.MsgConfirmBatch
	var bs []skywaytypes.InternalOutgoingTxBatch
	for i := 0; i < 2; i++ {
		ch := h.chains[(start+i)%len(h.chains)]
		if len(per[ch]) == 0 {
			return false
		}
		b := per[ch][h.r.Intn(len(per[ch]))]
		mode := "valid"
		if i == wrong {
			mode = "other-chains-key"
		}
		m, _, _ := h.mkConfirm(v, b, mode)
		if m == nil {
			return false
		}
		msgs = append(msgs, m)
		cms = append(cms, m)
		bs = append(bs, b)
	}
	mode := "span-tx/valid"
	if wrong >= 0 {
		mode = []string{"span-tx/wrong-chain-key/first", "span-tx/wrong-chain-key/last"}[wrong]
	}
	h.rec.Count("batch/confirm_attempts/"+mode, 1)
	h.queueMsgs(v, "confirm/"+mode, msgs, func(r chain.TxResult) {
		if r.OK() {
			h.rec.Count("batch/confirm_accepted/"+mode, 1)
			if wrong >= 0 {
				h.rec.Count("batch/span/txs_with_other_chains_account_accepted", 1)
			} else {
				h.rec.Count("batch/span/valid_txs_accepted", 1)
			}
			for i, m := range cms {
				h.mon.onConfirmed(v, bs[i].ChainReferenceID, m.TokenContract, m.Nonce, m.EthSigner, mode, h.c.Height+1)
			}
			return
		}
		rs := reason(r.Log)
		h.rec.Count("batch/confirm_rejected/"+mode+"/"+rs, 1)
		if wrong >= 0 {
			h.rec.Count("batch/span/txs_with_other_chains_account_rejected/"+rs, 1)
		}
		for _, m := range cms {
			h.mon.onConfirmRejected(m.TokenContract, m.Nonce, mode, rs)
		}
	})
	return true
}

// opSpanConfirm (walk)
func (h *hist) opSpanConfirm() {
	if len(h.chains) < 2 {
		return
	}
	any := false
	for _, v := range h.perm()[:1+h.r.Intn(2)] {
		if h.spanConfirm(v, h.r.Intn(3)-1) {
			any = true
		}
	}
	if any {
		h.block()
	}
}

// scriptSpan: every validator gets its own account per chain; then every layout of spanLayouts is handed in
// by some validator (one MsgAddMessagesSignatures each), around an estimate election; then the other
// carriers; then spanning confirm transactions once both chains have a batch.
func (h *hist) scriptSpan() {
	if len(h.chains) < 2 {
		return
	}
	feed := func() {
		for _, ch := range h.chains {
			h.execJobOn(ch)
			if h.r.Intn(2) == 0 {
				h.execJobOn(ch)
			}
		}
		h.block()
	}
	feed()
	for _, v := range h.vals {
		h.giveOwnKeyPerChain(v)
	}
	h.block()
	off := h.r.Intn(len(spanLayouts))
	next := 0
	round := func(carrier func() string) {
		for _, v := range h.perm() {
			if h.spanSign(v, spanLayouts[(off+next)%len(spanLayouts)], carrier()) {
				next++
			}
		}
		h.block()
	}
	one := func() string { return "one-msg" }
	round(one)
	feed()
	round(one)
	for _, ch := range h.chains {
		h.estimateOn(ch, true)
	}
	h.block()
	round(one)
	feed()
	round(one)
	round(func() string { return spanCarriers[3+h.r.Intn(2)] })
	// batches on both chains
	h.opSend()
	h.opSend()
	h.opSend()
	h.skipTo(50)
	for i, v := range h.perm() {
		h.spanConfirm(v, i%3-1)
	}
	h.block()
	for _, v := range h.perm() {
		h.spanConfirm(v, h.r.Intn(3)-1)
	}
	h.block()
}
