#!/usr/bin/env bash
# development helper: run ONE case of the C06 list in-process (replay mode) and print its log.
#   harness/mon/c06/onecase.sh <case-index> [tier] [seed]      (after tools/devcheck.sh C06 quick built the binary)
set -euo pipefail
idx="${1:?case index}"; tier="${2:-quick}"; seed="${3:-1}"
cd /verif
f=$(mktemp /tmp/c06-case-XXXX.json)
python3 - "$idx" "$tier" "$seed" > "$f" <<'PY'
import json,sys
idx,tier,seed=int(sys.argv[1]),sys.argv[2],int(sys.argv[3])
kinds=["cq","batch","alias","handover","mix","cq","cq","batch","mix","mix","feegap"]
n,steps=(88,80) if tier=="quick" else (176,160)
i=idx
if i<n:
    k=kinds[i%len(kinds)]
    p={"kind":k,"steps":steps+10*(i%4),"stakes":i//len(kinds),"chains":1+(i//3)%2}
    if k in("mix","alias"): p["chains"]=2
elif i<n+n//len(kinds):
    k="span"
    p={"kind":k,"steps":steps+10*(i%4),"stakes":i-n,"chains":2}
else:
    k="degen"
    j=i-n-n//len(kinds)
    p={"kind":k,"steps":steps//2+5*(i%4),"stakes":j,"chains":1+j%2}
case={"name":"%s-%03d"%(k,i),"seed":seed*1000003+i*7919,"params":p}
print(json.dumps({"property":"C06","tier":tier,"violation":{"signature":"-","message":"","case":case}}))
PY
C06_DEBUG=1 out/dev/C06/verifcheck replay --prop C06 --file "$f"
