package c06

// Degenerate registered keys. MsgAddExternalChainInfoForValidator does not look at the SHAPE of the
// public-key field: a validator can put an empty key, zeros, 1-3 bytes, 19 bytes, 21+ bytes, a 32-byte
// zero-padded form ... on file. The chain reads the account such a key names as
// common.BytesToAddress(key) (right-most 20 bytes, left-padded with zeros) - that is the only account whose
// signatures may be kept for that validator.
//
// Here validators re-register with such shapes (real transactions; the account ADDRESS stays the
// validator's own, so skyway and the relayer assignment are not disturbed) and then hand in signatures
// for queued messages they have not signed yet, made by
//   - an unrelated key,
//   - a look-alike: a key whose address ENDS (resp. STARTS) with the registered bytes - brute-forced for
//     one byte (~256 key generations), by construction for 2, 3 and 19 bytes,
//   - the key behind the validator's own account address,
//   - another validator's key, or another validator's stored signature (replay),
//   - the key the registered bytes really name (shapes that are well-formed in the chain's reading: 21 / 33
//     bytes ending in an address, 32 bytes zero-padded, an address that starts with 0x00).
//
// Nothing is judged here. The invariant of oracle.go decides at the block boundary, from go-ethereum's
// ecrecover over the item's CURRENT signing bytes and the monitor's own registration log, whether a
// signature that got stored verifies for an account the registration names
// (cq/signature-by-key-not-registered-when-signed, cq/stored-public-key-differs-from-signer,
// cq/invalid-signature-stored). The counters cq/degen/* show that the situations occurred and what the
// chain answered.

import (
	"bytes"
	"crypto/ecdsa"
	"fmt"

	consensustypes "github.com/palomachain/paloma/v2/x/consensus/types"
	valsettypes "github.com/palomachain/paloma/v2/x/valset/types"

	"verif/harness/chain"
	"verif/harness/world"
)

// degenShapes: the fixed list of key shapes; wellFormed = the bytes name (right-most 20 bytes) the
// account of a key the validator holds, so its own signatures are legitimate.
var degenShapes = []struct {
	name       string
	wellFormed bool
}{
	{"empty", false},
	{"short-1", false},
	{"long-21", true},
	{"zero-1", false},
	{"short-2", false},
	{"padded-32", true},
	{"short-19", false},
	{"zero-20", false},
	{"short-1-in-20", false},
	{"leading-zero-20", true},
	{"short-3", false},
	{"zero-32", false},
	{"long-33", true},
	{"short-3-in-32", false},
	{"leading-zero-in-21", true},
	{"zero-prefixed-21", true},
}

var degenModes = []string{"foreign-key", "look-alike-key", "own-account-key", "other-validators-key", "replay", "look-alike-prefix-key", "named-key"}

type degenReg struct {
	shape      string
	wellFormed bool
	pub        []byte
	named      *ecdsa.PrivateKey // the key the registered bytes name in the chain's own reading (nil: nobody holds one)
	look       *ecdsa.PrivateKey // foreign key whose address ends in the significant registered bytes
	lookPrefix *ecdsa.PrivateKey // foreign key whose address starts with them
}

// bruteKey: the first key of the deterministic sequence tag/0, tag/1, ... whose address satisfies ok.
func bruteKey(tag string, ok func(a []byte) bool) *ecdsa.PrivateKey {
	for i := 0; i < 1<<14; i++ {
		k := newKey(fmt.Sprintf("%s/%d", tag, i))
		if ok(addrOf(k).Bytes()) {
			return k
		}
	}
	return nil
}

func (h *hist) degenBuild(shape string, wellFormed bool, tag string) *degenReg {
	d := &degenReg{shape: shape, wellFormed: wellFormed}
	// the foreign key the 2 / 3 / 19 byte shapes take their bytes from (first address byte not zero)
	f := bruteKey("degen/F/"+tag, func(a []byte) bool { return a[0] != 0 && a[19] != 0 && a[18] != 0 && a[17] != 0 })
	fa := addrOf(f).Bytes()
	nonZero := func() byte { return byte(1 + h.r.Intn(255)) }
	zeros := func(n int, tail ...byte) []byte { return append(make([]byte, n), tail...) }
	switch shape {
	case "empty":
		d.pub = nil
	case "zero-1":
		d.pub = zeros(1)
	case "zero-20":
		d.pub = zeros(20)
	case "zero-32":
		d.pub = zeros(32)
	case "short-1", "short-1-in-20":
		b := nonZero()
		d.pub = []byte{b}
		if shape == "short-1-in-20" {
			d.pub = zeros(19, b)
		}
		d.look = bruteKey("degen/suffix/"+tag, func(a []byte) bool { return a[19] == b && a[0] != b })
		d.lookPrefix = bruteKey("degen/prefix/"+tag, func(a []byte) bool { return a[0] == b && a[19] != b })
	case "short-2":
		d.pub, d.look = append([]byte{}, fa[18:]...), f
	case "short-3":
		d.pub, d.look = append([]byte{}, fa[17:]...), f
	case "short-3-in-32":
		d.pub, d.look = zeros(29, fa[17:]...), f
	case "short-19":
		d.pub, d.look = append([]byte{}, fa[1:]...), f
	case "long-21", "long-33", "padded-32", "zero-prefixed-21":
		d.named = newKey("degen/K/" + tag)
		ka := addrOf(d.named).Bytes()
		switch shape {
		case "long-21":
			d.pub = append([]byte{nonZero()}, ka...)
		case "long-33":
			d.pub = append(append([]byte{nonZero()}, randBytes(h.r, 12)...), ka...)
		case "padded-32":
			d.pub = zeros(12, ka...)
		default:
			d.pub = zeros(1, ka...)
		}
	case "leading-zero-20", "leading-zero-in-21":
		d.named = bruteKey("degen/K0/"+tag, func(a []byte) bool { return a[0] == 0 && a[1] != 0 })
		if d.named == nil {
			return nil
		}
		d.pub = addrOf(d.named).Bytes()
		if shape == "leading-zero-in-21" {
			d.pub = append([]byte{nonZero()}, d.pub...)
		}
	default:
		return nil
	}
	return d
}

func degenKey(v *chain.Account, ch string) string { return v.ValBech() + "|" + ch }

// degenOf: the degenerate registration of v for ch if it is (still) the one in force.
func (h *hist) degenOf(v *chain.Account, ch string) *degenReg {
	d := h.degen[degenKey(v, ch)]
	own := h.infos[v.ValBech()][ch]
	if d == nil || own == nil || !bytes.Equal(own.Pubkey, d.pub) || h.keys[v.ValBech()][ch] != d.named {
		return nil
	}
	return d
}

// degenRegister queues the re-registration of v for ch with the public-key field in the given shape
// (account address unchanged). False if v cannot take part.
func (h *hist) degenRegister(v *chain.Account, ch string, shapeIdx int) bool {
	own := h.infos[v.ValBech()][ch]
	if own == nil || h.alias[v.ValBech()][ch] != nil {
		return false
	}
	s := degenShapes[shapeIdx%len(degenShapes)]
	h.keyGen++
	d := h.degenBuild(s.name, s.wellFormed, fmt.Sprintf("%s/%s/%d", v.Name, ch, h.keyGen))
	if d == nil {
		return false
	}
	if h.degen == nil {
		h.degen = map[string]*degenReg{}
	}
	info := &valsettypes.ExternalChainInfo{ChainType: "evm", ChainReferenceID: ch, Address: own.Address, Pubkey: d.pub}
	key := degenKey(v, ch)
	infos := h.allInfos(v, map[string]*valsettypes.ExternalChainInfo{ch: info})
	sky := h.skyKeys[v.ValBech()][ch]
	what := "degen/" + s.name
	h.rec.Count("cq/degen/registrations_sent/"+s.name, 1)
	msg := &valsettypes.MsgAddExternalChainInfoForValidator{Metadata: world.Meta(v), ChainInfos: infos}
	h.queue(v, what, msg, func(r chain.TxResult) {
		if !r.OK() {
			h.rec.Count("reg/rejected/"+what+"/"+reason(r.Log), 1)
			return
		}
		h.rec.Count("reg/accepted/"+what, 1)
		h.rec.Count("cq/degen/registrations_accepted", 1)
		h.infos[v.ValBech()][ch] = info
		h.keys[v.ValBech()][ch] = d.named
		h.skyKeys[v.ValBech()][ch] = sky
		h.alias[v.ValBech()][ch] = nil
		h.degen[key] = d
		h.mon.onRegistered(v, infos)
		h.note("%s registered on %s: address=%s pubkey=%x (%s)", v.Name, ch, info.Address, info.Pubkey, what)
	})
	return true
}

// degenRestore: v goes back to an ordinary key (fresh) on ch.
func (h *hist) degenRestore(v *chain.Account, ch string) {
	h.keyGen++
	k := newKey(fmt.Sprintf("%s/%s/%d", v.Name, ch, h.keyGen))
	h.register(v, ch, plainInfo(ch, k), k, k, nil, "re-register/after-degen", false)
}

// degenSubmit queues ONE signature transaction of v (1-2 messages of ch it has not signed yet) whose
// signatures are made as mode says, filed under v's own account. False if the mode does not apply.
func (h *hist) degenSubmit(v *chain.Account, ch string, mode string) bool {
	d := h.degenOf(v, ch)
	own := h.infos[v.ValBech()][ch]
	if d == nil || own == nil {
		return false
	}
	var signer *ecdsa.PrivateKey
	switch mode {
	case "foreign-key":
		signer = newKey(fmt.Sprintf("degen/stranger/%d", h.r.Int63()))
	case "look-alike-key":
		signer = d.look
	case "look-alike-prefix-key":
		signer = d.lookPrefix
	case "own-account-key":
		signer = h.skyKeys[v.ValBech()][ch]
		if signer != nil && d.named != nil && addrOf(signer) == addrOf(d.named) {
			signer = nil
		}
	case "other-validators-key":
		for _, w := range h.perm() {
			wk := h.keys[w.ValBech()][ch]
			if w != v && wk != nil && h.degenOf(w, ch) == nil && (d.named == nil || addrOf(wk) != addrOf(d.named)) {
				signer = wk
				break
			}
		}
	case "named-key":
		signer = d.named
	case "replay":
	default:
		return false
	}
	if signer == nil && mode != "replay" {
		return false
	}
	cands := h.spanCandidates(v, ch)
	h.r.Shuffle(len(cands), func(i, j int) { cands[i], cands[j] = cands[j], cands[i] })
	m := &consensustypes.MsgAddMessagesSignatures{Metadata: world.Meta(v)}
	want := 1 + h.r.Intn(2)
	for _, c := range cands {
		if len(m.SignedMessages) >= want {
			break
		}
		var sig []byte
		if mode == "replay" {
			for _, sd := range c.qm.GetSignData() {
				if !sd.ValAddress.Equals(v.ValAddr()) {
					sig = append([]byte{}, sd.Signature...)
					break
				}
			}
		} else if bz, err := c.qm.GetBytesToSign(h.c.App.AppCodec()); err == nil {
			sig = world.EthSign(signer, bz)
		}
		if sig == nil {
			continue
		}
		m.SignedMessages = append(m.SignedMessages, &consensustypes.ConsensusMessageSignature{Id: c.qm.GetId(), QueueTypeName: c.q, Signature: sig, SignedByAddress: own.Address})
	}
	if len(m.SignedMessages) == 0 {
		h.rec.Count("cq/degen/nothing_to_sign/"+mode, 1)
		return false
	}
	shape, wellFormed, n := d.shape, d.wellFormed, int64(len(m.SignedMessages))
	h.rec.Count("cq/degen/submitted/"+shape+"/"+mode, 1)
	h.queueSignTx(v, []*consensustypes.MsgAddMessagesSignatures{m}, "degen/"+mode, func(r chain.TxResult) {
		rs := ""
		if r.OK() {
			h.rec.Count("cq/degen/accepted/"+shape+"/"+mode, 1)
		} else {
			rs = reason(r.Log)
			h.rec.Count("cq/degen/rejected/"+shape+"/"+mode+"/"+rs, 1)
		}
		// reached the signature verification: stored, or refused by it
		decided := r.OK() || rs == "invalid-signature"
		switch {
		case mode == "named-key":
			if r.OK() {
				h.rec.Count("cq/degen/named_key_signatures_accepted", n)
			}
		case !decided:
		case wellFormed:
			h.rec.Count("cq/degen/foreign_signatures_decided_under_well_formed_long_key", n)
		default:
			h.rec.Count("cq/degen/foreign_signatures_decided", n)
			h.rec.Count("cq/degen/foreign_signatures_decided/"+mode, n)
			if r.OK() {
				h.rec.Count("cq/degen/foreign_signatures_accepted", n) // 0 on a tree that keeps the property
			}
		}
	})
	return true
}

// degenRound: the validators vs (with a degenerate registration in force on their chain) hand in one
// transaction per mode, one mode per block; honest validators sign alongside.
func (h *hist) degenRound(vs []*chain.Account, chs []string, modes []string) {
	for _, mode := range modes {
		any := false
		for i, v := range vs {
			if h.degenSubmit(v, chs[i], mode) {
				any = true
			}
		}
		if !any {
			continue
		}
		if h.r.Intn(2) == 0 {
			ch := h.chains[h.r.Intn(len(h.chains))]
			q := h.turnstone(ch)
			h.signOn(q, h.msgs(q), true, 1)
		}
		h.block()
	}
}

// opDegen (walk): a validator with a degenerate registration in force tries again, or a validator takes a
// degenerate shape, tries some modes and (half of the time) goes back to an ordinary key.
func (h *hist) opDegen() {
	v := h.vals[h.r.Intn(len(h.vals))]
	ch := h.chains[h.r.Intn(len(h.chains))]
	fresh := false
	if h.degenOf(v, ch) == nil || h.r.Intn(2) == 0 {
		if !h.degenRegister(v, ch, h.r.Intn(len(degenShapes))) {
			return
		}
		h.block()
		fresh = true
	}
	if h.degenOf(v, ch) == nil {
		return
	}
	if len(h.spanCandidates(v, ch)) == 0 {
		h.execJobOn(ch)
		h.block()
	}
	var modes []string
	for _, i := range h.r.Perm(len(degenModes))[:3] {
		modes = append(modes, degenModes[i])
	}
	h.degenRound([]*chain.Account{v}, []string{ch}, modes)
	if fresh && h.r.Intn(2) == 0 || !fresh && h.r.Intn(4) == 0 {
		h.degenRestore(v, ch)
		h.block()
	}
}

// scriptDegen: every shape of degenShapes is taken by some validator (2-3 at a time, the others keep
// ordinary keys and sign), every mode is tried under it, before and after an estimate election; half of the
// validators go back to an ordinary key afterwards, the others keep the shape into the next rounds / the walk.
func (h *hist) scriptDegen() {
	feed := func() {
		for _, ch := range h.chains {
			h.execJobOn(ch)
			if h.r.Intn(2) == 0 {
				h.execJobOn(ch)
			}
		}
		h.block()
	}
	feed()
	for _, ch := range h.chains {
		q := h.turnstone(ch)
		h.signOn(q, h.msgs(q), true, 2)
	}
	h.block()
	off := h.r.Intn(len(degenShapes))
	per := len(h.vals) / 2
	turn := 0
	for next := 0; next < len(degenShapes) && !h.failed; turn++ {
		// the validators of this round: rotating through the set so that the same ones are not always honest
		var vs []*chain.Account
		var chs []string
		for i := 0; i < per && next < len(degenShapes); i++ {
			v := h.vals[(turn*per+i+turn/2)%len(h.vals)]
			dup := false
			for _, x := range vs {
				if x == v {
					dup = true
				}
			}
			ch := h.chains[(turn+i)%len(h.chains)]
			if dup || !h.degenRegister(v, ch, off+next) {
				continue
			}
			next++
			vs = append(vs, v)
			chs = append(chs, ch)
		}
		if len(vs) == 0 {
			next++
			continue
		}
		h.block()
		h.degenRound(vs, chs, degenModes)
		if turn%2 == 0 {
			for _, ch := range h.chains {
				h.estimateOn(ch, true)
			}
			h.block()
			h.degenRound(vs, chs, []string{"foreign-key", "look-alike-key", "replay"})
		}
		feed()
		for i, v := range vs {
			if h.r.Intn(2) == 0 {
				h.degenRestore(v, chs[i])
			}
		}
		h.block()
	}
}
