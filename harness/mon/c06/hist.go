package c06

// History driver: a running chain (world.NewBridgeWorld: real app.App, pigeons registered, EVM
// chains active, bridged tokens) on which validators and users act through REAL transactions.
// Every transaction is queued with a callback that feeds the monitor's log from the tx RESULT
// (accepted / rejected), in block order; after every block the monitor's invariant is evaluated.

import (
	"crypto/ecdsa"
	"crypto/sha256"
	"encoding/hex"
	"encoding/json"
	"fmt"
	"math/rand"
	"os"
	"sort"
	"strings"
	"time"

	sdk "github.com/cosmos/cosmos-sdk/types"
	"github.com/ethereum/go-ethereum/common"
	ethcrypto "github.com/ethereum/go-ethereum/crypto"

	consensustypes "github.com/palomachain/paloma/v2/x/consensus/types"
	evmtypes "github.com/palomachain/paloma/v2/x/evm/types"
	schedulertypes "github.com/palomachain/paloma/v2/x/scheduler/types"
	skywaytypes "github.com/palomachain/paloma/v2/x/skyway/types"
	valsettypes "github.com/palomachain/paloma/v2/x/valset/types"

	"verif/harness/chain"
	"verif/harness/fw"
	"verif/harness/world"
)

type pendTx struct {
	signer *chain.Account
	what   string
	done   func(chain.TxResult)
}

type alias struct {
	victim *chain.Account
	form   string
}

type hist struct {
	w      *world.BridgeWorld
	c      *chain.Chain
	r      *rand.Rand
	rec    *fw.Recorder
	mon    *monitor
	vals   []*chain.Account
	users  []*chain.Account
	chains []string
	// the harness' own view of what each validator has registered / which private key it holds
	infos   map[string]map[string]*valsettypes.ExternalChainInfo // valoper -> chain -> info in force
	keys    map[string]map[string]*ecdsa.PrivateKey              // valoper -> chain -> private key behind the registered PUBLIC KEY (consensus queues)
	skyKeys map[string]map[string]*ecdsa.PrivateKey              // valoper -> chain -> private key behind the registered ACCOUNT ADDRESS (skyway confirms)
	alias   map[string]map[string]*alias                         // valoper -> chain -> alias in force
	degen   map[string]*degenReg                                 // valoper|chain -> degenerate key shape registered last (degen.go)
	keyGen  int
	pend    []pendTx
	jobs    map[string]string
	failed  bool
	log     []string
	lastKA  int64
}

func (h *hist) note(f string, a ...any) {
	s := fmt.Sprintf("h=%d ", h.c.Height) + fmt.Sprintf(f, a...)
	fmt.Println(s)
	if len(h.log) < 400 {
		h.log = append(h.log, s)
	}
}

func newKey(tag string) *ecdsa.PrivateKey {
	hh := sha256.Sum256([]byte("c06/key/" + tag))
	k, err := ethcrypto.ToECDSA(hh[:])
	if err != nil {
		panic(err)
	}
	return k
}

func addrOf(k *ecdsa.PrivateKey) common.Address { return ethcrypto.PubkeyToAddress(k.PublicKey) }

func newHist(c fw.Case, p params, rec *fw.Recorder) (*hist, error) {
	r := c.Rand()
	stakes := stakeSets[p.Stakes%len(stakeSets)]
	chains := []string{"eth-main", "bnb-main"}[:p.Chains]
	w, err := world.NewBridgeWorld(world.BridgeOpts{Prefix: fmt.Sprintf("c06-%d", c.Seed), Stakes: stakes, NUsers: 2, Chains: chains,
		FactorySubs: []string{"tka"}, MapUgrain: true, CaptureLog: debug})
	if err != nil {
		if w != nil && w.C != nil {
			w.C.Close()
		}
		return nil, err
	}
	h := &hist{w: w, c: w.C, r: r, rec: rec, vals: w.Vals, users: w.Users, chains: chains,
		infos: map[string]map[string]*valsettypes.ExternalChainInfo{}, keys: map[string]map[string]*ecdsa.PrivateKey{}, skyKeys: map[string]map[string]*ecdsa.PrivateKey{},
		alias: map[string]map[string]*alias{}, jobs: map[string]string{}}
	h.mon = newMonitor(w.C, rec, chains, h.note)
	// what the bring-up registered (world.MsgRegister: address + 20-byte address as public key)
	for _, v := range h.vals {
		h.infos[v.ValBech()] = map[string]*valsettypes.ExternalChainInfo{}
		h.keys[v.ValBech()] = map[string]*ecdsa.PrivateKey{}
		h.skyKeys[v.ValBech()] = map[string]*ecdsa.PrivateKey{}
		h.alias[v.ValBech()] = map[string]*alias{}
		var all []*valsettypes.ExternalChainInfo
		for _, ch := range chains {
			i := world.ExtInfo(v, ch)
			h.infos[v.ValBech()][ch] = i
			h.keys[v.ValBech()][ch] = v.EthKey
			h.skyKeys[v.ValBech()][ch] = v.EthKey
			all = append(all, i)
		}
		h.mon.onRegistered(v, all)
	}
	h.lastKA = h.c.Height
	return h, nil
}

var stakeSets = [][]int64{
	{40e6, 30e6, 20e6, 10e6},
	{25e6, 25e6, 25e6, 25e6},
	{30e6, 25e6, 20e6, 15e6, 10e6},
	{50e6, 20e6, 15e6, 10e6, 5e6},
	{20e6, 20e6, 20e6, 15e6, 15e6, 10e6},
}

// ---------------------------------------------------------------------------------------------
// transactions and blocks

func (h *hist) queue(signer *chain.Account, what string, msg sdk.Msg, done func(chain.TxResult)) {
	h.queueMsgs(signer, what, []sdk.Msg{msg}, done)
}

// queueMsgs: ONE transaction of signer carrying msgs (atomic: all of them take effect or none).
func (h *hist) queueMsgs(signer *chain.Account, what string, msgs []sdk.Msg, done func(chain.TxResult)) {
	off := uint64(0)
	for _, p := range h.pend {
		if p.signer == signer {
			off++
		}
	}
	if len(msgs) == 1 {
		h.rec.Op(map[string]any{"op": "tx", "height": h.c.Height + 1, "signer": signer.Name, "what": what, "msg": msgs[0]})
	} else {
		h.rec.Op(map[string]any{"op": "tx", "height": h.c.Height + 1, "signer": signer.Name, "what": what, "msgs": msgs})
	}
	if err := h.c.QueueTx(signer, off, msgs...); err != nil {
		h.note("cannot build tx %s: %v", what, err)
		return
	}
	h.pend = append(h.pend, pendTx{signer: signer, what: what, done: done})
}

func (h *hist) block() bool { return h.blockAfter(2 * time.Second) }

func (h *hist) blockAfter(dt time.Duration) bool {
	if h.failed {
		return false
	}
	pend := h.pend
	h.pend = nil
	if h.c.Height-h.lastKA >= 400 && len(pend) == 0 {
		// keep-alives ride in otherwise empty blocks
		for _, v := range h.vals {
			h.queue(v, "keep-alive", world.MsgKeepAlive(v, world.PigeonVersion), nil)
		}
		pend = h.pend
		h.pend = nil
		h.lastKA = h.c.Height
	}
	br := h.c.NextBlockAfter(dt)
	if br.Panic != "" || br.Err != nil {
		h.failed = true
		h.rec.Count("block_failures", 1)
		h.rec.Inconclusive(fmt.Sprintf("FinalizeBlock failed at height %d: %v %.300s", h.c.Height+1, br.Err, br.Panic))
		return false
	}
	if len(br.Txs) != len(pend) {
		h.failed = true
		h.rec.Inconclusive(fmt.Sprintf("harness: %d tx results for %d queued txs", len(br.Txs), len(pend)))
		return false
	}
	for i, r := range br.Txs {
		if r.OK() {
			h.rec.Count("txs_ok", 1)
		} else {
			h.rec.Count("txs_failed", 1)
			if debug {
				fmt.Printf("h=%d   FAILED %s by %s: %s\n", h.c.Height, pend[i].what, pend[i].signer.Name, r.Log)
			}
		}
		if pend[i].done != nil {
			pend[i].done(r)
		}
	}
	h.mon.boundary()
	if debug && h.c.Log != nil {
		for _, l := range h.c.Log.Drain() {
			if l.Level != "INFO" {
				fmt.Printf("h=%d   LOG %.400s\n", h.c.Height, l.String())
			}
		}
	}
	return true
}

func (h *hist) skip(n int) bool {
	for i := 0; i < n; i++ {
		if !h.block() {
			return false
		}
	}
	return true
}

func (h *hist) skipTo(mod int64) bool {
	for {
		if !h.block() {
			return false
		}
		if h.c.Height%mod == 0 {
			return true
		}
	}
}

var debug = os.Getenv("C06_DEBUG") != ""

func reason(log string) string {
	l := strings.ToLower(log)
	for _, p := range [][2]string{
		{"already signed with the key", "key-already-signed"},
		{"already signed", "validator-already-signed"},
		{"invalid signature", "invalid-signature"},
		{"signature is invalid", "invalid-signature"},
		{"gas estimate already", "estimate-already-there"},
		{"already exists for validator", "estimate-already-there"},
		{"signing key", "signing-key-not-found"},
		{"duplicate signature", "duplicate-confirm"},
		{"signature verification failed", "signature-verification-failed"},
		{"does not match delegate", "eth-signer-mismatch"},
		{"couldn't find batch", "no-such-batch"},
		{"no eth address set", "no-eth-address"},
		{"already registered", "external-account-collision"},
		{"does not exist", "no-such-message"},
		{"message not found", "no-such-message"},
		{"jailed", "validator-jailed"},
		{"not found", "not-found"},
		{"unbonded", "validator-unbonded"},
	} {
		if strings.Contains(l, p[0]) {
			return p[1]
		}
	}
	if i := strings.Index(l, "message index: "); i >= 0 {
		l = l[i+len("message index: "):]
		if j := strings.Index(l, ": "); j >= 0 {
			l = l[j+2:]
		}
	}
	if len(l) > 40 {
		l = l[:40]
	}
	return "other:" + l
}

// ---------------------------------------------------------------------------------------------
// registrations

func (h *hist) allInfos(v *chain.Account, override map[string]*valsettypes.ExternalChainInfo) []*valsettypes.ExternalChainInfo {
	var out []*valsettypes.ExternalChainInfo
	for _, ch := range h.chains {
		if o, ok := override[ch]; ok {
			out = append(out, o)
		} else if i := h.infos[v.ValBech()][ch]; i != nil {
			out = append(out, i)
		}
	}
	return out
}

func plainInfo(ch string, k *ecdsa.PrivateKey) *valsettypes.ExternalChainInfo {
	a := addrOf(k)
	return &valsettypes.ExternalChainInfo{ChainType: "evm", ChainReferenceID: ch, Address: a.Hex(), Pubkey: a.Bytes()}
}

// register queues a registration of v with info for chain ch (all other chains re-stated as they
// are); on success the harness view, the private key and the monitor's log are updated.
func (h *hist) register(v *chain.Account, ch string, info *valsettypes.ExternalChainInfo, key, skyKey *ecdsa.PrivateKey, al *alias, what string, expectRefused bool) {
	infos := h.allInfos(v, map[string]*valsettypes.ExternalChainInfo{ch: info})
	msg := &valsettypes.MsgAddExternalChainInfoForValidator{Metadata: world.Meta(v), ChainInfos: infos}
	h.queue(v, what, msg, func(r chain.TxResult) {
		if r.OK() {
			h.rec.Count("reg/accepted/"+what, 1)
			h.infos[v.ValBech()][ch] = info
			h.keys[v.ValBech()][ch] = key
			h.skyKeys[v.ValBech()][ch] = skyKey
			h.alias[v.ValBech()][ch] = al
			h.mon.onRegistered(v, infos)
			h.note("%s registered on %s: address=%s pubkey=%x (%s)", v.Name, ch, info.Address, info.Pubkey, what)
			if expectRefused {
				h.rec.Count("reg/accepted_although_key_in_use/"+what, 1)
			}
		} else {
			h.rec.Count("reg/rejected/"+what+"/"+reason(r.Log), 1)
		}
	})
}

func (h *hist) opReRegister() {
	v := h.vals[h.r.Intn(len(h.vals))]
	ch := h.chains[h.r.Intn(len(h.chains))]
	h.keyGen++
	k := newKey(fmt.Sprintf("%s/%s/%d", v.Name, ch, h.keyGen))
	h.register(v, ch, plainInfo(ch, k), k, k, nil, "re-register", false)
	h.block()
}

// opSameKey: v tries to take over a key another validator has on file (must be refused).
func (h *hist) opSameKey() {
	v, w := h.twoVals()
	ch := h.chains[h.r.Intn(len(h.chains))]
	wi := h.infos[w.ValBech()][ch]
	own := h.infos[v.ValBech()][ch]
	if wi == nil || own == nil || h.alias[w.ValBech()][ch] != nil || h.alias[v.ValBech()][ch] != nil {
		return
	}
	wk, ws := h.keys[w.ValBech()][ch], h.skyKeys[w.ValBech()][ch]
	ok, os := h.keys[v.ValBech()][ch], h.skyKeys[v.ValBech()][ch]
	var info *valsettypes.ExternalChainInfo
	what := ""
	var ck, sk *ecdsa.PrivateKey
	switch h.r.Intn(3) {
	case 0:
		info = &valsettypes.ExternalChainInfo{ChainType: "evm", ChainReferenceID: ch, Address: wi.Address, Pubkey: append([]byte{}, wi.Pubkey...)}
		what, ck, sk = "same-key/identical", wk, ws
	case 1: // same public key under the own address
		info = &valsettypes.ExternalChainInfo{ChainType: "evm", ChainReferenceID: ch, Address: own.Address, Pubkey: append([]byte{}, wi.Pubkey...)}
		what, ck, sk = "same-key/pubkey-only", wk, os
	default: // same address, own public key
		info = &valsettypes.ExternalChainInfo{ChainType: "evm", ChainReferenceID: ch, Address: wi.Address, Pubkey: append([]byte{}, own.Pubkey...)}
		what, ck, sk = "same-key/address-only", ok, ws
	}
	h.register(v, ch, info, ck, sk, &alias{victim: w, form: what}, what, true)
	h.block()
}

// opAlias: v registers the key of w in a different ENCODING (lower-case address string, zero-padded
// public key). The collision check of the registration is meant to refuse a key that is in use.
func (h *hist) opAlias(form string) {
	v, w := h.twoVals()
	ch := h.chains[h.r.Intn(len(h.chains))]
	h.aliasOn(v, w, ch, form)
	h.block()
}

func (h *hist) aliasOn(v, w *chain.Account, ch, form string) {
	wk := h.keys[w.ValBech()][ch]
	if wk == nil || h.alias[w.ValBech()][ch] != nil || wk != h.skyKeys[w.ValBech()][ch] {
		return
	}
	wa := addrOf(wk)
	switch form {
	case "padded-pubkey":
		// same account address in lower case, same 20-byte key left-padded to 32 bytes
		info := &valsettypes.ExternalChainInfo{ChainType: "evm", ChainReferenceID: ch, Address: strings.ToLower(wa.Hex()), Pubkey: append(make([]byte, 12), wa.Bytes()...)}
		h.register(v, ch, info, wk, wk, &alias{victim: w, form: form}, "alias/"+form, true)
	default: // "address-case": same account address in lower case, an own public key
		form = "address-case"
		h.keyGen++
		ok := newKey(fmt.Sprintf("%s/%s/alias/%d", v.Name, ch, h.keyGen))
		info := &valsettypes.ExternalChainInfo{ChainType: "evm", ChainReferenceID: ch, Address: strings.ToLower(wa.Hex()), Pubkey: addrOf(ok).Bytes()}
		h.register(v, ch, info, ok, wk, &alias{victim: w, form: form}, "alias/"+form, true)
	}
}

// opHandover: X moves to a new key, Y registers the key X just released (in the same or the next block).
func (h *hist) opHandover() {
	x, y := h.twoVals()
	ch := h.chains[h.r.Intn(len(h.chains))]
	h.handoverOn(x, y, ch)
}

func (h *hist) handoverOn(x, y *chain.Account, ch string) {
	old := h.keys[x.ValBech()][ch]
	if old == nil || h.alias[x.ValBech()][ch] != nil || old != h.skyKeys[x.ValBech()][ch] {
		return
	}
	h.keyGen++
	nk := newKey(fmt.Sprintf("%s/%s/%d", x.Name, ch, h.keyGen))
	h.register(x, ch, plainInfo(ch, nk), nk, nk, nil, "handover/release", false)
	if h.r.Intn(2) == 0 {
		h.block()
	}
	h.register(y, ch, plainInfo(ch, old), old, old, nil, "handover/take", false)
	h.block()
}

func (h *hist) twoVals() (*chain.Account, *chain.Account) {
	i := h.r.Intn(len(h.vals))
	j := h.r.Intn(len(h.vals) - 1)
	if j >= i {
		j++
	}
	return h.vals[i], h.vals[j]
}

// ---------------------------------------------------------------------------------------------
// consensus queues

func (h *hist) msgs(q string) []consensustypes.QueuedSignedMessageI {
	ms, err := h.c.App.ConsensusKeeper.GetMessagesFromQueue(h.c.Ctx(), q, 0)
	if err != nil {
		return nil
	}
	return ms
}

func (h *hist) pickQueue() string {
	ch := h.chains[h.r.Intn(len(h.chains))]
	if h.r.Intn(8) == 0 {
		return world.QueueName(queueKinds[1+h.r.Intn(3)], ch)
	}
	return world.TurnstoneQueue(ch)
}

var signModes = []string{"valid", "valid", "valid", "valid", "garbage", "wrong-key", "other-validators-key", "replay-foreign", "duplicate", "stale", "short", "other-chains-key"}

func randBytes(r *rand.Rand, n int) []byte {
	b := make([]byte, n)
	r.Read(b)
	return b
}

// signature of validator v for message qm in the given mode; returns nil if the mode does not apply.
func (h *hist) mkSig(v *chain.Account, q string, qm consensustypes.QueuedSignedMessageI, mode string) *consensustypes.ConsensusMessageSignature {
	ch := chainOfQueue(q)
	bz, err := qm.GetBytesToSign(h.c.App.AppCodec())
	if err != nil {
		return nil
	}
	own := h.infos[v.ValBech()][ch]
	key := h.keys[v.ValBech()][ch]
	if own == nil || key == nil {
		return nil
	}
	s := &consensustypes.ConsensusMessageSignature{Id: qm.GetId(), QueueTypeName: q, SignedByAddress: own.Address}
	signed := false
	for _, sd := range qm.GetSignData() {
		if sd.ValAddress.Equals(v.ValAddr()) {
			signed = true
		}
	}
	if signed != (mode == "duplicate") {
		return nil // hostile attempts go to messages the validator has not signed yet, so that they reach the verification
	}
	switch mode {
	case "valid", "duplicate":
		s.Signature = world.EthSign(key, bz)
	case "garbage":
		s.Signature = randBytes(h.r, 65)
		s.Signature[64] = byte(h.r.Intn(2))
	case "short":
		s.Signature = world.EthSign(key, bz)[:64-h.r.Intn(3)]
	case "wrong-key":
		s.Signature = world.EthSign(newKey(fmt.Sprintf("stranger/%d", h.r.Int63())), bz)
	case "other-validators-key":
		_, w := h.twoVals()
		if w == v || h.keys[w.ValBech()][ch] == nil || addrOf(h.keys[w.ValBech()][ch]) == addrOf(key) {
			return nil
		}
		s.Signature = world.EthSign(h.keys[w.ValBech()][ch], bz)
	case "replay-foreign":
		// take somebody else's stored signature and hand it in as one's own, naming the real signer
		for _, sd := range qm.GetSignData() {
			if !sd.ValAddress.Equals(v.ValAddr()) {
				s.Signature = append([]byte{}, sd.Signature...)
				s.SignedByAddress = sd.ExternalAccountAddress
				if h.r.Intn(2) == 0 {
					s.SignedByAddress = own.Address
				}
				break
			}
		}
		if s.Signature == nil {
			return nil
		}
	case "other-chains-key":
		// the key (and account) the validator registered for ANOTHER chain
		oi, okey := h.otherChain(v, ch, h.keys)
		if oi == nil {
			return nil
		}
		s.Signature = world.EthSign(okey, bz)
		s.SignedByAddress = oi.Address
	case "stale":
		it := h.mon.items[fmt.Sprintf("%s|%d", q, qm.GetId())]
		if it == nil || len(it.Versions) < 2 {
			return nil
		}
		s.Signature = world.EthSign(key, it.Versions[h.r.Intn(len(it.Versions)-1)].Bytes)
	default:
		return nil
	}
	return s
}

// opSign: a round of signature transactions on one queue.
func (h *hist) opSign(forceValid bool) {
	q := h.pickQueue()
	ms := h.msgs(q)
	if len(ms) == 0 {
		q = world.TurnstoneQueue(h.chains[h.r.Intn(len(h.chains))])
		ms = h.msgs(q)
	}
	if len(ms) == 0 {
		return
	}
	h.signOn(q, ms, forceValid, 0)
	h.block()
}

func (h *hist) signOn(q string, ms []consensustypes.QueuedSignedMessageI, forceValid bool, minSigners int) {
	n := 0
	for _, v := range h.perm() {
		if n >= minSigners && h.r.Intn(3) == 0 {
			continue
		}
		n++
		mode := "valid"
		if !forceValid {
			mode = signModes[h.r.Intn(len(signModes))]
		}
		// 1..3 messages per transaction, all in the same mode (a tx is atomic)
		k := 1 + h.r.Intn(3)
		m := &consensustypes.MsgAddMessagesSignatures{Metadata: world.Meta(v)}
		for _, i := range h.r.Perm(len(ms)) {
			if len(m.SignedMessages) >= k {
				break
			}
			if s := h.mkSig(v, q, ms[i], mode); s != nil {
				m.SignedMessages = append(m.SignedMessages, s)
			}
		}
		if len(m.SignedMessages) == 0 {
			continue
		}
		h.queueSign(v, q, m, mode)
	}
}

func (h *hist) queueSign(v *chain.Account, q string, m *consensustypes.MsgAddMessagesSignatures, mode string) {
	h.queueSignTx(v, []*consensustypes.MsgAddMessagesSignatures{m}, mode, nil)
}

// queueSignTx: one transaction of v with the given signature messages. The monitor's log is fed per
// signature with the queue THAT signature names (a message may span queues of several chains).
func (h *hist) queueSignTx(v *chain.Account, ms []*consensustypes.MsgAddMessagesSignatures, mode string, after func(chain.TxResult)) {
	h.rec.Count("cq/sign_attempts/"+mode, 1)
	var msgs []sdk.Msg
	for _, m := range ms {
		msgs = append(msgs, m)
	}
	h.queueMsgs(v, "sign/"+mode, msgs, func(r chain.TxResult) {
		height := h.c.Height + 1
		if r.OK() {
			h.rec.Count("cq/sign_accepted/"+mode, 1)
			for _, m := range ms {
				for _, s := range m.SignedMessages {
					h.mon.onSigned(v, s.QueueTypeName, s.Id, s.SignedByAddress, mode, height)
				}
			}
		} else {
			rs := reason(r.Log)
			h.rec.Count("cq/sign_rejected/"+mode+"/"+rs, 1)
			for _, m := range ms {
				for _, s := range m.SignedMessages {
					h.mon.onSignRejected(s.QueueTypeName, s.Id, mode, rs)
				}
			}
		}
		if after != nil {
			after(r)
		}
	})
}

// opAliasSign: validators with an alias registration sign turnstone messages: (a) with the
// victim's private key (two validators sharing a key), (b) by replaying the victim's stored signature.
func (h *hist) opAliasSign() {
	for _, ch := range h.chains {
		q := world.TurnstoneQueue(ch)
		ms := h.msgs(q)
		for _, v := range h.vals {
			al := h.alias[v.ValBech()][ch]
			own := h.infos[v.ValBech()][ch]
			if al == nil || own == nil || len(ms) == 0 || al.form != "padded-pubkey" {
				continue
			}
			m := &consensustypes.MsgAddMessagesSignatures{Metadata: world.Meta(v)}
			mode := "alias-shared-key"
			for _, qm := range ms {
				bz, err := qm.GetBytesToSign(h.c.App.AppCodec())
				if err != nil {
					continue
				}
				var sig []byte
				for _, sd := range qm.GetSignData() {
					if sd.ValAddress.Equals(al.victim.ValAddr()) && h.r.Intn(2) == 0 {
						sig = append([]byte{}, sd.Signature...)
						mode = "alias-replay"
					}
				}
				if sig == nil {
					sig = world.EthSign(h.keys[v.ValBech()][ch], bz)
				}
				m.SignedMessages = append(m.SignedMessages, &consensustypes.ConsensusMessageSignature{Id: qm.GetId(), QueueTypeName: q, Signature: sig, SignedByAddress: own.Address})
				if len(m.SignedMessages) >= 2 {
					break
				}
			}
			if len(m.SignedMessages) > 0 {
				h.queueSign(v, q, m, mode)
			}
		}
	}
	h.block()
}

func (h *hist) perm() []*chain.Account {
	var out []*chain.Account
	for _, i := range h.r.Perm(len(h.vals)) {
		out = append(out, h.vals[i])
	}
	return out
}

var estimateValues = []uint64{21_000, 90_000, 150_000, 300_000, 300_000, 777_777, 2_500_000}

// opEstimate: gas estimates for the messages of a turnstone queue that still need one. With
// enough power behind them the consensus end-blocker elects the estimate in the same block,
// (for fee-paying messages) attaches fees and re-puts the message.
func (h *hist) opEstimate(quorum bool) {
	ch := h.chains[h.r.Intn(len(h.chains))]
	h.estimateOn(ch, quorum)
	h.block()
}

func (h *hist) estimateOn(ch string, quorum bool) {
	q := world.TurnstoneQueue(ch)
	var need []consensustypes.QueuedSignedMessageI
	for _, m := range h.msgs(q) {
		if m.GetRequireGasEstimation() && m.GetGasEstimate() == 0 {
			need = append(need, m)
		}
	}
	if len(need) == 0 {
		return
	}
	if len(need) > 3 {
		need = need[:3]
	}
	base := estimateValues[h.r.Intn(len(estimateValues))]
	spread := h.r.Intn(2) == 0
	nv := len(h.vals)
	if !quorum {
		nv = 1 + h.r.Intn(2)
	} else if h.r.Intn(3) == 0 {
		nv = len(h.vals) - 1
	}
	// the biggest validators first so that len-1 of them still hold > 2/3
	for _, v := range h.vals[:nv] {
		m := &consensustypes.MsgAddMessageGasEstimates{Metadata: world.Meta(v)}
		for _, qm := range need {
			already := false
			for _, ge := range qm.GetGasEstimates() {
				if ge.ValAddress.Equals(v.ValAddr()) {
					already = true
				}
			}
			if already {
				continue
			}
			val := base
			if spread {
				val = base + uint64(h.r.Intn(5000))
			}
			m.Estimates = append(m.Estimates, &consensustypes.MsgAddMessageGasEstimates_GasEstimate{MsgId: qm.GetId(), QueueTypeName: q, Value: val, EstimatedByAddress: h.infos[v.ValBech()][ch].GetAddress()})
		}
		if len(m.Estimates) == 0 {
			continue
		}
		h.queue(v, "estimate", m, func(r chain.TxResult) {
			if r.OK() {
				h.rec.Count("cq/estimate_txs_accepted", 1)
			} else {
				h.rec.Count("cq/estimate_txs_rejected/"+reason(r.Log), 1)
			}
		})
	}
}

func (h *hist) createJobs() {
	u := h.users[0]
	for _, ch := range h.chains {
		id := "job-" + strings.ReplaceAll(ch, "-", "")
		def, _ := json.Marshal(evmtypes.JobDefinition{Address: "0x5A0b54D5dc17e0AadC383d2db43B0a0D3E029c4c", ABI: "[]"})
		pl, _ := json.Marshal(evmtypes.JobPayload{HexPayload: "0xdeadbeef"})
		job := &schedulertypes.Job{ID: id, Routing: schedulertypes.Routing{ChainType: "evm", ChainReferenceID: ch}, Definition: def, Payload: pl, IsPayloadModifiable: true}
		ch := ch
		h.queue(u, "create-job", &schedulertypes.MsgCreateJob{Job: job, Metadata: world.Meta(u)}, func(r chain.TxResult) {
			if r.OK() {
				h.jobs[ch] = id
			} else {
				h.note("create job failed: %.200s", r.Log)
			}
		})
		h.block()
	}
}

// opExecJob: a user runs a scheduler job -> a SubmitLogicCall message (fees attached at election).
func (h *hist) opExecJob() {
	ch := h.chains[h.r.Intn(len(h.chains))]
	h.execJobOn(ch)
	h.block()
}

func (h *hist) execJobOn(ch string) {
	id, ok := h.jobs[ch]
	if !ok {
		return
	}
	u := h.users[h.r.Intn(len(h.users))]
	pl, _ := json.Marshal(evmtypes.JobPayload{HexPayload: "0x" + hex.EncodeToString(randBytes(h.r, 4+h.r.Intn(40)))})
	h.queue(u, "execute-job", &schedulertypes.MsgExecuteJob{JobID: id, Payload: pl, Metadata: world.Meta(u)}, func(r chain.TxResult) {
		if r.OK() {
			h.rec.Count("cq/jobs_executed", 1)
		} else {
			h.rec.Count("cq/job_exec_failed/"+reason(r.Log), 1)
		}
	})
}

// ---------------------------------------------------------------------------------------------
// skyway batches

func (h *hist) batchesNow() []skywaytypes.InternalOutgoingTxBatch {
	bs, _ := h.c.App.SkywayKeeper.GetOutgoingTxBatches(h.c.Ctx())
	sort.Slice(bs, func(i, j int) bool { return bs[i].BatchNonce < bs[j].BatchNonce })
	return bs
}

func (h *hist) opSend() {
	n := 1 + h.r.Intn(3)
	for i := 0; i < n; i++ {
		u := h.users[h.r.Intn(len(h.users))]
		tk := h.w.Tokens[h.r.Intn(len(h.w.Tokens))]
		dest := fmt.Sprintf("0x%040x", 0xD0000+h.r.Intn(5))
		h.queue(u, "send-to-remote", world.MsgSend(u, tk.ChainRef, dest, sdk.NewInt64Coin(tk.Denom, int64(1000+h.r.Intn(9000)))), func(r chain.TxResult) {
			if r.OK() {
				h.rec.Count("batch/sends_accepted", 1)
			} else {
				h.rec.Count("batch/sends_rejected/"+reason(r.Log), 1)
			}
		})
	}
	h.block()
}

func (h *hist) checkpointOf(b skywaytypes.InternalOutgoingTxBatch) []byte {
	ci, err := h.c.App.EvmKeeper.GetChainInfo(h.c.Ctx(), b.ChainReferenceID)
	if err != nil {
		return nil
	}
	cp, err := b.GetCheckpoint(string(ci.SmartContractUniqueID))
	if err != nil {
		return nil
	}
	return cp
}

var confirmModes = []string{"valid", "valid", "valid", "valid", "garbage", "wrong-key", "other-validators-key", "replay-foreign", "duplicate", "stale", "foreign-orchestrator", "by-user", "other-chains-key", "own-key-names-other-signer"}

func (h *hist) mkConfirm(v *chain.Account, b skywaytypes.InternalOutgoingTxBatch, mode string) (*skywaytypes.MsgConfirmBatch, *chain.Account, *chain.Account) {
	ch := b.ChainReferenceID
	cp := h.checkpointOf(b)
	own := h.infos[v.ValBech()][ch]
	key := h.skyKeys[v.ValBech()][ch]
	if cp == nil || own == nil || key == nil || !common.IsHexAddress(own.Address) {
		return nil, nil, nil
	}
	contract := b.TokenContract.GetAddress().Hex()
	m := &skywaytypes.MsgConfirmBatch{Nonce: b.BatchNonce, TokenContract: contract, EthSigner: common.HexToAddress(own.Address).Hex(), Orchestrator: v.Bech, Metadata: world.Meta(v)}
	sender, orch := v, v
	cfs, _ := h.c.App.SkywayKeeper.GetBatchConfirmByNonceAndTokenContract(h.c.Ctx(), b.BatchNonce, b.TokenContract)
	confirmed := false
	for _, cf := range cfs {
		if cf.Orchestrator == v.Bech {
			confirmed = true
		}
	}
	var sig []byte
	if confirmed != (mode == "duplicate") && mode != "foreign-orchestrator" {
		return nil, nil, nil
	}
	switch mode {
	case "valid", "duplicate":
		sig = world.EthSign(key, cp)
	case "garbage":
		sig = randBytes(h.r, 65)
		sig[64] = byte(h.r.Intn(2))
	case "wrong-key":
		sig = world.EthSign(newKey(fmt.Sprintf("stranger/%d", h.r.Int63())), cp)
	case "other-validators-key":
		_, w := h.twoVals()
		if w == v || h.skyKeys[w.ValBech()][ch] == nil || addrOf(h.skyKeys[w.ValBech()][ch]) == addrOf(key) {
			return nil, nil, nil
		}
		sig = world.EthSign(h.skyKeys[w.ValBech()][ch], cp)
	case "replay-foreign":
		for _, cf := range cfs {
			if cf.Orchestrator != v.Bech {
				sig, _ = hex.DecodeString(cf.Signature)
				if h.r.Intn(2) == 0 {
					m.EthSigner = cf.EthSigner
				}
				break
			}
		}
		if sig == nil {
			return nil, nil, nil
		}
	case "other-chains-key":
		oi, okey := h.otherChain(v, ch, h.skyKeys)
		if oi == nil || !common.IsHexAddress(oi.Address) {
			return nil, nil, nil
		}
		sig = world.EthSign(okey, cp)
		m.EthSigner = common.HexToAddress(oi.Address).Hex()
	case "own-key-names-other-signer":
		// the signature is by v's registered key over the exact checkpoint, but the confirmation DECLARES another
		// signer: another validator's registered address, or an address nobody has registered
		sig = world.EthSign(key, cp)
		_, w := h.twoVals()
		if oi := h.infos[w.ValBech()][ch]; w != v && oi != nil && common.IsHexAddress(oi.Address) && h.r.Intn(2) == 0 && common.HexToAddress(oi.Address) != common.HexToAddress(own.Address) {
			m.EthSigner = common.HexToAddress(oi.Address).Hex()
		} else {
			m.EthSigner = addrOf(newKey(fmt.Sprintf("declared/%d", h.r.Int63()))).Hex()
		}
	case "stale":
		it := h.mon.batches[fmt.Sprintf("%s|%d", strings.ToLower(contract), b.BatchNonce)]
		if it == nil || len(it.Versions) < 2 {
			return nil, nil, nil
		}
		sig = world.EthSign(key, it.Versions[h.r.Intn(len(it.Versions)-1)].Bytes)
	case "foreign-orchestrator":
		// v submits a (valid) confirm in the name of w, signed with v's own key
		_, w := h.twoVals()
		if w == v {
			return nil, nil, nil
		}
		m.Orchestrator = w.Bech
		orch = w
		sig = world.EthSign(key, cp)
	case "by-user":
		// anybody may carry a validator's confirm to the chain: a user account submits v's valid confirm
		sender = h.users[h.r.Intn(len(h.users))]
		m.Metadata = world.Meta(sender)
		sig = world.EthSign(key, cp)
	default:
		return nil, nil, nil
	}
	m.Signature = hex.EncodeToString(sig)
	return m, sender, orch
}

func (h *hist) opConfirm(forceValid bool) {
	bs := h.batchesNow()
	if len(bs) == 0 {
		return
	}
	h.confirmOn(bs, forceValid, 0)
	h.block()
}

func (h *hist) confirmOn(bs []skywaytypes.InternalOutgoingTxBatch, forceValid bool, minSigners int) {
	n := 0
	for _, v := range h.perm() {
		if n >= minSigners && h.r.Intn(3) == 0 {
			continue
		}
		n++
		b := bs[h.r.Intn(len(bs))]
		mode := "valid"
		if !forceValid {
			mode = confirmModes[h.r.Intn(len(confirmModes))]
		}
		m, sender, orch := h.mkConfirm(v, b, mode)
		if m == nil {
			continue
		}
		h.queueConfirm(sender, orch, b, m, mode)
	}
}

func (h *hist) queueConfirm(sender, orch *chain.Account, b skywaytypes.InternalOutgoingTxBatch, m *skywaytypes.MsgConfirmBatch, mode string) {
	h.rec.Count("batch/confirm_attempts/"+mode, 1)
	contract := b.TokenContract.GetAddress().Hex()
	h.queue(sender, "confirm/"+mode, m, func(r chain.TxResult) {
		if r.OK() {
			h.rec.Count("batch/confirm_accepted/"+mode, 1)
			h.mon.onConfirmed(orch, b.ChainReferenceID, contract, b.BatchNonce, m.EthSigner, mode, h.c.Height+1)
		} else {
			rs := reason(r.Log)
			h.rec.Count("batch/confirm_rejected/"+mode+"/"+rs, 1)
			h.mon.onConfirmRejected(contract, b.BatchNonce, mode, rs)
		}
	})
}

// opAliasConfirm: validators whose registered account address aliases another validator's
// confirm batches with the shared key or by replaying the victim's confirm.
func (h *hist) opAliasConfirm() {
	bs := h.batchesNow()
	for _, b := range bs {
		ch := b.ChainReferenceID
		cp := h.checkpointOf(b)
		if cp == nil {
			continue
		}
		cfs, _ := h.c.App.SkywayKeeper.GetBatchConfirmByNonceAndTokenContract(h.c.Ctx(), b.BatchNonce, b.TokenContract)
		for _, v := range h.vals {
			al := h.alias[v.ValBech()][ch]
			own := h.infos[v.ValBech()][ch]
			if al == nil || own == nil || !common.IsHexAddress(own.Address) {
				continue
			}
			mode := "alias-shared-key"
			sig := world.EthSign(h.skyKeys[v.ValBech()][ch], cp)
			for _, cf := range cfs {
				if cf.Orchestrator == al.victim.Bech && h.r.Intn(2) == 0 {
					sig, _ = hex.DecodeString(cf.Signature)
					mode = "alias-replay"
				}
			}
			m := &skywaytypes.MsgConfirmBatch{Nonce: b.BatchNonce, TokenContract: b.TokenContract.GetAddress().Hex(), EthSigner: common.HexToAddress(own.Address).Hex(),
				Orchestrator: v.Bech, Metadata: world.Meta(v), Signature: hex.EncodeToString(sig)}
			h.queueConfirm(v, v, b, m, mode)
		}
	}
	h.block()
}

// opBatchEstimate: gas estimates for batches without one; with enough power the skyway
// end-blocker elects the estimate in the same block, recomputes the checkpoint and must drop the confirms.
func (h *hist) opBatchEstimate(quorum bool) {
	var need []skywaytypes.InternalOutgoingTxBatch
	for _, b := range h.batchesNow() {
		if b.GasEstimate == 0 {
			need = append(need, b)
		}
	}
	if len(need) == 0 {
		return
	}
	if len(need) > 2 {
		need = need[:2]
	}
	nv := len(h.vals)
	if !quorum {
		nv = 1 + h.r.Intn(2)
	} else if h.r.Intn(3) == 0 {
		nv = len(h.vals) - 1
	}
	for _, b := range need {
		base := estimateValues[h.r.Intn(len(estimateValues))]
		for _, v := range h.vals[:nv] {
			own := h.infos[v.ValBech()][b.ChainReferenceID]
			if own == nil || !common.IsHexAddress(own.Address) {
				continue
			}
			m := &skywaytypes.MsgEstimateBatchGas{Metadata: world.Meta(v), Nonce: b.BatchNonce, TokenContract: b.TokenContract.GetAddress().Hex(),
				EthSigner: common.HexToAddress(own.Address).Hex(), Estimate: base + uint64(h.r.Intn(3))}
			h.queue(v, "batch-estimate", m, func(r chain.TxResult) {
				if r.OK() {
					h.rec.Count("batch/estimate_txs_accepted", 1)
				} else {
					h.rec.Count("batch/estimate_txs_rejected/"+reason(r.Log), 1)
				}
			})
		}
	}
	h.block()
}

// opBatchExecuted: all validators claim that a batch was executed on the remote chain.
func (h *hist) opBatchExecuted() {
	bs := h.batchesNow()
	if len(bs) == 0 {
		return
	}
	b := bs[h.r.Intn(len(bs))]
	ch := b.ChainReferenceID
	for _, v := range h.vals {
		last, err := h.c.App.SkywayKeeper.GetLastSkywayNonceByValidator(h.c.Ctx(), v.ValAddr(), ch)
		if err != nil {
			continue
		}
		m := world.MsgBatchClaim(v, ch, h.w.Compass[ch], last+1, uint64(1000+h.c.Height), b.BatchNonce, b.TokenContract.GetAddress().Hex())
		h.queue(v, "batch-claim", m, func(r chain.TxResult) {
			if r.OK() {
				h.rec.Count("batch/claims_accepted", 1)
			} else {
				h.rec.Count("batch/claims_rejected/"+reason(r.Log), 1)
			}
		})
	}
	h.block()
}

// opTimeJump: 11 minutes pass; batches (timeout 10 min) are cancelled with their confirms.
func (h *hist) opTimeJump() {
	h.rec.Count("ops/time_jump", 1)
	h.blockAfter(11 * time.Minute)
}

// signAll: one valid signature transaction of v for every message of q it has not signed yet (max 4).
func (h *hist) signAll(v *chain.Account, q string) *consensustypes.MsgAddMessagesSignatures {
	m := &consensustypes.MsgAddMessagesSignatures{Metadata: world.Meta(v)}
	for _, qm := range h.msgs(q) {
		if len(m.SignedMessages) >= 4 {
			break
		}
		if s := h.mkSig(v, q, qm, "valid"); s != nil {
			m.SignedMessages = append(m.SignedMessages, s)
		}
	}
	if len(m.SignedMessages) == 0 {
		return nil
	}
	return m
}

// otherChain: an account v has registered for a chain other than ch whose key differs from every
// key v has on file for ch.
func (h *hist) otherChain(v *chain.Account, ch string, keys map[string]map[string]*ecdsa.PrivateKey) (*valsettypes.ExternalChainInfo, *ecdsa.PrivateKey) {
	here := map[common.Address]bool{}
	if k := h.keys[v.ValBech()][ch]; k != nil {
		here[addrOf(k)] = true
	}
	if k := h.skyKeys[v.ValBech()][ch]; k != nil {
		here[addrOf(k)] = true
	}
	for _, o := range h.chains {
		if o == ch {
			continue
		}
		oi, ok := h.infos[v.ValBech()][o], keys[v.ValBech()][o]
		if oi == nil || ok == nil || here[addrOf(ok)] || h.alias[v.ValBech()][o] != nil {
			continue
		}
		return oi, ok
	}
	return nil, nil
}
