package c06

// The monitor proper: its own log of key registrations and accepted sign / confirm
// transactions, and the invariant evaluated at every block boundary over
//   (a) every message of every consensus queue of every chain (SignData), and
//   (b) every outgoing skyway batch (batch confirms).
//
// Independent of the code under test: signatures are checked with go-ethereum's ecrecover
// (world.EthRecover) and compared with the keys the MONITOR saw the validator register (from the
// registration transactions the harness itself sent and saw succeed), never with the keys the
// chain has on file. The only thing taken from the chain is the item itself: its current signing
// bytes (GetBytesToSign / GetCheckpoint over the item as stored now - what C05 is about) and the
// signatures stored with it.

import (
	"bytes"
	"encoding/hex"
	"fmt"
	"sort"
	"strings"

	"github.com/ethereum/go-ethereum/common"

	consensustypes "github.com/palomachain/paloma/v2/x/consensus/types"
	evmtypes "github.com/palomachain/paloma/v2/x/evm/types"
	skywaytypes "github.com/palomachain/paloma/v2/x/skyway/types"
	valsettypes "github.com/palomachain/paloma/v2/x/valset/types"

	"verif/harness/chain"
	"verif/harness/fw"
	"verif/harness/world"
)

var queueKinds = []string{"evm-turnstone-message", "validators-balances", "collect-fund-events", "reference-block"}

// regInfo is one external account a validator registered (raw, as sent).
type regInfo struct {
	Chain   string
	Address string
	Pubkey  []byte
}

// keysFor: every key (as a 20-byte Ethereum address) the registration puts on file for a chain:
// the account address and the address form of the public-key field.
func keysFor(infos []regInfo, chainRef string) map[common.Address]regInfo {
	out := map[common.Address]regInfo{}
	for _, i := range infos {
		if i.Chain != chainRef {
			continue
		}
		if common.IsHexAddress(i.Address) {
			out[common.HexToAddress(i.Address)] = i
		}
		if len(i.Pubkey) > 0 {
			out[common.BytesToAddress(i.Pubkey)] = i
		}
	}
	return out
}

// signEvent: an accepted signature transaction as the monitor saw it.
type signEvent struct {
	Height    int64
	Keys      map[common.Address]regInfo // what the validator had registered for the chain at that moment
	SignedBy  string
	Mode      string
	RegSerial int // serial number of the validator's registration in force
}

type version struct {
	Height int64
	Bytes  []byte
	Attrs  map[string]string
}

type itemTrack struct {
	Kind     string
	Versions []version
	LastSigs int
	Trace    []string
	Accepted int
	Spice    int // rejected attempts, byte changes, re-registrations of signers
	signers  map[string]bool
}

func (t *itemTrack) ev(s string) {
	if len(t.Trace) < 64 {
		t.Trace = append(t.Trace, s)
	}
}

type monitor struct {
	c      *chain.Chain
	rec    *fw.Recorder
	chains []string
	// registration log: validator (valoper bech32) -> infos in force + serial
	regs      map[string][]regInfo
	regSerial map[string]int
	signEv    map[string]*signEvent // queue|id|valoper
	confEv    map[string]*signEvent // contract|nonce|orchestrator-acc-bech32
	items     map[string]*itemTrack // queue|id
	batches   map[string]*itemTrack // contract|nonce
	valByAcc  map[string]string     // account bech32 -> valoper bech32
	note      func(string, ...any)
	traces    []string // a few non-trivial item histories for the evidence sample
}

func newMonitor(c *chain.Chain, rec *fw.Recorder, chains []string, note func(string, ...any)) *monitor {
	return &monitor{c: c, rec: rec, chains: chains, regs: map[string][]regInfo{}, regSerial: map[string]int{},
		signEv: map[string]*signEvent{}, confEv: map[string]*signEvent{}, items: map[string]*itemTrack{},
		batches: map[string]*itemTrack{}, valByAcc: map[string]string{}, note: note}
}

// ---------------------------------------------------------------------------------------------
// log feeding (called by the driver for every SUCCESSFUL transaction, in block order)

func (m *monitor) onRegistered(v *chain.Account, infos []*valsettypes.ExternalChainInfo) {
	var rs []regInfo
	for _, i := range infos {
		rs = append(rs, regInfo{Chain: i.ChainReferenceID, Address: i.Address, Pubkey: append([]byte{}, i.Pubkey...)})
	}
	m.regs[v.ValBech()] = rs
	m.regSerial[v.ValBech()]++
	m.valByAcc[v.Bech] = v.ValBech()
	// a re-registration of somebody who has signatures on live items makes those items interesting
	for k, it := range m.items {
		if it.signers[v.ValBech()] {
			it.Spice++
			it.ev("rereg")
			_ = k
		}
	}
	for _, it := range m.batches {
		if it.signers[v.ValBech()] {
			it.Spice++
			it.ev("rereg")
		}
	}
}

func chainOfQueue(q string) string {
	p := strings.Split(q, "/")
	if len(p) >= 2 {
		return p[1]
	}
	return ""
}

func (m *monitor) onSigned(v *chain.Account, queue string, id uint64, signedBy, mode string, height int64) {
	k := fmt.Sprintf("%s|%d|%s", queue, id, v.ValBech())
	m.signEv[k] = &signEvent{Height: height, Keys: keysFor(m.regs[v.ValBech()], chainOfQueue(queue)), SignedBy: signedBy, Mode: mode,
		RegSerial: m.regSerial[v.ValBech()]}
	it := m.item(m.items, fmt.Sprintf("%s|%d", queue, id))
	it.Accepted++
	it.signers[v.ValBech()] = true
	it.ev("sig+" + mode)
}

func (m *monitor) onSignRejected(queue string, id uint64, mode, reason string) {
	it := m.item(m.items, fmt.Sprintf("%s|%d", queue, id))
	it.Spice++
	it.ev("sig-" + mode + ":" + reason)
}

func (m *monitor) onConfirmed(orch *chain.Account, chainRef, contract string, nonce uint64, ethSigner, mode string, height int64) {
	k := fmt.Sprintf("%s|%d|%s", strings.ToLower(contract), nonce, orch.Bech)
	m.confEv[k] = &signEvent{Height: height, Keys: keysFor(m.regs[orch.ValBech()], chainRef), SignedBy: ethSigner, Mode: mode,
		RegSerial: m.regSerial[orch.ValBech()]}
	it := m.item(m.batches, fmt.Sprintf("%s|%d", strings.ToLower(contract), nonce))
	it.Accepted++
	it.signers[orch.ValBech()] = true
	it.ev("conf+" + mode)
}

func (m *monitor) onConfirmRejected(contract string, nonce uint64, mode, reason string) {
	it := m.item(m.batches, fmt.Sprintf("%s|%d", strings.ToLower(contract), nonce))
	it.Spice++
	it.ev("conf-" + mode + ":" + reason)
}

func (m *monitor) item(mm map[string]*itemTrack, k string) *itemTrack {
	it, ok := mm[k]
	if !ok {
		it = &itemTrack{signers: map[string]bool{}}
		mm[k] = it
	}
	return it
}

// ---------------------------------------------------------------------------------------------
// the invariant

type sigView struct {
	Validator string `json:"validator"`
	Recovered string `json:"recovered,omitempty"`
	PublicKey string `json:"public_key,omitempty"`
	ExtAddr   string `json:"external_address,omitempty"`
	Signature string `json:"signature"`
	SignedAt  int64  `json:"signed_at_height,omitempty"`
	Mode      string `json:"mode,omitempty"`
}

func attrsOfMsg(c *chain.Chain, qm consensustypes.QueuedSignedMessageI) (string, map[string]string) {
	a := map[string]string{"estimate": fmt.Sprint(qm.GetGasEstimate())}
	cm, err := qm.ConsensusMsg(c.App.AppCodec())
	if err != nil {
		return "undecodable", a
	}
	switch t := cm.(type) {
	case *evmtypes.Message:
		a["relayer"] = t.Assignee + "/" + strings.ToLower(t.AssigneeRemoteAddress)
		kind := "turnstone/other"
		switch act := t.Action.(type) {
		case *evmtypes.Message_UpdateValset:
			kind = "UpdateValset"
		case *evmtypes.Message_SubmitLogicCall:
			kind = "SubmitLogicCall"
			a["fees"] = fmt.Sprint(act.SubmitLogicCall.Fees)
		case *evmtypes.Message_UploadUserSmartContract:
			kind = "UploadUserSmartContract"
			a["fees"] = fmt.Sprint(act.UploadUserSmartContract.Fees)
		case *evmtypes.Message_UploadSmartContract:
			kind = "UploadSmartContract"
		case *evmtypes.Message_CompassHandover:
			kind = "CompassHandover"
		}
		return kind, a
	case *evmtypes.ValidatorBalancesAttestation:
		return "ValidatorBalancesAttestation", a
	case *evmtypes.ReferenceBlockAttestation:
		return "ReferenceBlockAttestation", a
	}
	return fmt.Sprintf("%T", cm), a
}

func diffCause(prev, now map[string]string) string {
	var cs []string
	for _, k := range []string{"estimate", "fees", "relayer", "compass-id"} {
		if prev[k] != now[k] {
			switch k {
			case "estimate":
				cs = append(cs, "gas-estimate")
			default:
				cs = append(cs, k)
			}
		}
	}
	if len(cs) == 0 {
		return "other"
	}
	return strings.Join(cs, "+")
}

// track registers the current version of an item; returns the cause if the signing bytes changed
// since the previous boundary.
func (m *monitor) track(it *itemTrack, kind string, bz []byte, attrs map[string]string, nSigs int, prefix string) {
	h := m.c.Height
	it.Kind = kind
	if len(it.Versions) == 0 {
		it.Versions = append(it.Versions, version{Height: h, Bytes: bz, Attrs: attrs})
		m.rec.Count(prefix+"/items_seen", 1)
		m.rec.Count(prefix+"/items_seen/"+kind, 1)
	} else if last := it.Versions[len(it.Versions)-1]; !bytes.Equal(last.Bytes, bz) {
		cause := diffCause(last.Attrs, attrs)
		it.Versions = append(it.Versions, version{Height: h, Bytes: bz, Attrs: attrs})
		it.Spice++
		it.ev(fmt.Sprintf("change(%s,had=%d,left=%d)", cause, it.LastSigs, nSigs))
		m.rec.Count(prefix+"/bytes_changed/"+cause, 1)
		if it.LastSigs > 0 {
			m.rec.Count(prefix+"/changes_with_signatures_to_discard", 1)
			m.rec.Count(prefix+"/changes_with_signatures_to_discard/"+cause, 1)
			m.rec.Count(prefix+"/signatures_to_discard", int64(it.LastSigs))
		}
	} else if diffCause(last.Attrs, attrs) != "other" {
		// an attribute changed but the bytes did not (e.g. elected estimate == default)
		m.rec.Count(prefix+"/attr_changed_bytes_same/"+diffCause(last.Attrs, attrs), 1)
		it.Versions[len(it.Versions)-1].Attrs = attrs
	}
	it.LastSigs = nSigs
}

// staleAgainst: does sig recover to one of keys over an EARLIER version of the item? Returns the
// cause of the change that followed that version.
func staleAgainst(it *itemTrack, sig []byte, keys map[common.Address]regInfo, anyKey bool) (string, int64, bool) {
	for i := len(it.Versions) - 2; i >= 0; i-- {
		if a, ok := world.EthRecover(it.Versions[i].Bytes, sig); ok {
			if _, reg := keys[a]; reg || anyKey {
				return diffCause(it.Versions[i].Attrs, it.Versions[i+1].Attrs), it.Versions[i].Height, true
			}
		}
	}
	return "", 0, false
}

func (m *monitor) boundary() {
	m.rec.Count("boundaries", 1)
	ctx := m.c.Ctx()
	liveItems := map[string]bool{}
	for _, ch := range m.chains {
		for _, qk := range queueKinds {
			q := world.QueueName(qk, ch)
			msgs, err := m.c.App.ConsensusKeeper.GetMessagesFromQueue(ctx, q, 0)
			if err != nil {
				m.rec.Count("queue_read_errors", 1)
				continue
			}
			for _, qm := range msgs {
				m.checkMessage(q, ch, qm)
				liveItems[fmt.Sprintf("%s|%d", q, qm.GetId())] = true
			}
		}
	}
	for k, it := range m.items {
		if !liveItems[k] {
			m.retire(it, "cq")
			delete(m.items, k)
		}
	}
	// batches
	liveBatches := map[string]bool{}
	bs, err := m.c.App.SkywayKeeper.GetOutgoingTxBatches(ctx)
	if err != nil {
		m.rec.Count("batch_read_errors", 1)
	}
	for _, b := range bs {
		m.checkBatch(b)
		liveBatches[fmt.Sprintf("%s|%d", strings.ToLower(b.TokenContract.GetAddress().Hex()), b.BatchNonce)] = true
	}
	for k, it := range m.batches {
		if !liveBatches[k] {
			m.retire(it, "batch")
			delete(m.batches, k)
		}
	}
	// confirms that belong to no batch: not "kept with a batch" - counted, not judged
	orphans := int64(0)
	m.c.App.SkywayKeeper.IterateBatchConfirms(ctx, func(_ []byte, cf skywaytypes.MsgConfirmBatch) bool {
		if !liveBatches[fmt.Sprintf("%s|%d", strings.ToLower(cf.TokenContract), cf.Nonce)] {
			orphans++
		}
		return false
	})
	if orphans > 0 {
		m.rec.Count("batch/orphan_confirms_seen", orphans)
	}
}

func (m *monitor) retire(it *itemTrack, prefix string) {
	m.rec.Count(prefix+"/items_retired", 1)
	if it.Accepted > 0 && it.Spice > 0 {
		if len(m.traces) < 6 && len(it.Versions) > 1 {
			m.traces = append(m.traces, prefix+":"+it.Kind+": "+strings.Join(it.Trace, " "))
		}
		m.rec.Distinct(prefix + ":" + it.Kind + ":" + strings.Join(it.Trace, ","))
		m.rec.Count(prefix+"/nontrivial_item_histories", 1)
	}
}

func (m *monitor) finish() {
	for _, it := range m.items {
		m.retire(it, "cq")
	}
	for _, it := range m.batches {
		m.retire(it, "batch")
	}
}

func (m *monitor) checkMessage(q, ch string, qm consensustypes.QueuedSignedMessageI) {
	kind, attrs := attrsOfMsg(m.c, qm)
	bz, err := qm.GetBytesToSign(m.c.App.AppCodec())
	if err != nil {
		m.rec.Count("cq/bytes_to_sign_errors", 1)
		return
	}
	key := fmt.Sprintf("%s|%d", q, qm.GetId())
	it := m.item(m.items, key)
	sigs := qm.GetSignData()
	m.track(it, kind, bz, attrs, len(sigs), "cq")
	if len(sigs) == 0 {
		return
	}
	m.rec.Count("cq/item_checks_with_signatures", 1)
	witness := func(extra map[string]any) map[string]any {
		w := map[string]any{"queue": q, "id": qm.GetId(), "kind": kind, "height": m.c.Height, "bytes_to_sign": hex.EncodeToString(bz),
			"attrs": attrs, "trace": it.Trace}
		var vs []map[string]any
		for _, v := range it.Versions {
			vs = append(vs, map[string]any{"height": v.Height, "bytes": hex.EncodeToString(v.Bytes), "attrs": v.Attrs})
		}
		w["versions"] = vs
		for k, v := range extra {
			w[k] = v
		}
		return w
	}
	seenVal := map[string]int{}
	seenKey := map[common.Address]int{}
	for i, s := range sigs {
		m.rec.Eval(1)
		m.rec.Count("cq/signatures_verified", 1)
		val := s.ValAddress.String()
		sv := sigView{Validator: val, PublicKey: hex.EncodeToString(s.PublicKey), ExtAddr: s.ExternalAccountAddress, Signature: hex.EncodeToString(s.Signature)}
		ev := m.signEv[fmt.Sprintf("%s|%s", key, val)]
		if ev != nil {
			sv.SignedAt, sv.Mode = ev.Height, ev.Mode
		}
		if j, dup := seenVal[val]; dup {
			m.rec.Violation("cq/validator-twice-on-message", fmt.Sprintf("validator %s has two signatures (#%d, #%d) on message %d of %s", val, j, i, qm.GetId(), q),
				witness(map[string]any{"sig": sv}))
		}
		seenVal[val] = i
		rec, ok := world.EthRecover(bz, s.Signature)
		if ok {
			sv.Recovered = rec.Hex()
		}
		var keys map[common.Address]regInfo
		if ev != nil {
			keys = ev.Keys
		}
		_, registered := keys[rec]
		switch {
		case ev == nil:
			m.rec.Violation("cq/signature-without-accepted-sign-tx", fmt.Sprintf("message %d of %s carries a signature of %s although no signature transaction of that validator for it was ever accepted", qm.GetId(), q, val),
				witness(map[string]any{"sig": sv}))
		case !ok || !registered:
			if cause, h, stale := staleAgainst(it, s.Signature, keys, false); stale {
				m.rec.Violation("cq/stale-signature-kept-after-"+cause+"-change",
					fmt.Sprintf("message %d (%s) of %s: signature of %s (accepted at height %d) was made over the signing bytes of height %d; the %s changed since and the signature was carried over instead of discarded",
						qm.GetId(), kind, q, val, ev.Height, h, cause), witness(map[string]any{"sig": sv}))
			} else if ok {
				m.rec.Violation("cq/signature-by-key-not-registered-when-signed",
					fmt.Sprintf("message %d of %s: signature of %s verifies for %s, which is none of the keys that validator had registered for %s when it signed (height %d)", qm.GetId(), q, val, rec.Hex(), ch, ev.Height),
					witness(map[string]any{"sig": sv, "registered_then": keyList(keys)}))
			} else {
				m.rec.Violation("cq/invalid-signature-stored", fmt.Sprintf("message %d of %s: stored signature of %s does not verify at all", qm.GetId(), q, val), witness(map[string]any{"sig": sv}))
			}
		default:
			// valid under a key registered at sign time; the key the chain filed must be that key
			if common.BytesToAddress(s.PublicKey) != rec {
				m.rec.Violation("cq/stored-public-key-differs-from-signer", fmt.Sprintf("message %d of %s: signature of %s verifies for %s but the stored key is %x", qm.GetId(), q, val, rec.Hex(), s.PublicKey),
					witness(map[string]any{"sig": sv}))
			}
			if j, dup := seenKey[rec]; dup {
				other := sigs[j]
				oev := m.signEv[fmt.Sprintf("%s|%s", key, other.ValAddress.String())]
				sub := "same-registered-form"
				if oev != nil && !sameRawReg(oev.Keys[rec], keys[rec]) {
					sub = "aliased-registration"
				}
				m.rec.Violation("cq/key-twice-on-message/"+sub, fmt.Sprintf("message %d of %s: external key %s appears twice (validators %s and %s)", qm.GetId(), q, rec.Hex(), other.ValAddress.String(), val),
					witness(map[string]any{"sig": sv, "other_validator": other.ValAddress.String(), "other_public_key": hex.EncodeToString(other.PublicKey),
						"registration_a": regView(oevKeys(oev)[rec]), "registration_b": regView(keys[rec])}))
			}
			seenKey[rec] = i
		}
	}
}

func oevKeys(e *signEvent) map[common.Address]regInfo {
	if e == nil {
		return nil
	}
	return e.Keys
}

func sameRawReg(a, b regInfo) bool {
	return a.Address == b.Address && bytes.Equal(a.Pubkey, b.Pubkey)
}

func regView(r regInfo) map[string]string {
	return map[string]string{"chain": r.Chain, "address": r.Address, "pubkey": hex.EncodeToString(r.Pubkey)}
}

func keyList(k map[common.Address]regInfo) []string {
	var out []string
	for a := range k {
		out = append(out, a.Hex())
	}
	sort.Strings(out)
	return out
}

func (m *monitor) checkBatch(b skywaytypes.InternalOutgoingTxBatch) {
	ctx := m.c.Ctx()
	ci, err := m.c.App.EvmKeeper.GetChainInfo(ctx, b.ChainReferenceID)
	if err != nil || ci == nil {
		m.rec.Count("batch/chain_info_errors", 1)
		return
	}
	cp, err := b.GetCheckpoint(string(ci.SmartContractUniqueID))
	if err != nil {
		m.rec.Count("batch/checkpoint_errors", 1)
		return
	}
	contract := b.TokenContract.GetAddress().Hex()
	key := fmt.Sprintf("%s|%d", strings.ToLower(contract), b.BatchNonce)
	attrs := map[string]string{"estimate": fmt.Sprint(b.GasEstimate), "relayer": b.Assignee + "/" + strings.ToLower(b.AssigneeRemoteAddress.Hex()),
		"compass-id": string(ci.SmartContractUniqueID)}
	confirms, err := m.c.App.SkywayKeeper.GetBatchConfirmByNonceAndTokenContract(ctx, b.BatchNonce, b.TokenContract)
	if err != nil {
		m.rec.Count("batch/confirm_read_errors", 1)
		return
	}
	it := m.item(m.batches, key)
	m.track(it, "batch", cp, attrs, len(confirms), "batch")
	if !bytes.Equal(cp, b.BytesToSign) {
		// what pigeons are handed (BytesToSign) differs from what a confirm is verified against
		m.rec.Count("batch/stored_bytes_to_sign_differs_from_checkpoint", 1)
	}
	if len(confirms) == 0 {
		return
	}
	m.rec.Count("batch/item_checks_with_confirms", 1)
	witness := func(extra map[string]any) map[string]any {
		w := map[string]any{"token_contract": contract, "batch_nonce": b.BatchNonce, "chain": b.ChainReferenceID, "height": m.c.Height,
			"checkpoint": hex.EncodeToString(cp), "attrs": attrs, "trace": it.Trace}
		var vs []map[string]any
		for _, v := range it.Versions {
			vs = append(vs, map[string]any{"height": v.Height, "bytes": hex.EncodeToString(v.Bytes), "attrs": v.Attrs})
		}
		w["versions"] = vs
		for k, v := range extra {
			w[k] = v
		}
		return w
	}
	seenVal := map[string]int{}
	seenKey := map[common.Address]int{}
	for i, cf := range confirms {
		m.rec.Eval(1)
		m.rec.Count("batch/confirms_verified", 1)
		sv := sigView{Validator: cf.Orchestrator, ExtAddr: cf.EthSigner, Signature: cf.Signature}
		ev := m.confEv[fmt.Sprintf("%s|%s", key, cf.Orchestrator)]
		if ev != nil {
			sv.SignedAt, sv.Mode = ev.Height, ev.Mode
		}
		if j, dup := seenVal[cf.Orchestrator]; dup {
			m.rec.Violation("batch/validator-twice-on-batch", fmt.Sprintf("validator %s has two confirms (#%d, #%d) on batch %d/%s", cf.Orchestrator, j, i, b.BatchNonce, contract),
				witness(map[string]any{"confirm": sv}))
		}
		seenVal[cf.Orchestrator] = i
		sig, derr := hex.DecodeString(cf.Signature)
		rec, ok := world.EthRecover(cp, sig)
		if derr != nil {
			ok = false
		}
		if ok {
			sv.Recovered = rec.Hex()
		}
		var keys map[common.Address]regInfo
		if ev != nil {
			keys = ev.Keys
		}
		_, registered := keys[rec]
		switch {
		case ev == nil:
			m.rec.Violation("batch/confirm-without-accepted-confirm-tx", fmt.Sprintf("batch %d/%s carries a confirm of %s although no confirm transaction of that validator for it was ever accepted", b.BatchNonce, contract, cf.Orchestrator),
				witness(map[string]any{"confirm": sv}))
		case !ok || !registered:
			if cause, h, stale := staleAgainst(it, sig, keys, false); stale {
				m.rec.Violation("batch/stale-confirm-kept-after-"+cause+"-change",
					fmt.Sprintf("batch %d/%s: confirm of %s (accepted at height %d) signs the checkpoint of height %d; the %s changed since and the confirm was carried over instead of discarded",
						b.BatchNonce, contract, cf.Orchestrator, ev.Height, h, cause), witness(map[string]any{"confirm": sv}))
			} else if ok {
				m.rec.Violation("batch/confirm-by-key-not-registered-when-signed",
					fmt.Sprintf("batch %d/%s: confirm of %s verifies for %s, which is none of the keys that validator had registered for %s when it confirmed (height %d)", b.BatchNonce, contract, cf.Orchestrator, rec.Hex(), b.ChainReferenceID, ev.Height),
					witness(map[string]any{"confirm": sv, "registered_then": keyList(keys)}))
			} else {
				m.rec.Violation("batch/invalid-confirm-stored", fmt.Sprintf("batch %d/%s: stored confirm of %s does not verify at all", b.BatchNonce, contract, cf.Orchestrator), witness(map[string]any{"confirm": sv}))
			}
		default:
			if !common.IsHexAddress(cf.EthSigner) || common.HexToAddress(cf.EthSigner) != rec {
				m.rec.Violation("batch/stored-eth-signer-differs-from-signer", fmt.Sprintf("batch %d/%s: confirm of %s verifies for %s but names signer %s", b.BatchNonce, contract, cf.Orchestrator, rec.Hex(), cf.EthSigner),
					witness(map[string]any{"confirm": sv}))
			}
			if j, dup := seenKey[rec]; dup {
				other := confirms[j]
				oev := m.confEv[fmt.Sprintf("%s|%s", key, other.Orchestrator)]
				sub := "same-registered-form"
				if oev != nil && !sameRawReg(oev.Keys[rec], keys[rec]) {
					sub = "aliased-registration"
				}
				m.rec.Violation("batch/key-twice-on-batch/"+sub, fmt.Sprintf("batch %d/%s: external key %s appears twice (validators %s and %s)", b.BatchNonce, contract, rec.Hex(), other.Orchestrator, cf.Orchestrator),
					witness(map[string]any{"confirm": sv, "other_validator": other.Orchestrator, "registration_a": regView(oevKeys(oev)[rec]), "registration_b": regView(keys[rec])}))
			}
			seenKey[rec] = i
		}
	}
}
