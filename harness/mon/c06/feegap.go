package c06

// Fee gap: gas-estimate consensus for a FEE-PAYING message (SubmitLogicCall) is reached while the
// fee computation cannot succeed, signatures are collected while that lasts, then the cause goes away
// and a later end-blocker elects the estimate / attaches the fees. Whatever the code under test does
// in between (repeat the election every block, keep the estimate and attach the fees later, ...), the
// invariant of oracle.go must hold at every boundary: when the fees finally land in the message the
// signing bytes change and the signatures collected during the gap must be gone.
//
// Causes of a failing fee computation (consensus/keeper/estimate.go: calculateFeesForEstimate ->
// treasury GetCombinedFeesForRelay + mulCeilUint64), all reachable on a live network:
//   relayer-zero / relayer-negative / relayer-overflow: the ASSIGNEE of the message changes its own
//       relayer fee for the chain with a real MsgUpsertRelayerFee (the handler accepts any decimal);
//   treasury-zero / treasury-empty / treasury-garbage: the security or community-fund fee is set to an
//       unusable string through TreasuryKeeper.Set*Fee, the functions the governance proposal handler
//       calls with the proposal's unvalidated string (same standing as the treasury set-up in setup()).
// Nothing here is judged by itself; the counters cq/fee_gap/* only show that the situation occurred.

import (
	consensustypes "github.com/palomachain/paloma/v2/x/consensus/types"
	evmtypes "github.com/palomachain/paloma/v2/x/evm/types"

	"verif/harness/chain"
	"verif/harness/world"
)

var feeGapCauses = []string{"relayer-zero", "relayer-zero", "relayer-negative", "relayer-overflow", "treasury-zero", "treasury-empty", "treasury-garbage"}

var goodRelayerFees = []string{"1.1", "1.25", "1.05", "2"}

type feeGap struct {
	ch, q    string
	cause    string
	assignee *chain.Account
	ids      []uint64 // fee-paying messages of the assignee that still need their estimate elected
	// treasury causes: which setting was spoilt and its good value
	treasuryField, treasuryGood string
	opened                      bool
}

// feePayer: the evm message behind qm if it pays fees (SubmitLogicCall / UploadUserSmartContract).
func (h *hist) feePayer(qm consensustypes.QueuedSignedMessageI) (*evmtypes.Message, *evmtypes.Fees, bool) {
	cm, err := qm.ConsensusMsg(h.c.App.AppCodec())
	if err != nil {
		return nil, nil, false
	}
	em, ok := cm.(*evmtypes.Message)
	if !ok {
		return nil, nil, false
	}
	switch a := em.Action.(type) {
	case *evmtypes.Message_SubmitLogicCall:
		return em, a.SubmitLogicCall.GetFees(), true
	case *evmtypes.Message_UploadUserSmartContract:
		return em, a.UploadUserSmartContract.GetFees(), true
	}
	return nil, nil, false
}

func (h *hist) valByOper(oper string) *chain.Account {
	for _, v := range h.vals {
		if v.ValBech() == oper {
			return v
		}
	}
	return nil
}

func (h *hist) msgByID(q string, id uint64) consensustypes.QueuedSignedMessageI {
	for _, m := range h.msgs(q) {
		if m.GetId() == id {
			return m
		}
	}
	return nil
}

func (h *hist) setRelayerFee(v *chain.Account, ch, fee, what string) {
	h.queue(v, what, world.MsgRelayerFee(v, map[string]string{ch: fee}), func(r chain.TxResult) {
		if r.OK() {
			h.rec.Count("cq/fee_gap/relayer_fee_txs_accepted", 1)
		} else {
			h.rec.Count("cq/fee_gap/relayer_fee_txs_rejected/"+reason(r.Log), 1)
			h.note("%s by %s refused: %.200s", what, v.Name, r.Log)
		}
	})
}

func (h *hist) setTreasuryFee(field, value string) {
	h.rec.Op(map[string]any{"op": "treasury-fee", "height": h.c.Height, "field": field, "value": value})
	var err error
	if field == "security" {
		err = h.c.App.TreasuryKeeper.SetSecurityFee(h.c.Ctx(), value)
	} else {
		err = h.c.App.TreasuryKeeper.SetCommunityFundFee(h.c.Ctx(), value)
	}
	if err != nil {
		h.note("set treasury %s fee %q: %v", field, value, err)
	}
}

// feeGapOpen: picks the fee-paying messages of ONE assignee in the turnstone queue of ch that still wait
// for their estimate (a job is executed first if there is none) and makes the fee computation for them
// impossible. Returns nil if there is nothing to work on.
func (h *hist) feeGapOpen(ch, cause string) *feeGap {
	q := world.TurnstoneQueue(ch)
	find := func() *feeGap {
		var g *feeGap
		for _, qm := range h.msgs(q) {
			if !qm.GetRequireGasEstimation() || qm.GetGasEstimate() != 0 {
				continue
			}
			em, fees, ok := h.feePayer(qm)
			if !ok || fees != nil {
				continue
			}
			a := h.valByOper(em.GetAssignee())
			if a == nil {
				continue
			}
			if g == nil {
				g = &feeGap{ch: ch, q: q, cause: cause, assignee: a}
			}
			if g.assignee == a && len(g.ids) < 3 {
				g.ids = append(g.ids, qm.GetId())
			}
		}
		return g
	}
	g := find()
	if g == nil {
		h.execJobOn(ch)
		if h.r.Intn(2) == 0 {
			h.execJobOn(ch)
		}
		if !h.block() {
			return nil
		}
		if g = find(); g == nil {
			h.rec.Count("cq/fee_gap/no_fee_paying_message", 1)
			return nil
		}
	}
	h.rec.Count("cq/fee_gap/opened/"+cause, 1)
	switch cause {
	case "relayer-zero":
		h.setRelayerFee(g.assignee, ch, "0", "relayer-fee/zero")
	case "relayer-negative":
		h.setRelayerFee(g.assignee, ch, "-1.1", "relayer-fee/negative")
	case "relayer-overflow":
		// 10^16 * any estimate >= 21 000 does not fit into 64 bits
		h.setRelayerFee(g.assignee, ch, "10000000000000000", "relayer-fee/overflow")
	default:
		g.treasuryField = []string{"security", "community"}[h.r.Intn(2)]
		fees, err := h.c.App.TreasuryKeeper.GetFees(h.c.Ctx())
		if err != nil || fees == nil {
			return nil
		}
		g.treasuryGood = fees.SecurityFee
		if g.treasuryField == "community" {
			g.treasuryGood = fees.CommunityFundFee
		}
		bad := map[string]string{"treasury-zero": "0", "treasury-empty": "", "treasury-garbage": "one percent"}[cause]
		h.setTreasuryFee(g.treasuryField, bad)
	}
	g.opened = true
	return g
}

// feeGapEstimates: every validator hands in an estimate for the messages of the gap (quorum); the
// end-blocker of that block reaches consensus on the estimate and cannot compute the fees.
func (h *hist) feeGapEstimates(g *feeGap) {
	base := estimateValues[h.r.Intn(len(estimateValues))]
	for _, v := range h.vals {
		m := &consensustypes.MsgAddMessageGasEstimates{Metadata: world.Meta(v)}
		for _, id := range g.ids {
			qm := h.msgByID(g.q, id)
			if qm == nil || qm.GetGasEstimate() != 0 {
				continue
			}
			already := false
			for _, ge := range qm.GetGasEstimates() {
				if ge.ValAddress.Equals(v.ValAddr()) {
					already = true
				}
			}
			if already {
				continue
			}
			m.Estimates = append(m.Estimates, &consensustypes.MsgAddMessageGasEstimates_GasEstimate{MsgId: id, QueueTypeName: g.q,
				Value: base + uint64(h.r.Intn(3000)), EstimatedByAddress: h.infos[v.ValBech()][g.ch].GetAddress()})
		}
		if len(m.Estimates) == 0 {
			continue
		}
		h.queue(v, "estimate/fee-gap", m, func(r chain.TxResult) {
			if r.OK() {
				h.rec.Count("cq/estimate_txs_accepted", 1)
			} else {
				h.rec.Count("cq/estimate_txs_rejected/"+reason(r.Log), 1)
			}
		})
	}
}

// feeGapSign: every validator signs the messages of the gap as they stand now (valid signatures).
func (h *hist) feeGapSign(g *feeGap) {
	for _, v := range h.perm() {
		m := &consensustypes.MsgAddMessagesSignatures{Metadata: world.Meta(v)}
		for _, id := range g.ids {
			qm := h.msgByID(g.q, id)
			if qm == nil {
				continue
			}
			if s := h.mkSig(v, g.q, qm, "valid"); s != nil {
				m.SignedMessages = append(m.SignedMessages, s)
			}
		}
		if len(m.SignedMessages) > 0 {
			h.queueSign(v, g.q, m, "valid")
		}
	}
}

// feeGapObserve: what the gap looks like at this boundary (counters only).
func (h *hist) feeGapObserve(g *feeGap) (withSigs int) {
	for _, id := range g.ids {
		qm := h.msgByID(g.q, id)
		if qm == nil {
			continue
		}
		_, fees, ok := h.feePayer(qm)
		if !ok {
			continue
		}
		switch {
		case fees != nil:
			h.rec.Count("cq/fee_gap/fees_attached_during_gap", 1) // the cause did not bite (not expected)
		case qm.GetGasEstimate() == 0 && len(qm.GetGasEstimates()) > 0:
			h.rec.Count("cq/fee_gap/boundaries_with_estimates_in_but_none_elected", 1)
		case qm.GetGasEstimate() != 0:
			h.rec.Count("cq/fee_gap/boundaries_with_estimate_elected_without_fees", 1)
		}
		if fees == nil && len(qm.GetSignData()) > 0 {
			withSigs++
		}
	}
	return withSigs
}

// feeGapClose: the cause goes away; the next end-blockers attach the fees.
func (h *hist) feeGapClose(g *feeGap) {
	signedInGap := map[uint64]int{}
	for _, id := range g.ids {
		if qm := h.msgByID(g.q, id); qm != nil {
			if _, fees, ok := h.feePayer(qm); ok && fees == nil {
				signedInGap[id] = len(qm.GetSignData())
			}
		}
	}
	if g.treasuryField != "" {
		h.setTreasuryFee(g.treasuryField, g.treasuryGood)
	} else {
		h.setRelayerFee(g.assignee, g.ch, goodRelayerFees[h.r.Intn(len(goodRelayerFees))], "relayer-fee/restore")
	}
	// treasury settings are written at the boundary, the relayer fee by a transaction of the next block:
	// either way the end-blocker of the next block sees the repaired settings.
	if !h.block() {
		return
	}
	h.rec.Count("cq/fee_gap/closed/"+g.cause, 1)
	for id, n := range signedInGap {
		qm := h.msgByID(g.q, id)
		if qm == nil {
			continue
		}
		if _, fees, ok := h.feePayer(qm); ok && fees != nil {
			h.rec.Count("cq/fee_gap/fees_attached_after_gap", 1)
			if n > 0 {
				// the situation the scenario is about: signatures were collected while the fees could not be
				// computed, now the fees are part of the signing bytes
				h.rec.Count("cq/fee_gap/signed_in_gap_then_fees_attached", 1)
				h.rec.Count("cq/fee_gap/signed_in_gap_then_fees_attached/"+g.cause, 1)
			}
		} else {
			h.rec.Count("cq/fee_gap/fees_still_missing_after_close", 1)
		}
	}
}

// feeGapRound: open -> estimates with quorum (election attempt without computable fees) -> signatures
// -> (idle blocks / more signatures / random operations) -> close -> signatures on the final form.
// order: 0 = estimates, then signatures in a later block; 1 = signatures first, then estimates;
// 2 = estimates and signatures in the same block.
func (h *hist) feeGapRound(ch, cause string, inner int) {
	g := h.feeGapOpen(ch, cause)
	if g == nil {
		return
	}
	sameBlock := g.treasuryField == "" && h.r.Intn(3) == 0 // the fee change rides in the block of the estimates
	order := h.r.Intn(3)
	if !sameBlock || order == 1 {
		if !h.block() {
			return
		}
	}
	switch order {
	case 0:
		h.feeGapEstimates(g)
		h.block()
		h.feeGapObserve(g)
		h.feeGapSign(g)
		h.block()
	case 1:
		h.feeGapSign(g)
		h.block()
		h.feeGapEstimates(g)
		h.block()
		h.feeGapObserve(g)
		h.feeGapSign(g) // whoever lost its signature to an election signs again
		h.block()
	default:
		h.feeGapEstimates(g)
		h.feeGapSign(g)
		h.block()
		h.feeGapObserve(g)
		h.feeGapSign(g)
		h.block()
	}
	for i := 0; i < inner && !h.failed; i++ {
		switch h.r.Intn(6) {
		case 0:
			h.skip(1 + h.r.Intn(3))
		case 1:
			h.signOn(g.q, h.msgs(g.q), false, 2)
			h.block()
		case 2:
			h.opEstimate(true)
		case 3:
			h.opExecJob()
		case 4:
			h.opReRegister()
		default:
			h.feeGapSign(g)
			h.block()
		}
	}
	if h.r.Intn(2) == 0 {
		// late signers; their transactions share the block with the repair of the fee settings when
		// that is a transaction too
		h.feeGapSign(g)
		if g.treasuryField != "" {
			h.block()
		}
	}
	if h.feeGapObserve(g) > 0 {
		h.rec.Count("cq/fee_gap/gaps_with_signatures_collected", 1)
	}
	h.feeGapClose(g)
	h.skip(h.r.Intn(2))
	h.feeGapSign(g)
	h.block()
}

// opFeeGap: a self-contained fee-gap round inside the random walk.
func (h *hist) opFeeGap() {
	ch := h.chains[h.r.Intn(len(h.chains))]
	h.feeGapRound(ch, feeGapCauses[h.r.Intn(len(feeGapCauses))], h.r.Intn(2))
}

// scriptFeeGap: two rounds with different causes (the first one always the assignee's own relayer fee).
func (h *hist) scriptFeeGap() {
	ch := h.chains[h.r.Intn(len(h.chains))]
	h.execJobOn(ch)
	h.block()
	h.feeGapRound(ch, []string{"relayer-zero", "relayer-negative", "relayer-overflow"}[h.r.Intn(3)], h.r.Intn(3))
	ch = h.chains[h.r.Intn(len(h.chains))]
	h.feeGapRound(ch, feeGapCauses[h.r.Intn(len(feeGapCauses))], 1+h.r.Intn(3))
}
