// Package c06: every signature stored with a queued cross-chain message or with a skyway batch is
// valid for the item AS IT CURRENTLY STANDS under a key its validator had registered for that
// chain when it signed; a validator or key appears at most once per item; when something covered
// by the signing bytes changes (elected gas estimate, attached fees, relayer) the signatures
// collected before are discarded.
//
// Technique: runtime monitoring of the REAL application (world.NewBridgeWorld -> chain.New ->
// app.App through FinalizeBlock/Commit with signed transactions). The deciding step is the
// invariant of oracle.go, evaluated after every block over all consensus queues and all batch
// confirms, with go-ethereum ecrecover and the monitor's own log of registrations / accepted
// signature transactions.
package c06

import (
	"fmt"

	"verif/harness/fw"
	"verif/harness/world"
)

type params struct {
	Kind   string `json:"kind"`
	Steps  int    `json:"steps"`
	Stakes int    `json:"stakes"`
	Chains int    `json:"chains"`
}

// The case kind "reassign" (relayer re-assignment through ReassignOrphanedMessages) is NOT generated:
// no begin/end-blocker or message handler of the tree under test calls that function, so a chain cannot
// reach a re-assigned message; driving it by a direct keeper call produced an alarm
// (cq/stale-signature-kept-after-relayer-change) about a state no real chain is in. The scripted
// opening is kept in the source for the day the function gets wired in.
//
// "feegap" (11th slot, feegap.go): estimate consensus for a fee-paying message while the fee computation
// cannot succeed, signatures collected meanwhile, fees attached after the cause is gone.
var kinds = []string{"cq", "batch", "alias", "handover", "mix", "cq", "cq", "batch", "mix", "mix", "feegap"}

func cases(tier string, seed int64) []fw.Case {
	n, steps := 88, 80
	if tier == "thorough" {
		n, steps = 176, 160
	}
	var cs []fw.Case
	for i := 0; i < n; i++ {
		k := kinds[i%len(kinds)]
		p := params{Kind: k, Steps: steps + 10*(i%4), Stakes: i / len(kinds), Chains: 1 + (i/3)%2}
		if k == "mix" || k == "alias" {
			p.Chains = 2
		}
		cs = append(cs, fw.MkCase(fmt.Sprintf("%s-%03d", k, i), seed*1000003+int64(i)*7919, p))
	}
	// "span" (span.go): appended after the rotating kinds so that the cases above keep their index, seed and
	// parameters; always two chains, every stake distribution.
	for j := 0; j < n/len(kinds); j++ {
		i := n + j
		p := params{Kind: "span", Steps: steps + 10*(i%4), Stakes: j, Chains: 2}
		cs = append(cs, fw.MkCase(fmt.Sprintf("span-%03d", i), seed*1000003+int64(i)*7919, p))
	}
	// "degen" (degen.go): appended after the span cases for the same reason; one and two chains alternate.
	for j := 0; j < n/len(kinds); j++ {
		i := n + n/len(kinds) + j
		p := params{Kind: "degen", Steps: steps/2 + 5*(i%4), Stakes: j, Chains: 1 + j%2} // the scripted opening is long: half the walk
		cs = append(cs, fw.MkCase(fmt.Sprintf("degen-%03d", i), seed*1000003+int64(i)*7919, p))
	}
	return cs
}

func run(c fw.Case, tier string, rec *fw.Recorder) {
	var p params
	c.Decode(&p)
	h, err := newHist(c, p, rec)
	if err != nil {
		rec.Inconclusive("bring-up failed: " + err.Error())
		return
	}
	defer h.c.Close()
	rec.Count("histories", 1)
	rec.Count("histories/"+p.Kind, 1)
	h.setup()
	switch p.Kind {
	case "cq":
		h.scriptCQ()
	case "batch":
		h.scriptBatch()
	case "alias":
		h.scriptAlias()
	case "handover":
		h.scriptHandover()
	case "reassign":
		h.scriptReassign()
	case "feegap":
		h.scriptFeeGap()
	case "span":
		h.scriptSpan()
	case "degen":
		h.scriptDegen()
	}
	h.walk(p.Steps, p.Kind)
	h.mon.finish()
	if debug {
		for _, v := range rec.Result().Violations {
			fmt.Printf("VIOLATION %s: %s\n", v.Signature, v.Message)
		}
	}
	n := len(h.log)
	if n > 12 {
		n = 12
	}
	rec.Sample(map[string]any{"case": c.Name, "kind": p.Kind, "validators": len(h.vals), "chains": h.chains, "final_height": h.c.Height,
		"item_histories": h.mon.traces, "registrations_head": h.log[:n]})
}

// setup: jobs for every chain and a first valset update in every turnstone queue (the bring-up of
// world.TestDeliverValset: the publish call the snapshot listener itself makes, forced).
func (h *hist) setup() {
	// treasury fee settings (genesis / governance on a live network; here through the keeper
	// functions the governance handler itself calls): without them fee attachment fails and no
	// fee-paying message ever gets its estimate elected.
	cf := []string{"0.01", "0.03", "0.1"}[h.r.Intn(3)]
	sf := []string{"0.01", "0.02", "0.05"}[h.r.Intn(3)]
	if err := h.c.App.TreasuryKeeper.SetCommunityFundFee(h.c.Ctx(), cf); err != nil {
		h.note("set community fee: %v", err)
	}
	if err := h.c.App.TreasuryKeeper.SetSecurityFee(h.c.Ctx(), sf); err != nil {
		h.note("set security fee: %v", err)
	}
	h.createJobs()
	snap, err := h.c.App.ValsetKeeper.GetCurrentSnapshot(h.c.Ctx())
	if err == nil && snap != nil {
		if err := h.c.App.EvmKeeper.PublishSnapshotToAllChains(h.c.Ctx(), snap, true); err != nil {
			h.note("publish snapshot: %v", err)
		}
	}
	h.block()
}

func (h *hist) turnstone(ch string) string { return world.TurnstoneQueue(ch) }

// scriptCQ: sign -> (re-register) -> elect estimate (+fees) -> sign again, with hostile attempts around.
func (h *hist) scriptCQ() {
	ch := h.chains[0]
	h.execJobOn(ch)
	h.block()
	if h.r.Intn(2) == 0 {
		h.execJobOn(ch)
		h.block()
	}
	q := h.turnstone(ch)
	h.signOn(q, h.msgs(q), true, 3)
	h.block()
	if h.r.Intn(2) == 0 {
		h.opReRegister()
	}
	h.signOn(q, h.msgs(q), false, 2)
	h.block()
	h.estimateOn(ch, true)
	h.block()
	h.signOn(q, h.msgs(q), false, 3)
	h.block()
	h.signOn(q, h.msgs(q), true, 3)
	h.block()
	h.signOn(q, h.msgs(q), false, len(h.vals))
	h.block()
}

// scriptBatch: confirm -> (re-register) -> elect batch estimate -> confirm again -> finish.
func (h *hist) scriptBatch() {
	h.opSend()
	h.opSend()
	h.skipTo(50)
	bs := h.batchesNow()
	if len(bs) == 0 {
		h.note("no batch was built")
		return
	}
	h.confirmOn(bs, true, 3)
	h.block()
	if h.r.Intn(2) == 0 {
		h.opReRegister()
	}
	h.confirmOn(h.batchesNow(), false, 2)
	h.block()
	h.opBatchEstimate(true)
	h.confirmOn(h.batchesNow(), false, 3)
	h.block()
	h.confirmOn(h.batchesNow(), true, 3)
	h.block()
	h.confirmOn(h.batchesNow(), false, len(h.vals))
	h.block()
	if h.r.Intn(2) == 0 {
		h.opBatchExecuted()
	} else {
		h.opTimeJump()
	}
}

// scriptAlias: validators register another validator's key in a different encoding (zero-padded
// public key + lower-case address; lower-case address only), then victim and aliaser appear on
// the same items - the aliaser with the shared private key or by REPLAYING the victim's signature.
func (h *hist) scriptAlias() {
	ch := h.chains[h.r.Intn(len(h.chains))]
	h.execJobOn(ch)
	h.opSend()
	h.opSend()
	h.skipTo(50)
	pm := h.perm()
	h.aliasOn(pm[0], pm[1], ch, "padded-pubkey")
	h.aliasOn(pm[2], pm[3], ch, "address-case")
	h.block()
	q := h.turnstone(ch)
	honest := func() {
		for _, v := range h.vals {
			if h.alias[v.ValBech()][ch] != nil {
				continue
			}
			if m := h.signAll(v, q); m != nil {
				h.queueSign(v, q, m, "valid")
			}
			for _, b := range h.batchesNow() {
				if b.ChainReferenceID != ch {
					continue
				}
				if cm, s, o := h.mkConfirm(v, b, "valid"); cm != nil {
					h.queueConfirm(s, o, b, cm, "valid")
				}
			}
		}
		h.block()
	}
	honest()
	h.opAliasSign()
	h.opAliasConfirm()
	h.estimateOn(ch, true)
	h.block()
	honest()
	h.opAliasSign()
	h.opAliasConfirm()
}

// scriptHandover: X signs, X moves to a new key, Y registers the key X released and signs the
// same items with it.
func (h *hist) scriptHandover() {
	ch := h.chains[h.r.Intn(len(h.chains))]
	h.execJobOn(ch)
	h.opSend()
	h.skipTo(50)
	x, y := h.twoVals()
	q := h.turnstone(ch)
	// everybody but y signs / confirms
	for _, v := range h.vals {
		if v == y {
			continue
		}
		m := h.signAll(v, q)
		if m != nil {
			h.queueSign(v, q, m, "valid")
		}
		for _, b := range h.batchesNow() {
			if b.ChainReferenceID != ch {
				continue
			}
			if cm, s, o := h.mkConfirm(v, b, "valid"); cm != nil {
				h.queueConfirm(s, o, b, cm, "valid")
			}
		}
	}
	h.block()
	h.handoverOn(x, y, ch)
	if m := h.signAll(y, q); m != nil {
		h.queueSign(y, q, m, "valid-with-taken-key")
	}
	for _, b := range h.batchesNow() {
		if b.ChainReferenceID != ch {
			continue
		}
		if cm, s, o := h.mkConfirm(y, b, "valid"); cm != nil {
			h.queueConfirm(s, o, b, cm, "valid-with-taken-key")
		}
	}
	h.block()
}

// scriptReassign: messages with signatures get a new relayer through the keeper's
// ReassignOrphanedMessages (exported; NOT wired into any end-blocker of the pinned tree - see NOTES.md).
func (h *hist) scriptReassign() {
	ch := h.chains[0]
	h.execJobOn(ch)
	h.block()
	q := h.turnstone(ch)
	h.estimateOn(ch, true)
	h.block()
	h.signOn(q, h.msgs(q), true, len(h.vals))
	h.block()
	for i := 0; i < 6; i++ {
		h.rec.Op(map[string]any{"op": "ReassignOrphanedMessages", "height": h.c.Height})
		func() {
			defer func() {
				if e := recover(); e != nil {
					h.note("ReassignOrphanedMessages panicked: %v", e)
				}
			}()
			if err := h.c.App.ConsensusKeeper.ReassignOrphanedMessages(h.c.Ctx(), 1); err != nil {
				h.note("ReassignOrphanedMessages: %v", err)
			}
		}()
		h.rec.Count("ops/reassign_calls", 1)
		h.block()
	}
}

func (h *hist) walk(steps int, kind string) {
	type wop struct {
		w int
		f func()
	}
	ops := []wop{
		{18, func() { h.opSign(false) }},
		{6, func() { h.opSign(true) }},
		{6, func() { h.opEstimate(true) }},
		{2, func() { h.opEstimate(false) }},
		{7, h.opExecJob},
		{6, h.opSend},
		{3, func() { h.skipTo(50) }},
		{5, func() { h.skip(1 + h.r.Intn(5)) }},
		{14, func() { h.opConfirm(false) }},
		{5, func() { h.opConfirm(true) }},
		{5, func() { h.opBatchEstimate(true) }},
		{2, func() { h.opBatchEstimate(false) }},
		{2, h.opBatchExecuted},
		{1, h.opTimeJump},
		{4, h.opReRegister},
		{2, h.opSameKey},
		{2, h.opHandover},
		{2, h.opFeeGap},
		{3, h.opSpanSign},
		{1, h.opSpanConfirm},
		{2, h.opDegen},
	}
	if kind == "degen" {
		ops = append(ops, wop{8, h.opDegen})
	}
	if kind == "span" {
		ops = append(ops, wop{9, h.opSpanSign}, wop{3, h.opSpanConfirm})
	}
	if kind == "alias" || kind == "mix" {
		ops = append(ops, wop{2, func() { h.opAlias([]string{"padded-pubkey", "address-case"}[h.r.Intn(2)]) }},
			wop{3, h.opAliasSign}, wop{3, h.opAliasConfirm})
	}
	total := 0
	for _, o := range ops {
		total += o.w
	}
	for i := 0; i < steps && !h.failed; i++ {
		x := h.r.Intn(total)
		for _, o := range ops {
			if x < o.w {
				o.f()
				break
			}
			x -= o.w
		}
	}
}

func init() {
	fw.Register(&fw.Prop{
		ID:    "C06",
		Level: "exploration",
		Rule: "seed-determined histories on the real app (4-6 validators, 1-2 EVM chains, bridged tokens): scripted openings per kind " +
			"(cq: sign -> re-register -> elect estimate/attach fees -> sign again; batch: confirm -> elect batch estimate -> confirm again -> executed/timeout; " +
			"alias: a validator registers another one's key in a different encoding; handover: a released key is registered by another validator; " +
			"feegap: estimate consensus for a fee-paying message while its fees cannot be computed (assignee's relayer fee zero / negative / overflowing, treasury fee unusable), signatures collected meanwhile, cause removed, fees attached; " +
			"span: every validator registers a different external account per chain, then signature transactions spanning the queues of both chains (one MsgAddMessagesSignatures, several of them in one tx, several txs in one block) with the other chain's account in every position of lists of 2-4 entries, and confirm transactions spanning batches of both chains; " +
			"degen: validators re-register with a public-key field of degenerate shape (empty, zeros, 1-3 / 19 significant bytes, 21 / 33 bytes, 32 bytes zero-padded, address starting with 0x00; account address unchanged), then hand in signatures made by unrelated keys, by look-alike keys whose address ends / starts with the registered bytes, by the key of their account address, by another validator's key, replayed ones, and by the key the registered bytes name; " +
			"mix: none) followed by a weighted random walk over " +
			"sign / confirm (valid, garbage, wrong key, other validator's key, replayed foreign signature, duplicate, stale bytes, foreign orchestrator, carried by a user), " +
			"gas estimates with and without quorum, job executions, transfers, batch building, executed claims, time-outs, key re-registrations, same-key registration attempts, self-contained fee-gap rounds, spanning signature / confirm rounds, degenerate-key rounds. " +
			"The invariant is evaluated after EVERY block over all messages of all consensus queues and all batches. " +
			"evaluations = stored signatures / confirms verified with ecrecover; distinct_nontrivial = distinct per-item event traces (accepted and rejected " +
			"signature attempts by mode and reason, signing-byte changes with cause and number of signatures before/after, re-registrations of signers) of items " +
			"that had at least one accepted signature and at least one other event.",
		Assumptions: []string{
			"the current signing bytes of an item are what the item's own hashing code (GetBytesToSign / GetCheckpoint with the chain's current compass id) returns for the item as stored - binding of those bytes to the content is C05's subject",
			"'key registered for that chain' = any external account (address, or address form of the public-key field) of the validator's registration in force for that chain when the signature transaction was accepted, as logged by the monitor from the registration transactions it saw succeed",
			"signatures must be discarded when the signing BYTES change; an attribute change that leaves the bytes identical (elected estimate equal to the default) is only counted",
			"batch confirms whose batch no longer exists are counted, not judged (they are not kept with an item)",
			"re-deployment of compass (new turnstone id) while batches are pending is not exercised",
			"treasury community-fund / security fee settings are written with the keeper functions the governance proposal handler calls with the proposal's (unvalidated) string - in the set-up and for the treasury causes of a fee gap; relayer fees are changed with real MsgUpsertRelayerFee transactions of the assignee",
		},
		Cases: cases,
		Run:   run,
		MinCounters: []string{"cq/signatures_verified", "batch/confirms_verified", "cq/changes_with_signatures_to_discard", "batch/changes_with_signatures_to_discard",
			"cq/fee_gap/signed_in_gap_then_fees_attached",
			"cq/span/valid_txs_accepted", "cq/span/other_chains_account_behind_its_legitimate_use_decided",
			"cq/degen/foreign_signatures_decided", "cq/degen/named_key_signatures_accepted"},
		TimeoutS: 1200,
	})
}
