package c10

import (
	"fmt"
	"math/big"
	"reflect"
	"strings"

	"github.com/ethereum/go-ethereum/common"

	"github.com/ethereum/go-ethereum/accounts/abi"

	sdk "github.com/cosmos/cosmos-sdk/types"
	consensustypes "github.com/palomachain/paloma/v2/x/consensus/types"
	evmtypes "github.com/palomachain/paloma/v2/x/evm/types"

	"verif/harness/chain"
	"verif/harness/world"
)

// chain reference ids / EVM chain ids used by the workloads
type chainDef struct {
	Ref string
	ID  uint64
}

var allChains = []chainDef{
	{"eth-main", 1}, {"bnb-main", 56}, {"matic-main", 137}, {"op-main", 10}, {"arb-main", 42161},
}

func compassAddr(i int) string { return fmt.Sprintf("0x00000000000000000000000000000000000c0d%02x", i) }

// sentValset is an UpdateValset message found in a turnstone queue.
type sentValset struct {
	Chain  string
	MsgID  uint64
	Valset *evmtypes.Valset
}

// readValsetMessages returns the UpdateValset messages currently sitting in the turnstone queue of
// chainRef under ctx (nil, false if the queue does not exist).
func readValsetMessages(c *chain.Chain, ctx sdk.Context, chainRef string) (out []sentValset, ok bool) {
	defer func() {
		if e := recover(); e != nil {
			out, ok = nil, false
		}
	}()
	msgs, err := c.App.ConsensusKeeper.GetMessagesFromQueue(ctx, world.TurnstoneQueue(chainRef), 0)
	if err != nil {
		return nil, false
	}
	for _, qm := range msgs {
		cm, err := qm.ConsensusMsg(c.App.AppCodec())
		if err != nil {
			continue
		}
		m, isMsg := cm.(*evmtypes.Message)
		if !isMsg {
			continue
		}
		if uv, isUV := m.GetAction().(*evmtypes.Message_UpdateValset); isUV && uv.UpdateValset != nil && uv.UpdateValset.Valset != nil {
			out = append(out, sentValset{Chain: chainRef, MsgID: qm.GetId(), Valset: uv.UpdateValset.Valset})
		}
	}
	return out, true
}

// sentUpload is an UploadSmartContract (compass deployment) message found in a turnstone queue whose
// constructor input carries a validator set: the set the new compass starts with on that chain.
type sentUpload struct {
	Chain      string
	MsgID      uint64
	ContractID uint64
	Valset     evmtypes.CompassValset
	Err        string // constructor input present but not decodable with the message's own ABI
}

// readUploadMessages returns the compass deployments sitting in the turnstone queue of chainRef under ctx.
// The constructor arguments are decoded with go-ethereum's ABI package from the ABI the message itself
// carries: (compass id, event id, gravity nonce, valset{validators, powers, valset_id}, fee manager).
func readUploadMessages(c *chain.Chain, ctx sdk.Context, chainRef string) (out []sentUpload, ok bool) {
	defer func() {
		if e := recover(); e != nil {
			out, ok = []sentUpload{{Chain: chainRef, Err: fmt.Sprintf("panic while decoding: %v", e)}}, true
		}
	}()
	msgs, err := c.App.ConsensusKeeper.GetMessagesFromQueue(ctx, world.TurnstoneQueue(chainRef), 0)
	if err != nil {
		return nil, false
	}
	for _, qm := range msgs {
		cm, err := qm.ConsensusMsg(c.App.AppCodec())
		if err != nil {
			continue
		}
		m, isMsg := cm.(*evmtypes.Message)
		if !isMsg {
			continue
		}
		up, isUp := m.GetAction().(*evmtypes.Message_UploadSmartContract)
		if !isUp || up.UploadSmartContract == nil || len(up.UploadSmartContract.ConstructorInput) == 0 {
			continue
		}
		u := sentUpload{Chain: chainRef, MsgID: qm.GetId(), ContractID: up.UploadSmartContract.Id}
		cabi, err := abi.JSON(strings.NewReader(up.UploadSmartContract.Abi))
		if err != nil {
			u.Err = "abi: " + err.Error()
			out = append(out, u)
			continue
		}
		params, err := cabi.Constructor.Inputs.Unpack(up.UploadSmartContract.ConstructorInput)
		if err != nil || len(params) < 4 {
			u.Err = fmt.Sprintf("unpack: %v (%d params)", err, len(params))
			out = append(out, u)
			continue
		}
		// the ABI package returns the tuple as an anonymous struct with the ABI's field order
		// (validators, powers, valset_id); take the fields by name
		tv := reflect.ValueOf(params[3])
		if tv.Kind() != reflect.Struct {
			u.Err = "constructor argument 3 is not a tuple"
			out = append(out, u)
			continue
		}
		vals, ok1 := fieldOf(tv, "Validators").([]common.Address)
		pows, ok2 := fieldOf(tv, "Powers").([]*big.Int)
		vid, ok3 := fieldOf(tv, "ValsetId").(*big.Int)
		if !ok1 || !ok2 || !ok3 || vid == nil {
			u.Err = "constructor argument 3 is not a valset tuple"
			out = append(out, u)
			continue
		}
		u.Valset = evmtypes.CompassValset{ValsetId: vid, Validators: vals, Powers: pows}
		out = append(out, u)
	}
	return out, true
}

func fieldOf(v reflect.Value, name string) any {
	f := v.FieldByName(name)
	if !f.IsValid() || !f.CanInterface() {
		return nil
	}
	return f.Interface()
}

var _ = consensustypes.Queue

// noTrace switches the KV-store tracer off. chain.New hands io.Discard to app.New as trace writer,
// which ENABLES tracing: every store read is JSON/base64-encoded and thrown away (40 % of the CPU
// time, chain infos carry the compass bytecode). Tracing has no influence on execution.
func noTrace(c *chain.Chain) { c.App.CommitMultiStore().SetTracer(nil) }
