package c10

import (
	"fmt"

	sdk "github.com/cosmos/cosmos-sdk/types"
	consensustypes "github.com/palomachain/paloma/v2/x/consensus/types"
	evmtypes "github.com/palomachain/paloma/v2/x/evm/types"

	"verif/harness/chain"
	"verif/harness/world"
)

// chain reference ids / EVM chain ids used by the workloads
type chainDef struct {
	Ref string
	ID  uint64
}

var allChains = []chainDef{
	{"eth-main", 1}, {"bnb-main", 56}, {"matic-main", 137}, {"op-main", 10}, {"arb-main", 42161},
}

func compassAddr(i int) string { return fmt.Sprintf("0x00000000000000000000000000000000000c0d%02x", i) }

// sentValset is an UpdateValset message found in a turnstone queue.
type sentValset struct {
	Chain  string
	MsgID  uint64
	Valset *evmtypes.Valset
}

// readValsetMessages returns the UpdateValset messages currently sitting in the turnstone queue of
// chainRef under ctx (nil, false if the queue does not exist).
func readValsetMessages(c *chain.Chain, ctx sdk.Context, chainRef string) (out []sentValset, ok bool) {
	defer func() {
		if e := recover(); e != nil {
			out, ok = nil, false
		}
	}()
	msgs, err := c.App.ConsensusKeeper.GetMessagesFromQueue(ctx, world.TurnstoneQueue(chainRef), 0)
	if err != nil {
		return nil, false
	}
	for _, qm := range msgs {
		cm, err := qm.ConsensusMsg(c.App.AppCodec())
		if err != nil {
			continue
		}
		m, isMsg := cm.(*evmtypes.Message)
		if !isMsg {
			continue
		}
		if uv, isUV := m.GetAction().(*evmtypes.Message_UpdateValset); isUV && uv.UpdateValset != nil && uv.UpdateValset.Valset != nil {
			out = append(out, sentValset{Chain: chainRef, MsgID: qm.GetId(), Valset: uv.UpdateValset.Valset})
		}
	}
	return out, true
}

var _ = consensustypes.Queue

// noTrace switches the KV-store tracer off. chain.New hands io.Discard to app.New as trace writer,
// which ENABLES tracing: every store read is JSON/base64-encoded and thrown away (40 % of the CPU
// time, chain infos carry the compass bytecode). Tracing has no influence on execution.
func noTrace(c *chain.Chain) { c.App.CommitMultiStore().SetTracer(nil) }
