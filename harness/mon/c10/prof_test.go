package c10

import (
	"encoding/json"
	"os"
	"strconv"
	"testing"

	"verif/harness/fw"
)

func TestProfDirect(t *testing.T) {
	c := fw.MkCase("p", 5, directCase{Mode: "direct", directParams: directParams{N: 1000, AllowDup: false}})
	r := fw.NewRecorder(c, "")
	runDirect(c, "quick", r)
	res := r.Result()
	t.Logf("viol=%d counters=%v inconcl=%s", len(res.Violations), res.Counters, res.Inconclusive)
}

func TestHistOne(t *testing.T) {
	v, _ := strconv.Atoi(os.Getenv("C10_VARIANT"))
	seed, _ := strconv.Atoi(os.Getenv("C10_SEED"))
	c := fw.MkCase("h", int64(seed), histCase{Mode: "hist", histParams: histParams{Blocks: 300, Variant: v}})
	r := fw.NewRecorder(c, "/tmp/c10-ops.jsonl")
	runHist(c, "quick", r)
	res := r.Result()
	b, _ := json.MarshalIndent(res.Counters, "", " ")
	t.Logf("viol=%d inconcl=%q evals=%d distinct=%d\n%s", len(res.Violations), res.Inconclusive, res.Evaluations, len(res.Distinct), b)
	for _, v := range res.Violations {
		w, _ := json.Marshal(v.Witness)
		if len(w) > 1500 {
			w = w[:1500]
		}
		t.Logf("VIOL %s: %s\n   %s", v.Signature, v.Message, w)
	}
}
