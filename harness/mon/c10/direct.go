package c10

import (
	"fmt"
	"math/big"
	"math/rand"
	"strings"
	"time"

	sdkmath "cosmossdk.io/math"
	sdk "github.com/cosmos/cosmos-sdk/types"
	evmtypes "github.com/palomachain/paloma/v2/x/evm/types"
	valsettypes "github.com/palomachain/paloma/v2/x/valset/types"

	"verif/harness/chain"
	"verif/harness/fw"
	"verif/harness/world"
)

// ---------------------------------------------------------------------------------------------
// generated snapshots

type genSnap struct {
	Class  string
	Shares []*big.Int
	// Accounts[i][chainIdx] = number of accounts validator i holds on chain chainIdx (0,1,2)
	Accounts [][]int
}

func bigPow2(k uint) *big.Int { return new(big.Int).Lsh(big.NewInt(1), k) }

func randBig(r *rand.Rand, lo, hi *big.Int) *big.Int { // uniform in [lo, hi]
	span := new(big.Int).Sub(hi, lo)
	span.Add(span, big.NewInt(1))
	return new(big.Int).Add(lo, new(big.Int).Rand(r, span))
}

// splitBig splits v (>0) into k positive parts (k is reduced if v is too small)
func splitBig(r *rand.Rand, v *big.Int, k int) []*big.Int {
	if v.Sign() <= 0 {
		return nil
	}
	if v.IsInt64() && v.Int64() < int64(k) {
		k = int(v.Int64())
	}
	rest := new(big.Int).Set(v)
	var out []*big.Int
	for i := 0; i < k-1; i++ {
		// leave at least (k-1-i) for the others
		max := new(big.Int).Sub(rest, big.NewInt(int64(k-1-i)))
		p := randBig(r, big.NewInt(1), max)
		if r.Intn(3) == 0 { // keep some parts small
			small := big.NewInt(int64(1 + r.Intn(1000)))
			if small.Cmp(max) <= 0 {
				p = small
			}
		}
		out = append(out, p)
		rest.Sub(rest, p)
	}
	out = append(out, rest)
	return out
}

var nChainsDirect = 3 // A, B active; C known but not active

func randAccounts(r *rand.Rand, n int, allowDup bool) [][]int {
	acc := make([][]int, n)
	mode := r.Intn(4)
	for i := range acc {
		acc[i] = make([]int, nChainsDirect)
		for c := 0; c < nChainsDirect; c++ {
			switch mode {
			case 0: // everybody everywhere
				acc[i][c] = 1
			case 1: // mostly
				if r.Intn(10) < 8 {
					acc[i][c] = 1
				}
			case 2: // half
				acc[i][c] = r.Intn(2)
			default: // chain-dependent
				if r.Intn(10) < 3+3*c {
					acc[i][c] = 1
				}
			}
		}
	}
	if allowDup && r.Intn(100) < 3 {
		acc[r.Intn(n)][r.Intn(nChainsDirect)] = 2
	}
	return acc
}

// genSnapshot draws one stake vector + account pattern. The classes follow DESIGN C10 W/B.
func genSnapshot(r *rand.Rand, allowDup bool) genSnap {
	var g genSnap
	switch x := r.Intn(100); {
	case x < 22:
		g.Class = "small-random"
		n := 1 + r.Intn(12)
		for i := 0; i < n; i++ {
			g.Shares = append(g.Shares, big.NewInt(1+r.Int63n(1_000_000_000)))
		}
	case x < 34:
		g.Class = "equal"
		ns := []int{2, 3, 5, 6, 7, 9, 11, 25, 100}
		n := ns[r.Intn(len(ns))]
		if r.Intn(4) == 0 {
			n = 1 + r.Intn(60)
		}
		var s *big.Int
		switch r.Intn(5) {
		case 0:
			s = big.NewInt(1)
		case 1:
			s = big.NewInt(1_000_000)
		case 2:
			s = big.NewInt(1 + r.Int63n(1_000_000_000_000))
		case 3:
			s = new(big.Int).Add(bigPow2(uint(20+r.Intn(30))), big.NewInt(int64(r.Intn(3)-1)))
		default:
			s = new(big.Int).Quo(bigPow2(62), big.NewInt(int64(n))) // total just below 2^62
		}
		for i := 0; i < n; i++ {
			g.Shares = append(g.Shares, new(big.Int).Set(s))
		}
		if r.Intn(3) == 0 { // almost equal: one differs by one
			g.Class = "almost-equal"
			g.Shares[r.Intn(n)].Add(g.Shares[0], big.NewInt(1))
		}
	case x < 44:
		g.Class = "whale"
		n := 2 + r.Intn(8)
		g.Shares = append(g.Shares, randBig(r, big.NewInt(1_000_000_000_000), big.NewInt(1_000_000_000_000_000)))
		for i := 1; i < n; i++ {
			g.Shares = append(g.Shares, big.NewInt(1+r.Int63n(1000)))
		}
	case x < 56:
		g.Class = "near-2^53"
		n := 2 + r.Intn(5)
		total := new(big.Int).Add(two53, big.NewInt(int64(r.Intn(2001)-1000)))
		g.Shares = splitBig(r, total, n)
	case x < 66:
		g.Class = "above-2^53"
		n := 1 + r.Intn(6)
		k := uint(54 + r.Intn(8)) // total < 2^62 * ... keep sum < 2^63
		total := randBig(r, bigPow2(k-1), bigPow2(k))
		g.Shares = splitBig(r, total, n)
	case x < 86:
		// adversarial: share*2^32 = k*total - j for a tiny j, i.e. the exact quotient sits just below
		// the integer k; a float64 quotient rounds up to k.
		g.Class = "one-ulp-below-integer"
		k := uint(23 + r.Intn(30))
		T := randBig(r, bigPow2(k), bigPow2(k+1))
		T.SetBit(T, 0, 1) // odd => 2^32 invertible
		inv := new(big.Int).ModInverse(two32, T)
		j := big.NewInt(int64(1 + r.Intn(3)))
		s := new(big.Int).Mul(inv, j)
		s.Neg(s).Mod(s, T)
		// optionally a multiple structure: several validators each on such a residue is impossible
		// in general (they must sum to T); the rest is split freely.
		if s.Sign() == 0 {
			s = big.NewInt(1)
		}
		rest := new(big.Int).Sub(T, s)
		g.Shares = append(g.Shares, s)
		g.Shares = append(g.Shares, splitBig(r, rest, 1+r.Intn(4))...)
	default:
		// quorum boundary: total = 2^32*m so that power_i = share_i/m exactly; the validators with
		// an account on the active chains hold threshold+d.
		g.Class = "quorum-boundary"
		ms := []int64{1, 1, 3, 1000, 1 << 20}
		m := big.NewInt(ms[r.Intn(len(ms))])
		ds := []int64{-(1 << 20) - 1, -(1 << 20), -(1 << 20) + 1, -(1 << 19), -1000, -2, -1, 0, 1, 2, 1000, 1 << 20}
		d := ds[r.Intn(len(ds))]
		on := new(big.Int).Add(threshold, big.NewInt(d)) // in power units
		off := new(big.Int).Sub(two32, on)
		onParts := splitBig(r, on, 1+r.Intn(4))
		offParts := splitBig(r, off, 1+r.Intn(3))
		for _, p := range onParts {
			g.Shares = append(g.Shares, new(big.Int).Mul(p, m))
			g.Accounts = append(g.Accounts, []int{1, 1, r.Intn(2)})
		}
		for _, p := range offParts {
			g.Shares = append(g.Shares, new(big.Int).Mul(p, m))
			g.Accounts = append(g.Accounts, []int{0, 0, r.Intn(2)})
		}
		g.Class = fmt.Sprintf("quorum-boundary")
		return g
	}
	g.Accounts = randAccounts(r, len(g.Shares), allowDup)
	return g
}

func (g genSnap) key() string {
	var sb strings.Builder
	for i, s := range g.Shares {
		sb.WriteString(s.String())
		sb.WriteByte(':')
		for _, a := range g.Accounts[i] {
			sb.WriteByte(byte('0' + a))
		}
		sb.WriteByte(',')
	}
	return sb.String()
}

func (g genSnap) witness() map[string]any {
	sh := make([]string, len(g.Shares))
	for i, s := range g.Shares {
		sh[i] = s.String()
	}
	return map[string]any{"class": g.Class, "shares": sh, "accounts_per_chain[A,B,C]": g.Accounts}
}

func (g genSnap) build(id uint64, chains []string, height int64, t time.Time) *valsettypes.Snapshot {
	s := &valsettypes.Snapshot{Id: id, Height: height, CreatedAt: t, TotalShares: sdkmath.ZeroInt()}
	for i, sh := range g.Shares {
		addr := make([]byte, 20)
		addr[0] = 0xC1
		addr[1] = byte(i >> 8)
		addr[2] = byte(i)
		addr[19] = byte(id)
		v := valsettypes.Validator{
			Address:    sdk.ValAddress(addr),
			ShareCount: sdkmath.NewIntFromBigInt(sh),
			State:      valsettypes.ValidatorState_ACTIVE,
		}
		for ci, n := range g.Accounts[i] {
			for k := 0; k < n; k++ {
				a := fmt.Sprintf("0x%08x%08x%08x%016x", 0xC10C10, ci, k, i+1)
				v.ExternalChainInfos = append(v.ExternalChainInfos, &valsettypes.ExternalChainInfo{
					ChainType: "evm", ChainReferenceID: chains[ci], Address: a, Pubkey: []byte(a),
				})
			}
		}
		s.Validators = append(s.Validators, v)
		s.TotalShares = s.TotalShares.Add(v.ShareCount)
	}
	return s
}

// ---------------------------------------------------------------------------------------------
// the case

type directParams struct {
	N        int  `json:"n"`        // generated snapshots
	AllowDup bool `json:"allowDup"` // let a validator hold two accounts on one chain
}

func runDirect(c fw.Case, tier string, rec *fw.Recorder) {
	var p directParams
	c.Decode(&p)
	r := c.Rand()

	chains := []string{allChains[0].Ref, allChains[1].Ref, allChains[2].Ref}
	vals := chain.DefaultValidators("c10d", []int64{30_000_000, 25_000_000, 20_000_000, 15_000_000, 10_000_000, 8_000_000})
	ch := chain.New(chain.Config{Validators: vals, WithCompass: true,
		EVMChains: []chain.EVMChainSpec{{RefID: chains[0], ChainID: allChains[0].ID}, {RefID: chains[1], ChainID: allChains[1].ID}, {RefID: chains[2], ChainID: allChains[2].ID}}})
	defer ch.Close()
	noTrace(ch)
	ch.Skip(1)
	if err := world.Bootstrap(ch, world.Accts(vals), chains); err != nil {
		rec.Inconclusive("bootstrap: " + err.Error())
		return
	}
	for i := 0; i < 2; i++ { // C stays inactive
		if err := world.ActivateChain(ch, chains[i], compassAddr(i), []byte("compass-"+chains[i])); err != nil {
			rec.Inconclusive("activate: " + err.Error())
			return
		}
	}
	ch.Skip(50 - int(ch.Height)) // snapshot build at 50 with all validators registered
	ch.Skip(1)

	// sanity: a fully supported generated snapshot must come out on both active chains, otherwise
	// the set-up cannot observe anything
	{
		g := genSnap{Class: "sanity", Shares: []*big.Int{big.NewInt(5), big.NewInt(7)}, Accounts: [][]int{{1, 1, 1}, {1, 1, 1}}}
		s := g.build(999_999, chains, ch.Height, ch.Time)
		fork := ch.Fork(ch.Height, ch.Time)
		if err := ch.App.EvmKeeper.PublishSnapshotToAllChains(fork, s, true); err != nil {
			rec.Inconclusive("sanity publish: " + err.Error())
			return
		}
		for i := 0; i < 2; i++ {
			ms, _ := readValsetMessages(ch, fork, chains[i])
			found := false
			for _, m := range ms {
				if m.Valset.ValsetID == s.Id {
					found = true
				}
			}
			if !found {
				rec.Inconclusive("sanity: fully supported snapshot not published to " + chains[i])
				return
			}
		}
	}

	for i := 0; i < p.N; i++ {
		g := genSnapshot(r, p.AllowDup)
		id := uint64(1_000_000 + i)
		s := g.build(id, chains, ch.Height, ch.Time)
		rec.Count("direct_snapshots", 1)
		rec.Count("direct_class_"+g.Class, 1)
		if len(g.Shares) >= 2 {
			rec.Distinct("d/" + g.key())
		}
		if i < 2 {
			rec.Sample(map[string]any{"mode": "direct", "snapshot": g.witness()})
		}
		if i%2000 == 0 {
			rec.Op(map[string]any{"direct": i, "snapshot": g.witness()})
		}
		viol := func(sig, msg string, extra map[string]any) {
			w := g.witness()
			for k, v := range extra {
				w[k] = v
			}
			w["index"] = i
			rec.Violation(sig, msg, w)
		}

		// (1) projection as served for a STORED snapshot (GetValsetByID -> transformSnapshotToCompass)
		fork := ch.Fork(ch.Height, ch.Time)
		if err := ch.App.ValsetKeeper.SaveModifiedSnapshot(fork, s); err != nil {
			rec.Inconclusive("SaveModifiedSnapshot: " + err.Error())
			return
		}
		for ci, cref := range chains {
			vs, perr := projectViaQuery(ch, fork, cref, id)
			if perr != "" {
				viol("valset/projection-panic-or-error", fmt.Sprintf("GetValsetByID(%s,%d): %s", cref, id, perr), nil)
				continue
			}
			issues, rv := compareProjection(s, cref, vs)
			rec.Eval(1)
			rec.Count("projections_checked", 1)
			rec.Count("projection_entries_checked", int64(len(vs.Validators)))
			if rv.Sum.Cmp(threshold) < 0 {
				rec.Count("projections_below_quorum", 1)
			}
			for _, is := range issues {
				viol(is.Sig, "GetValsetByID: "+is.Msg, map[string]any{"chain": cref, "chain_index": ci, "got_validators": vs.Validators, "got_powers": vs.Powers})
			}
		}

		// (2) what is actually enqueued (PublishSnapshotToAllChains, forcePublish)
		fork2 := ch.Fork(ch.Height, ch.Time)
		perr := func() (e string) {
			defer func() {
				if x := recover(); x != nil {
					e = fmt.Sprintf("panic: %v", x)
				}
			}()
			if err := ch.App.EvmKeeper.PublishSnapshotToAllChains(fork2, s, true); err != nil {
				return err.Error()
			}
			return ""
		}()
		if perr != "" {
			viol("publish/panic-or-error", "PublishSnapshotToAllChains: "+perr, nil)
			continue
		}
		for ci, cref := range chains {
			ms, ok := readValsetMessages(ch, fork2, cref)
			if !ok {
				rec.Inconclusive("cannot read queue of " + cref)
				return
			}
			var sent *evmtypes.Valset
			for _, m := range ms {
				if m.Valset.ValsetID == id {
					sent = m.Valset
				}
			}
			rv := refProject(s, cref)
			rec.Eval(1)
			rec.Count("gate_decisions_checked", 1)
			enough := rv.Sum.Cmp(threshold) >= 0
			if sent == nil {
				if enough && ci < 2 {
					rec.Count("gate_not_sent_although_enough", 1)
				} else {
					rec.Count("gate_withheld", 1)
				}
				continue
			}
			rec.Count("valset_messages_checked", 1)
			if ci >= 2 {
				rec.Count("valset_sent_to_inactive_chain", 1)
			}
			if !enough {
				viol(gateSignature(sent),
					fmt.Sprintf("UpdateValset %d enqueued for %s although the rounded-down powers sum to %s < 2863311530 (sent powers sum %s)", id, cref, rv.Sum, sumPowers(sent)),
					map[string]any{"chain": cref, "got_validators": sent.Validators, "got_powers": sent.Powers})
			} else if d := new(big.Int).Sub(rv.Sum, threshold); d.Cmp(big.NewInt(1<<20)) <= 0 {
				rec.Count("gate_sent_within_2^20_above_threshold", 1)
			}
			issues, _ := compareProjection(s, cref, sent)
			for _, is := range issues {
				viol(is.Sig, "enqueued UpdateValset: "+is.Msg, map[string]any{"chain": cref, "got_validators": sent.Validators, "got_powers": sent.Powers})
			}
		}
	}
}

func projectViaQuery(ch *chain.Chain, ctx sdk.Context, chainRef string, id uint64) (vs *evmtypes.Valset, perr string) {
	defer func() {
		if x := recover(); x != nil {
			perr = fmt.Sprintf("panic: %v", x)
		}
	}()
	resp, err := ch.App.EvmKeeper.GetValsetByID(ctx, &evmtypes.QueryGetValsetByIDRequest{ChainReferenceID: chainRef, ValsetID: id})
	if err != nil {
		return nil, err.Error()
	}
	return resp.Valset, ""
}
