package c10

import (
	"bytes"
	"crypto/sha256"
	"encoding/binary"
	"encoding/hex"
	"encoding/json"
	"fmt"
	"math/big"
	"math/rand"
	"sort"
	"strings"
	"time"

	sdkmath "cosmossdk.io/math"
	storetypes "cosmossdk.io/store/types"
	codectypes "github.com/cosmos/cosmos-sdk/codec/types"
	"github.com/cosmos/cosmos-sdk/crypto/keys/ed25519"
	sdk "github.com/cosmos/cosmos-sdk/types"
	govv1 "github.com/cosmos/cosmos-sdk/x/gov/types/v1"
	slashingtypes "github.com/cosmos/cosmos-sdk/x/slashing/types"
	stakingtypes "github.com/cosmos/cosmos-sdk/x/staking/types"
	evmtypes "github.com/palomachain/paloma/v2/x/evm/types"
	schedulertypes "github.com/palomachain/paloma/v2/x/scheduler/types"
	valsettypes "github.com/palomachain/paloma/v2/x/valset/types"

	"verif/harness/chain"
	"verif/harness/fw"
	"verif/harness/world"
)

type histParams struct {
	Blocks  int `json:"blocks"`
	Variant int `json:"variant"`
}

// ---------------------------------------------------------------------------------------------
// model + reference

type valInfo struct {
	Acct   *chain.Account
	Cons   *ed25519.PrivKey
	Silent bool // never sends keep-alives: gets jailed by the liveness check
	Joined bool // exists as a validator on chain
	Late   bool
}

type refMember struct {
	Tokens *big.Int
}

type refState struct {
	Members map[string]refMember // hex(valaddr) -> bonded tokens
	// why the others are out (for counters / messages)
	Excluded map[string]string
	Active   []string
}

type hist struct {
	c      *chain.Chain
	rec    *fw.Recorder
	r      *rand.Rand
	vals   []*valInfo
	users  []*chain.Account
	byHex  map[string]*valInfo
	stakeClass string

	// model of what the workload did (independent of MissingChains / GetValidatorChainInfos)
	known  map[string]uint64                           // chain ref -> chain id (support added, not removed)
	active map[string]bool                             // activated chains
	reg    map[string][]*valsettypes.ExternalChainInfo // val bech -> registered accounts
	deleg  map[string]map[string]*big.Int              // user bech -> val bech -> delegated amount (model)
	nextChain int

	// monitor memory
	seenIDs     map[uint64][]byte   // id -> canonical bytes without Chains
	seenChains  map[uint64][]string // id -> chains list last seen
	maxID       uint64
	seenMsgs    map[string]bool // chain/msgid/valsetid
	builtKeys   map[string]bool
	jumped      bool
	ops         int
}

func (h *hist) viol(sig, msg string, w map[string]any) {
	if w == nil {
		w = map[string]any{}
	}
	w["height"] = h.c.Height
	w["stake_class"] = h.stakeClass
	h.rec.Violation(sig, msg, w)
}

// reference membership from the staking module's own records + the workload model
func (h *hist) reference(ctx sdk.Context) *refState {
	rs := &refState{Members: map[string]refMember{}, Excluded: map[string]string{}}
	for cref := range h.active {
		if h.active[cref] {
			rs.Active = append(rs.Active, cref)
		}
	}
	sort.Strings(rs.Active)
	vs, err := h.c.App.StakingKeeper.GetAllValidators(ctx)
	if err != nil {
		panic(err)
	}
	for _, v := range vs {
		va, err := sdk.ValAddressFromBech32(v.OperatorAddress)
		if err != nil {
			panic(err)
		}
		hx := hex.EncodeToString(va)
		switch {
		case v.Jailed:
			rs.Excluded[hx] = "jailed"
			if v.Status == stakingtypes.Bonded {
				rs.Excluded[hx] = "jailed-still-bonded"
			}
			continue
		case v.Status != stakingtypes.Bonded:
			rs.Excluded[hx] = "not-bonded"
			continue
		}
		missing := ""
		for _, cref := range rs.Active {
			has := false
			for _, e := range h.reg[v.OperatorAddress] {
				if e.ChainReferenceID == cref {
					has = true
				}
			}
			if !has {
				missing = cref
				break
			}
		}
		if missing != "" {
			rs.Excluded[hx] = "no-account-on-active-chain"
			continue
		}
		rs.Members[hx] = refMember{Tokens: v.Tokens.BigInt()}
	}
	return rs
}

// the model of registrations / active chains must agree with what the chain stores, otherwise the
// reference would be about a different world (harness error, not a verdict)
func (h *hist) modelDrift(ctx sdk.Context) string {
	act := sortedCopy(h.c.App.EvmKeeper.GetActiveChainNames(ctx))
	var mine []string
	for c, a := range h.active {
		if a {
			mine = append(mine, c)
		}
	}
	sort.Strings(mine)
	if strings.Join(act, ",") != strings.Join(mine, ",") {
		return fmt.Sprintf("active chains: chain says %v, model %v", act, mine)
	}
	for _, v := range h.vals {
		if !v.Joined {
			continue
		}
		infos, err := h.c.App.ValsetKeeper.GetValidatorChainInfos(ctx, v.Acct.ValAddr())
		if err != nil {
			return err.Error()
		}
		want := h.reg[v.Acct.ValBech()]
		if len(infos) != len(want) {
			return fmt.Sprintf("registrations of %s: chain has %d, model %d", v.Acct.Name, len(infos), len(want))
		}
		for i := range infos {
			if infos[i].ChainReferenceID != want[i].ChainReferenceID || infos[i].Address != want[i].Address {
				return fmt.Sprintf("registrations of %s differ at %d", v.Acct.Name, i)
			}
		}
	}
	return ""
}

func snapBytesNoChains(s *valsettypes.Snapshot) []byte {
	cp := *s
	cp.Chains = nil
	bz, err := cp.Marshal()
	if err != nil {
		panic(err)
	}
	return bz
}

// storedSnapshots reads the valset store prefix "snapshot" directly (id -> raw value)
func (h *hist) storedSnapshots(ctx sdk.Context) (ids []uint64, raw map[uint64][]byte) {
	raw = map[uint64][]byte{}
	st := h.c.KVStore(ctx, valsettypes.StoreKey)
	pfx := []byte("snapshot")
	it := storetypes.KVStorePrefixIterator(st, pfx)
	defer it.Close()
	for ; it.Valid(); it.Next() {
		k := it.Key()[len(pfx):]
		if len(k) != 8 {
			continue
		}
		id := binary.BigEndian.Uint64(k)
		ids = append(ids, id)
		raw[id] = append([]byte(nil), it.Value()...)
	}
	sort.Slice(ids, func(i, j int) bool { return ids[i] < ids[j] })
	return
}

func snapWitness(s *valsettypes.Snapshot) map[string]any {
	var vs []map[string]any
	for _, v := range s.Validators {
		var accs []string
		for _, e := range v.ExternalChainInfos {
			accs = append(accs, e.ChainReferenceID+"="+e.Address)
		}
		vs = append(vs, map[string]any{"val": hex.EncodeToString(v.Address), "share": v.ShareCount.String(), "accounts": accs})
	}
	return map[string]any{"id": s.Id, "height": s.Height, "total": s.TotalShares.String(), "chains": s.Chains, "validators": vs}
}

// checkFaithful: a freshly stored snapshot against the reference taken at build time
func (h *hist) checkFaithful(s *valsettypes.Snapshot, ref *refState, where string) {
	h.rec.Eval(1)
	h.rec.Count("snapshots_checked_against_reference", 1)
	got := map[string]*big.Int{}
	sum := new(big.Int)
	for _, v := range s.Validators {
		hx := hex.EncodeToString(v.Address)
		if _, dup := got[hx]; dup {
			h.viol("snapshot/validator-listed-twice", fmt.Sprintf("%s: snapshot %d lists %s twice", where, s.Id, hx), map[string]any{"snapshot": snapWitness(s)})
		}
		got[hx] = v.ShareCount.BigInt()
		sum.Add(sum, v.ShareCount.BigInt())
	}
	var extra, missing []string
	for hx := range got {
		if _, ok := ref.Members[hx]; !ok {
			why := ref.Excluded[hx]
			if why == "" {
				why = "unknown-validator"
			}
			extra = append(extra, hx+"("+why+")")
		}
	}
	for hx := range ref.Members {
		if _, ok := got[hx]; !ok {
			missing = append(missing, hx)
		}
	}
	sort.Strings(extra)
	sort.Strings(missing)
	if len(extra) > 0 {
		// signature by the reason the first extra member should have been left out
		reason := extra[0][strings.Index(extra[0], "(")+1 : len(extra[0])-1]
		h.viol("snapshot/lists-validator-that-is-"+reason,
			fmt.Sprintf("%s: snapshot %d (height %d) lists %v; active chains %v", where, s.Id, s.Height, extra, ref.Active),
			map[string]any{"snapshot": snapWitness(s), "extra": extra, "active_chains": ref.Active})
	}
	if len(missing) > 0 {
		h.viol("snapshot/omits-eligible-validator",
			fmt.Sprintf("%s: snapshot %d (height %d) omits bonded, unjailed, fully registered validators %v", where, s.Id, s.Height, missing),
			map[string]any{"snapshot": snapWitness(s), "missing": missing, "active_chains": ref.Active})
	}
	for hx, sh := range got {
		if m, ok := ref.Members[hx]; ok && m.Tokens.Cmp(sh) != 0 {
			h.viol("snapshot/share-differs-from-bonded-stake",
				fmt.Sprintf("%s: snapshot %d: validator %s share %s, bonded tokens %s", where, s.Id, hx, sh, m.Tokens),
				map[string]any{"snapshot": snapWitness(s)})
		}
	}
	if sum.Cmp(s.TotalShares.BigInt()) != 0 {
		h.viol("snapshot/total-differs-from-sum-of-shares",
			fmt.Sprintf("%s: snapshot %d: total %s, sum of shares %s", where, s.Id, s.TotalShares, sum),
			map[string]any{"snapshot": snapWitness(s)})
	}
	// coverage of the filter
	ex := map[string]int{}
	for _, why := range ref.Excluded {
		ex[why]++
	}
	for why, n := range ex {
		if n > 0 {
			h.rec.Count("builds_excluding_"+why, 1)
		}
	}
	if len(ref.Active) > 0 {
		h.rec.Count("builds_with_active_chains", 1)
	}
	if len(got) >= 2 {
		eq := false
		seen := map[string]bool{}
		for _, sh := range got {
			if seen[sh.String()] {
				eq = true
			}
			seen[sh.String()] = true
		}
		if eq {
			h.rec.Count("builds_with_equal_shares", 1)
		}
	}
	if sum.Cmp(two53) >= 0 {
		h.rec.Count("builds_with_total>=2^53", 1)
	}
	// distinct content
	var keys []string
	for hx, sh := range got {
		keys = append(keys, hx[:8]+"="+sh.String())
	}
	sort.Strings(keys)
	key := "s/" + strings.Join(keys, ",") + "|" + strings.Join(ref.Active, ",")
	if len(got) >= 2 {
		h.rec.Distinct(key)
	}
}

// observe runs all block-boundary oracles. ref = reference state at the time new snapshots of this
// step were built (nil: no build can have happened).
func (h *hist) observe(ctx sdk.Context, ref *refState, where string, countNew bool) {
	ids, raw := h.storedSnapshots(ctx)
	present := map[uint64]bool{}
	var storeMax uint64
	for _, id := range ids {
		present[id] = true
		if id > storeMax {
			storeMax = id
		}
		s := &valsettypes.Snapshot{}
		if err := s.Unmarshal(raw[id]); err != nil {
			h.viol("snapshot/stored-bytes-undecodable", fmt.Sprintf("%s: id %d: %v", where, id, err), nil)
			continue
		}
		if s.Id != id {
			h.viol("snapshot/id-field-differs-from-key", fmt.Sprintf("%s: key %d holds snapshot with id %d", where, id, s.Id), nil)
		}
		canon := snapBytesNoChains(s)
		old, known := h.seenIDs[id]
		if !known {
			// a new snapshot
			if id <= h.maxID {
				h.viol("snapshot/new-id-not-above-all-earlier-ids", fmt.Sprintf("%s: new snapshot id %d although id %d was already issued", where, id, h.maxID), map[string]any{"snapshot": snapWitness(s)})
			}
			h.rec.Eval(1)
			if countNew {
				h.rec.Count("snapshots_built", 1)
				h.rec.Sample(map[string]any{"mode": "hist", "built": snapWitness(s), "where": where})
			}
			if ref != nil {
				h.checkFaithful(s, ref, where)
			} else {
				h.viol("snapshot/appeared-without-build", fmt.Sprintf("%s: snapshot %d appeared in a step where no build was expected", where, id), map[string]any{"snapshot": snapWitness(s)})
			}
			h.seenIDs[id] = canon
			h.seenChains[id] = append([]string(nil), s.Chains...)
			if id > h.maxID {
				h.maxID = id
			}
			continue
		}
		// immutability
		h.rec.Eval(1)
		h.rec.Count("immutability_rechecks", 1)
		if !bytes.Equal(old, canon) {
			h.viol("snapshot/stored-snapshot-changed", fmt.Sprintf("%s: stored snapshot %d changed (other than its chain list)", where, id),
				map[string]any{"now": snapWitness(s), "before_sha": shortHash(old), "now_sha": shortHash(canon)})
			h.seenIDs[id] = canon
		}
		prev := h.seenChains[id]
		okPrefix := len(s.Chains) >= len(prev)
		if okPrefix {
			for i := range prev {
				if prev[i] != s.Chains[i] {
					okPrefix = false
				}
			}
		}
		if !okPrefix {
			h.viol("snapshot/chain-list-lost-an-entry", fmt.Sprintf("%s: snapshot %d chain list went from %v to %v", where, id, prev, s.Chains), nil)
		} else if len(s.Chains) > len(prev) {
			h.rec.Count("snapshot_chain_activations", int64(len(s.Chains)-len(prev)))
		}
		h.seenChains[id] = append([]string(nil), s.Chains...)
	}
	for id := range h.seenIDs {
		if !present[id] {
			h.viol("snapshot/stored-snapshot-disappeared", fmt.Sprintf("%s: snapshot %d is gone", where, id), nil)
			delete(h.seenIDs, id)
		}
	}
	// current = highest id
	if storeMax > 0 {
		h.rec.Eval(1)
		h.rec.Count("current_snapshot_checks", 1)
		cur, err := h.c.App.ValsetKeeper.GetCurrentSnapshot(ctx)
		switch {
		case err != nil || cur == nil:
			h.viol("snapshot/current-unavailable", fmt.Sprintf("%s: GetCurrentSnapshot = %v, %v with %d stored", where, cur, err, len(ids)), nil)
		case cur.Id != storeMax:
			h.viol("snapshot/current-is-not-highest-id", fmt.Sprintf("%s: current snapshot id %d, highest stored id %d", where, cur.Id, storeMax), nil)
		default:
			bz, _ := cur.Marshal()
			if !bytes.Equal(bz, raw[storeMax]) {
				h.viol("snapshot/current-differs-from-stored", fmt.Sprintf("%s: current snapshot content differs from stored id %d", where, storeMax), nil)
			}
		}
	}
	h.scanQueues(ctx, where)
}

func shortHash(b []byte) string {
	s := sha256.Sum256(b)
	return hex.EncodeToString(s[:8])
}

// scanQueues checks every UpdateValset message not seen before
func (h *hist) scanQueues(ctx sdk.Context, where string) {
	for cref := range h.known {
		ms, ok := readValsetMessages(h.c, ctx, cref)
		if !ok {
			continue
		}
		for _, m := range ms {
			key := fmt.Sprintf("%s/%d/%d", cref, m.MsgID, m.Valset.ValsetID)
			if h.seenMsgs[key] {
				continue
			}
			h.seenMsgs[key] = true
			h.rec.Eval(1)
			h.rec.Count("valset_messages_checked", 1)
			h.rec.Count("hist_valset_messages_checked", 1)
			s, err := h.c.App.ValsetKeeper.FindSnapshotByID(ctx, m.Valset.ValsetID)
			if err != nil || s == nil {
				h.viol("valset/refers-to-unknown-snapshot", fmt.Sprintf("%s: UpdateValset for %s with id %d: %v", where, cref, m.Valset.ValsetID, err), nil)
				continue
			}
			issues, rv := compareProjection(s, cref, m.Valset)
			w := map[string]any{"chain": cref, "msg_id": m.MsgID, "snapshot": snapWitness(s), "got_validators": m.Valset.Validators, "got_powers": m.Valset.Powers, "where": where}
			for _, is := range issues {
				h.viol(is.Sig, where+": enqueued UpdateValset: "+is.Msg, w)
			}
			if rv.Sum.Cmp(threshold) < 0 {
				h.viol(gateSignature(m.Valset),
					fmt.Sprintf("%s: UpdateValset %d enqueued for %s although the rounded-down powers sum to %s < 2863311530 (sent powers sum %s)", where, s.Id, cref, rv.Sum, sumPowers(m.Valset)), w)
			}
			if len(rv.Entries) < len(s.Validators) {
				h.rec.Count("hist_valset_restricted_to_subset", 1)
			}
			if s.Id != h.maxID {
				h.rec.Count("hist_valset_of_older_snapshot", 1)
			}
		}
		h.scanUploads(ctx, cref, where)
	}
}

// scanUploads: a compass deployment carries, as constructor argument, the validator set the new compass
// starts with on that chain - a validator set sent to a remote chain like an UpdateValset, and gated by the
// same isEnoughToReachConsensus. Same projection oracle, same gate. Remote addresses come back from the ABI
// as 20 raw bytes, so they are matched with the accounts of the snapshot case-insensitively.
func (h *hist) scanUploads(ctx sdk.Context, cref, where string) {
	ups, ok := readUploadMessages(h.c, ctx, cref)
	if !ok {
		return
	}
	for _, u := range ups {
		key := fmt.Sprintf("upload/%s/%d/%d", cref, u.MsgID, u.ContractID)
		if h.seenMsgs[key] {
			continue
		}
		h.seenMsgs[key] = true
		if u.Err != "" {
			h.rec.Count("hist_upload_messages_not_decodable", 1)
			continue
		}
		h.rec.Eval(1)
		h.rec.Count("valset_messages_checked", 1)
		h.rec.Count("hist_upload_valsets_checked", 1)
		if !u.Valset.ValsetId.IsUint64() {
			h.viol("valset/refers-to-unknown-snapshot", fmt.Sprintf("%s: compass deployment %d for %s carries valset id %s", where, u.ContractID, cref, u.Valset.ValsetId), nil)
			continue
		}
		s, err := h.c.App.ValsetKeeper.FindSnapshotByID(ctx, u.Valset.ValsetId.Uint64())
		if err != nil || s == nil {
			h.viol("valset/refers-to-unknown-snapshot", fmt.Sprintf("%s: compass deployment %d for %s with valset id %s: %v", where, u.ContractID, cref, u.Valset.ValsetId, err), nil)
			continue
		}
		pre := refProject(s, cref)
		got := &evmtypes.Valset{ValsetID: u.Valset.ValsetId.Uint64()}
		tooBig := false
		for i, a := range u.Valset.Validators {
			name := a.Hex()
			for known := range pre.ByAddr {
				if strings.EqualFold(known, name) {
					name = known
					break
				}
			}
			got.Validators = append(got.Validators, name)
			if i < len(u.Valset.Powers) {
				if !u.Valset.Powers[i].IsUint64() {
					tooBig = true
					got.Powers = append(got.Powers, ^uint64(0))
				} else {
					got.Powers = append(got.Powers, u.Valset.Powers[i].Uint64())
				}
			}
		}
		for i := len(u.Valset.Validators); i < len(u.Valset.Powers); i++ {
			got.Powers = append(got.Powers, 0) // length mismatch is reported by compareProjection
		}
		w := map[string]any{"chain": cref, "msg_id": u.MsgID, "smart_contract_id": u.ContractID, "snapshot": snapWitness(s), "got_validators": got.Validators, "got_powers": got.Powers, "where": where}
		if tooBig {
			h.viol("valset/power-not-floor/gross", where+": compass deployment carries a power above 2^64", w)
			continue
		}
		issues, rv := compareProjection(s, cref, got)
		for _, is := range issues {
			h.viol(is.Sig, where+": compass deployment (constructor valset): "+is.Msg, w)
		}
		if rv.Sum.Cmp(threshold) < 0 {
			h.viol(gateSignature(got),
				fmt.Sprintf("%s: compass %d deployment with valset %d enqueued for %s although the rounded-down powers sum to %s < 2863311530 (sent powers sum %s)", where, u.ContractID, s.Id, cref, rv.Sum, sumPowers(got)), w)
		}
		if len(rv.Entries) < len(s.Validators) {
			h.rec.Count("hist_upload_valset_restricted_to_subset", 1)
		}
		if h.active[cref] {
			h.rec.Count("hist_upload_valset_to_active_chain", 1)
		}
	}
}

// compassProbe: on a throw-away fork a NEW compass version is released through the calls the governance
// handler makes for DeployNewSmartContractProposal (SaveNewSmartContract + SetAsCompassContract); the evm
// module then queues one deployment per chain, each carrying the current snapshot projected to that chain.
// Before that every known chain gets a fee manager (SetFeeManagerAddressProposal's keeper call; without it
// the deployment is refused before the gate is reached), and in every second probe a known but inactive
// chain is activated on the fork first, so that the current snapshot predates the activation and may contain
// validators without an account there. The probe draws nothing from the history's PRNG and writes nothing
// to the working state: histories are bit-identical with and without it.
func (h *hist) compassProbe() {
	fork := h.c.Fork(h.c.Height+1, h.c.Time.Add(2*time.Second))
	where := "compass-upgrade-probe"
	ek := h.c.App.EvmKeeper
	err := func() (err error) {
		defer func() {
			if e := recover(); e != nil {
				err = fmt.Errorf("panic: %v", e)
			}
		}()
		for _, cref := range h.knownSorted() {
			_ = ek.SetFeeManagerAddress(fork, cref, "0x00000000000000000000000000000000000000fe")
		}
		if (h.c.Height/10)%2 == 0 {
			var cands []string
			for _, c := range h.knownSorted() {
				if !h.active[c] {
					cands = append(cands, c)
				}
			}
			if len(cands) > 0 {
				cref := cands[int(h.c.Height/20)%len(cands)]
				idx := 0
				for i, cd := range allChains {
					if cd.Ref == cref {
						idx = i
					}
				}
				if sc, e := ek.GetLastCompassContract(fork); e == nil {
					if e := ek.ActivateChainReferenceID(fork, cref, sc, compassAddr(idx), []byte("compass-"+cref)); e == nil {
						where = "compass-upgrade-probe-after-activation"
						h.rec.Count("compass_probe_activations", 1)
					}
				}
			}
		}
		sc, e := ek.SaveNewSmartContract(fork, chain.CompassABI(), []byte("c10 probe compass "+fmt.Sprint(h.c.Height)))
		if e != nil {
			return e
		}
		if e := ek.SetAsCompassContract(fork, sc); e != nil {
			h.rec.Count("compass_probe_set_as_compass_errors", 1) // refusals of single chains are reported as a group error
		}
		return nil
	}()
	h.rec.Count("compass_probes", 1)
	if err != nil {
		h.rec.Count("compass_probe_errors", 1)
		return
	}
	if cur, e := h.c.App.ValsetKeeper.GetCurrentSnapshot(fork); e == nil && cur != nil {
		for _, cref := range h.knownSorted() {
			if refProject(cur, cref).Sum.Cmp(threshold) < 0 {
				h.rec.Count("compass_probe_chain_below_two_thirds", 1)
			}
		}
	}
	save := h.snapshotMemory()
	for _, cref := range h.knownSorted() {
		h.scanUploads(fork, cref, where)
	}
	h.restoreMemory(save)
}

// ---------------------------------------------------------------------------------------------
// workload

func (h *hist) joinedVals() []*valInfo {
	var out []*valInfo
	for _, v := range h.vals {
		if v.Joined {
			out = append(out, v)
		}
	}
	return out
}

func (h *hist) stakingVal(v *valInfo) (stakingtypes.Validator, bool) {
	sv, err := h.c.App.StakingKeeper.GetValidator(h.c.Ctx(), v.Acct.ValAddr())
	if err != nil {
		return stakingtypes.Validator{}, false
	}
	return sv, true
}

func (h *hist) extInfo(v *valInfo, cref string, k int) *valsettypes.ExternalChainInfo {
	if k == 0 {
		return world.ExtInfo(v.Acct, cref)
	}
	// a second account of the same validator on the same chain
	hs := sha256.Sum256([]byte(fmt.Sprintf("%s/%s/%d", v.Acct.Name, cref, k)))
	a := "0x" + hex.EncodeToString(hs[:20])
	return &valsettypes.ExternalChainInfo{ChainType: "evm", ChainReferenceID: cref, Address: a, Pubkey: []byte(a)}
}

type pendingTx struct {
	kind string
	then func(ok bool)
}

// direct write on the working state, followed by the oracles
func (h *hist) afterDirect(where string) {
	h.observe(h.c.Ctx(), nil, where, false)
}

func (h *hist) knownSorted() []string {
	var out []string
	for c := range h.known {
		out = append(out, c)
	}
	sort.Strings(out)
	return out
}

func (h *hist) activeSorted() []string {
	var out []string
	for c, a := range h.active {
		if a {
			out = append(out, c)
		}
	}
	sort.Strings(out)
	return out
}

func (h *hist) addChain() {
	if h.nextChain >= len(allChains) {
		return
	}
	cd := allChains[h.nextChain]
	h.nextChain++
	content := &evmtypes.AddChainProposal{Title: "add " + cd.Ref, Description: "d", ChainReferenceID: cd.Ref, ChainID: cd.ID,
		BlockHeight: 100, BlockHashAtHeight: "0x" + strings.Repeat("cd", 32), MinOnChainBalance: "0"}
	h.rec.Op(map[string]any{"op": "gov-add-chain", "chain": cd.Ref, "h": h.c.Height})
	if err := h.govLegacy(content); err != nil {
		h.rec.Count("op_add_chain_rejected", 1)
		return
	}
	h.rec.Count("op_add_chain", 1)
	h.known[cd.Ref] = cd.ID
	h.afterDirect("after gov add chain " + cd.Ref)
}

func (h *hist) govLegacy(content interface {
	Reset()
	String() string
	ProtoMessage()
}) error {
	any, err := codectypes.NewAnyWithValue(content)
	if err != nil {
		return err
	}
	_, err = h.c.Direct(&govv1.MsgExecLegacyContent{Content: any, Authority: chain.GovAuthority()}, h.c.Height, h.c.Time)
	return err
}

func (h *hist) activateChain() {
	var cands []string
	for _, c := range h.knownSorted() {
		if !h.active[c] {
			cands = append(cands, c)
		}
	}
	if len(cands) == 0 {
		return
	}
	cref := cands[h.r.Intn(len(cands))]
	idx := 0
	for i, cd := range allChains {
		if cd.Ref == cref {
			idx = i
		}
	}
	h.rec.Op(map[string]any{"op": "activate-chain", "chain": cref, "h": h.c.Height})
	if err := world.ActivateChain(h.c, cref, compassAddr(idx), []byte("compass-"+cref)); err != nil {
		h.rec.Count("op_activate_chain_rejected", 1)
		return
	}
	h.rec.Count("op_activate_chain", 1)
	h.active[cref] = true
	h.afterDirect("after activation of " + cref)
}

func (h *hist) removeChain() {
	ks := h.knownSorted()
	if len(ks) <= 1 {
		return
	}
	cref := ks[h.r.Intn(len(ks))]
	h.rec.Op(map[string]any{"op": "gov-remove-chain", "chain": cref, "h": h.c.Height})
	if err := h.govLegacy(&evmtypes.RemoveChainProposal{Title: "rm", Description: "d", ChainReferenceID: cref}); err != nil {
		h.rec.Count("op_remove_chain_rejected", 1)
		return
	}
	h.rec.Count("op_remove_chain", 1)
	delete(h.known, cref)
	delete(h.active, cref)
	h.afterDirect("after gov remove chain " + cref)
}

// attested delivery of a queued UpdateValset: the snapshot becomes live on that chain
func (h *hist) deliverValset() {
	ctx := h.c.Ctx()
	var all []sentValset
	for _, cref := range h.knownSorted() {
		ms, ok := readValsetMessages(h.c, ctx, cref)
		if ok {
			all = append(all, ms...)
		}
	}
	if len(all) == 0 {
		return
	}
	m := all[h.r.Intn(len(all))]
	if h.r.Intn(3) == 0 && h.deliverValsetAttested(m) {
		return
	}
	h.rec.Op(map[string]any{"op": "deliver-valset", "chain": m.Chain, "valset": m.Valset.ValsetID, "h": h.c.Height})
	if err := h.c.App.ValsetKeeper.SetSnapshotOnChain(ctx, m.Valset.ValsetID, m.Chain); err != nil {
		h.rec.Count("op_deliver_valset_rejected", 1)
		return
	}
	_ = h.c.App.ConsensusKeeper.DeleteJob(ctx, world.TurnstoneQueue(m.Chain), m.MsgID)
	h.rec.Count("op_deliver_valset", 1)
	h.afterDirect(fmt.Sprintf("after SetSnapshotOnChain(%d,%s)", m.Valset.ValsetID, m.Chain))
}

// deliverValsetAttested: the REAL life cycle of a queued UpdateValset with honest pigeons
// (world.DeliverMessage: gas estimates, signatures, relay with a really signed remote tx, evidence
// by all, attestation in the consensus end-blocker -> attest_update_valset.go -> SetSnapshotOnChain).
// Takes ~5 blocks, therefore only started when no build height is near; the oracles run over the
// result afterwards (every stored id is re-read, so the activation is seen).
func (h *hist) deliverValsetAttested(m sentValset) bool {
	next := h.c.Height + 1
	if next%50 == 0 || next%50 > 40 || h.c.PendingCount() > 0 {
		return false // (txs already queued for the next block would be swallowed by the helper's blocks)
	}
	ctx := h.c.Ctx()
	cur, err := h.c.App.ValsetKeeper.GetCurrentSnapshot(ctx)
	if err != nil || cur == nil {
		return false
	}
	// pigeons: members of the current snapshot that are still bonded and unjailed
	var pigeons []*chain.Account
	have := new(big.Int)
	for _, v := range cur.Validators {
		vi := h.byHex[hex.EncodeToString(v.Address)]
		if vi == nil {
			continue
		}
		if sv, ok := h.stakingVal(vi); ok && !sv.Jailed && sv.Status == stakingtypes.Bonded && len(accountsOn(&v, m.Chain)) == 1 {
			pigeons = append(pigeons, vi.Acct)
			have.Add(have, v.ShareCount.BigInt())
		}
	}
	// need a comfortable 2/3 of the current snapshot
	if new(big.Int).Mul(have, big.NewInt(4)).Cmp(new(big.Int).Mul(cur.TotalShares.BigInt(), big.NewInt(3))) < 0 {
		return false
	}
	h.rec.Op(map[string]any{"op": "deliver-valset-attested", "chain": m.Chain, "valset": m.Valset.ValsetID, "msg": m.MsgID, "h": h.c.Height})
	before := h.c.Height
	_, derr := func() (rtx *world.RemoteTx, err error) {
		defer func() {
			if e := recover(); e != nil {
				err = fmt.Errorf("panic: %v", e)
			}
		}()
		return world.DeliverMessage(h.c, pigeons, m.Chain, h.known[m.Chain], m.MsgID, 1)
	}()
	h.rec.Count("blocks", h.c.Height-before)
	if derr != nil {
		h.rec.Count("op_deliver_valset_attested_rejected", 1)
		if h.ops < 0 {
			fmt.Println("attested delivery:", derr)
		}
	} else {
		h.rec.Count("op_deliver_valset_attested", 1)
	}
	h.observe(h.c.Ctx(), nil, fmt.Sprintf("after attested delivery of UpdateValset %d to %s (blocks %d-%d)", m.Valset.ValsetID, m.Chain, before+1, h.c.Height), true)
	return true
}

// first deployment on a chain without snapshot: the upload attestation marks the CURRENT snapshot live
func (h *hist) firstDeployment() {
	ctx := h.c.Ctx()
	act := h.activeSorted()
	if len(act) == 0 {
		return
	}
	cref := act[h.r.Intn(len(act))]
	if s, err := h.c.App.ValsetKeeper.GetLatestSnapshotOnChain(ctx, cref); err == nil && s != nil {
		return
	}
	cur, err := h.c.App.ValsetKeeper.GetCurrentSnapshot(ctx)
	if err != nil || cur == nil {
		return
	}
	h.rec.Op(map[string]any{"op": "first-deployment", "chain": cref, "valset": cur.Id, "h": h.c.Height})
	if err := h.c.App.ValsetKeeper.SetSnapshotOnChain(ctx, cur.Id, cref); err != nil {
		h.rec.Count("op_first_deployment_rejected", 1)
		return
	}
	h.rec.Count("op_first_deployment", 1)
	h.afterDirect(fmt.Sprintf("after first deployment SetSnapshotOnChain(%d,%s)", cur.Id, cref))
}

// what the scheduler does before every job: just-in-time valset update for the job's chain
func (h *hist) preJob() {
	act := h.activeSorted()
	if len(act) == 0 {
		return
	}
	cref := act[h.r.Intn(len(act))]
	ctx := h.c.Ctx()
	h.rec.Op(map[string]any{"op": "pre-job-jit", "chain": cref, "h": h.c.Height})
	before, _ := readValsetMessages(h.c, ctx, cref)
	err := func() (err error) {
		defer func() {
			if e := recover(); e != nil {
				err = fmt.Errorf("panic: %v", e)
			}
		}()
		cctx, write := ctx.CacheContext()
		if err := h.c.App.EvmKeeper.PreJobExecution(cctx, &schedulertypes.Job{ID: "j", Routing: schedulertypes.Routing{ChainType: "evm", ChainReferenceID: cref}}); err != nil {
			return err
		}
		write()
		return nil
	}()
	if err != nil {
		h.rec.Count("op_pre_job_rejected", 1)
		return
	}
	h.rec.Count("op_pre_job", 1)
	after, _ := readValsetMessages(h.c, ctx, cref)
	if len(after) > 0 && (len(before) == 0 || before[len(before)-1].MsgID != after[len(after)-1].MsgID) {
		h.rec.Count("jit_valset_messages", 1)
	}
	h.afterDirect("after PreJobExecution(" + cref + ")")
}

// a logic call in the queue: the evm end-blocker adds a just-in-time valset update if needed
func (h *hist) logicCall() {
	act := h.activeSorted()
	if len(act) == 0 {
		return
	}
	cref := act[h.r.Intn(len(act))]
	ctx := h.c.Ctx()
	ci, err := h.c.App.EvmKeeper.GetChainInfo(ctx, cref)
	if err != nil {
		return
	}
	h.rec.Op(map[string]any{"op": "logic-call", "chain": cref, "h": h.c.Height})
	cctx, write := ctx.CacheContext()
	_, err = h.c.App.EvmKeeper.AddSmartContractExecutionToConsensus(cctx, cref, string(ci.GetSmartContractUniqueID()), &evmtypes.SubmitLogicCall{
		HexContractAddress: "0x00000000000000000000000000000000000000aa", Abi: []byte("[]"), Payload: []byte{1, 2, 3},
		Deadline: h.c.Time.Add(10 * time.Minute).Unix(), SenderAddress: h.users[0].Addr,
	})
	if err != nil {
		h.rec.Count("op_logic_call_rejected", 1)
		return
	}
	write()
	h.rec.Count("op_logic_call", 1)
}

func (h *hist) directJail() {
	vs := h.joinedVals()
	v := vs[h.r.Intn(len(vs))]
	ctx := h.c.Ctx()
	h.rec.Op(map[string]any{"op": "jail", "val": v.Acct.Name, "h": h.c.Height})
	cctx, write := ctx.CacheContext()
	if err := h.c.App.ValsetKeeper.Jail(cctx, v.Acct.ValAddr(), "c10 workload"); err != nil {
		h.rec.Count("op_jail_rejected", 1)
		return
	}
	write()
	h.rec.Count("op_jail", 1)
	h.afterDirect("after Jail(" + v.Acct.Name + ")")
}

// forkProbe: what would a build produce right now (optionally right after another end-blocker
// jailed somebody in the same block)? Runs on a throw-away fork with the real TriggerSnapshotBuild.
func (h *hist) forkProbe() {
	fork := h.c.Fork(h.c.Height+1, h.c.Time.Add(2*time.Second))
	where := "fork-probe"
	if h.r.Intn(3) > 0 {
		// jail a member of the current snapshot first
		cur, _ := h.c.App.ValsetKeeper.GetCurrentSnapshot(fork)
		if cur != nil && len(cur.Validators) > 0 {
			cand := cur.Validators[h.r.Intn(len(cur.Validators))]
			if err := h.c.App.ValsetKeeper.Jail(fork, cand.Address, "c10 fork probe"); err == nil {
				where = "fork-probe-after-jail"
				h.rec.Count("fork_probe_jails", 1)
			}
		}
	}
	h.rec.Op(map[string]any{"op": where, "h": h.c.Height})
	ref := h.reference(fork)
	h.rec.Count("fork_probes", 1)
	var s *valsettypes.Snapshot
	err := func() (err error) {
		defer func() {
			if e := recover(); e != nil {
				err = fmt.Errorf("panic: %v", e)
			}
		}()
		s, err = h.c.App.ValsetKeeper.TriggerSnapshotBuild(fork)
		return err
	}()
	if err != nil {
		h.rec.Count("fork_probe_errors", 1)
		return
	}
	if s == nil {
		h.rec.Count("fork_probe_not_worthy", 1)
		return
	}
	h.rec.Count("fork_probe_builds", 1)
	// run the oracles on the fork with a throw-away copy of the monitor memory
	save := h.snapshotMemory()
	h.observe(fork, ref, where, false)
	h.restoreMemory(save)
}

type memory struct {
	seenIDs    map[uint64][]byte
	seenChains map[uint64][]string
	maxID      uint64
	seenMsgs   map[string]bool
}

func (h *hist) snapshotMemory() memory {
	m := memory{seenIDs: map[uint64][]byte{}, seenChains: map[uint64][]string{}, maxID: h.maxID, seenMsgs: map[string]bool{}}
	for k, v := range h.seenIDs {
		m.seenIDs[k] = v
	}
	for k, v := range h.seenChains {
		m.seenChains[k] = v
	}
	for k, v := range h.seenMsgs {
		m.seenMsgs[k] = v
	}
	return m
}

func (h *hist) restoreMemory(m memory) {
	h.seenIDs, h.seenChains, h.maxID, h.seenMsgs = m.seenIDs, m.seenChains, m.maxID, m.seenMsgs
}

// ---- transactions (queued for the next block) ----

func (h *hist) amount() *big.Int {
	switch h.r.Intn(6) {
	case 0:
		return big.NewInt(1 + h.r.Int63n(1000))
	case 1:
		return big.NewInt(1_000_000 * (1 + h.r.Int63n(50)))
	case 2:
		if h.stakeClass == "huge" {
			return new(big.Int).Add(two53, big.NewInt(h.r.Int63n(1_000_000)))
		}
		return big.NewInt(1 + h.r.Int63n(100_000_000_000))
	default:
		return big.NewInt(1 + h.r.Int63n(30_000_000))
	}
}

func (h *hist) txDelegate(q *[]pendingTx, used map[string]bool) {
	u := h.users[h.r.Intn(len(h.users))]
	if used[u.Bech] {
		return
	}
	vs := h.joinedVals()
	v := vs[h.r.Intn(len(vs))]
	amt := h.amount()
	if h.r.Intn(4) == 0 && len(vs) >= 2 {
		// equalise: bring v up to the tokens of a richer validator
		o := vs[h.r.Intn(len(vs))]
		sv, ok1 := h.stakingVal(v)
		so, ok2 := h.stakingVal(o)
		if ok1 && ok2 && so.Tokens.GT(sv.Tokens) {
			amt = so.Tokens.Sub(sv.Tokens).BigInt()
			h.rec.Count("op_delegate_equalising", 1)
		}
	}
	bal := h.c.Balance(u.Addr, chain.Denom).BigInt()
	if bal.Cmp(amt) < 0 {
		return
	}
	used[u.Bech] = true
	msg := stakingtypes.NewMsgDelegate(u.Bech, v.Acct.ValBech(), sdk.NewCoin(chain.Denom, sdkmath.NewIntFromBigInt(amt)))
	h.rec.Op(map[string]any{"op": "delegate", "from": u.Name, "to": v.Acct.Name, "amt": amt.String(), "h": h.c.Height + 1})
	if err := h.c.QueueTx(u, 0, msg); err != nil {
		return
	}
	*q = append(*q, pendingTx{"delegate", func(ok bool) {
		if ok {
			if h.deleg[u.Bech] == nil {
				h.deleg[u.Bech] = map[string]*big.Int{}
			}
			cur := h.deleg[u.Bech][v.Acct.ValBech()]
			if cur == nil {
				cur = new(big.Int)
			}
			h.deleg[u.Bech][v.Acct.ValBech()] = cur.Add(cur, amt)
		}
	}})
}

func (h *hist) txUndelegate(q *[]pendingTx, used map[string]bool) {
	u := h.users[h.r.Intn(len(h.users))]
	if used[u.Bech] {
		return
	}
	var vb []string
	for v, a := range h.deleg[u.Bech] {
		if a.Sign() > 0 {
			vb = append(vb, v)
		}
	}
	if len(vb) == 0 {
		return
	}
	sort.Strings(vb)
	v := vb[h.r.Intn(len(vb))]
	have := h.deleg[u.Bech][v]
	amt := new(big.Int).Set(have)
	if h.r.Intn(2) == 0 {
		amt = randBig(h.r, big.NewInt(1), have)
	}
	used[u.Bech] = true
	msg := stakingtypes.NewMsgUndelegate(u.Bech, v, sdk.NewCoin(chain.Denom, sdkmath.NewIntFromBigInt(amt)))
	h.rec.Op(map[string]any{"op": "undelegate", "from": u.Name, "val": v, "amt": amt.String(), "h": h.c.Height + 1})
	if err := h.c.QueueTx(u, 0, msg); err != nil {
		return
	}
	*q = append(*q, pendingTx{"undelegate", func(ok bool) {
		if ok {
			have.Sub(have, amt)
		}
	}})
}

func (h *hist) txRegister(q *[]pendingTx, used map[string]bool, v *valInfo, forceAll bool) {
	if used[v.Acct.Bech] {
		return
	}
	ks := h.knownSorted()
	var infos []*valsettypes.ExternalChainInfo
	mode := h.r.Intn(20)
	if forceAll {
		mode = 19
	}
	kind := "register"
	switch {
	case mode == 0 && len(ks) > 0:
		// leave one chain out
		skip := ks[h.r.Intn(len(ks))]
		for _, c := range ks {
			if c != skip {
				infos = append(infos, h.extInfo(v, c, 0))
			}
		}
		kind = "register_partial"
	case mode == 1 && len(ks) > 0:
		// two accounts on one chain
		dup := ks[h.r.Intn(len(ks))]
		for _, c := range ks {
			infos = append(infos, h.extInfo(v, c, 0))
			if c == dup {
				infos = append(infos, h.extInfo(v, c, 1))
			}
		}
		kind = "register_two_accounts_on_one_chain"
	case mode == 2:
		// also an account on a chain the network does not know (yet)
		for _, c := range ks {
			infos = append(infos, h.extInfo(v, c, 0))
		}
		if h.nextChain < len(allChains) {
			infos = append(infos, h.extInfo(v, allChains[h.nextChain].Ref, 0))
		}
		kind = "register_ahead"
	default:
		for _, c := range ks {
			infos = append(infos, h.extInfo(v, c, 0))
		}
	}
	used[v.Acct.Bech] = true
	msg := &valsettypes.MsgAddExternalChainInfoForValidator{Metadata: world.Meta(v.Acct), ChainInfos: infos}
	h.rec.Op(map[string]any{"op": kind, "val": v.Acct.Name, "n": len(infos), "h": h.c.Height + 1})
	if err := h.c.QueueTx(v.Acct, 0, msg); err != nil {
		return
	}
	*q = append(*q, pendingTx{kind, func(ok bool) {
		if ok {
			h.reg[v.Acct.ValBech()] = infos
		}
	}})
}

func (h *hist) txKeepAlive(q *[]pendingTx, used map[string]bool, v *valInfo) {
	if used[v.Acct.Bech] {
		return
	}
	used[v.Acct.Bech] = true
	h.rec.Op(map[string]any{"op": "keepalive", "val": v.Acct.Name, "h": h.c.Height + 1})
	if err := h.c.QueueTx(v.Acct, 0, world.MsgKeepAlive(v.Acct, world.PigeonVersion)); err != nil {
		return
	}
	*q = append(*q, pendingTx{"keepalive", nil})
}

func (h *hist) txUnjail(q *[]pendingTx, used map[string]bool) {
	var jailed []*valInfo
	for _, v := range h.joinedVals() {
		if sv, ok := h.stakingVal(v); ok && sv.Jailed && !used[v.Acct.Bech] {
			jailed = append(jailed, v)
		}
	}
	if len(jailed) == 0 {
		return
	}
	v := jailed[h.r.Intn(len(jailed))]
	used[v.Acct.Bech] = true
	h.rec.Op(map[string]any{"op": "unjail", "val": v.Acct.Name, "h": h.c.Height + 1})
	if err := h.c.QueueTx(v.Acct, 0, slashingtypes.NewMsgUnjail(v.Acct.ValBech())); err != nil {
		return
	}
	*q = append(*q, pendingTx{"unjail", nil})
}

func (h *hist) txCreateValidator(q *[]pendingTx, used map[string]bool) {
	var cand *valInfo
	for _, v := range h.vals {
		if v.Late && !v.Joined && !used[v.Acct.Bech] {
			cand = v
			break
		}
	}
	if cand == nil {
		return
	}
	amt := h.amount()
	if amt.Cmp(big.NewInt(1_000_000)) < 0 {
		amt = big.NewInt(1_000_000 + h.r.Int63n(40_000_000))
	}
	if h.c.Balance(cand.Acct.Addr, chain.Denom).BigInt().Cmp(amt) < 0 {
		return
	}
	msg, err := stakingtypes.NewMsgCreateValidator(cand.Acct.ValBech(), cand.Cons.PubKey(),
		sdk.NewCoin(chain.Denom, sdkmath.NewIntFromBigInt(amt)),
		stakingtypes.Description{Moniker: cand.Acct.Name},
		stakingtypes.NewCommissionRates(sdkmath.LegacyNewDecWithPrec(5, 2), sdkmath.LegacyOneDec(), sdkmath.LegacyNewDecWithPrec(1, 2)),
		sdkmath.OneInt())
	if err != nil {
		return
	}
	used[cand.Acct.Bech] = true
	h.rec.Op(map[string]any{"op": "create-validator", "val": cand.Acct.Name, "amt": amt.String(), "h": h.c.Height + 1})
	if err := h.c.QueueTx(cand.Acct, 0, msg); err != nil {
		return
	}
	*q = append(*q, pendingTx{"create_validator", func(ok bool) {
		if ok {
			cand.Joined = true
			h.byHex[hex.EncodeToString(cand.Acct.ValAddr())] = cand
		}
	}})
}

// ---------------------------------------------------------------------------------------------

func setMaxValidators(n int) func(gs map[string]json.RawMessage, _ chain.Codec) {
	return func(gs map[string]json.RawMessage, _ chain.Codec) {
		var st map[string]json.RawMessage
		if err := json.Unmarshal(gs["staking"], &st); err != nil {
			panic(err)
		}
		var params map[string]json.RawMessage
		if err := json.Unmarshal(st["params"], &params); err != nil {
			panic(err)
		}
		params["max_validators"] = json.RawMessage(fmt.Sprintf("%d", n))
		pb, _ := json.Marshal(params)
		st["params"] = pb
		sb, _ := json.Marshal(st)
		gs["staking"] = sb
	}
}

func genesisStakes(r *rand.Rand, variant int, n int) (string, []int64) {
	out := make([]int64, n)
	switch variant % 6 {
	case 0:
		for i := range out {
			out[i] = int64(10+r.Intn(40)) * 1_000_000
		}
		return "round", out
	case 1:
		s := int64(1+r.Intn(50)) * 1_000_000
		if r.Intn(2) == 0 {
			s = 1_000_000 + r.Int63n(1_000_000_000)
		}
		for i := range out {
			out[i] = s
		}
		return "equal", out
	case 2:
		out[0] = 1_000_000_000_000 + r.Int63n(1_000_000_000_000_000)
		for i := 1; i < n; i++ {
			out[i] = 1_000_000 + r.Int63n(5_000_000)
		}
		return "whale", out
	case 3:
		// one validator one ulp below an integer power (see direct.go), the others share the rest
		for {
			k := uint(27 + r.Intn(16))
			T := randBig(r, bigPow2(k), bigPow2(k+1))
			T.SetBit(T, 0, 1)
			inv := new(big.Int).ModInverse(two32, T)
			s := new(big.Int).Neg(inv)
			s.Mod(s, T)
			rest := new(big.Int).Sub(T, s)
			min := big.NewInt(int64(n) * 2_000_000)
			if s.Cmp(big.NewInt(2_000_000)) < 0 || rest.Cmp(min) < 0 {
				continue
			}
			out[0] = s.Int64()
			// split rest into n-1 parts of at least 1e6
			base := new(big.Int).Sub(rest, big.NewInt(int64(n-1)*1_000_000))
			parts := splitBig(r, base, n-1)
			if len(parts) != n-1 {
				continue
			}
			for i, p := range parts {
				out[i+1] = p.Int64() + 1_000_000
			}
			return "one-ulp", out
		}
	case 4:
		for i := range out {
			out[i] = (1 << 53) / int64(n)
			if i == 0 {
				out[i] += int64(r.Intn(2000)) - 1000
			}
		}
		if r.Intn(2) == 0 {
			for i := range out {
				out[i] = (1 << 59) + r.Int63n(1<<58)
			}
			out = out[:min(n, 6)]
		}
		return "huge", out
	default:
		for i := range out {
			out[i] = 1_000_000 + r.Int63n(200_000_000)
		}
		return "random", out
	}
}

func runHist(c fw.Case, tier string, rec *fw.Recorder) {
	var p histParams
	c.Decode(&p)
	r := c.Rand()

	nGen := 5 + r.Intn(4)
	class, stakes := genesisStakes(r, p.Variant, nGen)
	nGen = len(stakes)
	prefix := fmt.Sprintf("c10h-%d", c.Seed)
	vspecs := chain.DefaultValidators(prefix, stakes)
	h := &hist{rec: rec, r: r, stakeClass: class, byHex: map[string]*valInfo{},
		known: map[string]uint64{}, active: map[string]bool{}, reg: map[string][]*valsettypes.ExternalChainInfo{}, deleg: map[string]map[string]*big.Int{},
		seenIDs: map[uint64][]byte{}, seenChains: map[uint64][]string{}, seenMsgs: map[string]bool{}, builtKeys: map[string]bool{}}
	for i, vs := range vspecs {
		vi := &valInfo{Acct: vs.Acct, Cons: vs.Cons, Joined: true}
		// one or two silent validators (never the biggest ones: >25 % are protected anyway)
		if i >= 2 && r.Intn(4) == 0 {
			vi.Silent = true
		}
		h.vals = append(h.vals, vi)
		h.byHex[hex.EncodeToString(vs.Acct.ValAddr())] = vi
	}
	users := map[*chain.Account]sdk.Coins{}
	userBal := int64(1) << 50
	if class == "huge" {
		userBal = int64(1) << 58
	}
	for i := 0; i < 2; i++ {
		u := chain.NewAccount(fmt.Sprintf("user%d", i), fmt.Sprintf("%s/user/%d", prefix, i))
		users[u] = sdk.NewCoins(sdk.NewInt64Coin(chain.Denom, userBal))
		h.users = append(h.users, u)
	}
	for i := 0; i < 2; i++ {
		a := chain.NewAccount(fmt.Sprintf("late%d", i), fmt.Sprintf("%s/late/%d", prefix, i))
		users[a] = sdk.NewCoins(sdk.NewInt64Coin(chain.Denom, userBal))
		h.vals = append(h.vals, &valInfo{Acct: a, Cons: ed25519.GenPrivKeyFromSecret([]byte(fmt.Sprintf("%s/latecons/%d", prefix, i))), Late: true, Silent: r.Intn(3) == 0})
	}
	nChains := 2
	var specs []chain.EVMChainSpec
	for i := 0; i < nChains; i++ {
		specs = append(specs, chain.EVMChainSpec{RefID: allChains[i].Ref, ChainID: allChains[i].ID})
		h.known[allChains[i].Ref] = allChains[i].ID
	}
	h.nextChain = nChains
	cfg := chain.Config{Validators: vspecs, Users: users, EVMChains: specs, WithCompass: true}
	capped := p.Variant%3 == 1
	if capped {
		cfg.MutateGenesis = setMaxValidators(nGen - 1)
		rec.Count("histories_with_validator_cap", 1)
	}
	rec.Count("histories", 1)
	rec.Count("hist_stake_class_"+class, 1)
	rec.Op(map[string]any{"op": "genesis", "class": class, "stakes": stakes, "capped": capped})
	ch := chain.New(cfg)
	defer ch.Close()
	noTrace(ch)
	h.c = ch

	fail := func(br *chain.BlockResult) bool {
		if br.Panic != "" {
			first := br.Panic
			if i := strings.Index(first, "\n"); i > 0 {
				first = first[:i]
			}
			rec.Inconclusive(fmt.Sprintf("FinalizeBlock panicked at height %d: %s", ch.Height+1, first))
			fmt.Println(br.Panic)
			return true
		}
		if br.Err != nil {
			rec.Inconclusive(fmt.Sprintf("FinalizeBlock error at height %d: %v", ch.Height+1, br.Err))
			return true
		}
		return false
	}

	// block 1: the very first build (no active chain yet, nobody registered)
	// (the genesis state is not readable before the first commit; block 1 carries no transactions
	// and nothing is jailed before height 60, so the state after block 1 is the state at build time)
	if fail(ch.NextBlock()) {
		return
	}
	h.observe(ch.Ctx(), h.reference(ch.Ctx()), "block 1", true)

	// block 2: registrations, keep-alives, relayer fees (real txs)
	for _, v := range h.joinedVals() {
		seq := uint64(0)
		infos := []*valsettypes.ExternalChainInfo{}
		for _, cref := range h.knownSorted() {
			infos = append(infos, h.extInfo(v, cref, 0))
		}
		ch.QueueTx(v.Acct, seq, &valsettypes.MsgAddExternalChainInfoForValidator{Metadata: world.Meta(v.Acct), ChainInfos: infos})
		seq++
		if !v.Silent {
			ch.QueueTx(v.Acct, seq, world.MsgKeepAlive(v.Acct, world.PigeonVersion))
			seq++
		}
		fees := map[string]string{}
		for _, cd := range allChains {
			fees[cd.Ref] = "1.1"
		}
		ch.QueueTx(v.Acct, seq, world.MsgRelayerFee(v.Acct, fees))
		h.reg[v.Acct.ValBech()] = infos
	}
	br := ch.NextBlock()
	if fail(br) {
		return
	}
	for i, tr := range br.Txs {
		if !tr.OK() {
			rec.Inconclusive(fmt.Sprintf("bootstrap tx %d failed: %s", i, tr.Log))
			return
		}
	}
	h.observe(ch.Ctx(), nil, "block 2", true)
	// first chain active from the start, the second one some time later
	h.activateChainNamed(allChains[0].Ref)
	if p.Variant%5 == 0 {
		if !h.realGovAddChain() {
			return
		}
	}

	for ch.Height < int64(p.Blocks) {
		next := ch.Height + 1
		buildBlock := next%50 == 0
		beforeBuild := (next+1)%50 == 0 || buildBlock
		var q []pendingTx
		used := map[string]bool{}
		// stake classes whose point is the exact genesis stake vector: leave it alone until the
		// build at height 50 has projected it to the first active chain
		quiet := (class == "one-ulp" || class == "huge") && next <= 51
		if !buildBlock && !quiet {
			h.step(&q, used, beforeBuild)
		}
		if d := h.modelDrift(ch.Ctx()); d != "" {
			rec.Inconclusive("model drift: " + d)
			return
		}
		ref := h.reference(ch.Ctx())
		dt := 2 * time.Second
		switch x := h.r.Intn(200); {
		case x < 6:
			dt = time.Duration(1+h.r.Intn(20)) * time.Minute
		case x == 6 && !h.jumped && ch.Height > 120:
			dt = 31 * 24 * time.Hour // "keep warm": valsets older than 30 days are re-published
			h.jumped = true
			rec.Count("time_jumps_over_30_days", 1)
		}
		br := ch.NextBlockAfter(dt)
		if fail(br) {
			return
		}
		rec.Count("blocks", 1)
		for i, tr := range br.Txs {
			if i >= len(q) {
				break
			}
			if tr.OK() {
				rec.Count("tx_"+q[i].kind+"_ok", 1)
			} else {
				rec.Count("tx_"+q[i].kind+"_rejected", 1)
				if h.ops < 0 {
					fmt.Println(tr.Log)
				}
			}
			if q[i].then != nil {
				q[i].then(tr.OK())
			}
		}
		where := fmt.Sprintf("block %d", ch.Height)
		if len(q) == 0 {
			// no transactions: the staking state at build time is the state before the block
			h.observe(ch.Ctx(), ref, where, true)
		} else {
			// blocks with transactions are never build heights; a snapshot appearing here is reported
			h.observe(ch.Ctx(), nil, where, true)
		}
		if ch.Height%10 == 7 {
			h.compassProbe()
		}
		if rec.Violations() > 40 {
			break
		}
	}
	rec.Count("snapshot_ids_at_end", int64(h.maxID))
}

// plainBlock: one block without workload transactions of the step loop (used by set-up flows);
// the block-boundary oracles run as usual.
func (h *hist) plainBlock() (*chain.BlockResult, bool) {
	ref := h.reference(h.c.Ctx())
	br := h.c.NextBlock()
	if br.Panic != "" || br.Err != nil {
		h.rec.Inconclusive(fmt.Sprintf("block %d failed: %s %v", h.c.Height+1, br.Panic, br.Err))
		return br, false
	}
	h.rec.Count("blocks", 1)
	h.observe(h.c.Ctx(), ref, fmt.Sprintf("block %d", h.c.Height), true)
	return br, true
}

// realGovAddChain adds the next chain through a REAL governance round (signed MsgSubmitProposal
// carrying MsgExecLegacyContent{AddChainProposal}, signed votes of all validators, voting period,
// gov end-blocker), so that the direct-mode shortcut used elsewhere stays honest.
func (h *hist) realGovAddChain() bool {
	if h.nextChain >= len(allChains) {
		return true
	}
	cd := allChains[h.nextChain]
	content := &evmtypes.AddChainProposal{Title: "add " + cd.Ref, Description: "d", ChainReferenceID: cd.Ref, ChainID: cd.ID,
		BlockHeight: 100, BlockHashAtHeight: "0x" + strings.Repeat("cd", 32), MinOnChainBalance: "0"}
	packed, err := codectypes.NewAnyWithValue(content)
	if err != nil {
		h.rec.Inconclusive(err.Error())
		return false
	}
	sp, err := govv1.NewMsgSubmitProposal([]sdk.Msg{govv1.NewMsgExecLegacyContent(packed, chain.GovAuthority())},
		sdk.NewCoins(sdk.NewInt64Coin(chain.Denom, 10_000)), h.users[0].Bech, "", "add "+cd.Ref, "C10: add chain through governance", false)
	if err != nil {
		h.rec.Inconclusive(err.Error())
		return false
	}
	h.rec.Op(map[string]any{"op": "real-gov-add-chain", "chain": cd.Ref, "h": h.c.Height + 1})
	if err := h.c.QueueTx(h.users[0], 0, sp); err != nil {
		h.rec.Inconclusive(err.Error())
		return false
	}
	br, ok := h.plainBlock()
	if !ok {
		return false
	}
	if !br.Txs[0].OK() {
		h.rec.Inconclusive("submit proposal: " + br.Txs[0].Log)
		return false
	}
	pidStr, found := chain.EventAttr(br.Txs[0].Events, "submit_proposal", "proposal_id")
	if !found {
		h.rec.Inconclusive("no proposal id in events")
		return false
	}
	var pid uint64
	fmt.Sscanf(pidStr, "%d", &pid)
	for _, v := range h.joinedVals() {
		if err := h.c.QueueTx(v.Acct, 0, govv1.NewMsgVote(v.Acct.Addr, pid, govv1.OptionYes, "")); err != nil {
			h.rec.Inconclusive(err.Error())
			return false
		}
	}
	if _, ok := h.plainBlock(); !ok {
		return false
	}
	for i := 0; i < 30; i++ {
		p, err := h.c.App.GovKeeper.Proposals.Get(h.c.Ctx(), pid)
		if err != nil {
			h.rec.Inconclusive(err.Error())
			return false
		}
		switch p.Status {
		case govv1.StatusPassed:
			h.nextChain++
			h.known[cd.Ref] = cd.ID
			h.rec.Count("real_gov_chains_added", 1)
			return true
		case govv1.StatusFailed, govv1.StatusRejected:
			h.rec.Inconclusive(fmt.Sprintf("proposal %d ended with status %s: %s", pid, p.Status, p.FailedReason))
			return false
		}
		if (h.c.Height+1)%50 == 0 {
			h.rec.Inconclusive("real gov round reached a build height")
			return false
		}
		if _, ok := h.plainBlock(); !ok {
			return false
		}
	}
	h.rec.Inconclusive("proposal did not finish")
	return false
}

func (h *hist) activateChainNamed(cref string) {
	idx := 0
	for i, cd := range allChains {
		if cd.Ref == cref {
			idx = i
		}
	}
	h.rec.Op(map[string]any{"op": "activate-chain", "chain": cref, "h": h.c.Height})
	if err := world.ActivateChain(h.c, cref, compassAddr(idx), []byte("compass-"+cref)); err != nil {
		h.rec.Inconclusive("activate " + cref + ": " + err.Error())
		return
	}
	h.rec.Count("op_activate_chain", 1)
	h.active[cref] = true
	h.afterDirect("after activation of " + cref)
}

// step: the operations between two blocks. Direct operations act on the working state now,
// transactions are queued for the next block.
func (h *hist) step(q *[]pendingTx, used map[string]bool, beforeBuild bool) {
	n := 0
	switch x := h.r.Intn(10); {
	case x < 3:
		n = 0
	case x < 8:
		n = 1
	default:
		n = 2 + h.r.Intn(2)
	}
	// late joiners and fresh unjailed validators need their pigeon: register + keep-alive
	for _, v := range h.joinedVals() {
		if sv, ok := h.stakingVal(v); ok && !sv.Jailed && sv.Status == stakingtypes.Bonded && !v.Silent {
			if len(h.reg[v.Acct.ValBech()]) == 0 && h.r.Intn(3) == 0 {
				h.txRegister(q, used, v, true)
			} else if alive, err := h.c.App.ValsetKeeper.IsValidatorAlive(h.c.Ctx(), v.Acct.ValAddr()); (err != nil || !alive) && h.r.Intn(2) == 0 {
				h.txKeepAlive(q, used, v)
			}
		}
	}
	for i := 0; i < n; i++ {
		h.ops++
		switch x := h.r.Intn(100); {
		case x < 22:
			h.txDelegate(q, used)
		case x < 34:
			h.txUndelegate(q, used)
		case x < 44:
			vs := h.joinedVals()
			h.txRegister(q, used, vs[h.r.Intn(len(vs))], false)
		case x < 52:
			h.txUnjail(q, used)
		case x < 55:
			h.txCreateValidator(q, used)
		case x < 60:
			if !beforeBuild {
				h.directJail()
			}
		case x < 63:
			h.addChain()
		case x < 69:
			h.activateChain()
		case x < 70:
			if h.c.Height > 150 {
				h.removeChain()
			}
		case x < 80:
			h.deliverValset()
		case x < 84:
			h.firstDeployment()
		case x < 90:
			h.preJob()
		case x < 92:
			h.logicCall()
		default:
			h.forkProbe()
		}
	}
}
