// Package c10: validator snapshots are faithful, immutable and correctly projected to remote chains.
//
// Deciding step: the REAL application (chain.New -> app.App through ABCI, plus exported keeper
// calls on fork contexts) builds, stores, activates and projects snapshots while this package
// watches with an independent reference: membership / shares / totals from the staking state and
// a model of registrations and active chains, big-integer floor(2^32*share/total) powers, the
// hash of every stored snapshot id ever seen, and the compass quorum constant.
package c10

import (
	"fmt"

	"verif/harness/fw"
)

type modeParams struct {
	Mode string `json:"mode"` // direct | hist
}

func run(c fw.Case, tier string, rec *fw.Recorder) {
	var m modeParams
	c.Decode(&m)
	switch m.Mode {
	case "direct":
		runDirect(c, tier, rec)
	case "hist":
		runHist(c, tier, rec)
	default:
		rec.Inconclusive("unknown mode " + m.Mode)
	}
}

type directCase struct {
	Mode string `json:"mode"`
	directParams
}

type histCase struct {
	Mode string `json:"mode"`
	histParams
}

func cases(tier string, seed int64) []fw.Case {
	var cs []fw.Case
	nHist, blocks := 32, 300
	nDirect, perDirect := 10, 10_000
	if tier == "thorough" {
		nHist, blocks = 200, 600
		nDirect, perDirect = 32, 32_000
	}
	for i := 0; i < nHist; i++ {
		cs = append(cs, fw.MkCase(fmt.Sprintf("hist-%03d", i), seed*1_000_003+int64(i),
			histCase{Mode: "hist", histParams: histParams{Blocks: blocks, Variant: i}}))
	}
	for i := 0; i < nDirect; i++ {
		cs = append(cs, fw.MkCase(fmt.Sprintf("direct-%03d", i), seed*7_000_003+1000+int64(i),
			directCase{Mode: "direct", directParams: directParams{N: perDirect, AllowDup: true}}))
	}
	return cs
}

func init() {
	fw.Register(&fw.Prop{
		ID:    "C10",
		Level: "exploration",
		Rule: "hist cases: one real app per case driven through ABCI for N blocks (quick 300, thorough 600) with seeded staking churn (delegate / undelegate / create validator / jail / unjail), " +
			"registration churn of external accounts, chains added / activated / removed, snapshot activations on chains, >30-day time jumps and just-in-time valset updates; after every block every stored snapshot id is re-read and every UpdateValset message AND every compass deployment (UploadSmartContract, whose constructor carries the valset the new compass starts with) in the turnstone queues is compared with the reference projection and the two-thirds gate; " +
			"every tenth block a new compass version is released on a throw-away fork (the governance handler's SaveNewSmartContract + SetAsCompassContract, in every second probe after activating a known chain on the fork) and the deployments queued there are judged the same way. " +
			"direct cases: generated snapshots (stake-vector classes small-random, equal, almost-equal, whale, near-2^53, above-2^53, one-ulp-below-integer, quorum-boundary; random per-chain account patterns) " +
			"are projected by the real code (GetValsetByID on a stored copy, PublishSnapshotToAllChains with forcePublish on a fork of a bootstrapped chain). " +
			"distinct_nontrivial = distinct (stake vector, account pattern) pairs with >= 2 validators in direct cases + distinct (membership, shares, chains) contents of snapshots stored by end-blocker builds and fork-probe builds in hist cases; " +
			"evaluations = snapshot-vs-reference comparisons + immutability re-checks + projection comparisons + quorum-gate decisions",
		Assumptions: []string{
			"sum of shares < 2^63 (above that transformSnapshotToCompass panics in Int64(); that is C09's subject, nothing is sent)",
			"remote chains are of type evm; an account on a chain = an external chain info with that chain reference id",
			"blocks at snapshot-build heights (h%50==0) carry no transactions, so that the staking state at build time equals the state before the block (jailing by the liveness check happens after the build in the same end-blocker)",
			"on-chain activation of a snapshot is driven either through the full attested UpdateValset life cycle (world.DeliverMessage: estimates, signatures, relay, evidence, attestation) or directly through ValsetKeeper.SetSnapshotOnChain, the function the attested UpdateValset / UploadSmartContract flows end in",
			"order of entries in a valset is not part of the property; only the set of (account, power) pairs is compared",
			"the validator set in the constructor of a compass deployment counts as 'the validator set sent to a remote chain' (it is what the new compass trusts from its first block, and the code gates it with the same isEnoughToReachConsensus); remote addresses come back from the ABI as 20 bytes and are matched with registered accounts case-insensitively",
			"the compass-upgrade probe gives every known chain a fee manager on the fork first (keeper call of SetFeeManagerAddressProposal): without one the deployment is refused before the gate is reached",
		},
		Cases:       cases,
		Run:         run,
		MinCounters: []string{"direct_snapshots", "projections_checked", "valset_messages_checked", "gate_withheld",
			"snapshots_built", "immutability_rechecks", "snapshot_chain_activations", "fork_probe_builds", "hist_valset_messages_checked",
			"builds_excluding_jailed", "builds_excluding_jailed-still-bonded", "builds_excluding_not-bonded", "builds_excluding_no-account-on-active-chain",
			"jit_valset_messages", "op_deliver_valset_attested", "real_gov_chains_added",
			"compass_probes", "hist_upload_valsets_checked", "hist_upload_valset_to_active_chain", "compass_probe_chain_below_two_thirds"},
		TimeoutS:    1500,
	})
}
