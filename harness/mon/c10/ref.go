package c10

import (
	"fmt"
	"math/big"
	"sort"
	"strings"

	evmtypes "github.com/palomachain/paloma/v2/x/evm/types"
	valsettypes "github.com/palomachain/paloma/v2/x/valset/types"
)

// Exact integer reference for the projection of a snapshot to a remote chain. Nothing here calls
// into x/evm or x/valset logic; only the generated protobuf structs are read.

var (
	two32     = new(big.Int).Lsh(big.NewInt(1), 32)
	two53     = new(big.Int).Lsh(big.NewInt(1), 53)
	threshold = big.NewInt(2_863_311_530) // floor(2/3 * 2^32), the constant compass itself uses
)

// floorPower = floor(2^32 * share / total)
func floorPower(share, total *big.Int) *big.Int {
	if total.Sign() <= 0 {
		return new(big.Int)
	}
	n := new(big.Int).Mul(share, two32)
	return n.Quo(n, total)
}

type refEntry struct {
	ValIdx   int      // index into snapshot.Validators
	ValAddr  string   // hex of the validator address
	Accounts []string // the validator's accounts on the chain (normally exactly one)
	Power    *big.Int
}

type refValset struct {
	Entries []refEntry
	Sum     *big.Int
	ByAddr  map[string]int // remote address -> index into Entries
	Total   *big.Int
}

// hasAccountOn: the validator holds an account on the remote chain (chain type evm - the only kind
// of remote chain the workload creates).
func accountsOn(v *valsettypes.Validator, chainRef string) []string {
	var out []string
	for _, e := range v.ExternalChainInfos {
		if e == nil {
			continue
		}
		if strings.EqualFold(e.ChainType, "evm") && e.ChainReferenceID == chainRef {
			out = append(out, e.Address)
		}
	}
	return out
}

// refProject: snapshot restricted to validators with an account on chainRef, power = floor(2^32*share/total).
// total = the snapshot's total (callers check separately that TotalShares == sum of shares).
func refProject(s *valsettypes.Snapshot, chainRef string) *refValset {
	rv := &refValset{Sum: new(big.Int), ByAddr: map[string]int{}, Total: new(big.Int)}
	for i := range s.Validators {
		rv.Total.Add(rv.Total, s.Validators[i].ShareCount.BigInt())
	}
	for i := range s.Validators {
		v := &s.Validators[i]
		accs := accountsOn(v, chainRef)
		if len(accs) == 0 {
			continue
		}
		e := refEntry{ValIdx: i, ValAddr: fmt.Sprintf("%x", []byte(v.Address)), Accounts: accs,
			Power: floorPower(v.ShareCount.BigInt(), rv.Total)}
		rv.Sum.Add(rv.Sum, e.Power)
		for _, a := range accs {
			rv.ByAddr[a] = len(rv.Entries)
		}
		rv.Entries = append(rv.Entries, e)
	}
	return rv
}

type projIssue struct {
	Sig string
	Msg string
}

// compareProjection checks a Valset produced by the code under test against the reference.
// Order of the entries is not part of the property (only the set with its powers is).
func compareProjection(s *valsettypes.Snapshot, chainRef string, got *evmtypes.Valset) (issues []projIssue, rv *refValset) {
	rv = refProject(s, chainRef)
	sizeClass := "total<2^53"
	if rv.Total.Cmp(two53) >= 0 {
		sizeClass = "total>=2^53"
	}
	if got.ValsetID != s.Id {
		issues = append(issues, projIssue{"valset/valset-id-differs-from-snapshot-id",
			fmt.Sprintf("valset id %d for snapshot id %d", got.ValsetID, s.Id)})
	}
	if len(got.Validators) != len(got.Powers) {
		issues = append(issues, projIssue{"valset/validators-and-powers-length-differ",
			fmt.Sprintf("%d validators, %d powers", len(got.Validators), len(got.Powers))})
		return
	}
	seen := map[int]int{}
	gotSum := new(big.Int)
	for i, a := range got.Validators {
		p := new(big.Int).SetUint64(got.Powers[i])
		gotSum.Add(gotSum, p)
		ei, ok := rv.ByAddr[a]
		if !ok {
			issues = append(issues, projIssue{"valset/entry-without-account-on-chain",
				fmt.Sprintf("valset for %s lists %s (power %s) which is not an account on that chain of any snapshot validator", chainRef, a, p)})
			continue
		}
		seen[ei]++
		e := rv.Entries[ei]
		if seen[ei] == 2 {
			issues = append(issues, projIssue{"valset/validator-listed-more-than-once",
				fmt.Sprintf("validator %s (share %s of %s) appears more than once in the valset for %s (accounts there: %v), each time with its full power",
					e.ValAddr, s.Validators[e.ValIdx].ShareCount, rv.Total, chainRef, e.Accounts)})
		}
		if p.Cmp(e.Power) != 0 {
			d := new(big.Int).Sub(p, e.Power)
			// mechanism class: is the produced power what truncation of a value within float64
			// rounding error of the exact quotient gives ("float64-ulp"), or is it further off ("gross")?
			kind := "gross"
			if withinFloatError(s.Validators[e.ValIdx].ShareCount.BigInt(), rv.Total, p) {
				kind = "float64-ulp/" + sizeClass
			}
			issues = append(issues, projIssue{"valset/power-not-floor/" + kind,
				fmt.Sprintf("chain %s validator %s: power %s but floor(2^32*%s/%s) = %s (diff %s)",
					chainRef, e.ValAddr, p, s.Validators[e.ValIdx].ShareCount, rv.Total, e.Power, d)})
		}
	}
	for ei, e := range rv.Entries {
		if seen[ei] == 0 {
			issues = append(issues, projIssue{"valset/validator-with-account-missing",
				fmt.Sprintf("validator %s has account(s) %v on %s but is not in the valset", e.ValAddr, e.Accounts, chainRef)})
		}
	}
	if gotSum.Cmp(two32) > 0 {
		issues = append(issues, projIssue{"valset/powers-sum-exceeds-2^32",
			fmt.Sprintf("valset %d for %s: powers sum to %s > 2^32", got.ValsetID, chainRef, gotSum)})
	}
	return
}

// sumPowers of a produced valset
func sumPowers(v *evmtypes.Valset) *big.Int {
	s := new(big.Int)
	for _, p := range v.Powers {
		s.Add(s, new(big.Int).SetUint64(p))
	}
	return s
}

func sortedCopy(in []string) []string {
	out := append([]string(nil), in...)
	sort.Strings(out)
	return out
}

// withinFloatError: is p == trunc(x*(1+d)) possible for some |d| <= 2^-50, x = 2^32*share/total?
// (2^-50 covers the rounding of the quotient and of both int64->float64 conversions.)
func withinFloatError(share, total, p *big.Int) bool {
	if total.Sign() <= 0 {
		return false
	}
	x := new(big.Rat).SetFrac(new(big.Int).Mul(share, two32), total)
	eps := new(big.Rat).SetFrac(big.NewInt(1), new(big.Int).Lsh(big.NewInt(1), 50))
	slack := new(big.Rat).Mul(x, eps)
	lo := new(big.Rat).Sub(x, slack)
	hi := new(big.Rat).Add(x, slack)
	// need an y in [lo,hi] with trunc(y) == p  <=>  [lo,hi] intersects [p, p+1)
	pr := new(big.Rat).SetInt(p)
	p1 := new(big.Rat).SetInt(new(big.Int).Add(p, big.NewInt(1)))
	return hi.Cmp(pr) >= 0 && lo.Cmp(p1) < 0
}

// gateSignature classifies a valset that was enqueued although the rounded-down powers of the
// validators with an account on the chain sum to less than the quorum.
func gateSignature(sent *evmtypes.Valset) string {
	if sumPowers(sent).Cmp(threshold) >= 0 {
		// the quorum constant was applied, but to powers that are larger than the property's
		return "gate/sent-below-two-thirds/powers-inflated"
	}
	return "gate/sent-below-two-thirds/quorum-not-enforced"
}
