package c07

// The monitor proper. After EVERY block it
//   (1) reads the state the property talks about (snapshot "live on chain" lists, chain infos,
//       compass deployments, user contract deployments) through the exported keeper queries and
//       diffs it against the state before the block  -> success-effect events;
//   (2) reads the captured log of the block to see, per attempt, whether the attestation code ran
//       and whether it rejected the proof (receipt / integrity) or accepted it;
//   (3) holds both against what the world simulator knows about the transaction it handed in:
//       does the call data equal the independent encoding of THAT message with some prefix of its
//       collected signatures and the validator set the relayer named, does the receipt report
//       success, has the transaction been accepted for another message before.

import (
	"fmt"
	"sort"
	"strconv"
	"strings"

	sdk "github.com/cosmos/cosmos-sdk/types"
	ethtypes "github.com/ethereum/go-ethereum/core/types"

	evmtypes "github.com/palomachain/paloma/v2/x/evm/types"

	"verif/harness/chain"
)

type effState struct {
	SnapLive map[string]int    // "snapshotID/chain" -> number of times the chain is listed
	Chain    map[string]string // chain -> "activeContractID|address|uniqueID"
	Deploy   map[string]string // "contractID/chain" -> "status|newAddress"
	User     map[string]string // "author/id/chain/createdHeight" -> "status|address"
}

func (w *wd) readEffects() *effState { return w.readEffectsAt(w.c.Ctx()) }

// readEffectsAt reads the same state through an arbitrary context (a fork of the latest state).
func (w *wd) readEffectsAt(ctx sdk.Context) *effState {
	e := &effState{SnapLive: map[string]int{}, Chain: map[string]string{}, Deploy: map[string]string{}, User: map[string]string{}}
	if cur, err := w.c.App.ValsetKeeper.GetCurrentSnapshot(ctx); err == nil && cur != nil {
		for id := uint64(1); id <= cur.Id; id++ {
			s, err := w.c.App.ValsetKeeper.FindSnapshotByID(ctx, id)
			if err != nil || s == nil {
				continue
			}
			for _, c := range s.Chains {
				e.SnapLive[fmt.Sprintf("%d/%s", id, c)]++
			}
		}
	}
	if cis, err := w.c.App.EvmKeeper.GetAllChainInfos(ctx); err == nil {
		for _, ci := range cis {
			e.Chain[ci.ChainReferenceID] = fmt.Sprintf("%d|%s|%x", ci.ActiveSmartContractID, ci.SmartContractAddr, ci.SmartContractUniqueID)
		}
	}
	if ds, err := w.c.App.EvmKeeper.AllSmartContractsDeployments(ctx); err == nil {
		for _, d := range ds {
			e.Deploy[fmt.Sprintf("%d/%s", d.SmartContractID, d.ChainReferenceID)] = fmt.Sprintf("%s|%s", d.Status, d.NewSmartContractAddress)
		}
	}
	for _, u := range w.users {
		author := sdk.ValAddress(u.Addr).String()
		cs, err := w.c.App.EvmKeeper.UserSmartContracts(ctx, author)
		if err != nil {
			continue
		}
		for _, c := range cs {
			for _, d := range c.Deployments {
				e.User[fmt.Sprintf("%s/%d/%s/%d", author, c.Id, d.ChainReferenceId, d.CreatedAtBlockHeight)] = fmt.Sprintf("%s|%s", d.Status, d.Address)
			}
		}
	}
	return e
}

const (
	evSnapLive  = "snapshot-live"
	evRecorded  = "compass-recorded"
	evActivated = "compass-activated"
	evUserDep   = "user-deployment-recorded"
)

// event: one success effect that appeared in a block.
type event struct {
	Kind   string
	Chain  string
	Key    string // snapshot id / contract id / "author/id"
	N      int    // how many times (snapshot-live: list entries added)
	Detail string
}

func (e event) String() string {
	return fmt.Sprintf("%s[%s %s x%d %s]", e.Kind, e.Chain, e.Key, e.N, e.Detail)
}

func diffEffects(a, b *effState) []event {
	var out []event
	for k, n := range b.SnapLive {
		if d := n - a.SnapLive[k]; d > 0 {
			p := strings.SplitN(k, "/", 2)
			out = append(out, event{Kind: evSnapLive, Chain: p[1], Key: p[0], N: d})
		}
	}
	for c, v := range b.Chain {
		if old, ok := a.Chain[c]; ok && old != v {
			np := strings.SplitN(v, "|", 3)
			op := strings.SplitN(old, "|", 3)
			if np[0] != op[0] || np[1] != op[1] || np[2] != op[2] {
				out = append(out, event{Kind: evActivated, Chain: c, Key: np[0], N: 1, Detail: old + " -> " + v})
			}
		}
	}
	for k, v := range b.Deploy {
		old, had := a.Deploy[k]
		if v == old {
			continue
		}
		np := strings.SplitN(v, "|", 2)
		recorded := np[0] != evmtypes.SmartContractDeployment_IN_FLIGHT.String() || np[1] != ""
		if recorded {
			p := strings.SplitN(k, "/", 2)
			if !had {
				old = "(none)"
			}
			out = append(out, event{Kind: evRecorded, Chain: p[1], Key: p[0], N: 1, Detail: old + " -> " + v})
		}
	}
	for k, v := range b.User {
		old := a.User[k]
		if v == old {
			continue
		}
		np := strings.SplitN(v, "|", 2)
		if np[0] == evmtypes.UserSmartContract_Deployment_ACTIVE.String() || np[1] != "" {
			p := strings.Split(k, "/")
			out = append(out, event{Kind: evUserDep, Chain: p[2], Key: p[0] + "/" + p[1], N: 1, Detail: old + " -> " + v})
		}
	}
	sort.Slice(out, func(i, j int) bool { return out[i].String() < out[j].String() })
	return out
}

// ---------------------------------------------------------------------------------------------

const (
	rcOK        = "ok"
	rcStatus0   = "status-0"
	rcMissing   = "missing"
	rcPostState = "pre-byzantium-root"
)

// attempt: one remote transaction handed in as proof for one queued message.
type attempt struct {
	Chain     string
	MsgID     uint64
	Action    string
	Class     string // call-data class (honest / corruption names)
	Receipt   string
	Reuse     string // "" or how the tx was used before
	Late      int
	NSigsUsed int
	NSigs     int
	PAValset  uint64
	Dissent   string // "" nobody dissents | last / first / earlier-block: when the minority handed in the same tx with the opposite receipt status

	minority int // validators that dissent
	tx       *ethtypes.Transaction
	matches  bool   // call data == independent encoding of this message for some signature prefix
	prefix   int    // the prefix length that matched (-1 none)
	rcOK     bool   // receipt present and status 1
	initial  bool   // upload on a chain without any live snapshot (first deployment)
	expKey   string // snapshot id / contract id / author+id the success effects would carry

	// shape of call data that does not match (observation only): the reference encoding with
	// `inserted` foreign bytes inside it at offset insertedAt; betweenParts: contract creation whose
	// data still starts with the bytecode and still ends with the expected constructor arguments
	inserted, insertedAt int
	betweenParts         bool

	gas        uint64
	assignee   *chain.Account
	signers    []int
	evidenceAt int64
	applied    map[string]int
	acceptedN  int
	ranN       int
	done       bool
	stuck      bool
	judged     bool
}

func (a *attempt) key() string { return fmt.Sprintf("%s#%d", a.Chain, a.MsgID) }

func (a *attempt) expects(e event) bool {
	if e.Chain != a.Chain {
		return false
	}
	switch a.Action {
	case actValset:
		return e.Kind == evSnapLive && e.Key == a.expKey
	case actUpload:
		if (e.Kind == evRecorded || e.Kind == evActivated) && e.Key == a.expKey {
			return true
		}
		return e.Kind == evSnapLive && a.initial
	case actHandover:
		return e.Kind == evActivated && e.Key == a.expKey
	case actUser:
		return e.Kind == evUserDep && e.Key == a.expKey
	}
	return false
}

// reasons why the transaction is NOT a valid proof for the message, in a fixed order.
func (w *wd) reasons(a *attempt) []string {
	var rs []string
	if !a.matches {
		rs = append(rs, "calldata:"+a.Class)
	}
	if !a.rcOK {
		rs = append(rs, "receipt-"+a.Receipt)
	}
	if k, used := w.accepted[a.tx.Hash()]; used && k != a.key() {
		rs = append(rs, "tx-already-used")
	}
	return rs
}

func (a *attempt) witness(w *wd, extra map[string]any) map[string]any {
	m := map[string]any{
		"chain": a.Chain, "message_id": a.MsgID, "action": a.Action, "calldata_class": a.Class, "receipt": a.Receipt, "reuse": a.Reuse,
		"signatures_in_queue": a.NSigs, "signatures_in_tx": a.NSigsUsed, "late_signatures": a.Late, "relayer_valset_id": a.PAValset,
		"calldata_matches_reference_encoding": a.matches, "matching_prefix": a.prefix, "receipt_ok": a.rcOK,
		"tx_hash": a.tx.Hash().Hex(), "tx_previously_accepted_for": w.accepted[a.tx.Hash()], "height": w.c.Height,
		"history_tail": tail(w.history, 12),
	}
	if a.inserted > 0 {
		m["calldata_shape"] = fmt.Sprintf("the reference encoding of the message with %d foreign byte(s) inserted at offset %d (every byte before and after them is the encoding's)", a.inserted, a.insertedAt)
		if a.betweenParts {
			m["calldata_shape"] = fmt.Sprintf("bytecode ++ %d foreign byte(s) ++ the constructor arguments of the message (the data starts with the bytecode and ends with the expected constructor input)", a.inserted)
		}
	}
	if a.Dissent != "" {
		when := map[string]string{dissentLast: "after the majority's evidence (same block)", dissentFirst: "before the majority's evidence (same block)", dissentEarlier: "one block before the majority's evidence"}[a.Dissent]
		m["conflicting_evidence"] = fmt.Sprintf("%d validator(s) outside the >= 2/3 majority reported the same transaction with the opposite receipt status, %s", a.minority, when)
	}
	for k, v := range extra {
		m[k] = v
	}
	return m
}

func tail(s []string, n int) []string {
	if len(s) > n {
		return s[len(s)-n:]
	}
	return s
}

func kvHas(l chain.LogLine, key, val string) bool {
	want := key + "=" + val
	for _, kv := range l.KV {
		if kv == want {
			return true
		}
	}
	return false
}

var actionLogName = map[string]string{actValset: "Message_UpdateValset", actSLC: "Message_SubmitLogicCall", actUser: "Message_UploadUserSmartContract",
	actHandover: "Message_CompassHandover", actUpload: "Message_UploadSmartContract"}

// judge is called after every block with the success effects that appeared in it and its log.
func (w *wd) judge(events []event, logs []chain.LogLine, what string) {
	rec := w.rec
	type obs struct{ ran, committed, noConsensus, receiptRejected, integrityFailed bool }
	o := map[*attempt]*obs{}
	for _, a := range w.live {
		if a.done || a.evidenceAt == 0 {
			continue
		}
		ob := &obs{}
		o[a] = ob
		id := strconv.FormatUint(a.MsgID, 10)
		for _, l := range logs {
			switch {
			case l.Msg == "Consensus not achieved." && kvHas(l, "msg-id", id):
				ob.noConsensus = true
			case (l.Msg == "Transaction execution failed" || l.Msg == "Failed to get transaction receipt") && kvHas(l, "message-id", id):
				ob.receiptRejected = true
			case l.Msg == "Failed to verify transaction integrity." && kvHas(l, "chain-reference-id", a.Chain) && kvHas(l, "action-msg", actionLogName[a.Action]):
				ob.integrityFailed = true
			}
		}
		// routerAttester reports every attested message to the metrix module on the attestation's
		// cache context: a relay record for this message id exists exactly when the per-action
		// attester ran AND its cache context was committed (result nil / not-verified / tx-failed).
		// (The queue's "Removed message" log line is not used: DeleteJob / pruning log it too.)
		ob.committed = w.relayRecorded(a)
		ob.ran = ob.committed || ob.receiptRejected || ob.integrityFailed
	}

	// (A) acceptance decisions
	invalidAccepted := map[*attempt][]string{}
	effectsOf := map[*attempt][]string{}
	var order []*attempt
	for _, a := range w.live {
		if o[a] != nil {
			order = append(order, a)
		}
	}
	for _, a := range order {
		ob := o[a]
		if !ob.ran {
			if ob.noConsensus {
				rec.Count("attest/no_consensus", 1)
			}
			continue
		}
		a.ranN++
		rec.Eval(1)
		accepted := ob.committed && !ob.receiptRejected && !ob.integrityFailed
		rs := w.reasons(a)
		first := !a.judged
		a.judged = true
		if first {
			outcome := "rejected"
			if accepted {
				outcome = "accepted"
			}
			exp := "valid"
			if len(rs) > 0 {
				exp = "invalid"
			}
			rec.Count(fmt.Sprintf("round/%s/%s/%s-proof/%s", a.Action, classGroup(a), exp, outcome), 1)
			rec.Count("rounds_attested", 1)
			if len(rs) > 0 {
				rec.Count("rounds_invalid_proof", 1)
			} else {
				rec.Count("rounds_valid_proof", 1)
			}
			if a.Late > 0 && a.matches {
				rec.Count("rounds_late_signatures_matching", 1)
			}
			if a.Reuse != "" && a.matches {
				// the used tx carries exactly the call data of this second message
				rec.Count("rounds_reused_tx_identical_calldata/"+a.Action, 1)
			}
			if a.inserted > 0 && !a.matches {
				// every byte of the faithful encoding is there, in order, with foreign bytes inside
				rec.Count("rounds_calldata_with_inserted_bytes", 1)
				rec.Count("rounds_calldata_with_inserted_bytes/"+a.Action, 1)
				if a.betweenParts {
					rec.Count("rounds_upload_bytes_inserted_between_bytecode_and_constructor_args", 1)
				}
			}
			if a.Dissent != "" {
				rec.Count("rounds_conflicting_receipts/minority-"+a.Dissent, 1)
				if a.Dissent != dissentLast && a.Receipt == rcStatus0 {
					// >= 2/3 report the failed receipt, the first evidence on record carries a success receipt
					rec.Count("rounds_forged_success_receipt_reported_first", 1)
				}
			}
			rec.Distinct(fmt.Sprintf("%s|%s|%s|%s|%d/%d|%d|%v", a.Action, a.Class, a.Receipt, a.Reuse+dissentTag(a), a.NSigsUsed, a.NSigs, a.Late, accepted))
		}
		if accepted {
			a.acceptedN++
			if len(rs) > 0 {
				invalidAccepted[a] = rs
			} else {
				if first {
					rec.Count("accepted_valid_proofs", 1)
					rec.Count("accepted/"+a.Action, 1)
				}
				w.accepted[a.tx.Hash()] = a.key()
			}
		} else if first {
			if len(rs) == 0 {
				// not a violation of the (only-if) statement, but it would hollow out the run
				rec.Count("valid_proof_rejected", 1)
				rec.Count("valid_proof_rejected/"+a.Action+"/"+a.Class, 1)
				w.note("NOTE valid proof rejected: msg %d %s on %s class=%s nsigs=%d/%d", a.MsgID, a.Action, a.Chain, a.Class, a.NSigsUsed, a.NSigs)
			} else {
				rec.Count("rejected_invalid_proofs", 1)
			}
		}
	}

	// (B) success effects must belong to a live attempt with a valid proof, at most once each
	for _, e := range events {
		rec.Eval(1)
		rec.Count("effects/"+e.Kind, 1)
		var owner *attempt
		for _, a := range w.live {
			if !a.done && a.evidenceAt != 0 && a.expects(e) {
				if owner == nil || (o[a] != nil && o[a].ran && !(o[owner] != nil && o[owner].ran)) {
					owner = a
				}
			}
		}
		if owner == nil {
			rec.Violation("success-effect-without-attested-message/"+e.Kind,
				fmt.Sprintf("block %d (%s): %s appeared although no message with consensus evidence accounts for it", w.c.Height, what, e),
				map[string]any{"event": e.String(), "height": w.c.Height, "history_tail": tail(w.history, 12)})
			continue
		}
		rs := w.reasons(owner)
		if len(rs) > 0 {
			if _, acc := invalidAccepted[owner]; acc {
				// reported together with the acceptance below
				effectsOf[owner] = append(effectsOf[owner], e.String())
				continue
			}
			rec.Violation(fmt.Sprintf("success-effect-without-valid-proof/%s/%s/%s", owner.Action, e.Kind, strings.Join(rs, "+")),
				fmt.Sprintf("block %d: %s was applied for message %d (%s on %s) although its proof transaction %s is not valid for it (%s) and the attestation did not even accept it [receipt %q, reuse %q]",
					w.c.Height, e, owner.MsgID, owner.Action, owner.Chain, owner.tx.Hash().Hex(), strings.Join(rs, " and "), owner.Receipt, owner.Reuse),
				owner.witness(w, map[string]any{"event": e.String(), "block": what}))
			continue
		}
		owner.applied[e.Kind] += e.N
		if owner.applied[e.Kind] > 1 {
			rec.Violation(fmt.Sprintf("success-effect-applied-twice/%s/%s", owner.Action, e.Kind),
				fmt.Sprintf("block %d: %s applied %d times for message %d (%s on %s)", w.c.Height, e, owner.applied[e.Kind], owner.MsgID, owner.Action, owner.Chain),
				owner.witness(w, map[string]any{"event": e.String(), "block": what}))
		} else {
			rec.Count("effects_after_valid_proof/"+owner.Action+"/"+e.Kind, 1)
			rec.Count("effects_after_valid_proof", 1)
		}
	}

	for _, a := range order {
		rs, bad := invalidAccepted[a]
		if !bad {
			continue
		}
		eff := "no success effect in state"
		if len(effectsOf[a]) > 0 {
			eff = "success effects applied: " + strings.Join(effectsOf[a], ", ")
		}
		rec.Violation(fmt.Sprintf("invalid-proof-accepted/%s/%s", a.Action, strings.Join(rs, "+")),
			fmt.Sprintf("block %d: the attestation of message %d (%s on %s) accepted transaction %s as proof of delivery although: %s [receipt %q, reuse %q]; %s",
				w.c.Height, a.MsgID, a.Action, a.Chain, a.tx.Hash().Hex(), strings.Join(rs, " and "), a.Receipt, a.Reuse, eff),
			a.witness(w, map[string]any{"block": what, "effects": effectsOf[a]}))
	}

	// (D) book-keeping: attempts whose message left the queue are finished; those that were
	// attested but stay queued will be attested again in every following block
	var keep []*attempt
	for _, a := range w.live {
		if a.done {
			continue
		}
		if a.evidenceAt != 0 && w.getMsg(a.Chain, a.MsgID) == nil {
			a.done = true
			if a.stuck {
				w.blocked[a.Chain] = false
				for _, b := range w.live {
					if b != a && !b.done && b.stuck && b.Chain == a.Chain {
						w.blocked[a.Chain] = true
					}
				}
			}
			continue
		}
		if ob := o[a]; ob != nil && !ob.noConsensus && !a.stuck {
			// evidence with consensus, yet the message is still queued: the attestation returned
			// an error; it will be attested again in every block and stops the loop for all
			// messages behind it
			a.stuck = true
			w.blocked[a.Chain] = true
			rec.Count("attempts_left_in_queue_after_attestation", 1)
		}
		if a.stuck && a.evidenceAt < w.c.Height {
			rec.Count("reattestation_blocks_observed", 1)
		}
		keep = append(keep, a)
	}
	w.live = keep
}

func classGroup(a *attempt) string {
	g := a.Class
	if a.Reuse != "" {
		g += "+reuse:" + a.Reuse
	}
	if a.Receipt != rcOK {
		g += "+receipt:" + a.Receipt
	}
	return g + dissentTag(a)
}

func dissentTag(a *attempt) string {
	if a.Dissent == "" {
		return ""
	}
	return "+minority-opposite-receipt:" + a.Dissent
}

func (w *wd) relayRecorded(a *attempt) bool { return w.relayRecordedAt(w.c.Ctx(), a) }

func (w *wd) relayRecordedAt(ctx sdk.Context, a *attempt) bool {
	if a.assignee == nil {
		return false
	}
	h, err := w.c.App.MetrixKeeper.GetValidatorHistory(ctx, a.assignee.ValAddr())
	if err != nil || h == nil {
		return false
	}
	for _, r := range h.Records {
		if r.MessageId == a.MsgID {
			return true
		}
	}
	return false
}
