package c07

// One attestation round = one queued message driven through gas estimation, signing, relay and
// evidence with a chosen kind of proof transaction.

import (
	"bytes"
	"fmt"
	"math/big"
	"strings"

	sdk "github.com/cosmos/cosmos-sdk/types"
	"github.com/ethereum/go-ethereum/common"
	ethtypes "github.com/ethereum/go-ethereum/core/types"

	consensustypes "github.com/palomachain/paloma/v2/x/consensus/types"
	evmtypes "github.com/palomachain/paloma/v2/x/evm/types"

	"verif/harness/chain"
	"verif/harness/world"
)

type roundPlan struct {
	Action  string   `json:"a"`
	Chain   int      `json:"c"`
	Corrupt []string `json:"x,omitempty"` // corruption names; empty = faithful call data
	Receipt string   `json:"r,omitempty"` // "" = ok
	Early   int      `json:"e,omitempty"` // signatures collected before the relay (0 = all validators)
	Used    int      `json:"u,omitempty"` // signatures put into the tx (0 = all collected so far, -1 = none)
	Late    int      `json:"l,omitempty"` // signatures added after the relay
	Reuse   string   `json:"reuse,omitempty"`
	PA      string   `json:"pa,omitempty"` // valset id named by the relayer: "" faithful | "older" | "zero" | "unknown"
	Dynamic bool     `json:"dyn,omitempty"`
	Dissent bool     `json:"dis,omitempty"` // the validators outside the >= 2/3 majority report the SAME tx with the opposite receipt status
	// when the dissenting minority hands in its evidence: "" after the majority (same block) |
	// "first" before the majority (same block) | "earlier-block" one block before the majority.
	// The minority then contains the relayer whenever the majority can do without its shares.
	DissentOrder string `json:"do,omitempty"`
	// update_valset: the message is a re-publication of the snapshot that is ALREADY live on the chain
	// (a keep-warm / forced publish): consensus valset == new valset == the live snapshot
	KeepWarm bool `json:"kw,omitempty"`
}

const (
	dissentLast    = "last"
	dissentFirst   = "first"
	dissentEarlier = "earlier-block"
)

const (
	reuseSameCalldata = "same-calldata" // a tx accepted earlier whose call data also fits this message
	reuseOtherMessage = "other-message" // a tx accepted earlier for a different message of the same action
	reuseSameBlock    = "same-block"    // one tx handed in for two messages whose evidence lands in the same block
)

type prepared struct {
	a     *attempt
	rc    *ethtypes.Receipt
	proof *evmtypes.TxExecutedProof
	alt   *evmtypes.TxExecutedProof // what the dissenting minority reports (nil: nobody dissents)
	queue string

	altStatus uint64
}

// usable: the attestation loop visits chains in sorted order and stops at the first message that
// returns an error; a chain is usable while no such message sits in its own or an earlier queue.
func (w *wd) usable(ref string) bool {
	for _, r := range w.refs {
		if w.blocked[r] {
			return false
		}
		if r == ref {
			return true
		}
	}
	return true
}

func (w *wd) pickChain(p roundPlan) (string, bool) {
	n := len(w.refs)
	for i := 0; i < n; i++ {
		ref := w.refs[(p.Chain+i)%n]
		if !w.usable(ref) {
			continue
		}
		if p.Action != actUpload && !w.active(ref) {
			continue
		}
		return ref, true
	}
	return "", false
}

func (w *wd) runRound(p roundPlan) {
	if w.failed {
		return
	}
	if p.Receipt == "" {
		p.Receipt = rcOK
	}
	w.rec.Op(map[string]any{"op": "round", "plan": p, "height": w.c.Height})
	ref, ok := w.pickChain(p)
	if !ok {
		w.rec.Count("rounds_skipped/no_usable_chain", 1)
		return
	}
	if p.Reuse == reuseSameBlock {
		w.doubleUse(p)
		return
	}
	var forced *usedTx
	var id uint64
	switch {
	case p.Reuse == reuseSameCalldata && p.Action == actValset:
		// A second message whose call data is IDENTICAL to the one an accepted tx carries. The call
		// data of update_valset has no message id: (consensus valset + signatures, new valset,
		// relayer, gas estimate). Two publications of the snapshot that is live on the chain give
		// the same bytes when relayer, estimate and signers coincide.
		forced = w.keepWarmTx(ref)
		if forced == nil {
			// first let a faithful re-publication of the live snapshot go through
			w.runRound(roundPlan{Action: actValset, Chain: indexOf(w.refs, ref), KeepWarm: true})
			if w.failed || !w.usable(ref) {
				w.rec.Count("rounds_skipped/no_tx_to_reuse", 1)
				return
			}
			forced = w.keepWarmTx(ref)
		}
		if forced != nil {
			// the used tx handed in again for a NEW publication at later heights / times (on forks)
			w.resubmitLaterValset(ref, forced)
			if w.failed {
				return
			}
			// ... and right away on the real chain: wait for the block time at which the chain picks
			// the same relayer again
			if w.steerRelayer(ref, forced.Relayer) {
				w.rec.Count("ops/relayer_rotation_awaited", 1)
			}
			id, ok = w.republish(ref, forced.Valset)
			break
		}
		// no re-publication went through: any tx accepted for a snapshot of this chain (its call
		// data differs in the consensus valset; the chain must refuse it as used all the same)
		w.rec.Count("ops/keep_warm_tx_unavailable", 1)
		for _, u := range w.usedTxs[actValset] {
			if u.Chain == ref {
				forced = u
			}
		}
		if forced == nil {
			// first let a faithful update go through
			w.runRound(roundPlan{Action: actValset, Chain: indexOf(w.refs, ref)})
			for _, u := range w.usedTxs[actValset] {
				if u.Chain == ref {
					forced = u
				}
			}
		}
		if forced == nil || w.failed || !w.usable(ref) {
			w.rec.Count("rounds_skipped/no_tx_to_reuse", 1)
			return
		}
		id, ok = w.republish(ref, forced.Valset)
	case p.Reuse == reuseSameCalldata && p.Action == actUpload:
		for _, u := range w.usedTxs[actUpload] {
			if u.Chain != ref {
				forced = u
			}
		}
		if forced == nil {
			w.rec.Count("rounds_skipped/no_tx_to_reuse", 1)
			return
		}
		id, ok = w.ensureMessage(ref, actUpload)
		if ok && !w.failed {
			// the used tx handed in for the still pending message at later heights (on forks)
			w.resubmitLaterPending(ref, id, forced)
		}
	case p.Reuse == reuseOtherMessage:
		if len(w.usedTxs[p.Action]) == 0 {
			w.runRound(roundPlan{Action: p.Action, Chain: indexOf(w.refs, ref)})
		}
		if us := w.usedTxs[p.Action]; len(us) > 0 && !w.failed && w.usable(ref) {
			forced = us[w.r.Intn(len(us))]
		} else {
			w.rec.Count("rounds_skipped/no_tx_to_reuse", 1)
			return
		}
		if p.Action == actHandover {
			id, ok = w.findMsg(ref, actHandover)
			if !ok {
				w.runRound(roundPlan{Action: actUpload, Chain: indexOf(w.refs, ref)})
				if w.failed || !w.usable(ref) {
					return
				}
				id, ok = w.findMsg(ref, actHandover)
			}
		} else {
			id, ok = w.ensureMessage(ref, p.Action)
		}
	case p.Action == actHandover:
		id, ok = w.findMsg(ref, actHandover)
		if !ok {
			// a handover message exists only after a faithful upload of a NEW compass version
			w.runRound(roundPlan{Action: actUpload, Chain: indexOf(w.refs, ref)})
			if w.failed || !w.usable(ref) {
				return
			}
			id, ok = w.findMsg(ref, actHandover)
		}
	case p.KeepWarm && p.Action == actValset:
		id, ok = w.republishLive(ref)
	default:
		id, ok = w.ensureMessage(ref, p.Action)
	}
	if !ok || w.failed {
		w.rec.Count("rounds_skipped/no_message/"+p.Action, 1)
		w.note("round skipped: no %s message on %s", p.Action, ref)
		return
	}
	pr := w.prepare(ref, id, p, forced)
	if pr == nil {
		w.rec.Count("rounds_skipped/prepare_failed/"+p.Action, 1)
		return
	}
	w.attest([]*prepared{pr}, p)
}

func indexOf(s []string, x string) int {
	for i, v := range s {
		if v == x {
			return i
		}
	}
	return 0
}

// doubleUse: the initial compass deployments of two chains carry identical call data (same
// bytecode, same constructor arguments); ONE transaction is presented for both messages and both
// sets of evidence land in the same block.
func (w *wd) doubleUse(p roundPlan) {
	if len(w.refs) < 2 || !w.usable(w.refs[len(w.refs)-1]) {
		w.rec.Count("rounds_skipped/double_use_unavailable", 1)
		return
	}
	a, b := w.refs[0], w.refs[1]
	ida, oka := w.ensureMessage(a, actUpload)
	idb, okb := w.ensureMessage(b, actUpload)
	if !oka || !okb {
		w.rec.Count("rounds_skipped/double_use_unavailable", 1)
		return
	}
	p.Reuse = ""
	pa := w.prepare(a, ida, p, nil)
	if pa == nil {
		return
	}
	q := p
	q.Reuse = reuseSameBlock
	pb := w.prepare(b, idb, q, &usedTx{Action: actUpload, Chain: a, Tx: pa.a.tx, Receipt: mkReceipt(pa.a.tx, 1, false, common.Address{})})
	if pb == nil {
		w.attest([]*prepared{pa}, p)
		return
	}
	w.rec.Count("ops/same_block_double_use", 1)
	w.attest([]*prepared{pa, pb}, p)
}

func (w *wd) signBlock(ref string, id uint64, signers []*chain.Account, first sdk.Msg, firstSigner *chain.Account, what string) bool {
	queue := world.TurnstoneQueue(ref)
	if first != nil {
		if err := w.c.QueueTx(firstSigner, 0, first); err != nil {
			w.note("%s: %v", what, err)
			return false
		}
	}
	for _, v := range signers {
		sm, err := world.MsgSign(w.c, v, queue, id)
		if err != nil || len(sm.SignedMessages) != 1 {
			w.note("%s: cannot sign: %v", what, err)
			return false
		}
		off := uint64(0)
		if first != nil && v == firstSigner {
			off = 1
		}
		if err := w.c.QueueTx(v, off, sm); err != nil {
			w.note("%s: %v", what, err)
			return false
		}
	}
	w.block(what)
	return !w.failed
}

func (w *wd) prepare(ref string, id uint64, p roundPlan, forced *usedTx) *prepared {
	queue := world.TurnstoneQueue(ref)
	qm := w.getMsg(ref, id)
	if qm == nil {
		return nil
	}
	m := world.TurnstoneMsg(w.c, qm)
	action := actionOf(m)
	what := fmt.Sprintf("%s #%d on %s", action, id, ref)

	// --- gas estimate (elected at the end of the block; fee-paying messages are then replaced
	// under the same id with the fees filled in)
	if qm.GetRequireGasEstimation() && qm.GetGasEstimate() == 0 {
		val := uint64(200_000 + w.r.Intn(200_000))
		if forced != nil && forced.Gas != 0 {
			val = forced.Gas
		}
		for _, v := range w.vals {
			if err := w.c.QueueTx(v, 0, world.MsgEstimate(v, queue, id, val)); err != nil {
				return nil
			}
		}
		w.block("estimates " + what)
		if w.failed {
			return nil
		}
		qm = w.getMsg(ref, id)
		if qm == nil || qm.GetGasEstimate() == 0 {
			w.note("no elected estimate for %s", what)
			return nil
		}
	}

	// --- signatures before the relay
	var order []*chain.Account
	if forced != nil && len(forced.Signers) > 0 {
		for _, i := range forced.Signers {
			order = append(order, w.vals[i])
		}
	} else {
		for _, i := range w.r.Perm(len(w.vals)) {
			order = append(order, w.vals[i])
		}
	}
	nEarly := p.Early
	if nEarly <= 0 || nEarly > len(order) {
		nEarly = len(order)
	}
	late := p.Late
	if late > len(order)-nEarly {
		late = len(order) - nEarly
	}
	if !w.signBlock(ref, id, order[:nEarly], nil, nil, "signatures "+what) {
		return nil
	}
	qm = w.getMsg(ref, id)
	if qm == nil || len(qm.GetSignData()) != nEarly {
		w.note("signatures missing for %s", what)
		return nil
	}
	m = world.TurnstoneMsg(w.c, qm)
	relayer := w.accountOfVal(m.Assignee)
	if relayer == nil {
		w.note("assignee %s unknown", m.Assignee)
		return nil
	}

	// --- the valset id the relayer names (compass' current valset on a faithful relay)
	paID := uint64(0)
	if s, err := w.c.App.ValsetKeeper.GetLatestSnapshotOnChain(w.c.Ctx(), ref); err == nil && s != nil {
		paID = s.Id
	} else if s, err := w.c.App.ValsetKeeper.GetCurrentSnapshot(w.c.Ctx()); err == nil && s != nil {
		paID = s.Id
	}
	honestPA := paID
	switch p.PA {
	case "older":
		for cand := honestPA - 1; cand >= 1 && cand < honestPA; cand-- {
			if vs := w.valsetByID(ref, cand); vs != nil && len(vs.Validators) > 0 {
				paID = cand
				break
			}
		}
	case "zero":
		paID = 0
	case "unknown":
		paID = honestPA + 1000
	}
	var vs *valsetT
	if action != actUpload {
		vs = w.valsetByID(ref, paID)
	}

	a := &attempt{Chain: ref, MsgID: id, Action: action, Receipt: p.Receipt, Reuse: p.Reuse, Late: late, NSigs: nEarly + late, PAValset: paID, applied: map[string]int{}, prefix: -1}
	var tx *ethtypes.Transaction
	var rc *ethtypes.Receipt
	var class []string
	if forced != nil {
		tx, rc = forced.Tx, forced.Receipt
		class = []string{"reused-tx"}
		a.NSigsUsed = len(forced.Signers)
	} else {
		used := p.Used
		if used == 0 || used > nEarly {
			used = nEarly
		}
		if used < 0 {
			used = 0 // the empty prefix: valset but no signature at all
		}
		if action == actUpload {
			used = 0
		}
		a.NSigsUsed = used
		for _, v := range order[:used] {
			a.signers = append(a.signers, w.valIndex(v))
		}
		spec, err := w.honestSpec(qm, vs, used)
		if err != nil {
			return nil
		}
		if vs == nil && action != actUpload {
			// the relayer names a valset id the chain has no snapshot for: the only call data that
			// could be "re-encoded" carries no validator set and no signatures
			class = append(class, "no-such-valset:empty-consensus")
		} else if used == 0 && action != actUpload {
			class = append(class, "empty-signature-prefix")
		} else if used < nEarly && action != actUpload {
			class = append(class, "shorter-signature-prefix")
		}
		if p.PA == "older" && paID != honestPA {
			class = append(class, "older-valset")
		}
		cc := w.corruptCtx(ref, qm, spec, paID, used)
		var byteOps []corruption
		for _, name := range p.Corrupt {
			c := findCorruption(name)
			if c == nil || !applicable(*c, action) {
				continue
			}
			if c.Typed != nil {
				if c.Typed(cc, spec) {
					class = append(class, name)
				}
			} else {
				byteOps = append(byteOps, *c)
			}
		}
		data, err := spec.encode()
		if err != nil {
			w.note("cannot encode %s: %v", what, err)
			return nil
		}
		for _, c := range byteOps {
			if d := c.Bytes(cc, spec, data); d != nil {
				data = d
				class = append(class, c.Name)
			}
		}
		var to *common.Address
		if action != actUpload {
			ci := w.chainInfo(ref)
			addr := common.HexToAddress(ci.GetSmartContractAddr())
			to = &addr
		}
		tx = w.mkTx(relayer, w.chainIDs[ref], to, data, p.Dynamic)
		status := uint64(1)
		if p.Receipt == rcStatus0 {
			status = 0
		}
		child := common.BytesToAddress(tx.Hash().Bytes()[:20])
		rc = mkReceipt(tx, status, action == actUser, child)
	}
	if len(class) == 0 {
		class = []string{"faithful"}
	}
	a.Class = strings.Join(class, "+")
	a.assignee = relayer
	a.gas = qm.GetGasEstimate()
	a.tx = tx
	a.rcOK = p.Receipt == rcOK && rc != nil && rc.Status == 1

	// --- relay: the assignee publishes the tx hash; late signers sign afterwards
	pamsg := world.MsgPublicAccess(relayer, queue, id, tx.Hash().Bytes(), paID)
	if !w.signBlock(ref, id, order[nEarly:nEarly+late], pamsg, relayer, "relay "+what) {
		return nil
	}
	qm = w.getMsg(ref, id)
	if qm == nil || qm.GetPublicAccessData() == nil {
		w.note("relay of %s did not register", what)
		return nil
	}

	// --- what the oracle knows about this transaction (state of the message as it will be
	// attested: final signature list, elected estimate, fees, valset named by the relayer)
	w.evaluate(a, qm)
	pr := &prepared{a: a, rc: rc, proof: mkProof(tx, rc, p.Receipt, w.r), queue: queue}
	if p.Dissent {
		// what the minority reports: the same tx with the opposite receipt status
		st := uint64(0)
		if rc.Status == 0 {
			st = 1
		}
		// (a forged success receipt looks like a real one: deploy_contract calls carry compass' ContractDeployed log)
		pr.alt = mkProof(tx, mkReceipt(tx, st, action == actUser && st == 1, common.BytesToAddress(tx.Hash().Bytes()[:20])), rcOK, w.r)
		pr.altStatus = st
		switch p.DissentOrder {
		case dissentFirst, dissentEarlier:
			a.Dissent = p.DissentOrder
		default:
			a.Dissent = dissentLast
		}
	}
	w.note("round %s class=%s receipt=%s reuse=%s sigs=%d/%d(+%d late) pa=%d matches=%v(prefix %d)", what, a.Class, a.Receipt, a.Reuse, a.NSigsUsed, nEarly, late, paID, a.matches, a.prefix)
	return pr
}

func (w *wd) evaluate(a *attempt, qm consensustypes.QueuedSignedMessageI) {
	m := world.TurnstoneMsg(w.c, qm)
	a.matches, a.prefix = false, -1
	a.inserted, a.insertedAt, a.betweenParts = 0, 0, false
	data := a.tx.Data()
	switch x := m.Action.(type) {
	case *evmtypes.Message_UpdateValset:
		a.expKey = fmt.Sprint(x.UpdateValset.Valset.ValsetID)
	case *evmtypes.Message_UploadSmartContract:
		a.expKey = fmt.Sprint(x.UploadSmartContract.Id)
		_, err := w.c.App.ValsetKeeper.GetLatestSnapshotOnChain(w.c.Ctx(), a.Chain)
		a.initial = err != nil
	case *evmtypes.Message_CompassHandover:
		a.expKey = fmt.Sprint(x.CompassHandover.Id)
	case *evmtypes.Message_UploadUserSmartContract:
		a.expKey = fmt.Sprintf("%s/%d", sdk.ValAddress(x.UploadUserSmartContract.SenderAddress).String(), x.UploadUserSmartContract.Id)
	}
	if a.Action == actUpload {
		s, err := w.honestSpec(qm, nil, 0)
		if err == nil {
			if ref, err := s.encode(); err == nil && bytes.Equal(ref, data) {
				a.matches, a.prefix = true, 0
			} else if err == nil {
				a.noteShape(ref, data, s.Split)
			}
		}
		return
	}
	pa := qm.GetPublicAccessData()
	if pa == nil {
		return
	}
	vs := w.valsetByID(a.Chain, pa.GetValsetID())
	if vs == nil {
		return // no validator set goes by that id: nothing the call data could be the encoding of
	}
	n := len(qm.GetSignData())
	for i := n; i >= 0; i-- {
		s, err := w.honestSpec(qm, vs, i)
		if err != nil {
			return
		}
		ref, err := s.encode()
		if err != nil {
			return
		}
		if bytes.Equal(ref, data) {
			a.matches, a.prefix = true, i
			a.inserted, a.insertedAt, a.betweenParts = 0, 0, false
			return
		}
		a.noteShape(ref, data, 0)
	}
}

// noteShape (observation for the evidence file and the witness, not part of the verdict): is the
// call data that does NOT equal the reference encoding `ref` that encoding with foreign bytes
// inserted somewhere INSIDE it, i.e. data = ref[:p] ++ X ++ ref[p:] with 0 < p < len(ref)? For a
// contract creation (split = length of the bytecode): can p be the boundary between the bytecode and
// the constructor input, so that the data still starts with the bytecode and still ends with the
// expected constructor arguments?
func (a *attempt) noteShape(ref, data []byte, split int) {
	if a.inserted > 0 || len(ref) == 0 || len(data) <= len(ref) {
		return
	}
	lcp, lcs := 0, 0
	for lcp < len(ref) && ref[lcp] == data[lcp] {
		lcp++
	}
	for lcs < len(ref) && ref[len(ref)-1-lcs] == data[len(data)-1-lcs] {
		lcs++
	}
	// possible insertion points: len(ref)-lcs <= p <= lcp
	lo, hi := len(ref)-lcs, lcp
	if lo < 1 {
		lo = 1
	}
	if hi > len(ref)-1 {
		hi = len(ref) - 1
	}
	if lo > hi {
		return
	}
	a.inserted, a.insertedAt = len(data)-len(ref), hi
	if split > 0 && split < len(ref) && lo <= split && split <= hi {
		a.insertedAt, a.betweenParts = split, true
	}
}

func (w *wd) corruptCtx(ref string, qm consensustypes.QueuedSignedMessageI, spec *txSpec, paID uint64, used int) *corruptCtx {
	cc := &corruptCtx{r: w.r, lastSigner: -1}
	m := world.TurnstoneMsg(w.c, qm)
	for _, v := range w.vals {
		a := common.HexToAddress(v.EthAddr())
		if !strings.EqualFold(v.EthAddr(), m.AssigneeRemoteAddress) {
			cc.others = append(cc.others, a)
		}
	}
	if sd := qm.GetSignData(); used > 0 && used <= len(sd) {
		last := common.HexToAddress(sd[used-1].GetExternalAccountAddress())
		for i, v := range spec.Cons.Valset.Validators {
			if v == last {
				cc.lastSigner = i
			}
		}
	}
	// the projection of some other snapshot, if it differs
	if cur, err := w.c.App.ValsetKeeper.GetCurrentSnapshot(w.c.Ctx()); err == nil && cur != nil {
		for id := cur.Id; id >= 1; id-- {
			if id == paID {
				continue
			}
			if vs := w.valsetByID(ref, id); vs != nil && len(vs.Validators) > 0 {
				cc.otherVS = vs
				break
			}
		}
	}
	// the faithful call data of another queued message of the same action (any chain)
	for _, r := range w.refs {
		for _, o := range w.queueMsgs(r) {
			if o.GetId() == qm.GetId() {
				continue
			}
			om := world.TurnstoneMsg(w.c, o)
			if om == nil || actionOf(om) != spec.Action {
				continue
			}
			var vs *valsetT
			if spec.Action != actUpload {
				vs = w.valsetByID(ref, paID)
				if vs == nil {
					continue
				}
			}
			if s, err := w.honestSpec(o, vs, len(o.GetSignData())); err == nil {
				if d, err := s.encode(); err == nil {
					cc.otherMsg = d
				}
			}
		}
	}
	if cc.otherMsg == nil {
		// otherwise: the same call for a message id / parameters that do not exist
		o := spec.clone()
		switch spec.Action {
		case actSLC, actUser:
			o.MsgID = new(big.Int).Add(o.MsgID, big.NewInt(int64(1+w.r.Intn(3))))
		case actValset:
			o.NewValset.ValsetId = new(big.Int).Add(o.NewValset.ValsetId, big.NewInt(1))
		case actHandover:
			o.Deadline = new(big.Int).Add(o.Deadline, big.NewInt(60))
		case actUpload:
			if len(o.Raw) > 32 {
				o.Raw[len(o.Raw)-33] ^= 1
			}
		}
		if d, err := o.encode(); err == nil {
			cc.otherMsg = d
		}
	}
	return cc
}

// attest: validators holding >= 2/3 of the shares report the same proof; the evidence of all
// prepared attempts lands in ONE block, at whose end the chain attests. Where the plan says so, the
// remaining validators report the same transaction with the opposite receipt status - after the
// majority, before it, or already one block earlier (evidence is kept in the order it comes in).
func (w *wd) attest(prs []*prepared, p roundPlan) {
	var maj, rest []*chain.Account
	minorityFirst := false
	for _, pr := range prs {
		if pr.alt != nil && pr.a.Dissent != dissentLast {
			minorityFirst = true
		}
	}
	if minorityFirst {
		maj, rest = w.attestersSplit(prs[0].a.assignee)
	} else {
		maj, rest = w.attesters()
	}
	type report struct {
		v     *chain.Account
		pr    *prepared
		proof *evmtypes.TxExecutedProof
		alt   bool
	}
	var early, main []report // delivered one block before / in the attestation block, in this order
	for _, pr := range prs {
		var mj, mn []report
		for _, v := range maj {
			mj = append(mj, report{v, pr, pr.proof, false})
		}
		if pr.alt != nil {
			for _, v := range rest {
				mn = append(mn, report{v, pr, pr.alt, true})
			}
			if len(mn) == 0 {
				// everybody is needed for the 2/3: nobody left to dissent
				pr.a.Dissent = ""
				w.rec.Count("rounds_dissent_unavailable", 1)
			}
		}
		pr.a.minority = len(mn)
		switch {
		case len(mn) > 0 && pr.a.Dissent == dissentEarlier:
			early = append(early, mn...)
			main = append(main, mj...)
		case len(mn) > 0 && pr.a.Dissent == dissentFirst:
			main = append(append(main, mn...), mj...)
		default:
			main = append(append(main, mj...), mn...)
		}
		pr.a.evidenceAt = w.c.Height + 1
		w.live = append(w.live, pr.a)
	}
	deliver := func(rs []report) bool {
		seq := map[*chain.Account]uint64{}
		for _, r := range rs {
			ev, err := world.MsgEvidence(r.v, r.pr.queue, r.pr.a.MsgID, r.proof)
			if err == nil {
				err = w.c.QueueTx(r.v, seq[r.v], ev)
			}
			if err != nil {
				w.fail("evidence: %v", err)
				return false
			}
			seq[r.v]++
			if r.alt {
				w.rec.Count("dissenting_evidence", 1)
				w.rec.Count("dissenting_evidence/"+r.pr.a.Dissent, 1)
			}
		}
		return true
	}
	if len(early) > 0 {
		if !deliver(early) {
			return
		}
		w.block(fmt.Sprintf("dissenting evidence by %d/%d validators", len(rest), len(w.vals)))
		if w.failed {
			return
		}
	}
	if !deliver(main) {
		return
	}
	w.block(fmt.Sprintf("evidence by %d/%d validators", len(maj), len(w.vals)))
	if w.failed {
		return
	}
	for _, pr := range prs {
		a := pr.a
		if a.ranN == 0 {
			w.rec.Count("rounds_not_attested", 1)
			w.note("NOTE round %s: attestation did not run", a.key())
		}
		w.relayMetric(a)
		if a.acceptedN > 0 && len(w.reasons(a)) == 0 && a.Reuse == "" {
			u := &usedTx{Action: a.Action, Chain: a.Chain, Tx: a.tx, Receipt: pr.rc}
			if a.Action == actValset {
				fmt.Sscan(a.expKey, &u.Valset)
			}
			u.Gas = a.gas
			u.Signers = a.signers
			u.PA, u.Relayer, u.Height = a.PAValset, a.assignee, w.c.Height
			w.usedTxs[a.Action] = append(w.usedTxs[a.Action], u)
		}
	}
}

// relayMetric (informational, not part of the verdict: the statement does not list the relay
// metric among the success effects): does the metrix module record the relay as successful?
func (w *wd) relayMetric(a *attempt) {
	qm := a.assignee
	if qm == nil {
		return
	}
	h, err := w.c.App.MetrixKeeper.GetValidatorHistory(w.c.Ctx(), qm.ValAddr())
	if err != nil || h == nil {
		return
	}
	for _, r := range h.Records {
		if r.MessageId == a.MsgID {
			switch {
			case r.Success && a.acceptedN == 0:
				w.rec.Count("info/relay_metric_success_recorded_for_rejected_proof", 1)
			case r.Success:
				w.rec.Count("info/relay_metric_success_recorded_for_accepted_proof", 1)
			default:
				w.rec.Count("info/relay_metric_failure_recorded", 1)
			}
		}
	}
}
