package c07

// "The same remote transaction is never accepted for a second message" holds at EVERY later time.
// The real chain cannot be run for months inside a test, and baseapp refuses height jumps. So the
// re-submission of a used transaction is additionally played on FORKS of the latest state (throw-
// away cache contexts) at later heights / times: the message server handlers the pigeons' txs end
// in (gas estimates, signatures, public access data, evidence) and the consensus module's end-
// blocker (estimate election, attestation, pruning) run on the fork exactly as a block at that
// height would run them. What is observed on the fork is what the monitor observes after a real
// block: the relay record of the attestation's committed cache context, the module's rejection log
// lines, the queue, and the success effects in state (diff against the state the fork started from).
//
// Two shapes, both reachable histories:
//   * update_valset: the chain publishes the live snapshot AGAIN at the later height (keep-warm /
//     forced publish; a fresh message with a fresh id) and the relayer hands in the OLD transaction.
//     The call data of update_valset carries no message id, so it is byte-identical when relayer,
//     estimate and signers coincide.
//   * upload: the identical initial deployment of the second chain is still queued; the first
//     chain's transaction is handed in for it some blocks later (within the life of the message;
//     a deployment scheduled later gets another unique id, i.e. other call data).
// submit_logic_call / deploy_contract carry the message id in the call data, compass_update_batch
// the deadline of the one handover a deployment ever gets: their call data cannot repeat.

import (
	"context"
	"fmt"
	"math"
	"strconv"
	"strings"
	"time"

	sdk "github.com/cosmos/cosmos-sdk/types"

	consensustypes "github.com/palomachain/paloma/v2/x/consensus/types"

	"verif/harness/chain"
	"verif/harness/world"
)

const forkBlockTime = 2 * time.Second // the harness' block time; paloma's own estimate is 1.5 s

// laterOffsets: blocks after the block in which the chain ACCEPTED the transaction. Hours, days,
// weeks, months, years in both block-time conventions, and the block counts the code base itself
// uses as periods (queue pruning 300; util/blocks: day 57 600, week 403 200, month 1 728 000,
// year 21 024 000; keep-warm 30 days of 2 s blocks = 1 296 000), each hit exactly and one past.
var laterOffsets = []int64{
	300, 301,
	43_200, // 1 day of 2 s blocks
	57_600, 57_601,
	403_200, 403_201,
	1_296_000, 1_296_001,
	1_339_200, // 31 days of 2 s blocks
	1_728_000, 1_728_001,
	1_785_600, // 31 days of 1.5 s blocks
	3_456_001,
	15_768_000, // 1 year of 2 s blocks
	21_024_000, 21_024_001,
	210_240_000, // 10 years
}

// pendingOffsets: blocks after NOW for a message that is already queued (it lives 300 blocks).
var pendingOffsets = []int64{3, 4, 10, 49, 50, 100, 150, 200, 250, 280}

type fork struct {
	w   *wd
	ctx sdk.Context
	off int64 // blocks after the latest block of the real chain
}

func (w *wd) forkAt(off int64, extra time.Duration) *fork {
	return &fork{w: w, off: off, ctx: w.c.Fork(w.c.Height+off, w.c.Time.Add(time.Duration(off)*forkBlockTime+extra))}
}

func (f *fork) step() {
	f.ctx = f.ctx.WithBlockHeight(f.ctx.BlockHeight() + 1).WithBlockTime(f.ctx.BlockTime().Add(forkBlockTime))
}

// handle = what DeliverTx does with a message after the ante chain: the module's message server
// on a cache context that is written back only on success.
func (f *fork) handle(msg sdk.Msg) (err error) {
	h := f.w.c.App.MsgServiceRouter().Handler(msg)
	if h == nil {
		return fmt.Errorf("no handler for %s", sdk.MsgTypeURL(msg))
	}
	defer func() {
		if e := recover(); e != nil {
			err = fmt.Errorf("panic in handler: %v", e)
		}
	}()
	cctx, write := f.ctx.CacheContext()
	if _, err = h(cctx, msg); err == nil {
		write()
	}
	return err
}

// endBlock runs the consensus module's end-blocker on the fork and returns its log lines.
func (f *fork) endBlock() (logs []chain.LogLine, err error) {
	mod, ok := f.w.c.App.ModuleManager.Modules[consensustypes.ModuleName].(interface {
		EndBlock(context.Context) error
	})
	if !ok {
		return nil, fmt.Errorf("consensus module has no end-blocker")
	}
	defer func() {
		if e := recover(); e != nil {
			err = fmt.Errorf("panic in consensus end-blocker: %v", e)
		}
	}()
	f.w.c.Log.Drain()
	err = mod.EndBlock(f.ctx)
	return f.w.c.Log.Drain(), err
}

func (f *fork) queue(ref string) []consensustypes.QueuedSignedMessageI {
	msgs, _ := f.w.c.App.ConsensusKeeper.GetMessagesFromQueue(f.ctx, world.TurnstoneQueue(ref), 0)
	return msgs
}

func (f *fork) get(ref string, id uint64) consensustypes.QueuedSignedMessageI {
	for _, m := range f.queue(ref) {
		if m.GetId() == id {
			return m
		}
	}
	return nil
}

func (f *fork) findMsg(ref, action string) (uint64, bool) {
	for _, qm := range f.queue(ref) {
		m := world.TurnstoneMsg(f.w.c, qm)
		if m == nil || actionOf(m) != action || len(qm.GetEvidence()) > 0 || qm.GetPublicAccessData() != nil {
			continue
		}
		return qm.GetId(), true
	}
	return 0, false
}

func (f *fork) msgSign(v *chain.Account, ref string, id uint64) (*consensustypes.MsgAddMessagesSignatures, error) {
	qm := f.get(ref, id)
	if qm == nil {
		return nil, fmt.Errorf("message %d not queued", id)
	}
	bz, err := qm.GetBytesToSign(f.w.c.App.AppCodec())
	if err != nil {
		return nil, err
	}
	return &consensustypes.MsgAddMessagesSignatures{Metadata: world.Meta(v), SignedMessages: []*consensustypes.ConsensusMessageSignature{
		{Id: id, QueueTypeName: world.TurnstoneQueue(ref), Signature: world.EthSign(v.EthKey, bz), SignedByAddress: v.EthAddr()},
	}}, nil
}

// ---------------------------------------------------------------------------------------------

// keepWarmTx: a transaction the chain accepted for a re-publication of the snapshot that is live
// on the chain, relayed while it was live (consensus valset == new valset == live snapshot).
func (w *wd) keepWarmTx(ref string) *usedTx {
	live, err := w.c.App.ValsetKeeper.GetLatestSnapshotOnChain(w.c.Ctx(), ref)
	if err != nil || live == nil {
		return nil
	}
	var out *usedTx
	for _, u := range w.usedTxs[actValset] {
		if u.Chain == ref && u.Valset == live.Id && u.PA == live.Id && u.Relayer != nil {
			out = u
		}
	}
	return out
}

func (w *wd) republishLive(ref string) (uint64, bool) {
	live, err := w.c.App.ValsetKeeper.GetLatestSnapshotOnChain(w.c.Ctx(), ref)
	if err != nil || live == nil {
		return 0, false
	}
	w.rec.Count("ops/live_snapshot_republished", 1)
	return w.republish(ref, live.Id)
}

func (w *wd) pickedRelayer(ctx sdk.Context, ref string) string {
	defer func() { recover() }()
	pick, _, err := w.c.App.EvmKeeper.PickValidatorForMessage(ctx, ref, nil)
	if err != nil {
		return ""
	}
	return pick
}

// steerRelayer: the chain picks the relayer of a new message from the block time. Produce one
// block whose time makes it pick `want` for the next message (probed on forks), if there is one.
func (w *wd) steerRelayer(ref string, want *chain.Account) bool {
	if want == nil {
		return false
	}
	if w.pickedRelayer(w.c.Fork(w.c.Height, w.c.Time), ref) == want.ValBech() {
		return true
	}
	for dt := 1; dt <= 10; dt++ {
		t := w.c.Time.Add(time.Duration(dt) * time.Second)
		if w.pickedRelayer(w.c.Fork(w.c.Height+1, t), ref) == want.ValBech() {
			w.nextDt = time.Duration(dt) * time.Second
			w.block("wait for the relayer rotation")
			return !w.failed && w.pickedRelayer(w.c.Fork(w.c.Height, w.c.Time), ref) == want.ValBech()
		}
	}
	return false
}

func offsetLabel(blocks int64) string {
	return "+" + strconv.FormatInt(blocks, 10) + "-blocks"
}

func approx(d time.Duration) string {
	switch {
	case d < time.Hour:
		return d.String()
	case d < 48*time.Hour:
		return fmt.Sprintf("%.1f hours", d.Hours())
	default:
		return fmt.Sprintf("%.1f days", d.Hours()/24)
	}
}

// laterHeights: the fixed ladder (relative to the block the tx was accepted in) + the next block +
// seed-drawn offsets spread log-uniformly over 1 .. 10^9 blocks; only heights after the latest block.
func (w *wd) laterHeights(acceptedAt int64, nRandom int) []int64 {
	seen := map[int64]bool{}
	var out []int64
	add := func(h int64) {
		if h > w.c.Height && !seen[h] {
			seen[h] = true
			out = append(out, h)
		}
	}
	add(w.c.Height + 1)
	for _, o := range laterOffsets {
		add(acceptedAt + o)
	}
	for i := 0; i < nRandom; i++ {
		add(acceptedAt + int64(math.Pow(10, 9*w.r.Float64())))
	}
	return out
}

// resubmitLaterValset: for every later height, on a fresh fork: the chain publishes the live
// snapshot again (first the way OnSnapshotBuilt does it, which publishes once the last update is
// 30 days old; forced otherwise), the validators estimate the same gas, the same validators sign
// in the same order, the relayer publishes the hash of the OLD transaction and >= 2/3 hand it in.
func (w *wd) resubmitLaterValset(ref string, u *usedTx) {
	before := w.readEffects()
	for _, h := range w.laterHeights(u.Height, 2) {
		if w.failed {
			return
		}
		// the fork spends three blocks (estimates, signatures, relay) before the evidence block:
		// start it so that the attestation runs at height h
		off := h - 3 - w.c.Height
		if off < 1 {
			off = 1
		}
		// the block time (seconds) decides which relayer the chain picks for the new message
		extra := time.Duration(0)
		for k := 0; k < 10; k++ {
			d := time.Duration(k) * time.Second
			if w.pickedRelayer(w.forkAt(off, d).ctx, ref) == u.Relayer.ValBech() {
				extra = d
				break
			}
		}
		f := w.forkAt(off, extra)
		w.rec.Op(map[string]any{"op": "fork-resubmission", "action": actValset, "chain": ref, "tx": u.Tx.Hash().Hex(), "accepted_at": u.Height, "attestation_height": h, "fork_time": f.ctx.BlockTime().UTC().Format(time.RFC3339)})
		if off > 300 {
			// what the end-blockers of the blocks in between have done to the queues
			if err := w.c.App.ConsensusKeeper.PruneOldMessages(f.ctx, 300); err != nil {
				w.note("fork +%d: prune: %v", off, err)
			}
		}
		snap, err := w.c.App.ValsetKeeper.FindSnapshotByID(f.ctx, u.Valset)
		if err != nil || snap == nil {
			w.rec.Count("later_resubmission_skipped/no_snapshot", 1)
			continue
		}
		how := "keep-warm"
		_ = w.c.App.EvmKeeper.PublishSnapshotToAllChains(f.ctx, snap, false)
		id, ok := f.findMsg(ref, actValset)
		if !ok {
			how = "forced"
			_ = w.c.App.EvmKeeper.PublishSnapshotToAllChains(f.ctx, snap, true)
			id, ok = f.findMsg(ref, actValset)
		}
		if !ok {
			w.rec.Count("later_resubmission_skipped/no_message/"+actValset, 1)
			w.note("fork +%d: no update_valset message after publishing snapshot %d", off, u.Valset)
			continue
		}
		w.rec.Count("ops/fork_valset_published/"+how, 1)
		w.resubmitOnFork(f, ref, id, u, reuseSameCalldata, before)
	}
}

// resubmitLaterPending: the second message is already queued (identical initial deployment of
// another chain); the used tx is handed in for it at later heights within the message's life.
func (w *wd) resubmitLaterPending(ref string, id uint64, u *usedTx) {
	qm := w.getMsg(ref, id)
	if qm == nil {
		return
	}
	before := w.readEffects()
	for _, off := range pendingOffsets {
		if w.failed {
			return
		}
		// the queue drops messages older than 300 blocks
		if w.c.Height+off-qm.GetAddedAtBlockHeight() >= 300 {
			continue
		}
		// the fork spends two or three blocks (estimates, signatures, relay) before the evidence
		// block: start it so that the attestation runs off blocks from now
		start := off - 2
		if qm.GetRequireGasEstimation() && qm.GetGasEstimate() == 0 {
			start--
		}
		if start < 1 {
			start = 1
		}
		f := w.forkAt(start, 0)
		w.rec.Op(map[string]any{"op": "fork-resubmission", "action": actUpload, "chain": ref, "message_id": id, "tx": u.Tx.Hash().Hex(), "accepted_at": u.Height, "attestation_height": w.c.Height + off})
		w.resubmitOnFork(f, ref, id, u, reuseSameCalldata, before)
	}
}

// resubmitOnFork drives message id through estimates, signatures, relay and evidence on the fork
// with the used transaction u as proof, lets the chain attest, and judges what it did.
func (w *wd) resubmitOnFork(f *fork, ref string, id uint64, u *usedTx, reuse string, before *effState) {
	rec := w.rec
	queue := world.TurnstoneQueue(ref)
	off := f.off
	skip := func(why string, err error) {
		rec.Count("later_resubmission_skipped/"+why, 1)
		w.note("fork +%d: %s: %v", off, why, err)
	}
	qm := f.get(ref, id)
	if qm == nil {
		skip("no_message", nil)
		return
	}
	m := world.TurnstoneMsg(w.c, qm)
	if m == nil {
		skip("no_message", nil)
		return
	}
	action := actionOf(m)
	relayer := w.accountOfVal(m.Assignee)
	if relayer == nil {
		skip("unknown_assignee", nil)
		return
	}
	// --- gas estimate, elected by the end-blocker
	if qm.GetRequireGasEstimation() && qm.GetGasEstimate() == 0 {
		gas := u.Gas
		if gas == 0 {
			gas = 300_000
		}
		for _, v := range w.vals {
			if err := f.handle(world.MsgEstimate(v, queue, id, gas)); err != nil {
				skip("estimate_refused", err)
				return
			}
		}
		if _, err := f.endBlock(); err != nil {
			skip("end_block_failed", err)
			return
		}
		f.step()
		if qm = f.get(ref, id); qm == nil || qm.GetGasEstimate() == 0 {
			skip("no_elected_estimate", nil)
			return
		}
	}
	// --- signatures: the validators whose signatures the tx carries, in the same order (all, for
	// a contract creation, which carries none)
	var signers []*chain.Account
	for _, i := range u.Signers {
		signers = append(signers, w.vals[i])
	}
	if len(signers) == 0 {
		signers = w.vals
	}
	for _, v := range signers {
		sm, err := f.msgSign(v, ref, id)
		if err == nil {
			err = f.handle(sm)
		}
		if err != nil {
			skip("signature_refused", err)
			return
		}
	}
	if _, err := f.endBlock(); err != nil {
		skip("end_block_failed", err)
		return
	}
	f.step()
	// --- relay: the assignee publishes the hash of the OLD transaction and compass' valset id
	paID := uint64(0)
	if s, err := w.c.App.ValsetKeeper.GetLatestSnapshotOnChain(f.ctx, ref); err == nil && s != nil {
		paID = s.Id
	} else if s, err := w.c.App.ValsetKeeper.GetCurrentSnapshot(f.ctx); err == nil && s != nil {
		paID = s.Id
	}
	if err := f.handle(world.MsgPublicAccess(relayer, queue, id, u.Tx.Hash().Bytes(), paID)); err != nil {
		skip("relay_refused", err)
		return
	}
	if _, err := f.endBlock(); err != nil {
		skip("end_block_failed", err)
		return
	}
	f.step()
	if qm = f.get(ref, id); qm == nil || qm.GetPublicAccessData() == nil {
		skip("relay_not_registered", nil)
		return
	}
	// --- reference verdict (same code as for a real round: independent encoding of THIS message)
	a := &attempt{Chain: ref, MsgID: id, Action: action, Class: "reused-tx", Receipt: rcOK, Reuse: reuse, NSigs: len(qm.GetSignData()), NSigsUsed: len(u.Signers),
		PAValset: paID, applied: map[string]int{}, prefix: -1, tx: u.Tx, assignee: relayer, gas: qm.GetGasEstimate()}
	a.rcOK = u.Receipt != nil && u.Receipt.Status == 1
	w.evaluate(a, qm)
	// --- evidence by >= 2/3 of the shares, then the attestation
	maj, _ := w.attesters()
	proof := mkProof(u.Tx, u.Receipt, rcOK, w.r)
	for _, v := range maj {
		ev, err := world.MsgEvidence(v, queue, id, proof)
		if err == nil {
			err = f.handle(ev)
		}
		if err != nil {
			skip("evidence_refused", err)
			return
		}
	}
	logs, err := f.endBlock()
	if err != nil {
		skip("end_block_failed", err)
		return
	}
	// --- what the chain did
	var receiptRejected, integrityFailed, noConsensus bool
	ids := strconv.FormatUint(id, 10)
	for _, l := range logs {
		switch {
		case l.Msg == "Consensus not achieved." && kvHas(l, "msg-id", ids):
			noConsensus = true
		case (l.Msg == "Transaction execution failed" || l.Msg == "Failed to get transaction receipt") && kvHas(l, "message-id", ids):
			receiptRejected = true
		case l.Msg == "Failed to verify transaction integrity." && kvHas(l, "chain-reference-id", ref) && kvHas(l, "action-msg", actionLogName[action]):
			integrityFailed = true
		}
	}
	committed := w.relayRecordedAt(f.ctx, a)
	ran := committed || receiptRejected || integrityFailed
	later := f.ctx.BlockHeight() - u.Height
	when := fmt.Sprintf("%d blocks (%s of block time) after the chain accepted the transaction at height %d", later, approx(f.ctx.BlockTime().Sub(w.c.Time)), u.Height)
	if !ran {
		rec.Count("later_resubmission_not_attested", 1)
		w.note("NOTE fork +%d: attestation of %s #%d on %s did not run (no consensus: %v)", off, action, id, ref, noConsensus)
		return
	}
	accepted := committed && !receiptRejected && !integrityFailed
	var mine []string
	events := diffEffects(before, w.readEffectsAt(f.ctx))
	for _, e := range events {
		if a.expects(e) {
			mine = append(mine, e.String())
		} else {
			rec.Count("later_resubmission_other_effects/"+e.Kind, 1)
		}
	}
	rs := w.reasons(a)
	rec.Eval(int64(1 + len(mine)))
	outcome := "rejected"
	if accepted {
		outcome = "accepted"
	}
	identical := "other-calldata"
	if a.matches {
		identical = "identical-calldata"
	}
	rec.Count("rounds_used_tx_resubmitted_later", 1)
	rec.Count("rounds_used_tx_resubmitted_later/"+action+"/"+identical+"/"+outcome, 1)
	if a.matches {
		rec.Count("rounds_used_tx_resubmitted_later_identical_calldata", 1)
	}
	rec.Distinct(fmt.Sprintf("later|%s|%s|%d|%v", action, identical, later, accepted))
	extra := map[string]any{"on_fork": true, "fork_height": f.ctx.BlockHeight(), "fork_time": f.ctx.BlockTime().UTC().Format(time.RFC3339), "tx_accepted_at_height": u.Height,
		"blocks_since_tx_was_accepted": later, "effects": mine, "message_still_queued": f.get(ref, id) != nil}
	if len(rs) == 0 {
		// cannot happen (the tx IS used); if the book-keeping ever says otherwise, do not judge
		rec.Count("later_resubmission_unjudged", 1)
		return
	}
	switch {
	case accepted:
		eff := "no success effect in state"
		if len(mine) > 0 {
			eff = "success effects applied: " + strings.Join(mine, ", ")
		}
		rec.Violation(fmt.Sprintf("invalid-proof-accepted/%s/%s", action, strings.Join(rs, "+")),
			fmt.Sprintf("fork of the state at height %d, %s: the attestation of message %d (%s on %s) accepted transaction %s as proof of delivery although: %s [it was accepted before for %s; receipt %q, reuse %q]; %s",
				f.ctx.BlockHeight(), when, id, action, ref, u.Tx.Hash().Hex(), strings.Join(rs, " and "), w.accepted[u.Tx.Hash()], a.Receipt, a.Reuse, eff),
			a.witness(w, extra))
	case len(mine) > 0:
		rec.Violation(fmt.Sprintf("success-effect-without-valid-proof/%s/%s/%s", action, kindOf(events, a), strings.Join(rs, "+")),
			fmt.Sprintf("fork of the state at height %d, %s: %s applied for message %d (%s on %s) although its proof transaction %s is not valid for it (%s) and the attestation did not even accept it",
				f.ctx.BlockHeight(), when, strings.Join(mine, ", "), id, action, ref, u.Tx.Hash().Hex(), strings.Join(rs, " and ")),
			a.witness(w, extra))
	}
}

func kindOf(events []event, a *attempt) string {
	for _, e := range events {
		if a.expects(e) {
			return e.Kind
		}
	}
	return "?"
}
