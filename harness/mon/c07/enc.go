package c07

// Independent description + encoder of the transaction a relayer sends to the bridge contract
// ("compass") for a queued message. Nothing here calls into x/evm/types: the spec is filled from
// the fields of the queued message, the valset the chain hands to pigeons and the collected
// signatures, and packed with go-ethereum's ABI packer over the PUBLIC compass ABI
// (/verif/fixtures/compass-abi.json). The oracle compares bytes produced here with the bytes of
// the attested transaction.

import (
	"bytes"
	"fmt"
	"math/big"
	"math/rand"
	"strings"

	"github.com/ethereum/go-ethereum/accounts/abi"
	"github.com/ethereum/go-ethereum/common"

	"verif/harness/chain"
)

// field names follow go-ethereum's tuple mapping (abi.ToCamelCase of the component names)
type sigT struct{ V, R, S *big.Int }

type valsetT struct {
	Validators []common.Address
	Powers     []*big.Int
	ValsetId   *big.Int
}

type consT struct {
	Valset     valsetT
	Signatures []sigT
}

type logicT struct {
	LogicContractAddress common.Address
	Payload              []byte
}

type feeT struct {
	RelayerFee            *big.Int
	CommunityFee          *big.Int
	SecurityFee           *big.Int
	FeePayerPalomaAddress [32]byte
}

const (
	actValset   = "update_valset"
	actSLC      = "submit_logic_call"
	actUser     = "deploy_contract"
	actHandover = "compass_update_batch"
	actUpload   = "upload" // contract creation: data = bytecode ++ constructor input, no ABI call
)

var allActions = []string{actUpload, actValset, actSLC, actUser, actHandover}

// txSpec is everything that goes into the call data.
type txSpec struct {
	Action    string
	Cons      consT
	NewValset valsetT // update_valset
	Relayer   common.Address
	Gas       *big.Int // update_valset, compass_update_batch
	Logic     logicT   // submit_logic_call
	Fees      feeT     // submit_logic_call, deploy_contract
	MsgID     *big.Int // submit_logic_call, deploy_contract
	Deadline  *big.Int // submit_logic_call, deploy_contract, compass_update_batch
	Deployer  common.Address
	Bytecode  []byte   // deploy_contract
	Forward   []logicT // compass_update_batch
	Raw       []byte   // upload
	Split     int      // upload: length of the bytecode = offset at which the constructor input starts in Raw
}

var parsedABI *abi.ABI

func compassABI() abi.ABI {
	if parsedABI == nil {
		a, err := abi.JSON(strings.NewReader(chain.CompassABI()))
		if err != nil {
			panic(err)
		}
		parsedABI = &a
	}
	return *parsedABI
}

func (s *txSpec) encode() ([]byte, error) {
	a := compassABI()
	switch s.Action {
	case actValset:
		return a.Pack("update_valset", s.Cons, s.NewValset, s.Relayer, s.Gas)
	case actSLC:
		return a.Pack("submit_logic_call", s.Cons, s.Logic, s.Fees, s.MsgID, s.Deadline, s.Relayer)
	case actUser:
		return a.Pack("deploy_contract", s.Cons, s.Deployer, s.Bytecode, s.Fees, s.MsgID, s.Deadline, s.Relayer)
	case actHandover:
		fw := s.Forward
		if fw == nil {
			fw = []logicT{}
		}
		return a.Pack("compass_update_batch", s.Cons, fw, s.Deadline, s.Gas, s.Relayer)
	case actUpload:
		return append([]byte{}, s.Raw...), nil
	}
	return nil, fmt.Errorf("unknown action %q", s.Action)
}

func (s *txSpec) clone() *txSpec {
	c := *s
	c.Cons = cloneCons(s.Cons)
	c.NewValset = cloneValset(s.NewValset)
	c.Gas = cpBig(s.Gas)
	c.MsgID = cpBig(s.MsgID)
	c.Deadline = cpBig(s.Deadline)
	c.Logic = logicT{s.Logic.LogicContractAddress, append([]byte{}, s.Logic.Payload...)}
	c.Fees = feeT{cpBig(s.Fees.RelayerFee), cpBig(s.Fees.CommunityFee), cpBig(s.Fees.SecurityFee), s.Fees.FeePayerPalomaAddress}
	c.Bytecode = append([]byte{}, s.Bytecode...)
	c.Raw = append([]byte{}, s.Raw...)
	c.Forward = nil
	for _, f := range s.Forward {
		c.Forward = append(c.Forward, logicT{f.LogicContractAddress, append([]byte{}, f.Payload...)})
	}
	return &c
}

func cpBig(b *big.Int) *big.Int {
	if b == nil {
		return nil
	}
	return new(big.Int).Set(b)
}

func cloneValset(v valsetT) valsetT {
	o := valsetT{ValsetId: cpBig(v.ValsetId)}
	o.Validators = append([]common.Address{}, v.Validators...)
	for _, p := range v.Powers {
		o.Powers = append(o.Powers, cpBig(p))
	}
	if o.Powers == nil {
		o.Powers = []*big.Int{}
	}
	return o
}

func cloneCons(c consT) consT {
	o := consT{Valset: cloneValset(c.Valset), Signatures: []sigT{}}
	for _, s := range c.Signatures {
		o.Signatures = append(o.Signatures, sigT{cpBig(s.V), cpBig(s.R), cpBig(s.S)})
	}
	return o
}

// rawSig is one collected signature as stored in the queue (65 bytes r||s||v, signer address).
type rawSig struct {
	Signer common.Address
	Sig    []byte
}

// consensusOf lays the signatures out the way compass expects them: one entry per valset member,
// in valset order, (0,0,0) for members without a signature, v = recovery id + 27.
func consensusOf(vs valsetT, sigs []rawSig) consT {
	c := consT{Valset: cloneValset(vs), Signatures: []sigT{}}
	by := map[common.Address][]byte{}
	for _, s := range sigs {
		by[s.Signer] = s.Sig
	}
	for _, v := range vs.Validators {
		sg, ok := by[v]
		if !ok || len(sg) != 65 {
			c.Signatures = append(c.Signatures, sigT{big.NewInt(0), big.NewInt(0), big.NewInt(0)})
			continue
		}
		c.Signatures = append(c.Signatures, sigT{
			V: big.NewInt(int64(sg[64]) + 27),
			R: new(big.Int).SetBytes(sg[:32]),
			S: new(big.Int).SetBytes(sg[32:64]),
		})
	}
	return c
}

func leftPad32(b []byte) [32]byte {
	var out [32]byte
	if len(b) > 32 {
		b = b[len(b)-32:]
	}
	copy(out[32-len(b):], b)
	return out
}

// ---------------------------------------------------------------------------------------------
// corruption catalogue

// corruptCtx is what a corruption may draw on besides the spec itself.
type corruptCtx struct {
	r          *rand.Rand
	others     []common.Address // other validators' remote addresses
	otherVS    *valsetT         // projection of a DIFFERENT existing snapshot (nil if none differs)
	otherMsg   []byte           // honest call data of a different queued message / other contract (nil if none)
	lastSigner int              // index (in valset order) of the LAST collected signature used, -1 if none
}

type corruption struct {
	Name    string
	Actions []string                                           // applicable actions
	Typed   func(c *corruptCtx, s *txSpec) bool                // modifies the spec before encoding
	Bytes   func(c *corruptCtx, s *txSpec, data []byte) []byte // modifies the encoded bytes (nil = not applicable)
}

var ccActions = []string{actValset, actSLC, actUser, actHandover}
var feeActions = []string{actSLC, actUser}

func bump(r *rand.Rand, b *big.Int) *big.Int {
	switch r.Intn(4) {
	case 0:
		return new(big.Int).Add(b, big.NewInt(1))
	case 1:
		if b.Sign() > 0 {
			return new(big.Int).Sub(b, big.NewInt(1))
		}
		return new(big.Int).Add(b, big.NewInt(2))
	case 2:
		if b.Sign() != 0 {
			return big.NewInt(0)
		}
		return big.NewInt(1)
	default:
		// flip a higher bit (value stays a valid uint256)
		return new(big.Int).Xor(b, new(big.Int).Lsh(big.NewInt(1), uint(8+r.Intn(200))))
	}
}

func flipByte(r *rand.Rand, b []byte) bool {
	if len(b) == 0 {
		return false
	}
	b[r.Intn(len(b))] ^= byte(1 << uint(r.Intn(8)))
	return true
}

func mutBytes(r *rand.Rand, b []byte) []byte {
	switch {
	case len(b) == 0 || r.Intn(4) == 0:
		return append(append([]byte{}, b...), byte(1+r.Intn(255)))
	case r.Intn(3) == 0:
		return append([]byte{}, b[:len(b)-1]...)
	default:
		o := append([]byte{}, b...)
		flipByte(r, o)
		return o
	}
}

func mutAddr(c *corruptCtx, a common.Address) common.Address {
	if len(c.others) > 0 && c.r.Intn(2) == 0 {
		o := c.others[c.r.Intn(len(c.others))]
		if o != a {
			return o
		}
	}
	b := a
	b[c.r.Intn(20)] ^= byte(1 << uint(c.r.Intn(8)))
	return b
}

func presentSigs(s *txSpec) []int {
	var idx []int
	for i, sg := range s.Cons.Signatures {
		if sg.V.Sign() != 0 || sg.R.Sign() != 0 || sg.S.Sign() != 0 {
			idx = append(idx, i)
		}
	}
	return idx
}

func catalogue() []corruption {
	return []corruption{
		{Name: "relayer", Actions: ccActions, Typed: func(c *corruptCtx, s *txSpec) bool { s.Relayer = mutAddr(c, s.Relayer); return true }},
		{Name: "message-id", Actions: feeActions, Typed: func(c *corruptCtx, s *txSpec) bool { s.MsgID = bump(c.r, s.MsgID); return true }},
		{Name: "deadline", Actions: []string{actSLC, actUser, actHandover}, Typed: func(c *corruptCtx, s *txSpec) bool { s.Deadline = bump(c.r, s.Deadline); return true }},
		{Name: "fee-relayer", Actions: feeActions, Typed: func(c *corruptCtx, s *txSpec) bool { s.Fees.RelayerFee = bump(c.r, s.Fees.RelayerFee); return true }},
		{Name: "fee-community", Actions: feeActions, Typed: func(c *corruptCtx, s *txSpec) bool { s.Fees.CommunityFee = bump(c.r, s.Fees.CommunityFee); return true }},
		{Name: "fee-security", Actions: feeActions, Typed: func(c *corruptCtx, s *txSpec) bool { s.Fees.SecurityFee = bump(c.r, s.Fees.SecurityFee); return true }},
		// the fee triple a message carries BEFORE fees are attached (what the code assumes when Fees is nil): a call
		// built against that default is not the encoding of a message that has its own fees
		{Name: "fee-defaults", Actions: feeActions, Typed: func(c *corruptCtx, s *txSpec) bool {
			if s.Fees.RelayerFee != nil && s.Fees.RelayerFee.Cmp(big.NewInt(100000)) == 0 && s.Fees.CommunityFee.Cmp(big.NewInt(100000)) == 0 && s.Fees.SecurityFee.Cmp(big.NewInt(100000)) == 0 {
				return false
			}
			s.Fees.RelayerFee, s.Fees.CommunityFee, s.Fees.SecurityFee = big.NewInt(100000), big.NewInt(100000), big.NewInt(100000)
			return true
		}},
		{Name: "fee-swap", Actions: feeActions, Typed: func(c *corruptCtx, s *txSpec) bool { return feeMix(c, s, true) }},
		{Name: "fee-duplicate", Actions: feeActions, Typed: func(c *corruptCtx, s *txSpec) bool { return feeMix(c, s, false) }},
		{Name: "fee-payer", Actions: feeActions, Typed: func(c *corruptCtx, s *txSpec) bool {
			s.Fees.FeePayerPalomaAddress[c.r.Intn(32)] ^= byte(1 << uint(c.r.Intn(8)))
			return true
		}},
		{Name: "payload", Actions: []string{actSLC, actUser, actHandover}, Typed: func(c *corruptCtx, s *txSpec) bool {
			switch s.Action {
			case actSLC:
				s.Logic.Payload = mutBytes(c.r, s.Logic.Payload)
			case actUser:
				s.Bytecode = mutBytes(c.r, s.Bytecode)
			case actHandover:
				if len(s.Forward) == 0 {
					return false
				}
				i := c.r.Intn(len(s.Forward))
				s.Forward[i].Payload = mutBytes(c.r, s.Forward[i].Payload)
			}
			return true
		}},
		{Name: "target-address", Actions: []string{actSLC, actUser, actHandover}, Typed: func(c *corruptCtx, s *txSpec) bool {
			switch s.Action {
			case actSLC:
				s.Logic.LogicContractAddress = mutAddr(c, s.Logic.LogicContractAddress)
			case actUser:
				s.Deployer = mutAddr(c, s.Deployer)
			case actHandover:
				if len(s.Forward) == 0 {
					return false
				}
				i := c.r.Intn(len(s.Forward))
				s.Forward[i].LogicContractAddress = mutAddr(c, s.Forward[i].LogicContractAddress)
			}
			return true
		}},
		{Name: "forward-count", Actions: []string{actHandover}, Typed: func(c *corruptCtx, s *txSpec) bool {
			if len(s.Forward) > 0 && c.r.Intn(2) == 0 {
				s.Forward = s.Forward[:len(s.Forward)-1]
			} else {
				s.Forward = append(s.Forward, logicT{common.HexToAddress("0x00000000000000000000000000000000000000aa"), []byte{1, 2, 3, 4}})
			}
			return true
		}},
		{Name: "gas-estimate", Actions: []string{actValset, actHandover}, Typed: func(c *corruptCtx, s *txSpec) bool { s.Gas = bump(c.r, s.Gas); return true }},
		{Name: "new-valset-member", Actions: []string{actValset}, Typed: func(c *corruptCtx, s *txSpec) bool {
			if len(s.NewValset.Validators) == 0 {
				return false
			}
			i := c.r.Intn(len(s.NewValset.Validators))
			s.NewValset.Validators[i][c.r.Intn(20)] ^= 0x40
			return true
		}},
		{Name: "new-valset-power", Actions: []string{actValset}, Typed: func(c *corruptCtx, s *txSpec) bool {
			if len(s.NewValset.Powers) == 0 {
				return false
			}
			i := c.r.Intn(len(s.NewValset.Powers))
			s.NewValset.Powers[i] = bump(c.r, s.NewValset.Powers[i])
			return true
		}},
		{Name: "new-valset-id", Actions: []string{actValset}, Typed: func(c *corruptCtx, s *txSpec) bool {
			s.NewValset.ValsetId = bump(c.r, s.NewValset.ValsetId)
			return true
		}},
		{Name: "new-valset-shape", Actions: []string{actValset}, Typed: func(c *corruptCtx, s *txSpec) bool {
			n := len(s.NewValset.Validators)
			if n < 2 {
				return false
			}
			switch c.r.Intn(3) {
			case 0: // drop the last member
				s.NewValset.Validators = s.NewValset.Validators[:n-1]
				s.NewValset.Powers = s.NewValset.Powers[:n-1]
			case 1: // swap two members (with their powers): same set, other order
				s.NewValset.Validators[0], s.NewValset.Validators[1] = s.NewValset.Validators[1], s.NewValset.Validators[0]
				s.NewValset.Powers[0], s.NewValset.Powers[1] = s.NewValset.Powers[1], s.NewValset.Powers[0]
			default: // swap only the powers of two members
				if s.NewValset.Powers[0].Cmp(s.NewValset.Powers[n-1]) == 0 {
					return false
				}
				s.NewValset.Powers[0], s.NewValset.Powers[n-1] = s.NewValset.Powers[n-1], s.NewValset.Powers[0]
			}
			return true
		}},
		{Name: "new-valset-is-current", Actions: []string{actValset}, Typed: func(c *corruptCtx, s *txSpec) bool {
			// the call re-installs the valset compass already has instead of the new one
			same := s.NewValset.ValsetId.Cmp(s.Cons.Valset.ValsetId) == 0 && len(s.NewValset.Validators) == len(s.Cons.Valset.Validators)
			for i := 0; same && i < len(s.NewValset.Validators); i++ {
				same = s.NewValset.Validators[i] == s.Cons.Valset.Validators[i] && s.NewValset.Powers[i].Cmp(s.Cons.Valset.Powers[i]) == 0
			}
			if same {
				return false
			}
			s.NewValset = cloneValset(s.Cons.Valset)
			return true
		}},
		{Name: "consensus-valset-member", Actions: ccActions, Typed: func(c *corruptCtx, s *txSpec) bool {
			if len(s.Cons.Valset.Validators) == 0 {
				return false
			}
			i := c.r.Intn(len(s.Cons.Valset.Validators))
			s.Cons.Valset.Validators[i][c.r.Intn(20)] ^= 0x10
			return true
		}},
		{Name: "consensus-valset-power", Actions: ccActions, Typed: func(c *corruptCtx, s *txSpec) bool {
			if len(s.Cons.Valset.Powers) == 0 {
				return false
			}
			i := c.r.Intn(len(s.Cons.Valset.Powers))
			s.Cons.Valset.Powers[i] = bump(c.r, s.Cons.Valset.Powers[i])
			return true
		}},
		{Name: "consensus-valset-id", Actions: ccActions, Typed: func(c *corruptCtx, s *txSpec) bool {
			s.Cons.Valset.ValsetId = bump(c.r, s.Cons.Valset.ValsetId)
			return true
		}},
		{Name: "consensus-other-snapshot", Actions: ccActions, Typed: func(c *corruptCtx, s *txSpec) bool {
			if c.otherVS == nil {
				return false
			}
			s.Cons.Valset = cloneValset(*c.otherVS)
			return true
		}},
		{Name: "signature-value", Actions: ccActions, Typed: func(c *corruptCtx, s *txSpec) bool {
			idx := presentSigs(s)
			if len(idx) == 0 {
				return false
			}
			sg := &s.Cons.Signatures[idx[c.r.Intn(len(idx))]]
			switch c.r.Intn(3) {
			case 0:
				sg.R = new(big.Int).Xor(sg.R, new(big.Int).Lsh(big.NewInt(1), uint(c.r.Intn(250))))
			case 1:
				sg.S = new(big.Int).Xor(sg.S, new(big.Int).Lsh(big.NewInt(1), uint(c.r.Intn(250))))
			default:
				if sg.V.Int64() == 27 {
					sg.V = big.NewInt(28)
				} else {
					sg.V = big.NewInt(27)
				}
			}
			return true
		}},
		{Name: "signature-order", Actions: ccActions, Typed: func(c *corruptCtx, s *txSpec) bool {
			n := len(s.Cons.Signatures)
			for try := 0; try < 8 && n >= 2; try++ {
				i, j := c.r.Intn(n), c.r.Intn(n)
				a, b := s.Cons.Signatures[i], s.Cons.Signatures[j]
				if i != j && (a.R.Cmp(b.R) != 0 || a.S.Cmp(b.S) != 0 || a.V.Cmp(b.V) != 0) {
					s.Cons.Signatures[i], s.Cons.Signatures[j] = b, a
					return true
				}
			}
			return false
		}},
		{Name: "signature-non-prefix", Actions: ccActions, Typed: func(c *corruptCtx, s *txSpec) bool {
			// blank a signature that is NOT the last collected one: what remains is a subset of the
			// collected signatures but not a prefix of them
			idx := presentSigs(s)
			var cand []int
			for _, i := range idx {
				if i != c.lastSigner {
					cand = append(cand, i)
				}
			}
			if len(idx) < 2 || len(cand) == 0 {
				return false
			}
			i := cand[c.r.Intn(len(cand))]
			s.Cons.Signatures[i] = sigT{big.NewInt(0), big.NewInt(0), big.NewInt(0)}
			return true
		}},
		{Name: "signature-foreign", Actions: ccActions, Typed: func(c *corruptCtx, s *txSpec) bool {
			// put a made-up signature into a slot of a member who has not signed
			for i, sg := range s.Cons.Signatures {
				if sg.V.Sign() == 0 && sg.R.Sign() == 0 && sg.S.Sign() == 0 {
					s.Cons.Signatures[i] = sigT{big.NewInt(27), big.NewInt(int64(1 + c.r.Intn(1<<30))), big.NewInt(int64(1 + c.r.Intn(1<<30)))}
					return true
				}
			}
			return false
		}},
		{Name: "signature-count", Actions: ccActions, Typed: func(c *corruptCtx, s *txSpec) bool {
			n := len(s.Cons.Signatures)
			if n > 0 && c.r.Intn(2) == 0 {
				last := s.Cons.Signatures[n-1]
				if last.V.Sign() == 0 && last.R.Sign() == 0 {
					s.Cons.Signatures = s.Cons.Signatures[:n-1]
					return true
				}
			}
			s.Cons.Signatures = append(s.Cons.Signatures, sigT{big.NewInt(0), big.NewInt(0), big.NewInt(0)})
			return true
		}},
		{Name: "trailing-bytes", Actions: allActions, Bytes: func(c *corruptCtx, s *txSpec, d []byte) []byte {
			n := []int{1, 4, 32, 33}[c.r.Intn(4)]
			ext := make([]byte, n)
			if c.r.Intn(2) == 0 {
				c.r.Read(ext)
			}
			return append(append([]byte{}, d...), ext...)
		}},
		{Name: "truncated", Actions: allActions, Bytes: func(c *corruptCtx, s *txSpec, d []byte) []byte {
			n := []int{1, 31, 32, 64}[c.r.Intn(4)]
			if n >= len(d) {
				n = 1
			}
			if len(d) == 0 {
				return nil
			}
			return append([]byte{}, d[:len(d)-n]...)
		}},
		{Name: "selector", Actions: ccActions, Bytes: func(c *corruptCtx, s *txSpec, d []byte) []byte {
			if len(d) < 4 {
				return nil
			}
			o := append([]byte{}, d...)
			a := compassABI()
			names := []string{"update_valset", "submit_logic_call", "deploy_contract", "compass_update_batch", "submit_batch"}
			own := map[string]string{actValset: "update_valset", actSLC: "submit_logic_call", actUser: "deploy_contract", actHandover: "compass_update_batch"}[s.Action]
			if c.r.Intn(3) == 0 {
				o[c.r.Intn(4)] ^= byte(1 << uint(c.r.Intn(8)))
				return o
			}
			for {
				n := names[c.r.Intn(len(names))]
				if n != own {
					copy(o[:4], a.Methods[n].ID)
					return o
				}
			}
		}},
		{Name: "dirty-address-padding", Actions: ccActions, Bytes: func(c *corruptCtx, s *txSpec, d []byte) []byte {
			// same decoded arguments for a lenient decoder, different bytes: set a bit in the 12
			// padding bytes of the relayer address word
			word := common.LeftPadBytes(s.Relayer.Bytes(), 32)
			for off := 4; off+32 <= len(d); off += 32 {
				if bytes.Equal(d[off:off+32], word) {
					o := append([]byte{}, d...)
					o[off+c.r.Intn(12)] |= byte(1 << uint(c.r.Intn(8)))
					return o
				}
			}
			return nil
		}},
		{Name: "byte-flip", Actions: allActions, Bytes: func(c *corruptCtx, s *txSpec, d []byte) []byte {
			if len(d) == 0 {
				return nil
			}
			o := append([]byte{}, d...)
			flipByte(c.r, o)
			return o
		}},
		{Name: "other-message", Actions: allActions, Bytes: func(c *corruptCtx, s *txSpec, d []byte) []byte {
			if c.otherMsg == nil {
				return nil
			}
			return append([]byte{}, c.otherMsg...)
		}},
		{Name: "empty-data", Actions: allActions, Bytes: func(c *corruptCtx, s *txSpec, d []byte) []byte { return []byte{} }},
		{Name: "upload-bytecode", Actions: []string{actUpload}, Typed: func(c *corruptCtx, s *txSpec) bool {
			if len(s.Raw) < 64 {
				return false
			}
			s.Raw[c.r.Intn(len(s.Raw)-40)] ^= byte(1 << uint(c.r.Intn(8)))
			return true
		}},
		{Name: "upload-constructor-args", Actions: []string{actUpload}, Typed: func(c *corruptCtx, s *txSpec) bool {
			if len(s.Raw) < 64 {
				return false
			}
			// the constructor input is the tail of the data
			s.Raw[len(s.Raw)-1-c.r.Intn(32)] ^= byte(1 << uint(c.r.Intn(8)))
			return true
		}},
		// --- insertions: every byte of the faithful encoding is still there, in order, but foreign
		// bytes sit between two of its parts (head and tail of the data stay what they were)
		{Name: "inserted-bytes", Actions: allActions, Bytes: func(c *corruptCtx, s *txSpec, d []byte) []byte {
			n := []int{1, 4, 32, 64}[c.r.Intn(4)]
			ext := make([]byte, n)
			if c.r.Intn(3) > 0 {
				c.r.Read(ext)
				ext[0] |= 1
			}
			pos := -1
			if s.Action == actUpload {
				// between bytecode and constructor input, or in front of the last k words
				switch k := len(d) / 32; {
				case s.Split > 0 && s.Split < len(d) && c.r.Intn(2) == 0:
					pos = s.Split
				case k >= 1:
					if k > 12 {
						k = 12
					}
					pos = len(d) - 32*(1+c.r.Intn(k))
				}
			} else if words := (len(d) - 4) / 32; words >= 1 {
				// at a word boundary of the argument block: right behind the selector, in front of the
				// last word, or anywhere
				switch c.r.Intn(3) {
				case 0:
					pos = 4
				case 1:
					pos = 4 + 32*(words-1)
				default:
					pos = 4 + 32*c.r.Intn(words)
				}
			}
			if pos <= 0 || pos >= len(d) {
				return nil
			}
			return insertAt(d, pos, ext)
		}},
		{Name: "duplicated-tail", Actions: allActions, Bytes: func(c *corruptCtx, s *txSpec, d []byte) []byte {
			// the data is followed by a copy of its own last N bytes: the last word(s), or the whole
			// argument block (for a contract creation: the constructor input a second time)
			whole := len(d) - 4
			if s.Action == actUpload {
				whole = len(d) - s.Split
			}
			n := []int{32, 64, whole, whole}[c.r.Intn(4)]
			if n <= 0 || n > len(d) {
				return nil
			}
			return append(append([]byte{}, d...), d[len(d)-n:]...)
		}},
		{Name: "upload-constructor-args-inserted", Actions: []string{actUpload}, Bytes: func(c *corruptCtx, s *txSpec, d []byte) []byte {
			// bytecode ++ OTHER constructor arguments ++ the constructor arguments of the message: init
			// code reads its arguments right behind the bytecode, the expected ones are dead bytes
			if s.Split <= 0 || s.Split >= len(d) {
				return nil
			}
			args := d[s.Split:]
			var other []byte
			if c.r.Intn(3) > 0 {
				other = otherConstructorArgs(c, args)
			}
			if other == nil {
				other = append([]byte{}, args...)
				other[c.r.Intn(len(other))] ^= byte(1 << uint(c.r.Intn(8)))
			}
			return insertAt(d, s.Split, other)
		}},
	}
}

func insertAt(d []byte, pos int, ext []byte) []byte {
	o := make([]byte, 0, len(d)+len(ext))
	o = append(o, d[:pos]...)
	o = append(o, ext...)
	return append(o, d[pos:]...)
}

// otherConstructorArgs: the compass constructor arguments of the message with the validator set
// replaced by one of the sender's choosing (public compass ABI; nil if the arguments do not decode).
func otherConstructorArgs(c *corruptCtx, args []byte) []byte {
	a := compassABI()
	params, err := a.Constructor.Inputs.Unpack(args)
	if err != nil || len(params) != len(a.Constructor.Inputs) {
		return nil
	}
	for i, in := range a.Constructor.Inputs {
		if in.Name != "valset" {
			continue
		}
		vs := valsetT{ValsetId: big.NewInt(int64(1 + c.r.Intn(5))), Validators: []common.Address{}, Powers: []*big.Int{}}
		for k := 1 + c.r.Intn(3); k > 0; k-- {
			var ad common.Address
			c.r.Read(ad[:])
			vs.Validators = append(vs.Validators, ad)
			vs.Powers = append(vs.Powers, big.NewInt(int64(1<<30+c.r.Intn(1<<30))))
		}
		params[i] = vs
		out, err := a.Pack("", params...)
		if err != nil || bytes.Equal(out, args) {
			return nil
		}
		return out
	}
	return nil
}

// feeMix: right values in wrong slots - two fees swapped, or one fee repeated in another slot.
func feeMix(c *corruptCtx, s *txSpec, swap bool) bool {
	f := &s.Fees
	slots := []**big.Int{&f.RelayerFee, &f.CommunityFee, &f.SecurityFee}
	for _, k := range c.r.Perm(6) {
		i, j := k%3, (k%3+1+k/3)%3
		if (*slots[i]).Cmp(*slots[j]) == 0 {
			continue
		}
		if swap {
			*slots[i], *slots[j] = *slots[j], *slots[i]
		} else {
			*slots[i] = new(big.Int).Set(*slots[j])
		}
		return true
	}
	return false
}

func applicable(c corruption, action string) bool {
	for _, a := range c.Actions {
		if a == action {
			return true
		}
	}
	return false
}

func findCorruption(name string) *corruption {
	for _, c := range catalogue() {
		if c.Name == name {
			cc := c
			return &cc
		}
	}
	return nil
}
