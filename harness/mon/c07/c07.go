// Package c07: a remote-chain transaction is accepted as proof that a queued message was
// delivered only if its call data equals the bridge-contract encoding of THAT message (with a
// prefix of the collected signatures) and its receipt reports success; the same transaction is
// never accepted for a second message; success effects are applied at most once per message.
//
// Deciding step: the REAL application (app.App through ABCI, real consensus/evm/valset keepers and
// end-blockers) attests messages of every action type for which the world simulator hands in
// faithful, corrupted, failed and replayed transactions; after every block the monitor compares
// the success effects that appeared in state and the accept/reject decision with what an
// independent re-encoding of the message says about the transaction (effects.go).
package c07

import (
	"fmt"
	"math/rand"
	"strings"
	"time"

	sdk "github.com/cosmos/cosmos-sdk/types"
	"github.com/ethereum/go-ethereum/common"

	"verif/harness/chain"
	"verif/harness/fw"
	"verif/harness/world"
)

type params struct {
	Chains int         `json:"chains"`
	Stakes []int64     `json:"stakes"`
	Rounds []roundPlan `json:"rounds"`
	Prune  bool        `json:"prune,omitempty"` // wait until messages stuck in the attestation loop are pruned (300 blocks) and go on
	Tail   int         `json:"tail"`            // blocks observed after the last round
}

func init() {
	fw.Register(&fw.Prop{
		ID:    "C07",
		Level: "exploration",
		Rule: "Each case is one history on the real app (1-2 EVM chains, 4-6 validators): natural bring-up (initial compass upload attested), then a seed-determined list of attestation rounds. " +
			"A round = one queued message (UploadSmartContract, UpdateValset, SubmitLogicCall via scheduler job, UploadUserSmartContract, CompassHandover after a governance compass upgrade) driven through estimates, signatures, relay and evidence by >= 2/3 of the shares, " +
			"with a proof transaction of a chosen class: faithful (all / shorter prefix of signatures, late signatures, EIP-1559, older valset), one or several corruptions out of a catalogue of 39 field- and byte-level corruptions (values changed, bytes flipped / cut / appended, and INSERTIONS that keep head and tail of the data intact: foreign bytes at a word boundary, the tail a second time, for a compass deployment other constructor arguments between the bytecode and the expected ones), receipt status 0 / pre-Byzantium root / missing receipt, " +
			"a transaction accepted earlier (same call data for a second message, other message, same block for two messages), relayer naming a non-existent valset; " +
			"Before a used transaction is handed in again on the real chain, the re-submission is also played on forks of the latest state (throw-away contexts; message-server handlers for estimates, signatures, relay, evidence + the consensus end-blocker, judged like a real block) at later heights/times: " +
			"for update_valset a fresh re-publication of the live snapshot (identical call data: same relayer, estimate, signers) at the next block and at fixed distances from the block the tx was accepted in (300 blocks .. 10 years, each period the code base knows hit exactly and one past) + 2 seed-drawn distances up to 10^9 blocks; for the identical initial deployment of a second chain at 10 heights within the life of the queued message. " +
			"in some rounds the validators outside the >= 2/3 majority (the relayer among them where the stake allows) report the same transaction with the opposite receipt status, after the majority, before it in the same block, or one block earlier. " +
			"A round is distinct & non-trivial by (action, call-data class, receipt class, reuse class, signatures used/collected, late signatures, outcome) and only counted when the attestation code actually ran on it. " +
			"'evaluations' = accept/reject decisions compared with the reference verdict + success-effect events attributed.",
		Assumptions: []string{
			">= 2/3 of the snapshot shares report the identical proof (the true transaction and its true receipt) in every round; validators outside that majority are silent or report the same transaction with the opposite receipt status, in any order of submission",
			"the validator set of the encoding is the one the chain hands out for the valset id the relayer published with the tx hash (GetValsetByID); a valset id without snapshot names no validator set",
			"on a fork only the consensus module's end-blocker runs and the state is that of the latest real block (plus the queue pruning the blocks in between would have done): nothing else happened on the chain in the meantime",
			"accept/reject of the attestation: 'the attester ran and its cache context was committed' is read from state (the relay record routerAttester writes into the metrix history of the assignee for the message id), 'rejected' from the module's own log lines ('Failed to verify transaction integrity.' / 'Transaction execution failed' / 'Failed to get transaction receipt'); success effects are read from state",
		},
		Cases: cases,
		Run:   run,
		MinCounters: []string{"rounds_attested", "accepted_valid_proofs", "rejected_invalid_proofs", "effects_after_valid_proof", "accepted/" + actUpload, "accepted/" + actValset, "accepted/" + actSLC, "accepted/" + actUser, "accepted/" + actHandover,
			"rounds_forged_success_receipt_reported_first", "rounds_used_tx_resubmitted_later_identical_calldata",
			"rounds_calldata_with_inserted_bytes", "rounds_upload_bytes_inserted_between_bytecode_and_constructor_args"},
		Workers: 16, TimeoutS: 1500,
	})
}

// ---------------------------------------------------------------------------------------------
// case lists

func templates(r *rand.Rand) (uploads, others, stuck []roundPlan) {
	cat := catalogue()
	sig := func(p roundPlan) roundPlan { // signature layout variants
		switch r.Intn(4) {
		case 0:
			p.Early, p.Late = 2+r.Intn(2), r.Intn(3)
		case 1:
			p.Early = 3
			p.Used = 1 + r.Intn(3)
		case 2:
			p.Late = 0
		default:
			p.Early, p.Late = 1+r.Intn(3), 1
		}
		return p
	}
	for _, act := range []string{actValset, actSLC, actUser, actHandover} {
		// faithful variants
		others = append(others,
			roundPlan{Action: act},
			roundPlan{Action: act, Early: 2, Late: 2},
			roundPlan{Action: act, Early: 3, Used: 2, Late: 1},
			roundPlan{Action: act, Early: 1, Late: 3, Dynamic: true},
			roundPlan{Action: act, PA: "older", Dissent: true},
			roundPlan{Action: act, Used: -1, Early: 2}, // the empty prefix (the statement allows any prefix; the code wants >= 1 signature)
		)
		var names []string
		for _, c := range cat {
			if applicable(c, act) {
				names = append(names, c.Name)
				p := sig(roundPlan{Action: act, Corrupt: []string{c.Name}})
				if c.Name == "signature-non-prefix" || c.Name == "signature-order" {
					p.Early, p.Used = 0, 0
				}
				if c.Name == "signature-foreign" {
					p.Early, p.Used = 2, 0
				}
				others = append(others, p)
			}
		}
		// multi-field corruptions
		for i := 0; i < 4; i++ {
			k := 2 + r.Intn(2)
			var xs []string
			for _, j := range r.Perm(len(names))[:k] {
				xs = append(xs, names[j])
			}
			others = append(others, sig(roundPlan{Action: act, Corrupt: xs}))
		}
		// receipts
		others = append(others,
			roundPlan{Action: act, Receipt: rcStatus0},
			roundPlan{Action: act, Receipt: rcStatus0, Dissent: true, Early: 2, Late: 1},
			roundPlan{Action: act, Receipt: rcPostState},
			roundPlan{Action: act, Receipt: rcStatus0, Corrupt: []string{names[r.Intn(len(names))]}},
		)
		// the validators disagree about the receipt of the SAME transaction and the minority (with
		// the relayer, if the others reach 2/3 without it) is on record first: forged success
		// against a reverted tx (same block / one block earlier), forged failure against a good one
		others = append(others,
			roundPlan{Action: act, Receipt: rcStatus0, Dissent: true, DissentOrder: dissentFirst},
			roundPlan{Action: act, Receipt: rcStatus0, Dissent: true, DissentOrder: dissentEarlier, Early: 2, Late: 1},
			roundPlan{Action: act, Dissent: true, DissentOrder: dissentFirst, Early: 3, Used: 2},
		)
		// relayer names a valset id that does not exist; the tx carries an empty consensus
		others = append(others, roundPlan{Action: act, PA: "zero"}, roundPlan{Action: act, PA: "unknown", Early: 2})
		// rounds after which the message stays in the attestation loop
		stuck = append(stuck,
			roundPlan{Action: act, Receipt: rcMissing},
			roundPlan{Action: act, Reuse: reuseOtherMessage},
		)
	}
	stuck = append(stuck, roundPlan{Action: actValset, Reuse: reuseSameCalldata}, roundPlan{Action: actValset, Reuse: reuseSameCalldata})
	for _, c := range cat {
		if applicable(c, actUpload) {
			uploads = append(uploads, roundPlan{Action: actUpload, Corrupt: []string{c.Name}})
		}
	}
	uploads = append(uploads,
		roundPlan{Action: actUpload, Receipt: rcStatus0},
		roundPlan{Action: actUpload, Receipt: rcPostState, Dissent: true},
		roundPlan{Action: actUpload, Receipt: rcStatus0, Dissent: true, DissentOrder: dissentFirst},
		roundPlan{Action: actUpload, Receipt: rcStatus0, Dissent: true, DissentOrder: dissentEarlier},
		roundPlan{Action: actUpload, Dissent: true, DissentOrder: dissentFirst},
		roundPlan{Action: actUpload, Corrupt: []string{"upload-bytecode", "trailing-bytes"}},
		roundPlan{Action: actUpload, Corrupt: []string{"upload-constructor-args", "truncated"}, Receipt: rcStatus0},
	)
	return
}

var stakeSets = [][]int64{
	{40_000_000, 30_000_000, 20_000_000, 10_000_000},
	{25_000_000, 25_000_000, 25_000_000, 25_000_000},
	{50_000_000, 20_000_000, 15_000_000, 10_000_000, 5_000_000},
	{30_000_000, 20_000_000, 20_000_000, 10_000_000, 10_000_000, 10_000_000},
	{34_000_000, 33_000_000, 33_000_000, 1_000_000},
}

func cases(tier string, seed int64) []fw.Case {
	r := rand.New(rand.NewSource(seed*7919 + 17))
	nCases, perCase := 64, 10
	if tier == "thorough" {
		nCases, perCase = 320, 12
	}
	var upl, oth, stk []roundPlan
	refill := func() {
		u, o, s := templates(r)
		r.Shuffle(len(u), func(i, j int) { u[i], u[j] = u[j], u[i] })
		r.Shuffle(len(o), func(i, j int) { o[i], o[j] = o[j], o[i] })
		r.Shuffle(len(s), func(i, j int) { s[i], s[j] = s[j], s[i] })
		upl, oth, stk = append(upl, u...), append(oth, o...), append(stk, s...)
	}
	take := func(pool *[]roundPlan) roundPlan {
		if len(*pool) == 0 {
			refill()
		}
		p := (*pool)[0]
		*pool = (*pool)[1:]
		return p
	}
	var out []fw.Case
	for i := 0; i < nCases; i++ {
		p := params{Chains: 2, Stakes: stakeSets[i%len(stakeSets)], Tail: 3 + r.Intn(5)}
		if i%6 == 5 {
			p.Chains = 1
		}
		// phase 1: the initial compass deployments
		switch {
		case p.Chains == 2 && i%4 == 0:
			// one transaction for the (identical) deployments on two chains, evidence in one block
			p.Rounds = append(p.Rounds, roundPlan{Action: actUpload, Reuse: reuseSameBlock})
		case p.Chains == 2 && i%4 == 1:
			// faithful on the first chain, then the SAME transaction for the second chain's message
			p.Rounds = append(p.Rounds, roundPlan{Action: actUpload, Chain: 0}, roundPlan{Action: actUpload, Chain: 1, Reuse: reuseSameCalldata})
			p.Prune = true
		default:
			for c := 0; c < p.Chains; c++ {
				for k := r.Intn(3); k > 0; k-- {
					q := take(&upl)
					q.Chain = c
					p.Rounds = append(p.Rounds, q)
				}
			}
		}
		for c := 0; c < p.Chains; c++ {
			p.Rounds = append(p.Rounds, roundPlan{Action: actUpload, Chain: c})
		}
		// phase 2: the mix; an upgrade upload with a corruption now and then
		for k := 0; k < perCase; k++ {
			var q roundPlan
			if k%5 == 4 {
				q = take(&upl)
			} else {
				q = take(&oth)
			}
			q.Chain = r.Intn(p.Chains)
			p.Rounds = append(p.Rounds, q)
		}
		// phase 3: rounds that leave the message in the attestation loop (last chain first: a
		// stuck message there does not stop the loop for the chains before it)
		q := take(&stk)
		q.Chain = p.Chains - 1
		p.Rounds = append(p.Rounds, q)
		if i%3 == 0 {
			p.Prune = true
			q := take(&oth)
			q.Chain = p.Chains - 1
			p.Rounds = append(p.Rounds, q)
		}
		q = take(&stk)
		q.Chain = 0
		p.Rounds = append(p.Rounds, q)
		out = append(out, fw.MkCase(fmt.Sprintf("h%03d", i), seed*1_000_003+int64(i), p))
	}
	return out
}

// ---------------------------------------------------------------------------------------------

func run(c fw.Case, tier string, rec *fw.Recorder) {
	var p params
	c.Decode(&p)
	r := c.Rand()
	allRefs := []string{"bnb-main", "eth-main"}
	ids := map[string]uint64{"bnb-main": 56, "eth-main": 1}
	refs := sortedRefs(allRefs[:p.Chains])
	vals := chain.DefaultValidators("c07/"+c.Name, p.Stakes)
	u1 := chain.NewAccount("u1", "c07/u1/"+c.Name)
	u2 := chain.NewAccount("u2", "c07/u2/"+c.Name)
	var specs []chain.EVMChainSpec
	for _, ref := range refs {
		specs = append(specs, chain.EVMChainSpec{RefID: ref, ChainID: ids[ref]})
	}
	ch := chain.New(chain.Config{Validators: vals,
		Users:     map[*chain.Account]sdk.Coins{u1: sdk.NewCoins(sdk.NewInt64Coin(chain.Denom, 1_000_000_000_000)), u2: sdk.NewCoins(sdk.NewInt64Coin(chain.Denom, 1_000_000_000_000))},
		EVMChains: specs, WithCompass: true, CaptureLog: true, VotingPeriod: 10 * time.Second})
	defer ch.Close()
	w := &wd{name: c.Name, c: ch, rec: rec, r: r, vals: world.Accts(vals), users: []*chain.Account{u1, u2}, refs: refs, chainIDs: ids,
		blocked: map[string]bool{}, accepted: map[common.Hash]string{}, usedTxs: map[string][]*usedTx{}, jobs: map[string]string{}, userSC: map[string]uint64{}, gasOf: map[string]uint64{}}
	rec.Op(map[string]any{"op": "setup", "chains": refs, "stakes": p.Stakes})
	if !w.setup() {
		return
	}
	for i, rp := range p.Rounds {
		if w.failed || rec.Violations() > 8 {
			break
		}
		anyBlocked := false
		for _, ref := range w.refs {
			if w.blocked[ref] {
				anyBlocked = true
			}
		}
		if anyBlocked && p.Prune {
			w.waitPruned()
		}
		w.note("--- round %d/%d %+v", i+1, len(p.Rounds), rp)
		w.runRound(rp)
	}
	if !w.failed {
		w.skip(p.Tail, "tail")
	}
	rec.Count("histories", 1)
	rec.Sample(map[string]any{"case": c.Name, "chains": refs, "validators": len(vals), "blocks": ch.Height, "rounds_planned": len(p.Rounds), "history_head": head(w.history, 40)})
	for k, v := range ch.Log.Distinct() {
		if !strings.HasPrefix(k, "INFO") {
			fmt.Printf("LOG %6d %s\n", v, k)
		}
	}
}

func head(s []string, n int) []string {
	if len(s) > n {
		return s[:n]
	}
	return s
}

// waitPruned: messages that stay in the attestation loop are removed by the consensus module's
// pruning (every 50 blocks, older than 300 blocks). Every block on the way is monitored: the
// stuck messages are attested again in each of them.
func (w *wd) waitPruned() {
	for i := 0; i < 420 && !w.failed; i++ {
		still := false
		for _, ref := range w.refs {
			if w.blocked[ref] {
				still = true
			}
		}
		if !still {
			w.rec.Count("ops/pruned_and_continued", 1)
			return
		}
		w.block("waiting for prune")
	}
}
