package c07

import (
	"testing"

	"verif/harness/chain"
	"verif/harness/world"
)

func TestProbeNatural(t *testing.T) {
	vals := chain.DefaultValidators("c07p", []int64{40_000_000, 30_000_000, 20_000_000, 10_000_000})
	c := chain.New(chain.Config{Validators: vals, EVMChains: []chain.EVMChainSpec{{RefID: "eth-main", ChainID: 1}, {RefID: "bnb-main", ChainID: 56}}, WithCompass: true, CaptureLog: true})
	defer c.Close()
	c.Skip(10)
	if err := world.Bootstrap(c, world.Accts(vals), []string{"eth-main", "bnb-main"}); err != nil {
		t.Fatal(err)
	}
	c.Skip(3)
	snap, err := world.BuildSnapshot(c)
	t.Logf("snapshot %v err=%v", snap.GetId(), err)
	c.Skip(1)
	for _, ch := range []string{"eth-main", "bnb-main"} {
		for _, m := range world.QueueMsgs(c, world.TurnstoneQueue(ch)) {
			tm := world.TurnstoneMsg(c, m)
			t.Logf("%s id=%d %T reqGas=%v reqSig=%v assignee=%s", ch, m.GetId(), tm.Action, m.GetRequireGasEstimation(), m.GetRequireSignatures(), tm.Assignee)
		}
	}
	deps, _ := c.App.EvmKeeper.AllSmartContractsDeployments(c.Ctx())
	for _, d := range deps {
		t.Logf("deployment %+v", d)
	}
	for _, l := range c.Log.Drain() {
		if l.Level != "INFO" {
			t.Logf("%.400s", l.String())
		}
	}
	for k, v := range c.Log.Distinct() {
		if k[0] == 'E' || k[0] == 'W' {
			t.Logf("%4d %s", v, k)
		}
	}
}
