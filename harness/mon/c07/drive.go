package c07

// World driver: brings the REAL app into the states where cross-chain messages of every action
// type sit in the consensus queues (through the transactions / governance messages / keeper entry
// points a live network uses), plays the pigeons (gas estimates, signatures, relay, evidence) and
// hands every block to the monitor (effects.go).

import (
	"encoding/hex"
	"encoding/json"
	"fmt"
	"math/big"
	"math/rand"
	"sort"
	"strings"
	"time"

	sdkmath "cosmossdk.io/math"
	codectypes "github.com/cosmos/cosmos-sdk/codec/types"
	sdk "github.com/cosmos/cosmos-sdk/types"
	govv1 "github.com/cosmos/cosmos-sdk/x/gov/types/v1"
	stakingtypes "github.com/cosmos/cosmos-sdk/x/staking/types"
	gogoproto "github.com/cosmos/gogoproto/proto"
	"github.com/ethereum/go-ethereum/common"
	ethtypes "github.com/ethereum/go-ethereum/core/types"
	ethcrypto "github.com/ethereum/go-ethereum/crypto"

	consensustypes "github.com/palomachain/paloma/v2/x/consensus/types"
	evmtypes "github.com/palomachain/paloma/v2/x/evm/types"
	schedulertypes "github.com/palomachain/paloma/v2/x/scheduler/types"
	treasurytypes "github.com/palomachain/paloma/v2/x/treasury/types"
	valsettypes "github.com/palomachain/paloma/v2/x/valset/types"

	"verif/harness/chain"
	"verif/harness/fw"
	"verif/harness/world"
)

const deployerAddr = "0x00000000000000000000000000000000000d3910"

type wd struct {
	name     string
	c        *chain.Chain
	rec      *fw.Recorder
	r        *rand.Rand
	vals     []*chain.Account
	users    []*chain.Account
	refs     []string // sorted = order in which the attestation loop visits the chains
	chainIDs map[string]uint64
	ethNonce uint64

	blocked  map[string]bool // chain has a message that can never leave the attestation loop
	live     []*attempt
	accepted map[common.Hash]string // tx hash -> attempt key it was accepted for
	usedTxs  map[string][]*usedTx   // action -> transactions accepted earlier (for replays)
	prev     *effState
	dirty    bool
	jobs     map[string]string
	userSC   map[string]uint64 // author bech32 -> user smart contract id
	version  int
	gasOf    map[string]uint64 // "chain/valsetID" -> estimate used (so that a re-published valset message is identical)
	history  []string
	failed   bool
	nextDt   time.Duration // block time step of the next block (0 = the default 2 s)
}

type usedTx struct {
	Action  string
	Chain   string
	Tx      *ethtypes.Transaction
	Receipt *ethtypes.Receipt
	Signers []int  // validators (indices) whose signatures the tx carries, in signing order
	Valset  uint64 // update_valset: snapshot id the message was about
	Gas     uint64
	PA      uint64         // valset id the relayer named (the consensus valset of the call)
	Relayer *chain.Account // who relayed it (the relayer address is part of the call data)
	Height  int64          // block in which the chain accepted it
}

func (w *wd) note(f string, a ...any) {
	s := fmt.Sprintf("h=%d ", w.c.Height) + fmt.Sprintf(f, a...)
	w.history = append(w.history, s)
	fmt.Println(s)
}

func (w *wd) fail(f string, a ...any) {
	w.failed = true
	w.rec.Inconclusive(fmt.Sprintf("h=%d ", w.c.Height) + fmt.Sprintf(f, a...))
}

// block executes the queued txs in one block and lets the monitor look at it.
func (w *wd) block(what string) *chain.BlockResult {
	if w.prev == nil || w.dirty {
		w.prev = w.readEffects()
		w.dirty = false
	}
	w.rec.Op(map[string]any{"op": "block", "height": w.c.Height + 1, "what": what, "txs": w.c.PendingCount()})
	w.c.Log.Drain() // lines of direct keeper / governance calls between blocks do not belong to the block
	var br *chain.BlockResult
	if w.nextDt > 0 {
		br = w.c.NextBlockAfter(w.nextDt)
		w.nextDt = 0
	} else {
		br = w.c.NextBlock()
	}
	if br.Panic != "" || br.Err != nil {
		w.fail("FinalizeBlock failed during %s: %v %.400s", what, br.Err, br.Panic)
		return br
	}
	for i, t := range br.Txs {
		if t.OK() {
			w.rec.Count("txs_ok", 1)
		} else {
			w.rec.Count("txs_failed", 1)
			fmt.Printf("  h=%d tx %d failed during %s: %.300s\n", w.c.Height, i, what, t.Log)
		}
	}
	w.rec.Count("blocks", 1)
	after := w.readEffects()
	w.judge(diffEffects(w.prev, after), w.c.Log.Drain(), what)
	w.prev = after
	return br
}

func (w *wd) skip(n int, what string) bool {
	for i := 0; i < n && !w.failed; i++ {
		w.block(what)
	}
	return !w.failed
}

func (w *wd) tx(signer *chain.Account, what string, msgs ...sdk.Msg) (chain.TxResult, bool) {
	idx := w.c.PendingCount()
	if err := w.c.QueueTx(signer, 0, msgs...); err != nil {
		w.note("cannot build tx for %s: %v", what, err)
		return chain.TxResult{Code: 99999}, false
	}
	br := w.block(what)
	if w.failed || idx >= len(br.Txs) {
		return chain.TxResult{Code: 99998}, false
	}
	return br.Txs[idx], true
}

func (w *wd) gov(content gogoproto.Message, what string) bool {
	anyC, err := codectypes.NewAnyWithValue(content)
	if err != nil {
		w.note("%s: %v", what, err)
		return false
	}
	w.dirty = true
	if _, err = w.c.Direct(&govv1.MsgExecLegacyContent{Content: anyC, Authority: chain.GovAuthority()}, w.c.Height, w.c.Time); err != nil {
		w.note("%s failed: %v", what, err)
		return false
	}
	return true
}

func (w *wd) queueMsgs(ref string) []consensustypes.QueuedSignedMessageI {
	return world.QueueMsgs(w.c, world.TurnstoneQueue(ref))
}

func (w *wd) getMsg(ref string, id uint64) consensustypes.QueuedSignedMessageI {
	for _, m := range w.queueMsgs(ref) {
		if m.GetId() == id {
			return m
		}
	}
	return nil
}

func actionOf(m *evmtypes.Message) string {
	switch m.GetAction().(type) {
	case *evmtypes.Message_UpdateValset:
		return actValset
	case *evmtypes.Message_SubmitLogicCall:
		return actSLC
	case *evmtypes.Message_UploadUserSmartContract:
		return actUser
	case *evmtypes.Message_CompassHandover:
		return actHandover
	case *evmtypes.Message_UploadSmartContract:
		return actUpload
	}
	return "?"
}

// findMsg returns the oldest queued message of an action on a chain that no attempt has touched yet.
func (w *wd) findMsg(ref, action string) (uint64, bool) {
	for _, qm := range w.queueMsgs(ref) {
		m := world.TurnstoneMsg(w.c, qm)
		if m == nil || actionOf(m) != action {
			continue
		}
		if len(qm.GetEvidence()) > 0 || qm.GetPublicAccessData() != nil {
			continue
		}
		return qm.GetId(), true
	}
	return 0, false
}

// ---------------------------------------------------------------------------------------------
// set-up

func (w *wd) setup() bool {
	// metrics records (needed by the relayer assignment) appear at height 10
	if !w.skip(10, "boot") {
		return false
	}
	if err := world.Bootstrap(w.c, w.vals, w.refs); err != nil {
		w.fail("bootstrap: %v", err)
		return false
	}
	w.dirty = true
	w.gov(&treasurytypes.CommunityFundFeeProposal{Title: "cf", Description: "cf", Fee: "0.01"}, "gov community fee")
	w.gov(&treasurytypes.SecurityFeeProposal{Title: "sf", Description: "sf", Fee: "0.03"}, "gov security fee")
	var deps []evmtypes.SetSmartContractDeployersProposal_Deployer
	for _, ref := range w.refs {
		deps = append(deps, evmtypes.SetSmartContractDeployersProposal_Deployer{ChainReferenceID: ref, ContractAddress: deployerAddr})
	}
	w.gov(&evmtypes.SetSmartContractDeployersProposal{Title: "dep", Summary: "dep", Deployers: deps}, "gov deployers")
	if !w.skip(1, "after bootstrap") {
		return false
	}
	// first snapshot that knows the validators' external accounts: the evm module reacts by
	// scheduling the initial compass deployment on every chain (UploadSmartContract messages)
	w.dirty = true
	if _, err := world.BuildSnapshot(w.c); err != nil {
		w.fail("snapshot: %v", err)
		return false
	}
	if !w.skip(1, "after first snapshot") {
		return false
	}
	for _, ref := range w.refs {
		if _, ok := w.findMsg(ref, actUpload); !ok {
			w.fail("no initial compass upload message on %s", ref)
			return false
		}
	}
	return true
}

func (w *wd) chainInfo(ref string) *evmtypes.ChainInfo {
	ci, err := w.c.App.EvmKeeper.GetChainInfo(w.c.Ctx(), ref)
	if err != nil {
		return nil
	}
	return ci
}

func (w *wd) active(ref string) bool {
	ci := w.chainInfo(ref)
	return ci != nil && ci.Status == evmtypes.ChainInfo_ACTIVE && ci.ActiveSmartContractID > 0
}

func (w *wd) deployments(ref string) []*evmtypes.SmartContractDeployment {
	all, _ := w.c.App.EvmKeeper.AllSmartContractsDeployments(w.c.Ctx())
	var out []*evmtypes.SmartContractDeployment
	for _, d := range all {
		if d.ChainReferenceID == ref {
			out = append(out, d)
		}
	}
	return out
}

func (w *wd) createJob(ref string) bool {
	id := "job" + strings.ReplaceAll(ref, "-", "")
	def, _ := json.Marshal(evmtypes.JobDefinition{Address: "0x5A0b54D5dc17e0AadC383d2db43B0a0D3E029c4c", ABI: "[]"})
	pl, _ := json.Marshal(evmtypes.JobPayload{HexPayload: "0xdeadbeef"})
	u := w.users[0]
	job := &schedulertypes.Job{ID: id, Routing: schedulertypes.Routing{ChainType: "evm", ChainReferenceID: ref}, Definition: def, Payload: pl, IsPayloadModifiable: true}
	res, ok := w.tx(u, "create job "+id, &schedulertypes.MsgCreateJob{Job: job, Metadata: world.Meta(u)})
	if ok && res.OK() {
		w.jobs[ref] = id
		return true
	}
	w.note("create job on %s failed: %.200s", ref, res.Log)
	return false
}

// ---------------------------------------------------------------------------------------------
// message sources: make sure a message of the wanted action is queued for the chain

func (w *wd) ensureMessage(ref, action string) (uint64, bool) {
	if id, ok := w.findMsg(ref, action); ok {
		return id, true
	}
	switch action {
	case actUpload:
		return w.sourceUpload(ref)
	case actHandover:
		return 0, false // produced by a successful upgrade upload (see runRound)
	case actValset:
		return w.sourceValset(ref)
	case actSLC:
		return w.sourceSLC(ref)
	case actUser:
		return w.sourceUser(ref)
	}
	return 0, false
}

func (w *wd) sourceUpload(ref string) (uint64, bool) {
	// a deployment record without a queued message (its message was consumed by a rejected
	// attestation, or pruned): anybody can clear it with MsgRemoveSmartContractDeploymentRequest;
	// the evm end-blocker then schedules the deployment again.
	for _, d := range w.deployments(ref) {
		u := w.users[0]
		res, ok := w.tx(u, "remove deployment", &evmtypes.MsgRemoveSmartContractDeploymentRequest{SmartContractID: d.SmartContractID, ChainReferenceID: ref, Metadata: world.Meta(u)})
		if !ok || !res.OK() {
			w.note("remove deployment on %s failed: %.200s", ref, res.Log)
			return 0, false
		}
		w.rec.Count("ops/deployment_removed", 1)
	}
	if w.active(ref) {
		last, err := w.c.App.EvmKeeper.GetLastCompassContract(w.c.Ctx())
		ci := w.chainInfo(ref)
		if err == nil && ci != nil && ci.ActiveSmartContractID >= last.GetId() {
			// governance publishes a new compass version (same ABI, different bytecode)
			w.version++
			bc := chain.CompassBytecodeHex() + fmt.Sprintf("%064x", 0xc0de0000+w.version)
			w.dirty = true
			_, err := w.c.Direct(&evmtypes.MsgDeployNewSmartContractProposalV2{Metadata: metaGov(), Authority: chain.GovAuthority(), AbiJSON: chain.CompassABI(), BytecodeHex: bc}, w.c.Height, w.c.Time)
			if err != nil {
				w.note("gov deploy new compass failed: %v", err)
				return 0, false
			}
			w.rec.Count("ops/gov_new_compass", 1)
		}
	}
	for i := 0; i < 3; i++ {
		if id, ok := w.findMsg(ref, actUpload); ok {
			return id, true
		}
		if !w.skip(1, "wait for upload message") {
			return 0, false
		}
	}
	return 0, false
}

func metaGov() valsettypes.MsgMetadata {
	return valsettypes.MsgMetadata{Creator: chain.GovAuthority(), Signers: []string{chain.GovAuthority()}}
}

func (w *wd) sourceValset(ref string) (uint64, bool) {
	if !w.active(ref) {
		return 0, false
	}
	ctx := w.c.Ctx()
	snap, err := w.c.App.ValsetKeeper.GetCurrentSnapshot(ctx)
	if err != nil || snap == nil {
		return 0, false
	}
	if w.r.Intn(3) > 0 {
		// change the stake distribution, so that a genuinely new snapshot exists
		u := w.users[1]
		v := w.vals[w.r.Intn(len(w.vals))]
		amt := int64(1_000_000 * (1 + w.r.Intn(6)))
		res, ok := w.tx(u, "delegate", &stakingtypes.MsgDelegate{DelegatorAddress: u.Bech, ValidatorAddress: v.ValBech(), Amount: sdk.NewInt64Coin(chain.Denom, amt)})
		if ok && res.OK() {
			w.dirty = true
			if s, err := world.BuildSnapshot(w.c); err == nil && s != nil {
				snap = s
				w.rec.Count("ops/new_snapshot", 1)
			}
		}
	}
	w.dirty = true
	if err := w.c.App.EvmKeeper.PublishSnapshotToAllChains(w.c.Ctx(), snap, true); err != nil {
		w.note("publish snapshot: %v", err)
		return 0, false
	}
	w.rec.Count("ops/valset_published", 1)
	id, ok := w.findMsg(ref, actValset)
	if ok && w.r.Intn(3) == 0 {
		// the stake moves again before the update is delivered: the message is now about a
		// snapshot that is no longer the current one (the keep-warm rule keeps the old message)
		u := w.users[1]
		v := w.vals[w.r.Intn(len(w.vals))]
		res, okd := w.tx(u, "delegate", &stakingtypes.MsgDelegate{DelegatorAddress: u.Bech, ValidatorAddress: v.ValBech(), Amount: sdk.NewInt64Coin(chain.Denom, int64(1_000_000*(1+w.r.Intn(4))))})
		if okd && res.OK() {
			w.dirty = true
			if s, err := world.BuildSnapshot(w.c); err == nil && s != nil {
				w.rec.Count("ops/snapshot_superseded_before_delivery", 1)
			}
		}
		id, ok = w.findMsg(ref, actValset)
	}
	return id, ok
}

// republish makes the chain queue a second UpdateValset message for a snapshot that is already
// live on the chain (what a forced publish / keep-warm publish does).
func (w *wd) republish(ref string, snapID uint64) (uint64, bool) {
	snap, err := w.c.App.ValsetKeeper.FindSnapshotByID(w.c.Ctx(), snapID)
	if err != nil {
		return 0, false
	}
	w.dirty = true
	if err := w.c.App.EvmKeeper.PublishSnapshotToAllChains(w.c.Ctx(), snap, true); err != nil {
		return 0, false
	}
	return w.findMsg(ref, actValset)
}

func (w *wd) sourceSLC(ref string) (uint64, bool) {
	if !w.active(ref) {
		return 0, false
	}
	if _, ok := w.jobs[ref]; !ok && !w.createJob(ref) {
		return 0, false
	}
	u := w.users[w.r.Intn(len(w.users))]
	payload := make([]byte, 4+w.r.Intn(80))
	w.r.Read(payload)
	pl, _ := json.Marshal(evmtypes.JobPayload{HexPayload: "0x" + hex.EncodeToString(payload)})
	res, ok := w.tx(u, "execute job on "+ref, &schedulertypes.MsgExecuteJob{JobID: w.jobs[ref], Payload: pl, Metadata: world.Meta(u)})
	if !ok || !res.OK() {
		w.note("execute job on %s failed: %.200s", ref, res.Log)
		return 0, false
	}
	w.rec.Count("ops/job_executed", 1)
	var td sdk.TxMsgData
	if err := td.Unmarshal(res.Data); err == nil && len(td.MsgResponses) > 0 {
		var resp schedulertypes.MsgExecuteJobResponse
		if err := resp.Unmarshal(td.MsgResponses[0].Value); err == nil && resp.MessageID != 0 {
			if w.getMsg(ref, resp.MessageID) != nil {
				return resp.MessageID, true
			}
		}
	}
	return w.findMsg(ref, actSLC)
}

func (w *wd) sourceUser(ref string) (uint64, bool) {
	if !w.active(ref) {
		return 0, false
	}
	u := w.users[w.r.Intn(len(w.users))]
	if _, ok := w.userSC[u.Bech]; !ok {
		code := make([]byte, 40+w.r.Intn(60))
		w.r.Read(code)
		res, ok := w.tx(u, "upload user contract", &evmtypes.MsgUploadUserSmartContractRequest{Metadata: world.Meta(u), Title: "c07", AbiJson: "[]",
			Bytecode: "0x" + hex.EncodeToString(code), ConstructorInput: "0x" + fmt.Sprintf("%064x", w.r.Intn(1<<30))})
		if !ok || !res.OK() {
			w.note("upload user contract failed: %.200s", res.Log)
			return 0, false
		}
		var td sdk.TxMsgData
		id := uint64(0)
		if err := td.Unmarshal(res.Data); err == nil && len(td.MsgResponses) > 0 {
			var resp evmtypes.MsgUploadUserSmartContractResponse
			if err := resp.Unmarshal(td.MsgResponses[0].Value); err == nil {
				id = resp.Id
			}
		}
		w.userSC[u.Bech] = id
	}
	res, ok := w.tx(u, "deploy user contract on "+ref, &evmtypes.MsgDeployUserSmartContractRequest{Metadata: world.Meta(u), Id: w.userSC[u.Bech], TargetChain: ref})
	if !ok || !res.OK() {
		w.note("deploy user contract on %s failed: %.200s", ref, res.Log)
		return 0, false
	}
	w.rec.Count("ops/user_deploy_requested", 1)
	return w.findMsg(ref, actUser)
}

// ---------------------------------------------------------------------------------------------
// reading what the chain hands to pigeons

func (w *wd) valsetByID(ref string, id uint64) *valsetT {
	if id == 0 {
		return nil
	}
	if _, err := w.c.App.ValsetKeeper.FindSnapshotByID(w.c.Ctx(), id); err != nil {
		return nil
	}
	vs, err := world.ValsetOnChain(w.c, ref, id)
	if err != nil || vs == nil {
		return nil
	}
	out := convValset(vs)
	return &out
}

func convValset(vs *evmtypes.Valset) valsetT {
	out := valsetT{ValsetId: new(big.Int).SetUint64(vs.GetValsetID()), Validators: []common.Address{}, Powers: []*big.Int{}}
	for _, a := range vs.GetValidators() {
		out.Validators = append(out.Validators, common.HexToAddress(a))
	}
	for _, p := range vs.GetPowers() {
		out.Powers = append(out.Powers, new(big.Int).SetUint64(p))
	}
	return out
}

func rawSigs(qm consensustypes.QueuedSignedMessageI, n int) []rawSig {
	var out []rawSig
	for i, sd := range qm.GetSignData() {
		if i >= n {
			break
		}
		out = append(out, rawSig{Signer: common.HexToAddress(sd.GetExternalAccountAddress()), Sig: sd.GetSignature()})
	}
	return out
}

// honestSpec describes the call a faithful relayer would make for the queued message with the
// first nSigs collected signatures, checked against valset vs (nil for contract creation).
func (w *wd) honestSpec(qm consensustypes.QueuedSignedMessageI, vs *valsetT, nSigs int) (*txSpec, error) {
	m := world.TurnstoneMsg(w.c, qm)
	if m == nil {
		return nil, fmt.Errorf("not a turnstone message")
	}
	s := &txSpec{Action: actionOf(m), Relayer: common.HexToAddress(m.AssigneeRemoteAddress)}
	if vs != nil {
		s.Cons = consensusOf(*vs, rawSigs(qm, nSigs))
	} else {
		s.Cons = consT{Valset: valsetT{ValsetId: big.NewInt(0), Validators: []common.Address{}, Powers: []*big.Int{}}, Signatures: []sigT{}}
	}
	fees := func(f *evmtypes.Fees, sender []byte) feeT {
		if f == nil {
			// no fees attached yet: pigeon (and the signing bytes) use these defaults
			f = &evmtypes.Fees{RelayerFee: 100_000, CommunityFee: 100_000, SecurityFee: 100_000}
		}
		return feeT{new(big.Int).SetUint64(f.RelayerFee), new(big.Int).SetUint64(f.CommunityFee), new(big.Int).SetUint64(f.SecurityFee), leftPad32(sender)}
	}
	switch a := m.Action.(type) {
	case *evmtypes.Message_UpdateValset:
		s.NewValset = convValset(a.UpdateValset.Valset)
		s.Gas = new(big.Int).SetUint64(qm.GetGasEstimate())
	case *evmtypes.Message_SubmitLogicCall:
		x := a.SubmitLogicCall
		s.Logic = logicT{common.HexToAddress(x.HexContractAddress), append([]byte{}, x.Payload...)}
		s.Fees = fees(x.Fees, x.SenderAddress)
		s.MsgID = new(big.Int).SetUint64(qm.GetId())
		s.Deadline = big.NewInt(x.Deadline)
	case *evmtypes.Message_UploadUserSmartContract:
		x := a.UploadUserSmartContract
		s.Deployer = common.HexToAddress(x.DeployerAddress)
		s.Bytecode = append([]byte{}, x.Bytecode...)
		s.Fees = fees(x.Fees, x.SenderAddress)
		s.MsgID = new(big.Int).SetUint64(qm.GetId())
		s.Deadline = big.NewInt(x.Deadline)
	case *evmtypes.Message_CompassHandover:
		x := a.CompassHandover
		for _, f := range x.ForwardCallArgs {
			s.Forward = append(s.Forward, logicT{common.HexToAddress(f.HexContractAddress), append([]byte{}, f.Payload...)})
		}
		s.Deadline = big.NewInt(x.Deadline)
		s.Gas = new(big.Int).SetUint64(qm.GetGasEstimate())
	case *evmtypes.Message_UploadSmartContract:
		x := a.UploadSmartContract
		s.Raw = append(append([]byte{}, x.Bytecode...), x.ConstructorInput...)
		s.Split = len(x.Bytecode)
	}
	return s, nil
}

// ---------------------------------------------------------------------------------------------
// remote transactions and receipts

var contractDeployedTopic = ethcrypto.Keccak256Hash([]byte("ContractDeployed(address,address,uint256)"))

func (w *wd) mkTx(key *chain.Account, chainID uint64, to *common.Address, data []byte, dynamic bool) *ethtypes.Transaction {
	w.ethNonce++
	cid := new(big.Int).SetUint64(chainID)
	var inner ethtypes.TxData
	if dynamic {
		inner = &ethtypes.DynamicFeeTx{ChainID: cid, Nonce: w.ethNonce, To: to, Gas: 3_000_000, GasFeeCap: big.NewInt(2_000_000_000), GasTipCap: big.NewInt(1_000_000), Value: big.NewInt(0), Data: data}
	} else {
		inner = &ethtypes.LegacyTx{Nonce: w.ethNonce, To: to, Gas: 3_000_000, GasPrice: big.NewInt(1_000_000_000), Value: big.NewInt(0), Data: data}
	}
	signed, err := ethtypes.SignTx(ethtypes.NewTx(inner), ethtypes.NewLondonSigner(cid), key.EthKey)
	if err != nil {
		panic(err)
	}
	return signed
}

// mkReceipt: status 1 / 0, for deploy_contract calls with the ContractDeployed log compass emits.
func mkReceipt(tx *ethtypes.Transaction, status uint64, withDeployLog bool, child common.Address) *ethtypes.Receipt {
	rc := &ethtypes.Receipt{Type: tx.Type(), Status: status, CumulativeGasUsed: 123456, Logs: []*ethtypes.Log{}, TxHash: tx.Hash(), GasUsed: 123456}
	if withDeployLog {
		a := compassABI()
		data, err := a.Events["ContractDeployed"].Inputs.NonIndexed().Pack(child, common.HexToAddress(deployerAddr), big.NewInt(7))
		if err != nil {
			panic(err)
		}
		rc.Logs = append(rc.Logs, &ethtypes.Log{Address: common.HexToAddress("0x00000000000000000000000000000000000c0de1"), Topics: []common.Hash{contractDeployedTopic}, Data: data})
	}
	rc.Bloom = ethtypes.CreateBloom(ethtypes.Receipts{rc})
	return rc
}

func mkProof(tx *ethtypes.Transaction, rc *ethtypes.Receipt, receiptClass string, r *rand.Rand) *evmtypes.TxExecutedProof {
	txb, err := tx.MarshalBinary()
	if err != nil {
		panic(err)
	}
	p := &evmtypes.TxExecutedProof{SerializedTX: txb}
	switch receiptClass {
	case rcMissing:
	case rcPostState:
		c := *rc
		c.PostState = ethcrypto.Keccak256([]byte("root"))
		b, _ := c.MarshalBinary()
		p.SerializedReceipt = b
	default:
		b, err := rc.MarshalBinary()
		if err != nil {
			panic(err)
		}
		p.SerializedReceipt = b
	}
	return p
}

// attesters: a random set of validators holding >= 2/3 of the current snapshot's shares (plus,
// sometimes, more), and the rest.
func (w *wd) attesters() (maj, rest []*chain.Account) {
	snap, _ := w.c.App.ValsetKeeper.GetCurrentSnapshot(w.c.Ctx())
	share := map[string]sdkmath.Int{}
	total := sdkmath.ZeroInt()
	if snap != nil {
		total = snap.TotalShares
		for _, v := range snap.Validators {
			share[v.Address.String()] = v.ShareCount
		}
	}
	perm := w.r.Perm(len(w.vals))
	sum := sdkmath.ZeroInt()
	extra := w.r.Intn(2)
	for _, i := range perm {
		v := w.vals[i]
		if sum.MulRaw(3).GTE(total.MulRaw(2)) && !total.IsZero() {
			if extra > 0 {
				extra--
			} else {
				rest = append(rest, v)
				continue
			}
		}
		maj = append(maj, v)
		if s, ok := share[v.ValBech()]; ok {
			sum = sum.Add(s)
		}
	}
	return
}

// attestersSplit: for rounds in which the validators disagree. The majority is a minimal set with
// >= 2/3 of the shares; the validator `minority` (the relayer) is left out of it whenever the
// others can reach 2/3 without it, and somebody is left over whenever the stake distribution
// allows it at all.
func (w *wd) attestersSplit(minority *chain.Account) (maj, rest []*chain.Account) {
	snap, _ := w.c.App.ValsetKeeper.GetCurrentSnapshot(w.c.Ctx())
	share := map[string]sdkmath.Int{}
	total := sdkmath.ZeroInt()
	if snap != nil {
		total = snap.TotalShares
		for _, v := range snap.Validators {
			share[v.Address.String()] = v.ShareCount
		}
	}
	of := func(v *chain.Account) sdkmath.Int {
		if s, ok := share[v.ValBech()]; ok {
			return s
		}
		return sdkmath.ZeroInt()
	}
	split := func(order []*chain.Account) (maj, rest []*chain.Account) {
		sum := sdkmath.ZeroInt()
		for _, v := range order {
			if !total.IsZero() && sum.MulRaw(3).GTE(total.MulRaw(2)) {
				rest = append(rest, v)
				continue
			}
			maj = append(maj, v)
			sum = sum.Add(of(v))
		}
		return
	}
	var order []*chain.Account
	for _, i := range w.r.Perm(len(w.vals)) {
		if w.vals[i] != minority {
			order = append(order, w.vals[i])
		}
	}
	if minority != nil {
		order = append(order, minority)
	}
	maj, rest = split(order)
	if len(rest) == 0 {
		// heaviest first: leaves the largest number of validators over
		order = append([]*chain.Account{}, w.vals...)
		sort.SliceStable(order, func(i, j int) bool { return of(order[i]).GT(of(order[j])) })
		maj, rest = split(order)
	}
	return
}

func (w *wd) valIndex(a *chain.Account) int {
	for i, v := range w.vals {
		if v == a {
			return i
		}
	}
	return -1
}

func (w *wd) accountOfVal(valoper string) *chain.Account {
	for _, v := range w.vals {
		if v.ValBech() == valoper {
			return v
		}
	}
	return nil
}

func sortedRefs(refs []string) []string {
	o := append([]string{}, refs...)
	sort.Strings(o)
	return o
}

var _ = time.Second
