package c14

// History driver: ONE real app (chain.New) per case, pigeons and users simulated; after every block
// and every direct keeper call the monitor observes the chain at that boundary (observe.go).

import (
	"crypto/ecdsa"
	"crypto/sha256"
	"encoding/hex"
	"encoding/json"
	"fmt"
	"math/rand"
	"runtime/debug"
	"sort"
	"strings"

	sdkmath "cosmossdk.io/math"
	codectypes "github.com/cosmos/cosmos-sdk/codec/types"
	sdk "github.com/cosmos/cosmos-sdk/types"
	govv1 "github.com/cosmos/cosmos-sdk/x/gov/types/v1"
	gogoproto "github.com/cosmos/gogoproto/proto"
	"github.com/ethereum/go-ethereum/common"
	ethcrypto "github.com/ethereum/go-ethereum/crypto"

	evmtypes "github.com/palomachain/paloma/v2/x/evm/types"
	schedulertypes "github.com/palomachain/paloma/v2/x/scheduler/types"
	skywaytypes "github.com/palomachain/paloma/v2/x/skyway/types"
	treasurytypes "github.com/palomachain/paloma/v2/x/treasury/types"
	valsettypes "github.com/palomachain/paloma/v2/x/valset/types"

	"verif/harness/chain"
	"verif/harness/fw"
	"verif/harness/world"
)

const (
	chEth = "eth-main"
	chBnb = "bnb-main"
	chNew = "matic-main" // known to the chain, never activated: validators support it only partially
)

var allChains = []string{chEth, chBnb, chNew}
var chainIDs = map[string]uint64{chEth: 1000, chBnb: 1001, chNew: 1002}

var multPool = []string{"1.1", "1.1", "1.1", "0.5", "2", "1.000000000000000001", "3.333333333333333333", "0.000000000000000001", "7.25", "1.5", "0.999999999999999999"}
var ratePool = []string{"0.01", "0.003", "0.1", "1.5", "0.000000000000000001", "0.333333333333333333", "0.05", "1"}
var gasPool = []uint64{21000, 300000, 123457, 999999, 1, 3, 7, 1_000_003, 1<<40 + 7, 54321, 100, 299_999}

type jobKey struct {
	Chain string
	Mev   bool
}

// expectation left by a controlled operation for the next observation
type expect struct {
	Kind    string // job | batch | snapshot
	Chain   string
	Mev     bool
	Sender  []byte
	OK      bool
	MsgID   uint64
	ErrText string
	Via     string // tx | contract
}

type hw struct {
	lateFees bool
	c        *chain.Chain
	rec      *fw.Recorder
	r        *rand.Rand
	vals     []*chain.Account
	users    []*chain.Account
	uni      []string // validator universe (bech32 val addresses)
	vidx     map[string]int

	jobs      map[jobKey]string
	contracts [][]byte
	active    map[string]bool
	erc20     map[string]string
	keyVer    map[int]int                 // validator index -> eth key version
	regChains map[int]map[string][]string // validator -> chain -> traits (what it last registered)

	// monitor state
	prevT       tables
	prevQ       map[string][]qItem
	prevBatches map[string]batchInfo
	observed    bool
	rtx         map[uint64]*world.RemoteTx
	lastKA      int64
	stop        bool
	stepNo      int
	lastOp      string
	curChain    string // chain whose key pigeons sign with in the current operation
	sampled     map[string]bool
	lateIdx     int        // validator that brings its pigeon up late (-1: none)
	r2          *rand.Rand // stream of the scripted fee-gap scenario (feegap.go)
	gapDue      int        // fee-gap scenarios still to run
}

type params struct {
	Steps int `json:"steps"`
	NVals int `json:"nvals"`
	// LateFees: nobody has a relayer fee for bnb-main when the chain is activated and its first
	// validator-set update is due (the state of a chain that is being on-boarded); the fees arrive
	// a few operations into phase C
	LateFees bool `json:"late_fees,omitempty"`
}

func (w *hw) op(kind string, args any) {
	w.stepNo++
	w.rec.Op(map[string]any{"n": w.stepNo, "h": w.c.Height, "op": kind, "args": args})
	w.rec.Count("ops/"+kind, 1)
	w.lastOp = kind
}

func (w *hw) fail(why string) {
	w.rec.Inconclusive(why)
	w.stop = true
}

// block commits the queued txs; returns results (nil on a broken block -> history stops).
func (w *hw) block() *chain.BlockResult {
	br := w.c.NextBlock()
	if br.Panic != "" {
		w.rec.Count("block_panics", 1)
		w.fail("FinalizeBlock panicked at height " + fmt.Sprint(br.Height) + ": " + firstLine(br.Panic))
		return nil
	}
	if br.Err != nil {
		w.fail("FinalizeBlock error: " + br.Err.Error())
		return nil
	}
	w.rec.Count("blocks", 1)
	return br
}

func firstLine(s string) string {
	if i := strings.IndexByte(s, '\n'); i >= 0 {
		return s[:i]
	}
	return s
}

// alignForEnqueue keeps operations that assign relayers out of the blocks in which the periodic
// end-blockers change the eligibility tables (metrics at h%10, snapshot at h%50), so that the
// tables read at the boundary before the block are exactly the tables the request saw.
func (w *hw) alignForEnqueue() {
	for !w.stop && (w.c.Height+1)%10 == 0 {
		w.op("empty-block", nil)
		if w.block() == nil {
			return
		}
		w.observe(nil)
	}
}

func (w *hw) keepAlive() {
	for _, v := range w.vals {
		_ = w.c.QueueTx(v, 0, world.MsgKeepAlive(v, world.PigeonVersion))
	}
	w.lastKA = w.c.Height
}

// chainKey: a pigeon uses a different key (address) on every chain, and a new one after a rotation.
func chainKey(name, ch string, ver int) *ecdsa.PrivateKey {
	h := sha256.Sum256([]byte(fmt.Sprintf("c14/key/%s/%s/%d", name, ch, ver)))
	k, err := ethcrypto.ToECDSA(h[:])
	if err != nil {
		panic(err)
	}
	return k
}

func (w *hw) registerMsg(i int) *valsettypes.MsgAddExternalChainInfoForValidator {
	v := w.vals[i]
	m := &valsettypes.MsgAddExternalChainInfoForValidator{Metadata: world.Meta(v)}
	var chs []string
	for ch := range w.regChains[i] {
		chs = append(chs, ch)
	}
	sort.Strings(chs)
	for _, ch := range chs {
		w.setKey(v, ch)
		m.ChainInfos = append(m.ChainInfos, world.ExtInfo(v, ch, w.regChains[i][ch]...))
	}
	return m
}

// setKey switches the pigeon's signing key to the one it registered (last) for chain ch.
func (w *hw) setKey(v *chain.Account, ch string) {
	v.EthKey = chainKey(v.Name, ch, w.keyVer[w.vidx[v.ValBech()]])
}

func (w *hw) gov(content gogoproto.Message) error {
	anyC, err := codectypes.NewAnyWithValue(content)
	if err != nil {
		return err
	}
	_, err = w.c.Direct(&govv1.MsgExecLegacyContent{Content: anyC, Authority: chain.GovAuthority()}, w.c.Height, w.c.Time)
	return err
}

func pick[T any](r *rand.Rand, s []T) T { return s[r.Intn(len(s))] }

// ---------------------------------------------------------------------------------------------
// bring-up

func newHW(cs fw.Case, p params, rec *fw.Recorder) (*hw, error) {
	r := cs.Rand()
	w := &hw{rec: rec, r: r, jobs: map[jobKey]string{}, active: map[string]bool{}, erc20: map[string]string{}, keyVer: map[int]int{},
		regChains: map[int]map[string][]string{}, prevQ: map[string][]qItem{}, prevBatches: map[string]batchInfo{}, rtx: map[uint64]*world.RemoteTx{}, vidx: map[string]int{}, sampled: map[string]bool{}}
	stakes := make([]int64, p.NVals)
	for i := range stakes {
		stakes[i] = int64(10+r.Intn(4)*10) * 1_000_000
	}
	w.r2 = rand.New(rand.NewSource(cs.Seed ^ 0x5eedfee14))
	prefix := fmt.Sprintf("c14-%d", cs.Seed)
	specs := chain.DefaultValidators(prefix, stakes)
	w.vals = world.Accts(specs)
	for i, v := range w.vals {
		w.uni = append(w.uni, v.ValBech())
		w.vidx[v.ValBech()] = i
	}
	users := map[*chain.Account]sdk.Coins{}
	for i := 0; i < 3; i++ {
		u := chain.NewAccount(fmt.Sprintf("user%d", i), fmt.Sprintf("%s/user/%d", prefix, i))
		w.users = append(w.users, u)
		users[u] = sdk.NewCoins(sdk.NewInt64Coin(chain.Denom, 1_000_000_000_000))
	}
	for i := 0; i < 2; i++ {
		h := sha256.Sum256([]byte(fmt.Sprintf("%s/contract/%d", prefix, i)))
		w.contracts = append(w.contracts, h[:]) // 32-byte wasm contract address
	}
	var evms []chain.EVMChainSpec
	for _, ch := range allChains {
		evms = append(evms, chain.EVMChainSpec{RefID: ch, ChainID: chainIDs[ch]})
	}
	w.c = chain.New(chain.Config{Validators: specs, Users: users, EVMChains: evms, WithCompass: true})
	return w, nil
}

// phaseA: the first blocks of a network. Snapshot #1 (height 1) holds validators WITHOUT any
// external account; performance records do not exist before height 10. Jobs target the
// not-yet-activated chain, which validators support only partially.
func (w *hw) phaseA() {
	c, r := w.c, w.r
	w.op("first-block", nil)
	if w.block() == nil {
		return
	}
	w.observe(nil)

	// jobs for every chain x {mev required, not required}
	w.op("create-jobs", nil)
	n := uint64(0)
	u0 := w.users[0]
	for _, ch := range allChains {
		for _, mev := range []bool{false, true} {
			id := fmt.Sprintf("job-%s-%v", strings.ReplaceAll(ch, "-", ""), mev)
			def, _ := json.Marshal(evmtypes.JobDefinition{Address: "0x5A0b54D5dc17e0AadC383d2db43B0a0D3E029c4c", ABI: "[]"})
			pl, _ := json.Marshal(evmtypes.JobPayload{HexPayload: "0xdeadbeef"})
			job := &schedulertypes.Job{ID: id, Routing: schedulertypes.Routing{ChainType: "evm", ChainReferenceID: ch}, Definition: def, Payload: pl,
				IsPayloadModifiable: true, EnforceMEVRelay: mev}
			if err := c.QueueTx(u0, n, &schedulertypes.MsgCreateJob{Job: job, Metadata: world.Meta(u0)}); err != nil {
				w.fail("create job: " + err.Error())
				return
			}
			n++
			w.jobs[jobKey{ch, mev}] = id
		}
	}
	br := w.block()
	if br == nil {
		return
	}
	for i, t := range br.Txs {
		if !t.OK() {
			w.fail(fmt.Sprintf("create job tx %d failed: %s", i, t.Log))
			return
		}
	}
	w.observe(nil)

	// nobody has an external account yet: the request must fail
	w.execJob(chNew, false, 1, "tx")
	if w.stop {
		return
	}

	// pigeons come up: accounts (partially for new-chain), traits, relayer fees (partially)
	w.op("register", nil)
	// one pigeon may come up late: it is in the next snapshot WITHOUT accounts, and (the metrix
	// snapshot listener stops at the first validator without accounts) validators after it in
	// iteration order get no performance record before height 10
	w.lateIdx = -1
	if len(w.vals) > 3 && r.Intn(4) > 0 {
		w.lateIdx = 3 + r.Intn(len(w.vals)-3)
	}
	for i, v := range w.vals {
		reg := map[string][]string{}
		full := i < 3 || r.Intn(6) > 0 // validators 0..2 always support both live chains
		for _, ch := range []string{chEth, chBnb} {
			if full || ch == chEth {
				var tr []string
				if r.Intn(5) < 2 {
					tr = []string{traitMEV}
				}
				reg[ch] = tr
			}
		}
		if r.Intn(3) > 0 {
			var tr []string
			if r.Intn(2) == 0 {
				tr = []string{traitMEV}
			}
			reg[chNew] = tr
		}
		w.regChains[i] = reg
		seq := uint64(0)
		if i != w.lateIdx {
			_ = c.QueueTx(v, seq, w.registerMsg(i))
			seq++
		}
		_ = c.QueueTx(v, seq, world.MsgKeepAlive(v, world.PigeonVersion))
		seq++
		fees := map[string]string{}
		for _, ch := range allChains {
			if i < 3 && ch != chNew || r.Intn(5) > 0 {
				if w.lateFees && ch == chBnb {
					continue
				}
				fees[ch] = pick(r, multPool)
			}
		}
		if len(fees) > 0 {
			_ = c.QueueTx(v, seq, world.MsgRelayerFee(v, fees))
		}
	}
	w.lastKA = c.Height + 1
	br = w.block()
	if br == nil {
		return
	}
	for i, t := range br.Txs {
		if !t.OK() {
			w.fail(fmt.Sprintf("registration tx %d failed: %s", i, t.Log))
			return
		}
	}
	w.observe(nil)

	// the snapshot is stale (no accounts in it): still no eligible validator
	w.execJob(chNew, r.Intn(2) == 0, 0, "contract")
	// new snapshot while performance records are incomplete
	w.buildSnapshot()
	for i := 0; i < 6 && !w.stop; i++ {
		via := "tx"
		if r.Intn(2) == 0 {
			via = "contract"
		}
		w.execJob(chNew, r.Intn(2) == 0, r.Intn(3), via)
	}
	for !w.stop && c.Height < 10 {
		w.op("empty-block", nil)
		if w.block() == nil {
			return
		}
		w.observe(nil)
	}
	for i := 0; i < 4 && !w.stop; i++ {
		via := "tx"
		if r.Intn(2) == 0 {
			via = "contract"
		}
		w.execJob(chNew, r.Intn(2) == 0, r.Intn(3), via)
	}
	if w.lateIdx >= 0 && !w.stop {
		i := w.lateIdx
		w.op("late-register", w.vals[i].ValBech())
		if w.txBlock([]*chain.Account{w.vals[i]}, func(*chain.Account) sdk.Msg { return w.registerMsg(i) }) {
			w.observe(nil)
		}
	}
}

// phaseB: treasury rates by governance, activation of the two live chains, token mapping, first
// published validator set delivered on both chains.
func (w *hw) phaseB() {
	c := w.c
	w.op("gov-rates", nil)
	if err := w.gov(&treasurytypes.CommunityFundFeeProposal{Title: "cf", Description: "cf", Fee: pick(w.r, ratePool)}); err != nil {
		w.fail("gov cf: " + err.Error())
		return
	}
	if err := w.gov(&treasurytypes.SecurityFeeProposal{Title: "sf", Description: "sf", Fee: pick(w.r, ratePool)}); err != nil {
		w.fail("gov sf: " + err.Error())
		return
	}
	w.observe(nil)
	for i, ch := range []string{chEth, chBnb} {
		w.op("activate", ch)
		if err := world.ActivateChain(c, ch, fmt.Sprintf("0x%040x", 0xC0DE000+i), []byte("compass-"+ch+"-1")); err != nil {
			w.fail("activate: " + err.Error())
			return
		}
		w.active[ch] = true
		erc := world.ERC20Addr(i)
		if _, err := c.Direct(world.MsgMapERC20Gov(chain.Denom, ch, erc), c.Height, c.Time); err != nil {
			w.fail("map ugrain: " + err.Error())
			return
		}
		w.erc20[ch] = erc
		w.observe(nil)
	}
	w.buildSnapshot()
	if w.stop {
		return
	}
	// publish if the build did not (snapshot unchanged)
	need := false
	for _, ch := range []string{chEth, chBnb} {
		has := false
		for _, it := range w.prevQ[ch] {
			if it.Kind == "valset" {
				has = true
			}
		}
		if !has {
			need = true
		}
	}
	if need {
		w.op("publish-snapshot", nil)
		snap, err := c.App.ValsetKeeper.GetCurrentSnapshot(c.Ctx())
		if err == nil && snap != nil {
			cctx, write := c.Ctx().CacheContext()
			if err := c.App.EvmKeeper.PublishSnapshotToAllChains(cctx, snap, true); err == nil {
				write()
			}
		}
		w.observe(nil)
	}
	for _, ch := range []string{chEth, chBnb} {
		for _, it := range w.prevQ[ch] {
			if it.Kind == "valset" {
				w.deliverFully(ch, it.ID, 8)
			}
		}
	}
}

// ---------------------------------------------------------------------------------------------
// operations

// execJob: a job execution = one relay request. via "tx": MsgExecuteJob signed by a user (sender =
// account address); via "contract": the call the wasm binding makes (sender = 32-byte contract
// address), wrapped in a cache context that is written back only on success (= the enclosing tx).
func (w *hw) execJob(ch string, mev bool, who int, via string) {
	w.alignForEnqueue()
	if w.stop {
		return
	}
	c := w.c
	id := w.jobs[jobKey{ch, mev}]
	pl, _ := json.Marshal(evmtypes.JobPayload{HexPayload: "0x" + hex.EncodeToString([]byte{byte(w.r.Intn(256)), byte(w.r.Intn(256)), 3, 4})})
	ex := &expect{Kind: "job", Chain: ch, Mev: mev, Via: via}
	if via == "tx" {
		u := w.users[who%len(w.users)]
		ex.Sender = u.Addr.Bytes()
		w.op("exec-job", map[string]any{"job": id, "user": u.Bech})
		res := c.Deliver(u, &schedulertypes.MsgExecuteJob{JobID: id, Payload: pl, Metadata: world.Meta(u)})
		if res.Code >= 99990 {
			w.fail("exec job: " + firstLine(res.Log))
			return
		}
		w.rec.Count("blocks", 1)
		ex.OK = res.OK()
		ex.ErrText = res.Log
		if res.OK() {
			var td sdk.TxMsgData
			if err := td.Unmarshal(res.Data); err == nil && len(td.MsgResponses) > 0 {
				var resp schedulertypes.MsgExecuteJobResponse
				if err := resp.Unmarshal(td.MsgResponses[0].Value); err == nil {
					ex.MsgID = resp.MessageID
				}
			}
		}
	} else {
		ca := w.contracts[who%len(w.contracts)]
		ex.Sender = ca
		w.op("exec-job-contract", map[string]any{"job": id, "contract": hex.EncodeToString(ca)})
		cctx, write := c.Ctx().CacheContext()
		var mid uint64
		var err error
		func() {
			defer func() {
				if e := recover(); e != nil {
					err = fmt.Errorf("PANIC: %v\n%s", e, debug.Stack())
				}
			}()
			mid, err = c.App.SchedulerKeeper.ExecuteJob(cctx, id, pl, sdk.AccAddress(ca), sdk.AccAddress(ca))
		}()
		if err == nil {
			write()
			ex.OK = true
			ex.MsgID = mid
		} else {
			ex.ErrText = err.Error()
		}
	}
	w.observe(ex)
}

func (w *hw) buildSnapshot() {
	w.alignForEnqueue()
	if w.stop {
		return
	}
	w.op("build-snapshot", nil)
	_, err := world.BuildSnapshot(w.c)
	if err != nil {
		w.rec.Count("snapshot_build_errors", 1)
	}
	w.observe(&expect{Kind: "snapshot"})
}

func (w *hw) snapshotVals() []*chain.Account {
	var out []*chain.Account
	for v := range w.prevT.Snap {
		if i, ok := w.vidx[v]; ok {
			out = append(out, w.vals[i])
		}
	}
	sort.Slice(out, func(i, j int) bool { return out[i].Bech < out[j].Bech })
	return out
}

// txBlock: queue one tx per given validator (built by mk), run the block, tolerate failing txs.
func (w *hw) txBlock(vs []*chain.Account, mk func(v *chain.Account) sdk.Msg) bool {
	for _, v := range vs {
		if w.curChain != "" {
			w.setKey(v, w.curChain)
		}
		m := mk(v)
		if m == nil {
			continue
		}
		_ = w.c.QueueTx(v, 0, m)
	}
	br := w.block()
	if br == nil {
		return false
	}
	for _, t := range br.Txs {
		if t.OK() {
			w.rec.Count("pigeon_txs_ok", 1)
		} else {
			w.rec.Count("pigeon_txs_rejected", 1)
		}
	}
	return true
}

func (w *hw) findItem(ch string, id uint64) *qItem {
	for i := range w.prevQ[ch] {
		if w.prevQ[ch][i].ID == id {
			return &w.prevQ[ch][i]
		}
	}
	return nil
}

func (w *hw) estimate(ch string, id uint64, vs []*chain.Account, base uint64) {
	w.curChain = ch
	defer func() { w.curChain = "" }()
	q := world.TurnstoneQueue(ch)
	w.op("estimate", map[string]any{"chain": ch, "id": id, "n": len(vs), "base": base})
	k := uint64(0)
	if w.txBlock(vs, func(v *chain.Account) sdk.Msg {
		k++
		return world.MsgEstimate(v, q, id, base+k%3) // slightly different values: the elected one is a median
	}) {
		w.observe(nil)
	}
}

func (w *hw) sign(ch string, id uint64, vs []*chain.Account) {
	w.curChain = ch
	defer func() { w.curChain = "" }()
	q := world.TurnstoneQueue(ch)
	w.op("sign", map[string]any{"chain": ch, "id": id, "n": len(vs)})
	if w.txBlock(vs, func(v *chain.Account) sdk.Msg {
		m, err := world.MsgSign(w.c, v, q, id)
		if err != nil || len(m.SignedMessages) == 0 {
			return nil
		}
		return m
	}) {
		w.observe(nil)
	}
}

// report: public access data (a delivery report) by validator `by`; real call data when possible.
func (w *hw) report(ch string, id uint64, by *chain.Account, status uint64) {
	w.curChain = ch
	defer func() { w.curChain = "" }()
	w.setKey(by, ch)
	c := w.c
	q := world.TurnstoneQueue(ch)
	var data []byte
	valsetID := uint64(0)
	func() {
		defer func() { recover() }()
		for _, m := range world.QueueMsgs(c, q) {
			if m.GetId() == id {
				if s, err := c.App.ValsetKeeper.GetLatestSnapshotOnChain(c.Ctx(), ch); err == nil && s != nil {
					valsetID = s.Id
				} else if s, err := c.App.ValsetKeeper.GetCurrentSnapshot(c.Ctx()); err == nil && s != nil {
					valsetID = s.Id
				}
				vs, err := world.ValsetOnChain(c, ch, valsetID)
				if err != nil {
					return
				}
				cd, err := world.CallData(c, m, vs, 0)
				if err != nil {
					return
				}
				ci, err := c.App.EvmKeeper.GetChainInfo(c.Ctx(), ch)
				if err != nil {
					return
				}
				to := common.HexToAddress(ci.SmartContractAddr)
				rtx, err := world.NewRemoteTx(by.EthKey, chainIDs[ch], id, &to, cd, status)
				if err != nil {
					return
				}
				w.rtx[id] = rtx
				data = rtx.Hash().Bytes()
			}
		}
	}()
	if data == nil {
		h := sha256.Sum256([]byte(fmt.Sprintf("tx/%d/%d", id, w.stepNo)))
		data = h[:]
	}
	w.op("report-delivery", map[string]any{"chain": ch, "id": id, "by": by.ValBech()})
	if w.txBlock([]*chain.Account{by}, func(v *chain.Account) sdk.Msg { return world.MsgPublicAccess(v, q, id, data, valsetID) }) {
		w.observe(nil)
	}
}

func (w *hw) reportError(ch string, id uint64, by *chain.Account) {
	w.curChain = ch
	defer func() { w.curChain = "" }()
	q := world.TurnstoneQueue(ch)
	w.op("report-error", map[string]any{"chain": ch, "id": id, "by": by.ValBech()})
	if w.txBlock([]*chain.Account{by}, func(v *chain.Account) sdk.Msg { return world.MsgErrorData(v, q, id, []byte("execution reverted")) }) {
		w.observe(nil)
	}
}

func (w *hw) evidence(ch string, id uint64, vs []*chain.Account) {
	w.curChain = ch
	defer func() { w.curChain = "" }()
	rtx := w.rtx[id]
	if rtx == nil {
		return
	}
	proof, err := rtx.Proof(false)
	if err != nil {
		return
	}
	q := world.TurnstoneQueue(ch)
	w.op("evidence", map[string]any{"chain": ch, "id": id, "n": len(vs)})
	if w.txBlock(vs, func(v *chain.Account) sdk.Msg {
		m, err := world.MsgEvidence(v, q, id, proof)
		if err != nil {
			return nil
		}
		return m
	}) {
		w.observe(nil)
	}
}

func (w *hw) acctOf(val string) *chain.Account {
	if i, ok := w.vidx[val]; ok {
		return w.vals[i]
	}
	return nil
}

// advance moves one message one phase further (estimates -> signatures -> delivery report -> evidence).
func (w *hw) advance(ch string, id uint64) bool {
	it := w.findItem(ch, id)
	if it == nil {
		return false
	}
	vs := w.snapshotVals()
	switch {
	case it.ReqGas && it.Gas == 0:
		w.estimate(ch, id, vs, pick(w.r, gasPool))
	case it.NSig < len(vs) && !it.PAD && !it.Err:
		w.sign(ch, id, vs)
		// signatures of validators whose key is not the registered one are rejected: do not loop on it
		if n := w.findItem(ch, id); n != nil && n.NSig == it.NSig {
			return false
		}
	case !it.PAD && !it.Err:
		a := w.acctOf(it.Assignee)
		if a == nil {
			return false
		}
		st := uint64(1)
		if w.r.Intn(5) == 0 {
			st = 0
		}
		w.report(ch, id, a, st)
	case it.PAD && w.rtx[id] != nil:
		w.evidence(ch, id, vs)
		delete(w.rtx, id)
	default:
		return false
	}
	return !w.stop
}

func (w *hw) deliverFully(ch string, id uint64, maxPhases int) {
	for i := 0; i < maxPhases && !w.stop; i++ {
		if w.findItem(ch, id) == nil {
			w.rec.Count("messages_attested", 1)
			return
		}
		if !w.advance(ch, id) {
			return
		}
	}
}

func (w *hw) skywaySendAndBatch(ch string) {
	w.alignForEnqueue()
	if w.stop {
		return
	}
	c := w.c
	u := pick(w.r, w.users)
	w.op("skyway-send", map[string]any{"chain": ch, "user": u.Bech})
	res := c.Deliver(u, world.MsgSend(u, ch, "0x00000000000000000000000000000000000000bb", sdk.NewCoin(chain.Denom, sdkmath.NewInt(int64(1000+w.r.Intn(1000))))))
	if res.Code >= 99990 {
		w.fail("skyway send: " + firstLine(res.Log))
		return
	}
	w.rec.Count("blocks", 1)
	w.observe(nil)
	if !res.OK() {
		w.rec.Count("skyway_send_rejected", 1)
		return
	}
	w.alignForEnqueue()
	if w.stop {
		return
	}
	contract, err := skywaytypes.NewEthAddress(w.erc20[ch])
	if err != nil {
		return
	}
	w.op("skyway-build-batch", map[string]any{"chain": ch})
	ex := &expect{Kind: "batch", Chain: ch}
	cctx, write := c.Ctx().CacheContext()
	func() {
		defer func() {
			if e := recover(); e != nil {
				ex.ErrText = fmt.Sprintf("PANIC: %v", e)
			}
		}()
		b, err := c.App.SkywayKeeper.BuildOutgoingTXBatch(cctx, ch, *contract, 100)
		if err != nil {
			ex.ErrText = err.Error()
			return
		}
		if b != nil {
			write()
			ex.OK = true
			ex.MsgID = b.BatchNonce
		} else {
			ex.ErrText = "nothing to batch"
		}
	}()
	w.observe(ex)
}

// lateFeesArrive: every validator sets its relayer fee for bnb-main (one block), then the pending
// first validator-set update of that chain is published and delivered like in phase B.
func (w *hw) lateFeesArrive() {
	c := w.c
	w.op("late-fees", chBnb)
	mult := pick(w.r, multPool)
	if !w.txBlock(w.vals, func(v *chain.Account) sdk.Msg { return world.MsgRelayerFee(v, map[string]string{chBnb: mult}) }) {
		return
	}
	w.observe(nil)
	w.rec.Count("late_fee_histories", 1)
	for _, it := range w.prevQ[chBnb] {
		if it.Kind == "valset" {
			w.rec.Count("late_fee_valset_update_already_queued", 1)
		}
	}
	w.op("publish-snapshot", nil)
	snap, err := c.App.ValsetKeeper.GetCurrentSnapshot(c.Ctx())
	if err == nil && snap != nil {
		cctx, write := c.Ctx().CacheContext()
		if err := c.App.EvmKeeper.PublishSnapshotToAllChains(cctx, snap, true); err == nil {
			write()
		}
	}
	w.observe(nil)
	for _, it := range w.prevQ[chBnb] {
		if it.Kind == "valset" {
			w.deliverFully(chBnb, it.ID, 8)
		}
	}
}

func (w *hw) upsertFee() {
	i := w.r.Intn(len(w.vals))
	v := w.vals[i]
	fees := map[string]string{pick(w.r, allChains): pick(w.r, multPool)}
	w.op("upsert-fee", map[string]any{"val": v.ValBech(), "fees": fees})
	if w.txBlock([]*chain.Account{v}, func(v *chain.Account) sdk.Msg { return world.MsgRelayerFee(v, fees) }) {
		w.observe(nil)
	}
}

// reRegister: a pigeon re-registers its external accounts: toggles the MEV trait, adds/drops the
// new chain, or rotates its key (new address) on one chain.
func (w *hw) reRegister() {
	i := w.r.Intn(len(w.vals))
	v := w.vals[i]
	reg := w.regChains[i]
	what := ""
	switch x := w.r.Intn(10); {
	case x < 5:
		var chs []string
		for ch := range reg {
			chs = append(chs, ch)
		}
		sort.Strings(chs)
		if len(chs) == 0 {
			return
		}
		ch := pick(w.r, chs)
		if len(reg[ch]) > 0 {
			reg[ch] = nil
		} else {
			reg[ch] = []string{traitMEV}
		}
		what = "toggle-mev " + ch
	case x < 7:
		if _, ok := reg[chNew]; ok {
			delete(reg, chNew)
			what = "drop " + chNew
		} else {
			reg[chNew] = nil
			what = "add " + chNew
		}
	default:
		// key rotation: all accounts of this pigeon move to a new address
		w.keyVer[i]++
		what = "rotate-key"
	}
	w.op("re-register", map[string]any{"val": v.ValBech(), "what": what})
	if w.txBlock([]*chain.Account{v}, func(*chain.Account) sdk.Msg { return w.registerMsg(i) }) {
		w.observe(nil)
	}
}

func (w *hw) govRate() {
	rate := pick(w.r, ratePool)
	var err error
	if w.r.Intn(2) == 0 {
		w.op("gov-community-rate", rate)
		err = w.gov(&treasurytypes.CommunityFundFeeProposal{Title: "cf", Description: "cf", Fee: rate})
	} else {
		w.op("gov-security-rate", rate)
		err = w.gov(&treasurytypes.SecurityFeeProposal{Title: "sf", Description: "sf", Fee: rate})
	}
	if err != nil {
		w.rec.Count("gov_rejected", 1)
	}
	w.observe(nil)
}

// candidates: (chain,id) of queue items matching a predicate
func (w *hw) candidates(f func(it qItem) bool) [][2]any {
	var out [][2]any
	for _, ch := range allChains {
		for _, it := range w.prevQ[ch] {
			if f(it) {
				out = append(out, [2]any{ch, it.ID})
			}
		}
	}
	return out
}

func (w *hw) phaseC(steps int) {
	r := w.r
	live := []string{chEth, chBnb}
	for s := 0; s < steps && !w.stop; s++ {
		if w.lateFees && s == 4 {
			w.lateFeesArrive()
			continue
		}
		if w.c.Height-w.lastKA > 35 {
			w.op("keep-alive", nil)
			w.keepAlive()
			if w.block() == nil {
				return
			}
			w.observe(nil)
		}
		// scripted scenario (feegap.go): fee inputs unusable in the pass in which an estimate reaches quorum
		if s%45 == 20 {
			w.gapDue++
		}
		if w.gapDue > 0 && w.feeGap(w.r2) {
			w.gapDue--
			continue
		}
		if w.stop {
			return
		}
		// an undelivered validator-set update blocks everything behind it: deliver it with some probability
		if vs := w.candidates(func(it qItem) bool { return it.Kind == "valset" }); len(vs) > 0 && r.Intn(4) == 0 {
			x := pick(r, vs)
			w.deliverFully(x[0].(string), x[1].(uint64), 8)
			continue
		}
		switch x := r.Intn(100); {
		case x < 30:
			ch := pick(r, live)
			if r.Intn(6) == 0 {
				ch = chNew
			}
			via := "tx"
			if r.Intn(3) == 0 {
				via = "contract"
			}
			// few senders: bursts of the same sender are what the per-sender filter is about
			w.execJob(ch, r.Intn(3) == 0, r.Intn(2), via)
		case x < 48:
			// estimates: all snapshot validators (elects) or a minority (does not)
			cs := w.candidates(func(it qItem) bool { return it.ReqGas && it.Gas == 0 })
			if len(cs) == 0 {
				continue
			}
			c := pick(r, cs)
			vs := w.snapshotVals()
			if r.Intn(5) == 0 && len(vs) > 1 {
				vs = vs[:1]
			}
			// prefer the YOUNGEST unestimated message now and then, so that older same-sender messages stay unestimated
			if r.Intn(2) == 0 {
				c = cs[len(cs)-1]
			}
			w.estimate(c[0].(string), c[1].(uint64), vs, pick(r, gasPool))
		case x < 58:
			cs := w.candidates(func(it qItem) bool { return !it.PAD && !it.Err && it.Kind != "valset" })
			if len(cs) == 0 {
				continue
			}
			c := pick(r, cs)
			w.advance(c[0].(string), c[1].(uint64))
		case x < 66:
			// delivery / error report on a message in ANY state, by its assignee
			cs := w.candidates(func(it qItem) bool { return !it.PAD && !it.Err && it.Kind != "valset" })
			if len(cs) == 0 {
				continue
			}
			c := pick(r, cs)
			it := w.findItem(c[0].(string), c[1].(uint64))
			a := w.acctOf(it.Assignee)
			if a == nil {
				continue
			}
			if r.Intn(3) == 0 {
				w.reportError(c[0].(string), it.ID, a)
			} else {
				w.report(c[0].(string), it.ID, a, 1)
			}
		case x < 72:
			cs := w.candidates(func(it qItem) bool { return it.PAD && w.rtx[it.ID] != nil })
			if len(cs) == 0 {
				continue
			}
			c := pick(r, cs)
			w.advance(c[0].(string), c[1].(uint64))
		case x < 79:
			w.upsertFee()
		case x < 85:
			w.reRegister()
		case x < 89:
			w.buildSnapshot()
		case x < 92:
			w.govRate()
		case x < 97:
			w.skywaySendAndBatch(pick(r, live))
		default:
			n := 1 + r.Intn(3)
			for i := 0; i < n && !w.stop; i++ {
				w.op("empty-block", nil)
				if w.block() == nil {
					return
				}
				w.observe(nil)
			}
		}
	}
}

func runHistory(cs fw.Case, tier string, rec *fw.Recorder) {
	var p params
	cs.Decode(&p)
	w, err := newHW(cs, p, rec)
	if err != nil {
		rec.Inconclusive("bring-up: " + err.Error())
		return
	}
	w.lateFees = p.LateFees
	defer w.c.Close()
	defer func() {
		if e := recover(); e != nil {
			rec.Inconclusive(fmt.Sprintf("harness panic: %v\n%s", e, debug.Stack()))
		}
	}()
	w.phaseA()
	if !w.stop {
		w.phaseB()
	}
	if !w.stop {
		w.phaseC(p.Steps)
	}
	rec.Count("histories", 1)
}
