package c14

// Scripted scenario "fee unavailable when the estimate reaches quorum" (runs a few times inside the
// random phase of every history, at fixed step numbers; its choices come from a stream of its own).
//
// The fees of a fee-paying message are computed in the end-blocker pass in which its gas estimate
// is elected, from the tables of THAT moment. Between assignment and election the inputs of the
// computation may have become unusable through public paths only:
//
//	mult-zero        the assignee upserts multiplier 0 for the chain (the upsert merges, so a record
//	                 stays: eligibility tables do not move)
//	mult-overflow    the assignee upserts a multiplier so large that multiplier * gas exceeds 64 bits
//	rate-zero        governance sets the community / security rate to 0
//	rate-unparsable  governance sets a rate that is no decimal number (the proposal is not validated)
//
// The scenario picks a pending fee-paying message M without elected estimate (creates one if there
// is none, and a second one in the same queue so that the pass handles several messages), breaks
// the inputs, lets ALL snapshot validators estimate M and one companion message in one block (quorum
// in one end-blocker pass), repairs the inputs and lets one more end-blocker run. Nothing is
// decided here: after every block the ordinary monitor (observe.go) decides - an elected estimate
// on a fee-paying message must come with the reference fees, and whatever is offered for relay with
// an elected estimate must have fees attached. The counters show that the states were reached.

import (
	"fmt"
	"math/rand"

	sdk "github.com/cosmos/cosmos-sdk/types"

	consensustypes "github.com/palomachain/paloma/v2/x/consensus/types"
	treasurytypes "github.com/palomachain/paloma/v2/x/treasury/types"

	"verif/harness/chain"
	"verif/harness/world"
)

const (
	overflowMult = "18446744073709551615" // * any gas >= 2 does not fit into 64 bits
	overflowGas  = uint64(1<<40 + 7)
)

func (w *hw) feeGapCandidates(ch string, notAssignee string, notID uint64) []qItem {
	var out []qItem
	for _, c := range allChains {
		if ch != "" && c != ch {
			continue
		}
		if !w.active[c] {
			continue
		}
		for _, it := range w.prevQ[c] {
			if it.FeePayer && it.ReqGas && it.Gas == 0 && !it.PAD && !it.Err && it.ID != notID && it.Assignee != notAssignee && w.acctOf(it.Assignee) != nil {
				out = append(out, it)
			}
		}
	}
	return out
}

func (w *hw) setRate(which, rate string) {
	var err error
	if which == "community" {
		err = w.gov(&treasurytypes.CommunityFundFeeProposal{Title: "cf", Description: "cf", Fee: rate})
	} else {
		err = w.gov(&treasurytypes.SecurityFeeProposal{Title: "sf", Description: "sf", Fee: rate})
	}
	if err != nil {
		w.rec.Count("gov_rejected", 1)
	}
}

// feeGap runs the scenario once; false = no message to run it on (try again later).
func (w *hw) feeGap(r *rand.Rand) bool {
	live := []string{chEth, chBnb}
	cs := w.feeGapCandidates("", "", 0)
	if len(cs) == 0 {
		w.execJob(pick(r, live), false, r.Intn(2), "tx")
		if w.stop {
			return false
		}
		cs = w.feeGapCandidates("", "", 0)
		if len(cs) == 0 {
			return false
		}
	}
	m := pick(r, cs)
	ch := m.Chain
	// a second fee-paying message in the same queue, so that the end-blocker pass handles several
	if len(w.feeGapCandidates(ch, "", m.ID)) == 0 {
		w.execJob(ch, false, 2, "tx")
		if w.stop {
			return false
		}
		if w.findItem(ch, m.ID) == nil {
			return false
		}
	}
	a := w.acctOf(m.Assignee)
	variant := "mult-zero"
	switch x := r.Intn(10); {
	case x < 5:
	case x < 7:
		variant = "mult-overflow"
	case x < 9:
		variant = "rate-zero"
	default:
		variant = "rate-unparsable"
	}
	which := "community"
	if r.Intn(2) == 0 {
		which = "security"
	}
	oldRate := w.prevT.CF
	if which == "security" {
		oldRate = w.prevT.SF
	}
	if oldRate == "" {
		oldRate = pick(r, ratePool)
	}
	w.rec.Count("fee_unavailable_variant/"+variant, 1)

	// 1. break the inputs of the fee computation
	w.op("fee-gap-break", map[string]any{"variant": variant, "chain": ch, "id": m.ID, "assignee": m.Assignee, "rate": which})
	switch variant {
	case "mult-zero", "mult-overflow":
		mult := "0"
		if variant == "mult-overflow" {
			mult = overflowMult
		}
		if !w.txBlock([]*chain.Account{a}, func(v *chain.Account) sdk.Msg { return world.MsgRelayerFee(v, map[string]string{ch: mult}) }) {
			return false
		}
	case "rate-zero":
		w.setRate(which, "0")
	default:
		w.setRate(which, "n/a")
	}
	w.observe(nil)
	if w.stop {
		return false
	}

	// 2. quorum of estimates for M (and a companion with another assignee, if there is one) in ONE block
	var m2 *qItem
	if comp := w.feeGapCandidates(ch, m.Assignee, m.ID); len(comp) > 0 {
		c := pick(r, comp)
		m2 = &c
	}
	base := pick(r, gasPool)
	if variant == "mult-overflow" || base < 2 {
		base = overflowGas
	}
	vs := w.snapshotVals()
	q := world.TurnstoneQueue(ch)
	ids := []uint64{m.ID}
	if m2 != nil {
		ids = append(ids, m2.ID)
	}
	w.op("fee-gap-estimate", map[string]any{"chain": ch, "ids": ids, "n": len(vs), "base": base})
	w.curChain = ch
	k := uint64(0)
	ok := w.txBlock(vs, func(v *chain.Account) sdk.Msg {
		k++
		em := world.MsgEstimate(v, q, m.ID, base+k%3)
		if m2 != nil {
			em.Estimates = append(em.Estimates, &consensustypes.MsgAddMessageGasEstimates_GasEstimate{MsgId: m2.ID, QueueTypeName: q, Value: base + (k+1)%3, EstimatedByAddress: v.EthAddr()})
		}
		return em
	})
	w.curChain = ""
	if !ok {
		return false
	}
	w.observe(nil)
	if w.stop {
		return false
	}
	quorum := false
	if it := w.findItem(ch, m.ID); it != nil && len(vs) > 0 && it.NEst >= len(vs) {
		quorum = true
		w.rec.Count("fee_unavailable_at_quorum", 1)
		if it.Gas == 0 {
			w.rec.Count("fee_unavailable_election_withheld", 1)
		}
		if m2 != nil {
			if it2 := w.findItem(ch, m2.ID); it2 != nil && it2.Gas > 0 && it2.Fees != nil && it.Gas == 0 {
				w.rec.Count("fee_unavailable_companion_elected_same_pass", 1)
			}
		}
	}

	// 3. repair the inputs; the estimates are still on record, the next end-blocker pass decides again
	w.op("fee-gap-repair", map[string]any{"variant": variant, "chain": ch, "id": m.ID})
	switch variant {
	case "mult-zero", "mult-overflow":
		mult := pick(r, multPool)
		if !w.txBlock([]*chain.Account{a}, func(v *chain.Account) sdk.Msg { return world.MsgRelayerFee(v, map[string]string{ch: mult}) }) {
			return false
		}
	default:
		w.setRate(which, oldRate)
		w.observe(nil)
		if w.stop {
			return false
		}
		w.op("empty-block", nil)
		if w.block() == nil {
			return false
		}
	}
	w.observe(nil)
	if w.stop {
		return false
	}
	if it := w.findItem(ch, m.ID); quorum && it != nil && it.Gas > 0 && it.Fees != nil {
		w.rec.Count("fee_unavailable_elected_after_repair", 1)
	}
	if !w.sampled["feegap"] && quorum {
		w.sampled["feegap"] = true
		w.rec.Sample(map[string]any{"kind": "fee unavailable at quorum, repaired afterwards", "variant": variant, "chain": ch, "message_after_repair": w.findItem(ch, m.ID), "height": w.c.Height})
	}
	return true
}

var _ = fmt.Sprintf
