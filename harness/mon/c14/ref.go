package c14

// Reference model of C14. Everything in this file is written from the property statement, not
// from the code under test: eligibility is a set comprehension over four tables read through
// exported getters, the relay offer is a set comprehension over the queue contents, the fees are
// exact rational arithmetic (math/big) on the decimal strings.

import (
	"bytes"
	"fmt"
	"math/big"
	"sort"
	"strings"

	sdk "github.com/cosmos/cosmos-sdk/types"

	consensustypes "github.com/palomachain/paloma/v2/x/consensus/types"
	evmtypes "github.com/palomachain/paloma/v2/x/evm/types"

	"verif/harness/chain"
	"verif/harness/world"
)

const traitMEV = "mev"

// acct is a validator's account on one target chain as recorded in a snapshot entry.
type acct struct {
	Addr   string
	Traits []string
}

func (a acct) hasMEV() bool {
	for _, t := range a.Traits {
		if t == traitMEV {
			return true
		}
	}
	return false
}

// tables are the four independent tables eligibility is a conjunction over, plus the treasury rates.
type tables struct {
	SnapID  uint64
	Snap    map[string]map[string]acct   // validator -> chain -> account (snapshot entry)
	Metrics map[string]bool              // validator has a performance record
	Fees    map[string]map[string]string // validator -> chain -> relayer multiplier (decimal string)
	CF, SF  string                       // community / security rate (decimal strings)
}

func readTables(c *chain.Chain, ctx sdk.Context, universe []string) (tables, error) {
	t := tables{Snap: map[string]map[string]acct{}, Metrics: map[string]bool{}, Fees: map[string]map[string]string{}}
	snap, err := c.App.ValsetKeeper.GetCurrentSnapshot(ctx)
	if err != nil {
		return t, fmt.Errorf("snapshot: %w", err)
	}
	if snap != nil {
		t.SnapID = snap.Id
		for _, v := range snap.Validators {
			m := map[string]acct{}
			for _, ci := range v.ExternalChainInfos {
				if _, dup := m[ci.ChainReferenceID]; dup {
					continue // the workload never registers two accounts on one chain
				}
				m[ci.ChainReferenceID] = acct{Addr: ci.Address, Traits: append([]string(nil), ci.Traits...)}
			}
			t.Snap[v.Address.String()] = m
		}
	}
	// metrics: per-validator getter over every validator that could matter (universe ∪ snapshot)
	seen := map[string]bool{}
	for _, v := range universe {
		seen[v] = true
	}
	for v := range t.Snap {
		seen[v] = true
	}
	for v := range seen {
		va, err := sdk.ValAddressFromBech32(v)
		if err != nil {
			continue
		}
		m, err := c.App.MetrixKeeper.GetValidatorMetrics(ctx, va)
		if err != nil {
			return t, fmt.Errorf("metrics: %w", err)
		}
		if m != nil {
			t.Metrics[v] = true
		}
	}
	rfs, err := c.App.TreasuryKeeper.GetRelayerFees(ctx)
	if err != nil {
		return t, fmt.Errorf("relayer fees: %w", err)
	}
	for _, rf := range rfs {
		m := map[string]string{}
		for _, f := range rf.Fees {
			if _, dup := m[f.ChainReferenceId]; dup {
				continue
			}
			m[f.ChainReferenceId] = f.Multiplicator.String()
		}
		t.Fees[rf.ValAddress] = m
	}
	tf, err := c.App.TreasuryKeeper.GetFees(ctx)
	if err != nil {
		return t, fmt.Errorf("treasury fees: %w", err)
	}
	t.CF, t.SF = tf.CommunityFundFee, tf.SecurityFee
	return t, nil
}

// eligKey: the part of the tables eligibility depends on (record existence, not values).
func (t tables) eligKey() string {
	var sb strings.Builder
	fmt.Fprintf(&sb, "snap=%d;", t.SnapID)
	var ms []string
	for v := range t.Metrics {
		ms = append(ms, v)
	}
	sort.Strings(ms)
	sb.WriteString(strings.Join(ms, ","))
	sb.WriteString(";")
	var fs []string
	for v, m := range t.Fees {
		for ch := range m {
			fs = append(fs, v+"|"+ch)
		}
	}
	sort.Strings(fs)
	sb.WriteString(strings.Join(fs, ","))
	return sb.String()
}

// why returns the eligibility conditions validator v FAILS for (chain, mev) ("" slice = eligible).
func (t tables) why(v, chainRef string, mev bool) []string {
	var out []string
	accts, in := t.Snap[v]
	if !in {
		out = append(out, "not_in_snapshot")
	}
	a, has := accts[chainRef]
	if !has {
		out = append(out, "no_account")
	}
	if _, ok := t.Fees[v][chainRef]; !ok {
		out = append(out, "no_fee")
	}
	if !t.Metrics[v] {
		out = append(out, "no_metrics")
	}
	if mev && !(has && a.hasMEV()) {
		out = append(out, "no_mev")
	}
	return out
}

// eligible = { v in snapshot : account on chain AND fee record for chain AND metrics record AND (mev => MEV trait) }
func (t tables) eligible(chainRef string, mev bool) map[string]bool {
	out := map[string]bool{}
	for v := range t.Snap {
		if len(t.why(v, chainRef, mev)) == 0 {
			out[v] = true
		}
	}
	return out
}

func keys(m map[string]bool) []string {
	var o []string
	for k := range m {
		o = append(o, k)
	}
	sort.Strings(o)
	return o
}

// ---------------------------------------------------------------------------------------------
// queue contents

type qItem struct {
	ID       uint64     `json:"id"`
	Kind     string     `json:"kind"` // slc | valset | upload | userupload | handover | other
	Chain    string     `json:"chain"`
	Assignee string     `json:"assignee"`
	Remote   string     `json:"remote"`
	Sender   []byte     `json:"sender,omitempty"`
	Mev      bool       `json:"mev,omitempty"`
	ReqGas   bool       `json:"req_gas"`
	Gas      uint64     `json:"gas"`
	NEst     int        `json:"n_est"`
	NSig     int        `json:"n_sig"`
	PAD      bool       `json:"pad,omitempty"`
	Err      bool       `json:"err,omitempty"`
	ReqSig   bool       `json:"req_sig"`
	FeePayer bool       `json:"fee_payer,omitempty"`
	Fees     *[3]uint64 `json:"fees,omitempty"` // relayer, community, security
	IsEvm    bool       `json:"is_evm"`
}

func readQueue(c *chain.Chain, ctx sdk.Context, chainRef string) ([]qItem, error) {
	msgs, err := c.App.ConsensusKeeper.GetMessagesFromQueue(ctx, world.TurnstoneQueue(chainRef), 0)
	if err != nil {
		return nil, err
	}
	var out []qItem
	for _, qm := range msgs {
		out = append(out, itemOf(c, qm))
	}
	sort.SliceStable(out, func(i, j int) bool { return out[i].ID < out[j].ID })
	return out, nil
}

func feesOf(f *evmtypes.Fees) *[3]uint64 {
	if f == nil {
		return nil
	}
	return &[3]uint64{f.RelayerFee, f.CommunityFee, f.SecurityFee}
}

func itemOf(c *chain.Chain, qm consensustypes.QueuedSignedMessageI) qItem {
	it := qItem{ID: qm.GetId(), ReqGas: qm.GetRequireGasEstimation(), Gas: qm.GetGasEstimate(), NEst: len(qm.GetGasEstimates()),
		NSig: len(qm.GetSignData()), PAD: qm.GetPublicAccessData() != nil, Err: qm.GetErrorData() != nil, ReqSig: qm.GetRequireSignatures(), Kind: "other"}
	cm, err := qm.ConsensusMsg(c.App.AppCodec())
	if err != nil {
		return it
	}
	m, ok := cm.(*evmtypes.Message)
	if !ok {
		return it
	}
	it.IsEvm = true
	it.Chain = m.ChainReferenceID
	it.Assignee = m.Assignee
	it.Remote = m.AssigneeRemoteAddress
	switch a := m.Action.(type) {
	case *evmtypes.Message_SubmitLogicCall:
		it.Kind = "slc"
		it.Sender = append([]byte(nil), a.SubmitLogicCall.SenderAddress...)
		it.Mev = a.SubmitLogicCall.ExecutionRequirements.EnforceMEVRelay
		it.FeePayer = true
		it.Fees = feesOf(a.SubmitLogicCall.Fees)
	case *evmtypes.Message_UpdateValset:
		it.Kind = "valset"
	case *evmtypes.Message_UploadSmartContract:
		it.Kind = "upload"
	case *evmtypes.Message_UploadUserSmartContract:
		it.Kind = "userupload"
		it.FeePayer = true
		it.Fees = feesOf(a.UploadUserSmartContract.Fees)
	case *evmtypes.Message_CompassHandover:
		it.Kind = "handover"
	}
	return it
}

// relayVerdict: for one queue (sorted by id) the per-message reasons that do NOT depend on the
// asking validator; reason "" = would be offered to its assignee.
//
//	valset   : an older pending validator-set update for that chain exists (id > oldest valset-update id)
//	reported : has a delivery (public access data) or error report
//	sender   : an older message of the same sender is still pending (in the queue, no report)
//	estimate : a gas estimate is required and none has been elected
func relayVerdict(items []qItem) []string {
	out := make([]string, len(items))
	var vmin *uint64
	for i := range items {
		if items[i].IsEvm && items[i].Kind == "valset" {
			if vmin == nil || items[i].ID < *vmin {
				id := items[i].ID
				vmin = &id
			}
		}
	}
	for i, m := range items {
		if !m.IsEvm {
			continue // not a cross-chain message: outside the statement; the code passes it through
		}
		switch {
		case vmin != nil && m.ID > *vmin:
			out[i] = "valset"
		case m.PAD || m.Err:
			out[i] = "reported"
		case olderPendingSameSender(items, i):
			out[i] = "sender"
		case m.ReqGas && m.Gas == 0:
			out[i] = "estimate"
		}
	}
	return out
}

func olderPendingSameSender(items []qItem, i int) bool {
	m := items[i]
	if m.Kind != "slc" || len(m.Sender) == 0 {
		return false
	}
	for j, o := range items {
		if j == i || o.ID >= m.ID || !o.IsEvm || o.Kind != "slc" {
			continue
		}
		if bytes.Equal(o.Sender, m.Sender) && !o.PAD && !o.Err {
			return true
		}
	}
	return false
}

// refRelay: ids offered to validator val.
func refRelay(items []qItem, verdict []string, val string, grpc bool) []uint64 {
	var ids []uint64
	for i, m := range items {
		if !m.IsEvm {
			if !grpc || m.ReqSig {
				ids = append(ids, m.ID)
			}
			continue
		}
		if verdict[i] == "" && m.Assignee == val {
			if grpc && !m.ReqSig {
				continue // the query only returns messages that collect signatures
			}
			ids = append(ids, m.ID)
		}
	}
	return ids
}

// ---------------------------------------------------------------------------------------------
// fees: ceil(mult*gas), ceil(rate*relayerFee) in exact rational arithmetic

func ceilMul(dec string, x uint64) (*big.Int, bool) {
	r, ok := new(big.Rat).SetString(dec)
	if !ok {
		return nil, false
	}
	r.Mul(r, new(big.Rat).SetInt(new(big.Int).SetUint64(x)))
	q, rem := new(big.Int).QuoRem(r.Num(), r.Denom(), new(big.Int))
	if rem.Sign() > 0 {
		q.Add(q, big.NewInt(1))
	}
	return q, true
}

func floorMul(dec string, x uint64) *big.Int {
	r, _ := new(big.Rat).SetString(dec)
	r.Mul(r, new(big.Rat).SetInt(new(big.Int).SetUint64(x)))
	return new(big.Int).Quo(r.Num(), r.Denom())
}

// refFees returns the three expected fees, and whether Ceil differs from Floor anywhere (a
// discriminating case).
func refFees(mult, cf, sf string, gas uint64) (want [3]*big.Int, discr bool, ok bool) {
	rf, ok1 := ceilMul(mult, gas)
	if !ok1 || !rf.IsUint64() {
		return want, false, false
	}
	c, ok2 := ceilMul(cf, rf.Uint64())
	s, ok3 := ceilMul(sf, rf.Uint64())
	if !ok2 || !ok3 {
		return want, false, false
	}
	want = [3]*big.Int{rf, c, s}
	discr = floorMul(mult, gas).Cmp(rf) != 0 || floorMul(cf, rf.Uint64()).Cmp(c) != 0 || floorMul(sf, rf.Uint64()).Cmp(s) != 0
	return want, discr, true
}
