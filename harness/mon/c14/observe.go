package c14

// The monitor proper: called after every block and every direct keeper call. It reads the tables
// and the queues at that boundary, and decides
//   (1) assignment: every message / batch that appeared (or changed assignee) since the previous
//       boundary is assigned to a validator eligible under the tables the request saw, and its
//       relayer address is the snapshot entry; requests without any eligible validator failed and
//       left nothing behind;
//   (2) relay offer: for every validator the real messages-for-relaying query (keeper function and
//       gRPC handler) returns exactly the set comprehension over the queue read at this boundary;
//   (3) fees: a fee-paying message whose estimate was elected in this block carries
//       ceil(mult*gas), ceil(rate*relayerFee) (exact rational arithmetic);
//   (4) what-if requests: real job executions / PickValidatorForMessage on throw-away forks of
//       this boundary, several block times each (the pick among the top five depends on it).

import (
	"bytes"
	"fmt"
	"runtime/debug"
	"sort"
	"strings"
	"time"

	sdk "github.com/cosmos/cosmos-sdk/types"
	"github.com/ethereum/go-ethereum/common"

	consensustypes "github.com/palomachain/paloma/v2/x/consensus/types"

	"verif/harness/world"
)

type batchInfo struct {
	Chain    string `json:"chain"`
	Contract string `json:"contract"`
	Nonce    uint64 `json:"nonce"`
	Assignee string `json:"assignee"`
	Remote   string `json:"remote"`
}

func (b batchInfo) key() string { return fmt.Sprintf("%s|%s|%d", b.Chain, b.Contract, b.Nonce) }

func sameAddr(a, b string) bool {
	return common.IsHexAddress(a) && common.IsHexAddress(b) && common.HexToAddress(a) == common.HexToAddress(b)
}

func (w *hw) witness(extra map[string]any) map[string]any {
	out := map[string]any{"height": w.c.Height, "step": w.stepNo}
	for k, v := range extra {
		out[k] = v
	}
	return out
}

func tablesBrief(t tables) map[string]any {
	return map[string]any{"snapshot_id": t.SnapID, "snapshot": t.Snap, "metrics": keys(t.Metrics), "fees": t.Fees, "community_rate": t.CF, "security_rate": t.SF}
}

// candidate table sets a request of the last step may have seen
func (w *hw) candidateTables(pre, post tables, ex *expect) (cands []tables, exact bool) {
	if ex != nil && ex.Kind == "snapshot" {
		// TriggerSnapshotBuild: the new snapshot is current when the evm listener publishes it; the
		// metrix listener (which adds performance records) runs after the evm listener.
		return []tables{{SnapID: post.SnapID, Snap: post.Snap, Metrics: pre.Metrics, Fees: pre.Fees}}, true
	}
	if pre.eligKey() == post.eligKey() {
		return []tables{pre}, true
	}
	if ex == nil {
		// no request of the harness in this step (requests are kept out of steps that move the
		// tables): whatever was assigned was assigned by an end-blocker. Transactions (fee upserts)
		// come before, the valset end-blocker (snapshot at h%50) runs before the evm / skyway
		// end-blockers that assign, the metrix end-blocker (new performance records) runs last.
		return []tables{{SnapID: post.SnapID, Snap: post.Snap, Metrics: pre.Metrics, Fees: post.Fees}}, true
	}
	for _, s := range []tables{pre, post} {
		for _, m := range []tables{pre, post} {
			for _, f := range []tables{pre, post} {
				cands = append(cands, tables{SnapID: s.SnapID, Snap: s.Snap, Metrics: m.Metrics, Fees: f.Fees})
			}
		}
	}
	return cands, false
}

// checkAssignment: assignee eligible and relayer address = snapshot entry, under one of the candidate tables.
func (w *hw) checkAssignment(what, kind, ch, assignee, remote string, mev bool, cands []tables, exact bool, wit map[string]any) {
	w.rec.Eval(1)
	if strings.HasPrefix(what, "what-if") {
		w.rec.Count("whatif_assign_checked", 1)
	} else {
		w.rec.Count("assign_checked", 1)
		w.rec.Count("assign_kind/"+kind, 1)
	}
	if !exact {
		w.rec.Count("assign_checked_loose", 1)
		w.rec.Count("assign_checked_loose_after/"+w.lastOp, 1)
	}
	if mev {
		w.rec.Count("assign_checked_mev", 1)
	}
	if !w.sampled["assign"] && mev && !strings.HasPrefix(what, "what-if") {
		w.sampled["assign"] = true
		w.rec.Sample(map[string]any{"kind": "assignment decided", "height": w.c.Height, "what": what, "chain": ch, "mev_required": mev, "assignee": assignee, "relayer_address": remote,
			"eligible": keys(cands[0].eligible(ch, mev)), "tables": tablesBrief(cands[0])})
	}
	okElig, okAddr := false, false
	for _, t := range cands {
		if len(t.why(assignee, ch, mev)) == 0 {
			okElig = true
			if sameAddr(remote, t.Snap[assignee][ch].Addr) {
				okAddr = true
			}
		}
	}
	if !okElig {
		why := cands[0].why(assignee, ch, mev)
		wit["why_ineligible"] = why
		wit["tables"] = tablesBrief(cands[0])
		wit["eligible"] = keys(cands[0].eligible(ch, mev))
		w.rec.Violation(fmt.Sprintf("assign/%s/assignee-%s", kind, strings.Join(why, "+")),
			fmt.Sprintf("%s on %s (mev required: %v) is assigned to %s which is not eligible: %v", what, ch, mev, assignee, why), w.witness(wit))
		return
	}
	if !okAddr {
		wit["snapshot_entry"] = cands[0].Snap[assignee][ch]
		wit["snapshot_id"] = cands[0].SnapID
		w.rec.Violation(fmt.Sprintf("assign/%s/relayer-address-not-snapshot-entry", kind),
			fmt.Sprintf("%s on %s: relayer address %s of assignee %s differs from the account in the current snapshot (%s)", what, ch, remote, assignee, cands[0].Snap[assignee][ch].Addr), w.witness(wit))
	}
}

func (w *hw) readBatches(ctx sdk.Context) map[string]batchInfo {
	out := map[string]batchInfo{}
	bs, err := w.c.App.SkywayKeeper.GetOutgoingTxBatches(ctx)
	if err != nil {
		return out
	}
	for _, b := range bs {
		bi := batchInfo{Chain: b.ChainReferenceID, Contract: b.TokenContract.GetAddress().Hex(), Nonce: b.BatchNonce, Assignee: b.Assignee, Remote: b.AssigneeRemoteAddress.Hex()}
		out[bi.key()] = bi
	}
	return out
}

func (w *hw) observe(ex *expect) {
	if w.stop {
		return
	}
	c := w.c
	ctx := c.Ctx()
	t, err := readTables(c, ctx, w.uni)
	if err != nil {
		w.fail("read tables: " + err.Error())
		return
	}
	q := map[string][]qItem{}
	for _, ch := range allChains {
		items, err := readQueue(c, ctx, ch)
		if err != nil {
			w.fail("read queue " + ch + ": " + err.Error())
			return
		}
		q[ch] = items
	}
	batches := w.readBatches(ctx)
	w.rec.Count("observations", 1)

	if w.observed {
		pre := w.prevT
		cands, exact := w.candidateTables(pre, t, ex)
		var newItems []qItem
		var newBatches []batchInfo
		// (1) new or re-assigned messages
		for _, ch := range allChains {
			prevByID := map[uint64]qItem{}
			for _, it := range w.prevQ[ch] {
				prevByID[it.ID] = it
			}
			for _, it := range q[ch] {
				p, had := prevByID[it.ID]
				if had && p.Assignee == it.Assignee && p.Remote == it.Remote {
					continue
				}
				if !it.IsEvm {
					continue
				}
				newItems = append(newItems, it)
				what := "new message"
				if had {
					what = "re-assigned message"
					w.rec.Count("reassignments_seen", 1)
				}
				if it.Chain != ch {
					w.rec.Violation("assign/"+it.Kind+"/queue-chain-mismatch", fmt.Sprintf("message %d in the queue of %s targets %s", it.ID, ch, it.Chain), w.witness(map[string]any{"item": it}))
				}
				w.checkAssignment(fmt.Sprintf("%s %d (%s)", what, it.ID, it.Kind), it.Kind, ch, it.Assignee, it.Remote, it.Mev, cands, exact, map[string]any{"item": it, "op": ex})
			}
		}
		for k, b := range batches {
			if _, had := w.prevBatches[k]; had {
				continue
			}
			newBatches = append(newBatches, b)
			w.checkAssignment(fmt.Sprintf("new skyway batch %d", b.Nonce), "skyway-batch", b.Chain, b.Assignee, b.Remote, false, cands, exact, map[string]any{"batch": b, "op": ex})
		}
		// requests with a known outcome
		if ex != nil && (ex.Kind == "job" || ex.Kind == "batch") {
			w.checkRequest(ex, pre, t, q, exact, newItems, newBatches)
		}
		// (3) fees of messages whose estimate was elected since the previous boundary
		w.checkFees(t, q)
	}

	// (2) relay offers
	w.checkRelay(ctx, q)
	// (4) what-if requests on forks of this boundary
	w.probe(t)

	w.prevT, w.prevQ, w.prevBatches, w.observed = t, q, batches, true
}

func (w *hw) checkRequest(ex *expect, pre, post tables, q map[string][]qItem, exact bool, newItems []qItem, newBatches []batchInfo) {
	if !exact {
		w.rec.Count("requests_not_checked_tables_moved", 1)
		return
	}
	elig := pre.eligible(ex.Chain, ex.Mev)
	w.rec.Eval(1)
	if ex.OK {
		w.rec.Count("requests_ok/"+ex.Kind, 1)
		if len(elig) == 0 {
			w.rec.Violation("enqueue/"+ex.Kind+"/accepted-without-eligible-validator",
				fmt.Sprintf("%s request on %s (mev %v) succeeded although no validator is eligible", ex.Kind, ex.Chain, ex.Mev),
				w.witness(map[string]any{"op": ex, "tables": tablesBrief(pre)}))
		}
		if ex.Kind == "job" {
			var it *qItem
			for i := range q[ex.Chain] {
				if q[ex.Chain][i].ID == ex.MsgID {
					it = &q[ex.Chain][i]
				}
			}
			if it == nil || it.Kind != "slc" {
				w.rec.Violation("enqueue/job/message-missing", fmt.Sprintf("job execution returned message id %d but the queue of %s holds no logic call with that id", ex.MsgID, ex.Chain),
					w.witness(map[string]any{"op": ex}))
				return
			}
			if it.Mev != ex.Mev {
				w.rec.Violation("assign/slc/mev-requirement-not-carried", fmt.Sprintf("job demands MEV relay = %v but queued message %d says %v", ex.Mev, it.ID, it.Mev),
					w.witness(map[string]any{"op": ex, "item": it}))
			}
			if !elig[it.Assignee] {
				w.rec.Violation("assign/slc/assignee-not-eligible-for-job", fmt.Sprintf("job (mev %v) on %s assigned to %s; eligible: %v; fails: %v", ex.Mev, ex.Chain, it.Assignee, keys(elig), pre.why(it.Assignee, ex.Chain, ex.Mev)),
					w.witness(map[string]any{"op": ex, "item": it, "tables": tablesBrief(pre)}))
			}
			if bytes.Equal(it.Sender, ex.Sender) {
				if len(ex.Sender) == 32 {
					w.rec.Count("senders/contract32", 1)
				} else {
					w.rec.Count("senders/account20", 1)
				}
			} else {
				w.rec.Count("senders/unexpected", 1)
			}
		}
		return
	}
	// request failed: nothing of it may be left behind (end-blockers of the same block may have
	// added validator-set updates or compass uploads of their own; those are checked as assignments)
	var left []any
	for _, it := range newItems {
		if ex.Kind == "job" && it.Kind == "slc" && it.Chain == ex.Chain {
			left = append(left, it)
		}
	}
	for _, b := range newBatches {
		if ex.Kind == "batch" && b.Chain == ex.Chain {
			left = append(left, b)
		}
	}
	if len(left) > 0 {
		w.rec.Violation("enqueue/"+ex.Kind+"/failed-request-left-message", fmt.Sprintf("%s request on %s failed (%s) but left %d item(s) in the queue", ex.Kind, ex.Chain, firstLine(ex.ErrText), len(left)),
			w.witness(map[string]any{"op": ex, "left": left}))
	}
	if len(elig) == 0 {
		w.rec.Count("noeligible_fail_checked", 1)
		// which table made everybody ineligible
		cls := map[string]bool{}
		if len(pre.Snap) == 0 {
			cls["empty_snapshot"] = true
		}
		for v := range pre.Snap {
			for _, r := range pre.why(v, ex.Chain, ex.Mev) {
				cls[r] = true
			}
		}
		for r := range cls {
			w.rec.Count("noeligible_class/"+r, 1)
		}
		return
	}
	if ex.ErrText == "nothing to batch" {
		return
	}
	w.rec.Count("request_failed_although_eligible", 1)
	w.refusedAlthoughEligible(ex.Kind, ex.Chain, ex.Mev, ex.ErrText, elig, pre)
}

// refusedAlthoughEligible: a request failed while validators meeting every condition of the
// statement exist. "Every message that needs relaying is assigned to [such] a validator": when the
// refusal is the assigner saying that nobody can be assigned, that is a violation; any other
// failure (unknown job, undecodable payload ...) is outside the statement and only sampled.
func (w *hw) refusedAlthoughEligible(kind, ch string, mev bool, errText string, elig map[string]bool, t tables) {
	if strings.Contains(errText, "no validators eligible for assignment") || strings.Contains(errText, "no assignable validators for message") {
		w.rec.Violation("enqueue/"+kind+"/refused-as-unassignable-although-eligible-validator-exists",
			fmt.Sprintf("%s request on %s (mev %v) was refused (%s) although %d validator(s) meet every assignment condition: %v", kind, ch, mev, firstLine(errText), len(elig), keys(elig)),
			w.witness(map[string]any{"chain": ch, "mev": mev, "error": firstLine(errText), "eligible": keys(elig), "tables": tablesBrief(t)}))
		return
	}
	w.rec.Sample(map[string]any{"note": "request failed although eligible validators exist (not an assignment refusal)", "kind": kind, "chain": ch, "mev": mev, "err": firstLine(errText), "eligible": keys(elig)})
}

func (w *hw) checkFees(t tables, q map[string][]qItem) {
	for _, ch := range allChains {
		prevByID := map[uint64]qItem{}
		for _, it := range w.prevQ[ch] {
			prevByID[it.ID] = it
		}
		for _, it := range q[ch] {
			p, had := prevByID[it.ID]
			if !had || !(p.Gas == 0 && it.Gas > 0) {
				continue
			}
			w.rec.Count("estimates_elected", 1)
			if !it.FeePayer {
				continue
			}
			w.rec.Eval(1)
			mult, ok := t.Fees[it.Assignee][ch]
			wit := map[string]any{"item": it, "multiplier": mult, "community_rate": t.CF, "security_rate": t.SF}
			if !ok {
				w.rec.Violation("fees/assignee-without-multiplier", fmt.Sprintf("message %d got an elected estimate but its assignee has no relayer fee for %s", it.ID, ch), w.witness(wit))
				continue
			}
			if it.Fees == nil {
				// whatever the inputs were: an elected estimate on a fee-paying message without fees attached
				w.rec.Violation("fees/missing-after-election", fmt.Sprintf("message %d has elected gas %d but no fees", it.ID, it.Gas), w.witness(wit))
				continue
			}
			want, discr, ok := refFees(mult, t.CF, t.SF, it.Gas)
			if !ok {
				w.rec.Count("fee_reference_unavailable", 1)
				continue
			}
			w.rec.Count("fee_checked", 1)
			if !w.sampled["fee"] && discr {
				w.sampled["fee"] = true
				w.rec.Sample(map[string]any{"kind": "fees decided", "height": w.c.Height, "chain": ch, "message": it, "multiplier": mult, "community_rate": t.CF, "security_rate": t.SF,
					"reference": []string{want[0].String(), want[1].String(), want[2].String()}})
			}
			if discr {
				w.rec.Count("fee_ceil_discriminating", 1)
			}
			names := []string{"relayer", "community", "security"}
			for i := 0; i < 3; i++ {
				if !want[i].IsUint64() || want[i].Uint64() != it.Fees[i] {
					wit["want"] = []string{want[0].String(), want[1].String(), want[2].String()}
					w.rec.Violation("fees/"+names[i]+"-fee-mismatch", fmt.Sprintf("message %d on %s: %s fee %d, reference %s (gas %d, multiplier %s, rates %s / %s)", it.ID, ch, names[i], it.Fees[i], want[i], it.Gas, mult, t.CF, t.SF), w.witness(wit))
					break
				}
			}
		}
	}
}

func idsOf(ms []consensustypes.QueuedSignedMessageI) []uint64 {
	var o []uint64
	for _, m := range ms {
		o = append(o, m.GetId())
	}
	return o
}

func eqIDs(a, b []uint64) bool {
	if len(a) != len(b) {
		return false
	}
	for i := range a {
		if a[i] != b[i] {
			return false
		}
	}
	return true
}

func (w *hw) relayDiff(api, ch, val string, items []qItem, verdict []string, got, want []uint64) {
	in := func(s []uint64, x uint64) bool {
		for _, y := range s {
			if y == x {
				return true
			}
		}
		return false
	}
	byID := map[uint64]int{}
	for i, it := range items {
		byID[it.ID] = i
	}
	sig, msg := api+"/order-or-duplicate", fmt.Sprintf("%s for %s on %s returned %v, reference %v", api, val, ch, got, want)
	for _, id := range got {
		if !in(want, id) {
			i, ok := byID[id]
			reason := "not-in-queue"
			if ok {
				reason = verdict[i]
				if reason == "" {
					reason = "not-assignee"
				}
			}
			sig = api + "/offered-although-" + reason
			msg = fmt.Sprintf("%s offers message %d on %s to %s although: %s", api, id, ch, val, reason)
			break
		}
	}
	if strings.HasSuffix(sig, "order-or-duplicate") {
		for _, id := range want {
			if !in(got, id) {
				sig = api + "/omitted-relayable-message"
				msg = fmt.Sprintf("%s does not offer message %d on %s to its assignee %s although it satisfies every condition", api, id, ch, val)
				break
			}
		}
	}
	w.rec.Violation(sig, msg, w.witness(map[string]any{"validator": val, "chain": ch, "got": got, "want": want, "queue": items, "verdicts": verdict}))
}

func (w *hw) checkRelay(ctx sdk.Context, q map[string][]qItem) {
	c := w.c
	askers := append([]string(nil), w.uni...)
	askers = append(askers, sdk.ValAddress(w.users[0].Addr).String()) // somebody who is no validator at all
	for _, ch := range allChains {
		items := q[ch]
		verdict := relayVerdict(items)
		queue := world.TurnstoneQueue(ch)
		if len(items) > 0 {
			w.rec.Count("relay_nonempty_queue_observations", 1)
		}
		// state / discrimination counters (per observation)
		for i, it := range items {
			v := verdict[i]
			if v == "" {
				v = "relayable"
			}
			w.rec.Count("relay_state/"+v, 1)
			if verdict[i] == "sender" {
				allOther, allUnest, any := true, true, false
				for j, o := range items {
					if j != i && o.ID < it.ID && o.Kind == "slc" && bytes.Equal(o.Sender, it.Sender) && !o.PAD && !o.Err {
						any = true
						if o.Assignee == it.Assignee {
							allOther = false
						}
						if !(o.ReqGas && o.Gas == 0) {
							allUnest = false
						}
					}
				}
				estOK := !(it.ReqGas && it.Gas == 0)
				if any && allOther && estOK {
					w.rec.Count("discr_sender_blockers_all_other_assignee", 1)
				}
				if any && allUnest && estOK {
					w.rec.Count("discr_sender_blockers_all_unestimated", 1)
				}
			}
			// third sentence, at the moment of the offer: a fee-paying message that is offered on the
			// strength of an elected estimate has fees attached (their values are decided in checkFees
			// against the tables of the election)
			if verdict[i] == "" && it.FeePayer && it.ReqGas && it.Gas > 0 {
				w.rec.Eval(1)
				if it.Fees == nil {
					w.rec.Violation("relay/offered-without-fees", fmt.Sprintf("message %d on %s (elected gas %d) is offered to %s for relay without fees attached", it.ID, ch, it.Gas, it.Assignee),
						w.witness(map[string]any{"item": it, "chain": ch}))
				} else {
					w.rec.Count("relay_offered_fee_payer_with_fees", 1)
				}
			}
			if verdict[i] == "" && it.Kind == "slc" && len(it.Sender) > 0 {
				for _, o := range items {
					if o.ID < it.ID && o.Kind == "slc" && bytes.Equal(o.Sender, it.Sender) && (o.PAD || o.Err) {
						w.rec.Count("relayable_while_older_same_sender_reported_but_unattested", 1)
						break
					}
				}
			}
		}
		if len(items) >= 2 {
			w.rec.Distinct(abstractQueue(ch, items, w.vidx))
		}
		if !w.sampled["relay"] && len(items) >= 4 {
			hasSender := false
			for _, v := range verdict {
				hasSender = hasSender || v == "sender"
			}
			if hasSender {
				w.sampled["relay"] = true
				offers := map[string][]uint64{}
				for _, val := range w.uni {
					offers[val] = refRelay(items, verdict, val, false)
				}
				w.rec.Sample(map[string]any{"kind": "relay offer decided", "height": c.Height, "chain": ch, "queue": items, "verdict_per_message": verdict, "offered_per_validator": offers})
			}
		}
		for _, val := range askers {
			va, err := sdk.ValAddressFromBech32(val)
			if err != nil {
				continue
			}
			w.rec.Count("relay_queries", 1)
			w.rec.Eval(int64(len(items)))
			var got []uint64
			var perr string
			func() {
				defer func() {
					if e := recover(); e != nil {
						perr = fmt.Sprintf("%v\n%s", e, debug.Stack())
					}
				}()
				ms, err := c.App.ConsensusKeeper.GetMessagesForRelaying(ctx, queue, va)
				if err != nil {
					perr = "error: " + err.Error()
					return
				}
				got = idsOf(ms)
			}()
			if perr != "" {
				w.rec.Violation("relay/query-fails", fmt.Sprintf("GetMessagesForRelaying(%s, %s): %s", ch, val, firstLine(perr)), w.witness(map[string]any{"queue": items}))
				continue
			}
			want := refRelay(items, verdict, val, false)
			w.rec.Count("relay_offered", int64(len(want)))
			if !eqIDs(got, want) {
				w.relayDiff("relay", ch, val, items, verdict, got, want)
			}
			// the gRPC handler pigeons poll
			var gotQ []uint64
			perr = ""
			func() {
				defer func() {
					if e := recover(); e != nil {
						perr = fmt.Sprintf("%v", e)
					}
				}()
				res, err := c.App.ConsensusKeeper.QueuedMessagesForRelaying(ctx, &consensustypes.QueryQueuedMessagesForRelayingRequest{QueueTypeName: queue, ValAddress: va})
				if err != nil {
					perr = "error: " + err.Error()
					return
				}
				for _, m := range res.Messages {
					gotQ = append(gotQ, m.Id)
				}
			}()
			if perr != "" {
				w.rec.Violation("relay-query/query-fails", fmt.Sprintf("QueuedMessagesForRelaying(%s, %s): %s", ch, val, firstLine(perr)), w.witness(map[string]any{"queue": items}))
				continue
			}
			wantQ := refRelay(items, verdict, val, true)
			if !eqIDs(gotQ, wantQ) {
				w.relayDiff("relay-query", ch, val, items, verdict, gotQ, wantQ)
			}
		}
	}
}

// abstractQueue: the shape of a queue with identities replaced by small indices.
func abstractQueue(ch string, items []qItem, vidx map[string]int) string {
	var sb strings.Builder
	sb.WriteString(ch)
	senders := map[string]int{}
	for _, it := range items {
		s := -1
		if len(it.Sender) > 0 {
			k := string(it.Sender)
			if _, ok := senders[k]; !ok {
				senders[k] = len(senders)
			}
			s = senders[k]
		}
		a, ok := vidx[it.Assignee]
		if !ok {
			a = -1
		}
		est := "n"
		if it.ReqGas {
			est = "0"
			if it.Gas > 0 {
				est = "1"
			}
		}
		st := "-"
		if it.PAD {
			st = "p"
		} else if it.Err {
			st = "e"
		}
		fmt.Fprintf(&sb, "|%s,s%d,a%d,%s,%s,%d", it.Kind, s, a, est, st, len(it.Sender))
	}
	return sb.String()
}

// probe: what-if requests on throw-away forks of this boundary (same tables, several block times).
func (w *hw) probe(t tables) {
	c := w.c
	// single-cause exclusions present in the tables (the discriminating cases of the conjunction)
	for _, ch := range allChains {
		for _, mev := range []bool{false, true} {
			for _, v := range w.uni {
				if why := t.why(v, ch, mev); len(why) == 1 {
					w.rec.Count("excluded_only_by/"+why[0], 1)
				}
			}
		}
	}
	// (a) the real evm keeper pick (no requirements), five consecutive block times
	for _, ch := range allChains {
		elig := t.eligible(ch, false)
		for k := 0; k < 5; k++ {
			fctx := c.Fork(c.Height+1, c.Time.Add(time.Duration(1+k)*time.Second))
			var val, remote string
			var err error
			func() {
				defer func() {
					if e := recover(); e != nil {
						err = fmt.Errorf("PANIC: %v", e)
					}
				}()
				val, remote, err = c.App.EvmKeeper.PickValidatorForMessage(fctx, ch, nil)
			}()
			w.rec.Eval(1)
			if err != nil {
				if len(elig) == 0 {
					w.rec.Count("probe_pick_refused_no_eligible", 1)
				} else {
					w.rec.Count("probe_pick_failed_although_eligible", 1)
					w.refusedAlthoughEligible("pick", ch, false, err.Error(), elig, t)
				}
				continue
			}
			w.rec.Count("probe_picks", 1)
			if len(elig) > 1 {
				w.rec.Count("probe_picks_with_choice", 1)
			}
			w.checkAssignment("what-if pick", "pick", ch, val, remote, false, []tables{t}, true, map[string]any{"block_time_offset_s": 1 + k})
		}
	}
	// (b) full job executions (both requirement flags, both sender kinds) on forks
	if len(w.jobs) == 0 {
		return
	}
	for _, ch := range allChains {
		for _, mev := range []bool{false, true} {
			id, ok := w.jobs[jobKey{ch, mev}]
			if !ok {
				continue
			}
			elig := t.eligible(ch, mev)
			for k := 0; k < 2; k++ {
				off := 1 + (w.stepNo+k*3)%5
				fctx := c.Fork(c.Height+1, c.Time.Add(time.Duration(off)*time.Second))
				sender := sdk.AccAddress(w.users[k%len(w.users)].Addr)
				if k == 1 {
					sender = sdk.AccAddress(w.contracts[0])
				}
				var mid uint64
				var err error
				func() {
					defer func() {
						if e := recover(); e != nil {
							err = fmt.Errorf("PANIC: %v", e)
						}
					}()
					mid, err = c.App.SchedulerKeeper.ExecuteJob(fctx, id, nil, sender, sender)
				}()
				w.rec.Eval(1)
				if err != nil {
					if len(elig) == 0 {
						w.rec.Count("probe_job_refused_no_eligible", 1)
					} else {
						w.rec.Count("probe_job_failed_although_eligible", 1)
						w.refusedAlthoughEligible("job", ch, mev, err.Error(), elig, t)
					}
					continue
				}
				w.rec.Count("probe_jobs", 1)
				if len(elig) == 0 {
					w.rec.Violation("enqueue/job/accepted-without-eligible-validator", fmt.Sprintf("what-if job on %s (mev %v) was enqueued although no validator is eligible", ch, mev),
						w.witness(map[string]any{"tables": tablesBrief(t), "chain": ch, "mev": mev}))
					continue
				}
				ms, qerr := c.App.ConsensusKeeper.GetMessagesFromQueue(fctx, world.TurnstoneQueue(ch), 0)
				if qerr != nil {
					continue
				}
				found := false
				for _, qm := range ms {
					if qm.GetId() != mid {
						continue
					}
					found = true
					it := itemOf(c, qm)
					if it.Mev != mev {
						w.rec.Violation("assign/slc/mev-requirement-not-carried", fmt.Sprintf("job demands MEV relay = %v but the queued message says %v", mev, it.Mev), w.witness(map[string]any{"item": it}))
					}
					w.checkAssignment("what-if job", "slc", ch, it.Assignee, it.Remote, mev, []tables{t}, true, map[string]any{"item": it, "block_time_offset_s": off})
				}
				if !found {
					w.rec.Violation("enqueue/job/message-missing", fmt.Sprintf("what-if job returned id %d, not in the queue of %s", mid, ch), w.witness(nil))
				}
			}
		}
	}
}

var _ = sort.Strings
