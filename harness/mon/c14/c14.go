// Package c14: messages are assigned to, and only relayable by, an eligible relayer; fees are
// ceil(multiplier*gas) and ceil(rate*relayerFee).
//
// Deciding step: the REAL application (chain.New: app.App through ABCI, real keepers) executes
// seeded histories of relay requests (scheduler jobs from accounts and from 32-byte contract
// addresses, with and without the MEV requirement; validator-set updates; compass uploads;
// skyway batches), pigeon traffic (estimates, signatures, delivery / error reports, evidence),
// fee / trait / key changes and snapshot builds. After every block and every direct keeper call
// the monitor compares what the chain did with a reference model written from the statement
// (ref.go): eligibility = conjunction over four tables, relay offer = set comprehension over the
// queue, fees = exact rational arithmetic.
package c14

import (
	"fmt"

	"verif/harness/fw"
)

func cases(tier string, seed int64) []fw.Case {
	n, steps := 32, 130
	if tier == "thorough" {
		n, steps = 48, 420
	}
	var cs []fw.Case
	for i := 0; i < n; i++ {
		cs = append(cs, fw.MkCase(fmt.Sprintf("hist-%03d", i), seed*1000003+int64(i)*7919+14, params{Steps: steps, NVals: 4 + i%5, LateFees: i%4 == 2}))
	}
	return cs
}

func init() {
	fw.Register(&fw.Prop{
		ID:    "C14",
		Level: "exploration",
		Rule: "each case is one seeded history on the real app (4-8 validators, 3 EVM chains of which one is never activated, 3 users, 2 contract senders): " +
			"phase A = first ten blocks (snapshot without accounts, no performance records, partial registration/fees), phase B = governance rates, chain activation, first valset delivered, " +
			"phase C = N random operations (quick 130, thorough 420): job executions (tx / contract path, MEV or not, 2 senders per kind), estimates by all or a minority, signatures, delivery and error reports on messages in any state, evidence, fee upserts with ties, trait toggles, key rotation, snapshot builds, rate changes, skyway send+batch; " +
			"at fixed steps (every 45th) a scripted fee-gap scenario: the inputs of the fee computation of a pending fee-paying message are made unusable through public paths (assignee upserts multiplier 0 / an overflowing multiplier; governance sets a rate to 0 / to a non-number), ALL snapshot validators estimate it and a companion message of another assignee in one block, the inputs are repaired, one more end-blocker pass. " +
			"After every block / direct call: assignment of every new message or batch, outcome of the request, fees of newly elected estimates (present and equal to the reference), fees present on every fee-paying message offered on an elected estimate, relay offer for every validator x chain (keeper function and gRPC handler), and what-if requests on forks (5 block times). " +
			"distinct_nontrivial = distinct abstract queues (>= 2 messages; kinds, sender / assignee indices, estimate and report state) on which the relay offer was decided; evaluations = assignment decisions + request outcomes + fee triples + (validator, message) relay decisions",
		Assumptions: []string{
			"eligibility is decided at assignment time against the tables the request saw (operations that assign are kept out of blocks with h%10==0, where end-blockers add performance records / rebuild the snapshot; anything assigned while tables moved is checked against the union and counted as assign_checked_loose)",
			"'an older message from the same sender is still pending' = an older logic call with the same sender bytes is in the queue without delivery or error report (a reported but not yet attested older message does not block; occurrences are counted in relayable_while_older_same_sender_reported_but_unattested)",
			"validators never register two accounts on the same chain",
			"multipliers and rates have at most 18 decimals and fees fit into uint64; when the reference fees do not exist (overflow, rate that is no number) only the PRESENCE of fees on an elected fee-paying message is decided, and an estimate that is simply not elected while the fee inputs are unusable is not flagged (fails closed)",
			"'has a relayer fee' = a fee record for the chain is on file (a multiplier of 0 is a record; the assigner treats it the same way)",
			"performance-record values (uptime, success rate) arise only from flows the harness can drive (no missed-block simulation); which eligible validator wins is not part of the statement",
		},
		Exhaustive: func(string) bool { return false },
		Cases:      cases,
		Run:        runHistory,
		MinCounters: []string{"late_fee_histories", "assign_checked", "whatif_assign_checked", "assign_checked_mev", "noeligible_fail_checked", "relay_queries", "relay_state/relayable", "relay_state/sender", "relay_state/estimate", "relay_state/reported", "relay_state/valset", "discr_sender_blockers_all_other_assignee", "discr_sender_blockers_all_unestimated", "fee_checked", "fee_ceil_discriminating", "assign_kind/skyway-batch", "assign_kind/valset",
			"fee_unavailable_at_quorum", "fee_unavailable_elected_after_repair", "relay_offered_fee_payer_with_fees"},
		Workers:  16,
		TimeoutS: 900,
	})
}
