// Package c19: the application mempool yields each pending tx exactly once, in nonce order per
// sender, higher priority class first; CountTx equals the number pending.
//
// Deciding step: the REAL app/mempool.PriorityNonceMempool (DefaultPriorityMempool, production
// TxPriority) is driven with insert/remove/select histories; after every operation the monitor
// compares it with a map-based reference model.
package c19

import (
	wasmtypes "github.com/CosmWasm/wasmd/x/wasm/types"
	codectypes "github.com/cosmos/cosmos-sdk/codec/types"
	sdkconsensustypes "github.com/cosmos/cosmos-sdk/x/consensus/types"
	distrtypes "github.com/cosmos/cosmos-sdk/x/distribution/types"
	govv1 "github.com/cosmos/cosmos-sdk/x/gov/types/v1"
	slashingtypes "github.com/cosmos/cosmos-sdk/x/slashing/types"
	stakingtypes "github.com/cosmos/cosmos-sdk/x/staking/types"

	"context"
	"fmt"
	"math"
	"sort"
	"strings"

	"cosmossdk.io/log"
	cmtproto "github.com/cometbft/cometbft/proto/tendermint/types"
	"github.com/cosmos/cosmos-sdk/crypto/keys/secp256k1"
	sdk "github.com/cosmos/cosmos-sdk/types"
	sdkmempool "github.com/cosmos/cosmos-sdk/types/mempool"
	"github.com/cosmos/cosmos-sdk/types/tx/signing"
	authsigning "github.com/cosmos/cosmos-sdk/x/auth/signing"
	banktypes "github.com/cosmos/cosmos-sdk/x/bank/types"

	palomaapp "github.com/palomachain/paloma/v2/app"
	palomamempool "github.com/palomachain/paloma/v2/app/mempool"
	consensustypes "github.com/palomachain/paloma/v2/x/consensus/types"
	evmtypes "github.com/palomachain/paloma/v2/x/evm/types"
	schedulertypes "github.com/palomachain/paloma/v2/x/scheduler/types"
	skywaytypes "github.com/palomachain/paloma/v2/x/skyway/types"
	valsettypes "github.com/palomachain/paloma/v2/x/valset/types"

	"verif/harness/fw"
)

// priority classes of the statement, highest first
const (
	clsConsensus = 4
	clsScheduler = 3
	clsEvm       = 2
	clsValset    = 1
	clsOther     = 0
)

// variants: how a tx of a class is realised (message type / ctx priority / multi-msg)
type variant struct {
	name    string
	class   int
	msgs    func(addr string) []sdk.Msg
	ctxPrio int64
}

// foreignLookalikes: every message type registered with the application whose type URL is NOT in
// Paloma's namespace but contains the segment of one of the four special modules (e.g. the Cosmos
// SDK x/consensus parameter message). By the statement they are ordinary ("other") transactions.
func foreignLookalikes() []variant {
	var out []variant
	// message types of the foreign modules the application wires in (app.go), registered the way their modules do
	reg := codectypes.NewInterfaceRegistry()
	sdk.RegisterInterfaces(reg)
	sdkconsensustypes.RegisterInterfaces(reg)
	banktypes.RegisterInterfaces(reg)
	stakingtypes.RegisterInterfaces(reg)
	govv1.RegisterInterfaces(reg)
	distrtypes.RegisterInterfaces(reg)
	slashingtypes.RegisterInterfaces(reg)
	wasmtypes.RegisterInterfaces(reg)
	urls := reg.ListImplementations(sdk.MsgInterfaceProtoName)
	sort.Strings(urls)
	for _, u := range urls {
		if strings.HasPrefix(u, "/palomachain.paloma.") {
			continue
		}
		hit := false
		for _, seg := range []string{".consensus.", ".scheduler.", ".evm.", ".valset."} {
			if strings.Contains(u, seg) {
				hit = true
			}
		}
		if !hit {
			continue
		}
		m, err := reg.Resolve(u)
		if err != nil {
			continue
		}
		msg, ok := m.(sdk.Msg)
		if !ok {
			continue
		}
		out = append(out, variant{"other/foreign-lookalike:" + u, clsOther, func(string) []sdk.Msg { return []sdk.Msg{msg} }, 42})
	}
	return out
}

func variants() []variant {
	vs := baseVariants()
	return append(vs, foreignLookalikes()...)
}

func baseVariants() []variant {
	send := func(a string) sdk.Msg {
		return &banktypes.MsgSend{FromAddress: a, ToAddress: a, Amount: sdk.NewCoins(sdk.NewInt64Coin("ugrain", 1))}
	}
	evid := func(a string) sdk.Msg { return &consensustypes.MsgAddEvidence{MessageID: 1, QueueTypeName: "q"} }
	return []variant{
		{"consensus/AddEvidence", clsConsensus, func(a string) []sdk.Msg { return []sdk.Msg{evid(a)} }, 42},
		{"scheduler/ExecuteJob", clsScheduler, func(a string) []sdk.Msg { return []sdk.Msg{&schedulertypes.MsgExecuteJob{JobID: "j"}} }, 42},
		{"evm/RemoveDeployment", clsEvm, func(a string) []sdk.Msg { return []sdk.Msg{&evmtypes.MsgRemoveSmartContractDeploymentRequest{}} }, 42},
		{"valset/KeepAlive", clsValset, func(a string) []sdk.Msg { return []sdk.Msg{&valsettypes.MsgKeepAlive{PigeonVersion: "v2.0.0"}} }, 42},
		{"other/bankSend", clsOther, func(a string) []sdk.Msg { return []sdk.Msg{send(a)} }, 42},
		// extra realisations used by the random part
		{"consensus/AddMessagesSignatures", clsConsensus, func(a string) []sdk.Msg { return []sdk.Msg{&consensustypes.MsgAddMessagesSignatures{}} }, 42},
		{"scheduler/CreateJob", clsScheduler, func(a string) []sdk.Msg { return []sdk.Msg{&schedulertypes.MsgCreateJob{}} }, 42},
		{"valset/AddExternalChainInfo", clsValset, func(a string) []sdk.Msg { return []sdk.Msg{&valsettypes.MsgAddExternalChainInfoForValidator{}} }, 42},
		{"other/skywaySend", clsOther, func(a string) []sdk.Msg { return []sdk.Msg{&skywaytypes.MsgSendToRemote{}} }, 42},
		{"other/two-consensus-msgs", clsOther, func(a string) []sdk.Msg { return []sdk.Msg{evid(a), evid(a)} }, 42},
		{"other/consensus+send", clsOther, func(a string) []sdk.Msg { return []sdk.Msg{evid(a), send(a)} }, 42},
		{"other/bankSend-prio0", clsOther, func(a string) []sdk.Msg { return []sdk.Msg{send(a)} }, 0},
		{"other/bankSend-prio7", clsOther, func(a string) []sdk.Msg { return []sdk.Msg{send(a)} }, 7},
		{"other/bankSend-prio1000", clsOther, func(a string) []sdk.Msg { return []sdk.Msg{send(a)} }, 1000},
	}
}

type txInfo struct {
	sender  int
	seq     uint64
	variant int
	class   int
	tx      sdk.Tx
	ctx     context.Context
}

type world struct {
	txCfg   interface{ NewTxBuilder() interface{} }
	keys    []*secp256k1.PrivKey
	addrs   []string
	vars    []variant
	cache   map[[3]int]*txInfo
	baseCtx sdk.Context
}

var encCfg = palomaapp.MakeEncodingConfig()

func newWorld(nSenders int) *world {
	w := &world{vars: variants(), cache: map[[3]int]*txInfo{}}
	for i := 0; i < nSenders; i++ {
		k := secp256k1.GenPrivKeyFromSecret([]byte(fmt.Sprintf("c19-sender-%d", i)))
		w.keys = append(w.keys, k)
		w.addrs = append(w.addrs, sdk.AccAddress(k.PubKey().Address()).String())
	}
	w.baseCtx = sdk.NewContext(nil, cmtproto.Header{}, false, log.NewNopLogger())
	return w
}

func (w *world) tx(sender int, seq uint64, v int) *txInfo {
	key := [3]int{sender, int(seq), v}
	if t, ok := w.cache[key]; ok {
		return t
	}
	b := encCfg.TxConfig.NewTxBuilder()
	if err := b.SetMsgs(w.vars[v].msgs(w.addrs[sender])...); err != nil {
		panic(err)
	}
	err := b.SetSignatures(signing.SignatureV2{
		PubKey:   w.keys[sender].PubKey(),
		Data:     &signing.SingleSignatureData{SignMode: signing.SignMode_SIGN_MODE_DIRECT, Signature: []byte{1}},
		Sequence: seq,
	})
	if err != nil {
		panic(err)
	}
	t := &txInfo{sender: sender, seq: seq, variant: v, class: w.vars[v].class, tx: b.GetTx(),
		ctx: w.baseCtx.WithPriority(w.vars[v].ctxPrio)}
	w.cache[key] = t
	return t
}

// op encoding
type op struct {
	Kind    string `json:"k"` // ins | rem | sel
	Sender  int    `json:"s,omitempty"`
	Seq     uint64 `json:"q,omitempty"`
	Variant int    `json:"v,omitempty"`
}

func (o op) String() string {
	switch o.Kind {
	case "sel":
		return "select"
	case "rem":
		return fmt.Sprintf("remove(s%d,q%d)", o.Sender, o.Seq)
	}
	return fmt.Sprintf("insert(s%d,q%d,v%d)", o.Sender, o.Seq, o.Variant)
}

type pkey struct {
	s int
	q uint64
}

// runHistory executes one history against a fresh real mempool with the reference model beside
// it. Returns a violation description ("" if none) and a signature.
func (w *world) runHistory(ops []op, rec *fw.Recorder, finalSelect bool) (sig, msg string) {
	defer func() {
		if e := recover(); e != nil {
			sig, msg = "panic", fmt.Sprintf("mempool panicked: %v", e)
		}
	}()
	mp := palomamempool.DefaultPriorityMempool()
	pending := map[pkey]*txInfo{}
	addrIdx := map[string]int{}
	for i, a := range w.addrs {
		addrIdx[a] = i
	}
	check := func(step int) (string, string) {
		if mp.CountTx() != len(pending) {
			return "count", fmt.Sprintf("after op %d: CountTx()=%d but %d pending", step, mp.CountTx(), len(pending))
		}
		return "", ""
	}
	sel := func(step int) (string, string) {
		rec.Count("selects", 1)
		it := mp.Select(w.baseCtx, nil)
		// next unyielded seq per sender
		perSender := map[int][]uint64{}
		for k := range pending {
			perSender[k.s] = append(perSender[k.s], k.q)
		}
		for s := range perSender {
			sort.Slice(perSender[s], func(i, j int) bool { return perSender[s][i] < perSender[s][j] })
		}
		yielded := map[pkey]bool{}
		n := 0
		for ; it != nil; it = it.Next() {
			n++
			if n > len(pending)+5 {
				return "select-too-many", fmt.Sprintf("select at op %d yields more txs than pending (%d)", step, len(pending))
			}
			t := it.Tx()
			sigs, _ := t.(authsigning.SigVerifiableTx).GetSignaturesV2()
			s := addrIdx[sdk.AccAddress(sigs[0].PubKey.Address()).String()]
			k := pkey{s, sigs[0].Sequence}
			pt, ok := pending[k]
			if !ok {
				return "select-removed", fmt.Sprintf("select at op %d yields (s%d,q%d) which is not pending", step, k.s, k.q)
			}
			if pt.tx != t {
				return "select-stale", fmt.Sprintf("select at op %d yields a stale tx object for (s%d,q%d)", step, k.s, k.q)
			}
			if yielded[k] {
				return "select-repeat", fmt.Sprintf("select at op %d yields (s%d,q%d) twice", step, k.s, k.q)
			}
			if len(perSender[s]) == 0 || perSender[s][0] != k.q {
				return "select-nonce-order", fmt.Sprintf("select at op %d yields (s%d,q%d) before the sender's lower sequence %v", step, k.s, k.q, perSender[s])
			}
			// class rule: no other sender's NEXT tx is in a strictly higher class
			for s2, qs := range perSender {
				if s2 == s || len(qs) == 0 {
					continue
				}
				n2 := pending[pkey{s2, qs[0]}]
				if n2.class > pt.class {
					return "select-class-order", fmt.Sprintf("select at op %d yields (s%d,q%d,class %d) while next tx of s%d (q%d) is in higher class %d", step, k.s, k.q, pt.class, s2, qs[0], n2.class)
				}
			}
			rec.Eval(1)
			yielded[k] = true
			perSender[s] = perSender[s][1:]
		}
		if len(yielded) != len(pending) {
			return "select-missing", fmt.Sprintf("select at op %d yields %d of %d pending txs", step, len(yielded), len(pending))
		}
		return "", ""
	}
	for i, o := range ops {
		switch o.Kind {
		case "ins":
			t := w.tx(o.Sender, o.Seq, o.Variant)
			if _, dup := pending[pkey{o.Sender, o.Seq}]; dup {
				continue // precondition of the property: (sender, seq) unique among pending
			}
			if err := mp.Insert(t.ctx, t.tx); err != nil {
				return "insert-error", fmt.Sprintf("op %d insert returned %v", i, err)
			}
			pending[pkey{o.Sender, o.Seq}] = t
		case "rem":
			k := pkey{o.Sender, o.Seq}
			if t, ok := pending[k]; ok {
				if err := mp.Remove(t.tx); err != nil {
					return "remove-error", fmt.Sprintf("op %d remove of pending tx returned %v", i, err)
				}
				delete(pending, k)
			} else {
				t := w.tx(o.Sender, o.Seq, 0)
				if err := mp.Remove(t.tx); err == nil {
					return "remove-absent-ok", fmt.Sprintf("op %d remove of absent tx succeeded", i)
				} else if err != sdkmempool.ErrTxNotFound && !strings.Contains(err.Error(), "not found") {
					return "remove-absent-error", fmt.Sprintf("op %d remove of absent tx returned %v", i, err)
				}
			}
		case "sel":
			if s, m := sel(i); s != "" {
				return s, m
			}
		}
		if s, m := check(i); s != "" {
			return s, m
		}
	}
	if finalSelect {
		if s, m := sel(len(ops)); s != "" {
			return s, m
		}
		// drain: remove everything, pool must be empty
		for k, t := range pending {
			if err := mp.Remove(t.tx); err != nil {
				return "remove-error", fmt.Sprintf("drain remove (s%d,q%d) returned %v", k.s, k.q, err)
			}
		}
		if mp.CountTx() != 0 {
			return "count", fmt.Sprintf("after drain CountTx()=%d", mp.CountTx())
		}
	}
	return "", ""
}

type params struct {
	Mode     string `json:"mode"` // exh | rnd
	First    int    `json:"first,omitempty"`
	Depth    int    `json:"depth,omitempty"`
	Hist     int    `json:"hist,omitempty"`
	Len      int    `json:"len,omitempty"`
	Senders  int    `json:"senders,omitempty"`
	Seqs     int    `json:"seqs,omitempty"`
	Variants int    `json:"variants,omitempty"`
}

// exhaustive alphabet: 2 senders x seq {0,1} x 5 classes inserts, 4 removes, select
func exhAlphabet() []op {
	var a []op
	for s := 0; s < 2; s++ {
		for q := uint64(0); q < 2; q++ {
			for v := 0; v < 5; v++ {
				a = append(a, op{Kind: "ins", Sender: s, Seq: q, Variant: v})
			}
		}
	}
	for s := 0; s < 2; s++ {
		for q := uint64(0); q < 2; q++ {
			a = append(a, op{Kind: "rem", Sender: s, Seq: q})
		}
	}
	a = append(a, op{Kind: "sel"})
	return a
}

func histKey(ops []op) string {
	var sb strings.Builder
	for _, o := range ops {
		sb.WriteString(o.String())
		sb.WriteByte(';')
	}
	return sb.String()
}

func run(c fw.Case, tier string, rec *fw.Recorder) {
	var p params
	c.Decode(&p)
	switch p.Mode {
	case "exh":
		w := newWorld(2)
		alpha := exhAlphabet()
		hist := make([]op, 0, p.Depth)
		hist = append(hist, alpha[p.First])
		var nh int64
		var dfs func()
		dfs = func() {
			// execute this prefix as a complete history (with final select + drain)
			nh++
			rec.Count("histories_exhaustive", 1)
			if nh%50000 == 1 {
				rec.Sample(map[string]any{"mode": "exhaustive", "history": histKey(hist)})
			}
			if sig, msg := w.runHistory(hist, rec, true); sig != "" {
				rec.Violation(sig, msg, map[string]any{"history": append([]op(nil), hist...)})
			}
			if nontrivial(hist) {
				rec.DistinctByConstruction(1) // DFS never produces the same sequence twice
			}
			if len(hist) == p.Depth {
				return
			}
			for _, o := range alpha {
				if o.Kind == "ins" && pendingHas(hist, o.Sender, o.Seq) {
					continue // precondition
				}
				hist = append(hist, o)
				dfs()
				hist = hist[:len(hist)-1]
			}
		}
		dfs()
	case "rnd":
		w := newWorld(p.Senders)
		r := c.Rand()
		for h := 0; h < p.Hist; h++ {
			n := 1 + r.Intn(p.Len)
			ops := make([]op, 0, n)
			// small worlds collide more: per history restrict senders / seqs further
			ns := 1 + r.Intn(p.Senders)
			nq := 1 + r.Intn(p.Seqs)
			// sequence numbers: small consecutive ones, or (every third history) values spread over the whole uint64 range
			seqs := make([]uint64, nq)
			for i := range seqs {
				seqs[i] = uint64(i)
			}
			if h%3 == 2 {
				wide := []uint64{0, 1, 2, 1 << 31, 1 << 32, 1<<63 - 1, 1 << 63, 1<<63 + 5, 1<<64 - 1}
				r.Shuffle(len(wide), func(i, j int) { wide[i], wide[j] = wide[j], wide[i] })
				copy(seqs, wide[:nq])
				rec.Count("histories_random_wide_sequence_numbers", 1)
			}
			for i := 0; i < n; i++ {
				x := r.Intn(100)
				switch {
				case x < 55:
					ops = append(ops, op{Kind: "ins", Sender: r.Intn(ns), Seq: seqs[r.Intn(nq)], Variant: r.Intn(p.Variants)})
				case x < 80:
					ops = append(ops, op{Kind: "rem", Sender: r.Intn(ns), Seq: seqs[r.Intn(nq)]})
				default:
					ops = append(ops, op{Kind: "sel"})
					if r.Intn(3) == 0 {
						ops = append(ops, op{Kind: "sel"})
					}
				}
			}
			for _, o := range ops {
				if o.Kind == "ins" && strings.HasPrefix(w.vars[o.Variant].name, "other/foreign-lookalike:") {
					rec.Count("inserts_of_foreign_lookalike_message_types", 1)
				}
			}
			rec.Op(ops)
			rec.Count("histories_random", 1)
			if h < 2 {
				rec.Sample(map[string]any{"mode": "random", "history": histKey(ops)})
			}
			if sig, msg := w.runHistory(ops, rec, true); sig != "" {
				rec.Violation(sig, msg, map[string]any{"history": ops})
			}
			if nontrivial(ops) {
				rec.Distinct(histKey(ops))
			}
		}
	}
}

func pendingHas(hist []op, s int, q uint64) bool {
	p := false
	for _, o := range hist {
		if o.Sender == s && o.Seq == q {
			if o.Kind == "ins" {
				p = true
			} else if o.Kind == "rem" {
				p = false
			}
		}
	}
	return p
}

// non-trivial: at least two senders have inserts and at least one select or remove
func nontrivial(ops []op) bool {
	senders := map[int]bool{}
	other := false
	for _, o := range ops {
		if o.Kind == "ins" {
			senders[o.Sender] = true
		} else {
			other = true
		}
	}
	return len(senders) >= 2 && (other || len(ops) >= 2)
}

func cases(tier string, seed int64) []fw.Case {
	var cs []fw.Case
	depth := 5
	if tier == "thorough" {
		depth = 6
	}
	for i := range exhAlphabet() {
		cs = append(cs, fw.MkCase(fmt.Sprintf("exh-first%02d-depth%d", i, depth), 0, params{Mode: "exh", First: i, Depth: depth}))
	}
	nr, hist := 16, 1500
	if tier == "thorough" {
		nr, hist = 64, 12000
	}
	for i := 0; i < nr; i++ {
		cs = append(cs, fw.MkCase(fmt.Sprintf("rnd-%03d", i), seed*1000003+int64(i), params{Mode: "rnd", Hist: hist, Len: 60 + 40*(i%5), Senders: 2 + i%7, Seqs: 1 + i%5, Variants: len(variants())}))
	}
	return cs
}

func init() {
	_ = math.MaxInt64
	fw.Register(&fw.Prop{
		ID:    "C19",
		Level: "exploration",
		Rule: "histories of insert/remove/select against the real DefaultPriorityMempool with a map reference model; " +
			"exhaustive part = every history of <= depth ops (quick 5, thorough 6) over 2 senders x seq{0,1} x 5 classes inserts + 4 removes + select, each followed by a final select and drain; " +
			"random part = seeded histories over up to 8 senders, 5 sequence numbers (small consecutive ones, and in every third history values spread over the whole uint64 range: 2^31, 2^32, 2^63-1, 2^63, 2^64-1 ...), 14 tx realisations (incl. multi-message and other ctx priorities) plus, as ordinary-class realisations, every message type of the wired-in foreign modules (sdk consensus, bank, staking, gov, distribution, slashing, wasm) whose type URL lies outside Paloma's namespace but contains a special module's segment (today: /cosmos.consensus.v1.MsgUpdateParams). " +
			"distinct_nontrivial = distinct operation sequences in which >= 2 senders insert and the history has >= 2 ops; evaluations = txs yielded by select walks and checked against the oracle",
		Assumptions: []string{
			"(sender, sequence) unique among pending txs (inserts that would violate it are skipped) - the property's own precondition",
			"select is atomic: no insert/remove while an iterator is being walked",
			"ctx priority MinInt64 is never generated (the application's TxFeeChecker returns 42)",
			"the exhaustive scope is complete only for the stated small alphabet and depth",
		},
		Exhaustive:  func(string) bool { return false },
		Cases:       cases,
		Run:         run,
		MinCounters: []string{"selects", "histories_exhaustive", "histories_random", "inserts_of_foreign_lookalike_message_types"},
	})
}
