package c17

import (
	"bytes"
	"encoding/hex"
	"fmt"
	"sort"
	"strings"

	sdk "github.com/cosmos/cosmos-sdk/types"

	evmtypes "github.com/palomachain/paloma/v2/x/evm/types"
	schedulertypes "github.com/palomachain/paloma/v2/x/scheduler/types"

	"verif/harness/world"
)

// ---------------------------------------------------------------------------------------------
// reference model of the job book (independent of the scheduler keeper)

// jobRef is what the reference knows about a job: what was asked for at creation. Body / Contract
// / ABI are the values the GENERATOR encoded into the JSON documents, not something decoded from
// them with paloma's code.
type jobRef struct {
	ID         string
	Owner      []byte
	ChainType  string
	ChainRef   string
	Definition []byte // document as submitted
	Payload    []byte // document as submitted
	Body       []byte // call data encoded in Payload
	Contract   string // lower-case hex without 0x
	ABI        []byte
	ABIHex     bool // ABI field was a hex string (otherwise the abi bytes are not compared)
	Modifiable bool
	MEV        bool
	Raw        []byte // store value right after creation
	Execs      int // successful executions
	Fails      int // failed executions
	Reborn     bool // an earlier create of this id was rolled back with its transaction / only simulated
}

// request: one create or execute request. JSON-serialisable (goes to the op log / witnesses).
type request struct {
	Kind   string `json:"kind"`   // create | exec
	Path   string `json:"path"`   // tx | handler | wasm | wasm-legacy
	Caller string `json:"caller"` // principal name (the creator of the message / the calling contract)
	Signer string `json:"signer,omitempty"` // tx path: somebody else (holding the caller's fee grant) signs
	JobID  string `json:"job_id"`

	// create
	ChainType  string `json:"chain_type,omitempty"`
	ChainRef   string `json:"chain_ref,omitempty"`
	Definition string `json:"definition,omitempty"`
	Payload    string `json:"payload,omitempty"`
	BodyHex    string `json:"body_hex,omitempty"`
	Contract   string `json:"contract,omitempty"`
	ABIHex     string `json:"abi_hex,omitempty"`
	ABIIsHex   bool   `json:"abi_is_hex,omitempty"`
	Modifiable bool   `json:"modifiable,omitempty"`
	MEV        bool   `json:"mev,omitempty"`
	SpoofOwner string `json:"spoof_owner,omitempty"` // principal name put into Job.Owner by the sender
	Class      string `json:"class,omitempty"`       // generator's intent: new | dup | badid | badpayload | ...

	// exec
	Supplied     string `json:"supplied,omitempty"`      // account paths: JSON document; wasm paths: unused
	SuppliedBody string `json:"supplied_body,omitempty"` // hex of the call data the caller supplies
	HasSupplied  bool   `json:"has_supplied,omitempty"`
	SuppliedOK   bool   `json:"supplied_ok,omitempty"` // supplied document is well formed
	WasmSender   string `json:"wasm_sender,omitempty"` // "sender" field of the wasm message (must be ignored)

	Group string `json:"group,omitempty"` // member of an atomic group (atomic.go): "<route>#<n>"
}

type result struct {
	OK  bool   `json:"ok"`
	Err string `json:"err,omitempty"`
	// RolledBack (with !OK): the request was not refused itself; the transaction it belongs to
	// failed at another message, or was only simulated. Its effects must be gone all the same.
	RolledBack bool `json:"rolled_back,omitempty"`
}

// ---------------------------------------------------------------------------------------------
// queue observation

type qmsg struct {
	ID    uint64
	Kind  string // slc | valset | other | undecodable
	Chain string // ChainReferenceID field of the message
	SLC   *evmtypes.SubmitLogicCall
}

type qsnap map[string]map[uint64]qmsg // chain ref -> id -> message

func (e *env) observedChains() []string {
	var out []string
	for _, cd := range worldChains {
		out = append(out, cd.Ref)
	}
	return append(out, unknownChain)
}

// snapQueues reads the turnstone queue of every chain under ctx through the consensus keeper.
func (e *env) snapQueues(ctx sdk.Context) qsnap {
	out := qsnap{}
	for _, ref := range e.observedChains() {
		out[ref] = map[uint64]qmsg{}
		func() {
			defer func() { _ = recover() }() // unknown queue: some versions panic, treat as empty
			msgs, err := e.c.App.ConsensusKeeper.GetMessagesFromQueue(ctx, world.TurnstoneQueue(ref), 0)
			if err != nil {
				return
			}
			for _, qm := range msgs {
				m := qmsg{ID: qm.GetId(), Kind: "undecodable"}
				if cm, err := qm.ConsensusMsg(e.c.App.AppCodec()); err == nil {
					m.Kind = "other"
					if em, ok := cm.(*evmtypes.Message); ok {
						m.Chain = em.GetChainReferenceID()
						switch a := em.GetAction().(type) {
						case *evmtypes.Message_SubmitLogicCall:
							m.Kind, m.SLC = "slc", a.SubmitLogicCall
						case *evmtypes.Message_UpdateValset:
							m.Kind = "valset"
						}
					}
				}
				out[ref][m.ID] = m
			}
		}()
	}
	return out
}

// newMsgs: messages of kind k present in after but not in before, ordered by id.
func newMsgs(before, after qsnap, ref, kind string) []qmsg {
	var out []qmsg
	for id, m := range after[ref] {
		if _, was := before[ref][id]; !was && m.Kind == kind {
			out = append(out, m)
		}
	}
	sort.Slice(out, func(i, j int) bool { return out[i].ID < out[j].ID })
	return out
}

// ---------------------------------------------------------------------------------------------
// byte-level reference for one enqueued call

func leftPad32(b []byte) []byte {
	if len(b) >= 32 {
		return append([]byte{}, b...)
	}
	out := make([]byte, 32)
	copy(out[32-len(b):], b)
	return out
}

func normHexAddr(s string) string {
	s = strings.TrimPrefix(strings.TrimPrefix(s, "0x"), "0X")
	return strings.ToLower(s)
}

type expectedCall struct {
	Req      request
	Job      *jobRef
	Caller   []byte
	Body     []byte // reference call data without the suffix
	AltBody  []byte // the body that must NOT have been used (for classification), may be nil
	UsedSupp bool
	SkipBody bool // the supplied document is malformed: no reference call data exists
}

// referenceCall: what a successful execution of req on job j by caller must enqueue.
func referenceCall(j *jobRef, req request, caller []byte) expectedCall {
	ex := expectedCall{Req: req, Job: j, Caller: caller}
	supplied, _ := hex.DecodeString(req.SuppliedBody)
	if j.Modifiable && req.HasSupplied {
		ex.Body, ex.AltBody, ex.UsedSupp = supplied, j.Body, true
	} else {
		ex.Body = j.Body
		if req.HasSupplied {
			ex.AltBody = supplied
		}
	}
	return ex
}

type mismatch struct {
	Sig string
	Msg string
}

// compareCall compares an enqueued logic call with the reference, byte by byte.
func compareCall(ex expectedCall, ref string, got qmsg) []mismatch {
	var out []mismatch
	lc := got.SLC
	kind := "account"
	if ex.Req.Path == "wasm" || ex.Req.Path == "wasm-legacy" {
		kind = "contract"
	}
	if got.Chain != ex.Job.ChainRef {
		out = append(out, mismatch{"exec-success/message-chain-reference-differs-from-job", fmt.Sprintf("message says chain %q, job targets %q", got.Chain, ex.Job.ChainRef)})
	}
	if normHexAddr(lc.HexContractAddress) != ex.Job.Contract {
		out = append(out, mismatch{"exec-success/contract-address-differs-from-job-definition", fmt.Sprintf("enqueued contract %q, job definition has %q", lc.HexContractAddress, ex.Job.Contract)})
	}
	if ex.Job.ABIHex && !bytes.Equal(lc.Abi, ex.Job.ABI) {
		out = append(out, mismatch{"exec-success/abi-differs-from-job-definition", fmt.Sprintf("enqueued abi %x, job definition has %x", lc.Abi, ex.Job.ABI)})
	}
	if lc.ExecutionRequirements.EnforceMEVRelay != ex.Job.MEV {
		out = append(out, mismatch{"exec-success/mev-flag-differs-from-job", fmt.Sprintf("enqueued enforceMEVRelay=%v, job has %v", lc.ExecutionRequirements.EnforceMEVRelay, ex.Job.MEV)})
	}
	suffix := leftPad32(ex.Caller)
	want := append(append([]byte{}, ex.Body...), suffix...)
	if ex.SkipBody {
		// only the suffix can be judged
		p := lc.Payload
		if len(p) < 32 || !bytes.Equal(p[len(p)-32:], suffix) {
			out = append(out, mismatch{"exec-success/sender-suffix-is-not-the-caller:" + kind, fmt.Sprintf("payload %s does not end with leftpad32(caller)=%x", clip(p), suffix)})
		}
		return out
	}
	if !bytes.Equal(lc.Payload, want) {
		p := lc.Payload
		altHit := ex.AltBody != nil && !bytes.Equal(ex.AltBody, ex.Body) &&
			(bytes.Equal(p, ex.AltBody) || (len(p) >= 32 && bytes.Equal(p[:len(p)-32], ex.AltBody)))
		switch {
		case len(p) >= 32 && bytes.Equal(p[:len(p)-32], ex.Body):
			// body right, suffix wrong
			got32 := p[len(p)-32:]
			rp := make([]byte, 32)
			copy(rp, ex.Caller)
			sig := "exec-success/sender-suffix-is-not-the-caller:" + kind
			if len(ex.Caller) < 32 && bytes.Equal(got32, rp) {
				sig = "exec-success/sender-suffix-right-padded:" + kind
			}
			out = append(out, mismatch{sig, fmt.Sprintf("suffix %x, want leftpad32(caller)=%x", got32, suffix)})
		case bytes.Equal(p, ex.Body):
			out = append(out, mismatch{"exec-success/sender-suffix-missing:" + kind, fmt.Sprintf("payload is the bare body (%d bytes), the 32-byte caller suffix is missing", len(p))})
		case altHit:
			if ex.UsedSupp {
				out = append(out, mismatch{"exec-success/modifiable-job-ignored-supplied-payload:" + kind, "stored payload used although the job is payload-modifiable and the caller supplied one"})
			} else {
				out = append(out, mismatch{"exec-success/fixed-job-ran-with-supplied-payload:" + kind, "caller-supplied payload used although the job was created as not modifiable"})
			}
		default:
			out = append(out, mismatch{"exec-success/payload-differs-from-reference:" + kind, fmt.Sprintf("payload %s, want %s", clip(p), clip(want))})
		}
	}
	return out
}

func clip(b []byte) string {
	if len(b) <= 96 {
		return hex.EncodeToString(b)
	}
	return fmt.Sprintf("%x..(%d bytes)..%x", b[:32], len(b), b[len(b)-40:])
}

// ---------------------------------------------------------------------------------------------
// job store observation

const jobsPrefix = "jobs"

// rawJobs dumps the scheduler store's job records (id -> raw value) under ctx.
func (e *env) rawJobs(ctx sdk.Context) map[string][]byte {
	out := map[string][]byte{}
	st := e.c.KVStore(ctx, "scheduler")
	if st == nil {
		return out
	}
	it := st.Iterator(nil, nil)
	defer it.Close()
	for ; it.Valid(); it.Next() {
		k := it.Key()
		if bytes.HasPrefix(k, []byte(jobsPrefix)) {
			out[string(k[len(jobsPrefix):])] = append([]byte{}, it.Value()...)
		}
	}
	return out
}

// diffJobFields names the property-relevant fields in which a stored job differs from the reference.
func diffJobFields(j *schedulertypes.Job, ref *jobRef) []string {
	var d []string
	if j.ID != ref.ID {
		d = append(d, "id")
	}
	if !bytes.Equal(j.Owner, ref.Owner) {
		d = append(d, "owner")
	}
	if j.Routing.ChainType != ref.ChainType || j.Routing.ChainReferenceID != ref.ChainRef {
		d = append(d, "target-chain")
	}
	if !bytes.Equal(j.Definition, ref.Definition) {
		d = append(d, "definition")
	}
	if !bytes.Equal(j.Payload, ref.Payload) {
		d = append(d, "payload")
	}
	if j.IsPayloadModifiable != ref.Modifiable {
		d = append(d, "flag-modifiable")
	}
	if j.EnforceMEVRelay != ref.MEV {
		d = append(d, "flag-mev")
	}
	return d
}
