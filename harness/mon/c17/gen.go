package c17

import (
	"encoding/hex"
	"encoding/json"
	"fmt"
	"math/rand"
	"strings"
)

const idAlphabet = "abcdefghijklmnopqrstuvwxyz0123456789-_."

func pick[T any](r *rand.Rand, xs []T) T { return xs[r.Intn(len(xs))] }

// weighted choice over labels
func wpick(r *rand.Rand, labels []string, weights []int) string {
	tot := 0
	for _, w := range weights {
		tot += w
	}
	x := r.Intn(tot)
	for i, w := range weights {
		if x < w {
			return labels[i]
		}
		x -= w
	}
	return labels[len(labels)-1]
}

func randBytes(r *rand.Rand, n int) []byte {
	b := make([]byte, n)
	r.Read(b)
	return b
}

// bodyLen: call-data lengths around the interesting sizes (empty, selector only, selector + words,
// not word aligned, a few KiB; rarely large).
func bodyLen(r *rand.Rand, big bool) int {
	switch r.Intn(12) {
	case 0:
		return 0
	case 1:
		return 4
	case 2, 3:
		return 4 + 32*(1+r.Intn(4))
	case 4:
		return 31 + r.Intn(3)
	case 5:
		return 1 + r.Intn(3)
	case 6:
		if big {
			return 8_000 + r.Intn(60_000)
		}
		return 600 + r.Intn(3000)
	default:
		return 5 + r.Intn(200)
	}
}

// payloadDoc renders call data as the JSON document paloma expects ({"hexPayload": "..."}), in one
// of several equivalent spellings. The reference keeps `body`; it never parses the document.
func payloadDoc(r *rand.Rand, body []byte) string {
	h := hex.EncodeToString(body)
	if len(body) == 0 && r.Intn(2) == 0 {
		return pick(r, []string{`{}`, `{"hexPayload":""}`, `{"hexPayload":"0x"}`})
	}
	switch r.Intn(8) {
	case 6:
		// a payload document that also carries the key names of the job DEFINITION: only hexPayload is payload
		other := fmt.Sprintf("0x%040x", 0xBBBB0000+r.Intn(1000))
		return pick(r, []string{
			`{"hexPayload":"` + h + `","address":"` + other + `"}`,
			`{"address":"` + other + `","abi":"[]","hexPayload":"` + h + `"}`,
			`{"hexPayload":"` + h + `","Address":"` + other + `","ABI":"00"}`,
		})
	case 7:
		return `{"hexPayload":"` + h + `","abi":"deadbeef","payload":"00","hexpayload2":"11"}`
	case 0:
		return `{"hexPayload":"0x` + h + `"}`
	case 1:
		return `{"hexPayload":"` + strings.ToUpper(h) + `"}`
	case 2:
		return "{ \"note\": [1, {\"hexPayload\": \"ff\"}],\n\t\"hexPayload\" : \"0X" + h + "\" }"
	case 3:
		return `{"hexPayload":"` + mixCase(r, h) + `","gas":"1"}`
	default:
		return `{"hexPayload":"` + h + `"}`
	}
}

func mixCase(r *rand.Rand, h string) string {
	b := []byte(h)
	for i := range b {
		if b[i] >= 'a' && b[i] <= 'f' && r.Intn(2) == 0 {
			b[i] -= 32
		}
	}
	return string(b)
}

func jsonStr(s string) string {
	b, _ := json.Marshal(s)
	return string(b)
}

// definitionDoc renders a job definition (contract address + abi).
func definitionDoc(r *rand.Rand) (doc, contract string, abi []byte, abiIsHex bool) {
	addr := randBytes(r, 20)
	contract = hex.EncodeToString(addr)
	addrStr := "0x" + contract
	switch r.Intn(4) {
	case 0:
		addrStr = "0x" + mixCase(r, contract)
	case 1:
		addrStr = contract
	}
	var abiStr string
	if r.Intn(4) == 0 {
		// what users really put there: the JSON ABI text (paloma stores it verbatim; the abi bytes
		// of the enqueued call are then not compared)
		abiStr = `[{"inputs":[{"internalType":"uint256","name":"x","type":"uint256"}],"name":"store","outputs":[],"stateMutability":"nonpayable","type":"function"}]`
	} else {
		abi = randBytes(r, r.Intn(80))
		abiIsHex = true
		abiStr = hex.EncodeToString(abi)
		if r.Intn(2) == 0 {
			abiStr = "0x" + abiStr
		}
	}
	abiKey := pick(r, []string{"abi", "ABI", "abi"})
	if r.Intn(2) == 0 {
		doc = fmt.Sprintf(`{%s:%s,"address":%s}`, jsonStr(abiKey), jsonStr(abiStr), jsonStr(addrStr))
	} else {
		doc = fmt.Sprintf(`{"address": %s, %s: %s}`, jsonStr(addrStr), jsonStr(abiKey), jsonStr(abiStr))
	}
	return
}

func (h *hist) freshID() string {
	r := h.r
	for {
		n := 1 + r.Intn(14)
		switch r.Intn(10) {
		case 0:
			n = 32 // boundary: longest legal id
		case 1:
			n = 31
		case 2:
			n = 1
		}
		b := make([]byte, n)
		for i := range b {
			b[i] = idAlphabet[r.Intn(len(idAlphabet))]
		}
		id := string(b)
		if strings.Contains(id, "paloma") || strings.Contains(id, "pigeon") {
			continue
		}
		if h.jobs[id] != nil || h.usedIDs[id] {
			continue
		}
		h.usedIDs[id] = true
		return id
	}
}

func (h *hist) badID() string {
	r := h.r
	// every second illegal id is an ALIAS SPELLING of an id that exists (or was rolled back earlier): surrounding
	// blanks, another letter case - illegal as written, and dangerous if any layer folds it onto the stored id
	if pool := append(append([]string{}, h.ids...), h.ghosts...); len(pool) > 0 && r.Intn(2) == 0 {
		id := pick(r, pool)
		switch r.Intn(6) {
		case 0:
			return id + " "
		case 1:
			return " " + id
		case 2:
			return id + "\n"
		case 3:
			return "\t" + id
		case 4:
			if up := strings.ToUpper(id); up != id {
				return up
			}
			return id + " "
		default:
			if len(id) > 0 && id[0] >= 'a' && id[0] <= 'z' {
				return strings.ToUpper(id[:1]) + id[1:]
			}
			return " " + id + " "
		}
	}
	switch r.Intn(7) {
	case 0:
		return ""
	case 1:
		return strings.Repeat("a", 33) // one past the longest legal id
	case 2:
		return "Job" + fmt.Sprint(r.Intn(100))
	case 3:
		return "my-paloma-job"
	case 4:
		return "pigeon." + fmt.Sprint(r.Intn(100))
	case 5:
		return "job id"
	default:
		return "jöb"
	}
}

var chainLabels = []string{"eth-main", "bnb-main", "matic-main", "arb-main", "op-main", unknownChain}
var chainWeights = []int{30, 24, 13, 12, 11, 8}

func (h *hist) principalByName(n string) *principal {
	for _, p := range h.e.users {
		if p.Name == n {
			return p
		}
	}
	for _, p := range h.e.contrs {
		if p.Name == n {
			return p
		}
	}
	return nil
}

// genCreate: path "" = choose.
func (h *hist) genCreate(path string, exclude map[string]bool) request {
	return h.genCreateClass(path, exclude, "")
}

// genCreateClass: class "" = choose.
func (h *hist) genCreateClass(path string, exclude map[string]bool, class string) request {
	r := h.r
	if path == "" {
		path = wpick(r, []string{"tx", "handler", "wasm"}, []int{25, 35, 40})
	}
	req := request{Kind: "create", Path: path, ChainType: "evm"}
	req.Caller = h.pickCaller(path, exclude)
	h.delegateSigner(&req, exclude)
	req.Class = wpick(r, []string{"new", "dup", "badid", "badpayload", "badchaintype"}, []int{58, 24, 11, 4, 3})
	if req.Class == "dup" && len(h.ids) == 0 {
		req.Class = "new"
	}
	if class != "" {
		req.Class = class
	}
	switch req.Class {
	case "dup":
		req.JobID = pick(r, h.ids)
	case "badid":
		req.JobID = h.badID()
	case "new":
		req.JobID = h.newID()
	default:
		req.JobID = h.freshID()
	}
	req.ChainRef = wpick(r, chainLabels, chainWeights)
	if req.Class == "badchaintype" {
		req.ChainType = pick(r, []string{"cosmos", "EVM", "solana"})
	}
	var abi []byte
	req.Definition, req.Contract, abi, req.ABIIsHex = definitionDoc(r)
	req.ABIHex = hex.EncodeToString(abi)
	body := randBytes(r, bodyLen(r, h.big))
	req.BodyHex = hex.EncodeToString(body)
	req.Payload = payloadDoc(r, body)
	if req.Class == "badpayload" {
		req.Payload = pick(r, []string{`not json`, `{"hexPayload":12}`, `["aa"]`, `{"hexPayload":"aa"`})
	}
	req.Modifiable = r.Intn(2) == 0
	req.MEV = r.Intn(100) < 35
	if path != "wasm" && r.Intn(100) < 35 {
		// the sender fills Job.Owner with somebody else: the owner must still be the creator
		all := append(append([]*principal{}, h.e.users...), h.e.contrs...)
		req.SpoofOwner = pick(r, all).Name
	}
	return req
}

// delegateSigner: on the tx path, u0's messages are sometimes signed by u3 (holder of u0's fee grant).
func (h *hist) delegateSigner(req *request, exclude map[string]bool) {
	if req.Path == "tx" && req.Caller == "u0" && !exclude["u3"] && h.r.Intn(100) < 75 {
		req.Signer = "u3"
	}
}

func (h *hist) pickCaller(path string, exclude map[string]bool) string {
	pool := h.e.users
	if path == "wasm" || path == "wasm-legacy" {
		pool = h.e.contrs
	}
	for {
		p := pick(h.r, pool)
		if !exclude[p.Name] {
			return p.Name
		}
	}
}

func (h *hist) genExec(path string, exclude map[string]bool) request {
	r := h.r
	if path == "" {
		path = wpick(r, []string{"tx", "handler", "wasm", "wasm-legacy"}, []int{18, 30, 34, 18})
	}
	req := request{Kind: "exec", Path: path}
	req.Caller = h.pickCaller(path, exclude)
	h.delegateSigner(&req, exclude)
	if len(h.ids) > 0 && r.Intn(100) < 90 {
		req.JobID = pick(r, h.ids)
		// lean towards jobs that never ran successfully, so that every job gets exercised
		// and away from jobs that keep failing (no relayer for their chain, unknown chain)
		for try := 0; try < 2 && (h.jobs[req.JobID].Execs > 0 || h.jobs[req.JobID].Fails >= 3) && r.Intn(4) != 0; try++ {
			req.JobID = pick(r, h.ids)
		}
	} else {
		req.JobID = h.freshID() // never created
		req.Class = "unknown-job"
		if len(h.ghosts) > 0 && r.Intn(2) == 0 {
			// created only inside a transaction that was rolled back / simulated: as good as never
			req.JobID = pick(r, h.ghosts)
		}
	}
	if req.Class == "" && r.Intn(2) == 0 {
		// a job whose id had been created before on a discarded store branch: run it soon
		for _, id := range h.ids {
			if j := h.jobs[id]; j.Reborn && j.Execs == 0 && j.Fails < 2 {
				req.JobID = id
				break
			}
		}
	}
	wasm := path == "wasm" || path == "wasm-legacy"
	if wasm && req.Class == "" {
		// a contract always supplies a payload, which only modifiable jobs accept: lean towards those
		for try := 0; try < 3 && !h.jobs[req.JobID].Modifiable; try++ {
			req.JobID = pick(r, h.ids)
		}
	}
	supplyPct := 52
	if req.Class == "" && !h.jobs[req.JobID].Modifiable {
		supplyPct = 22
	}
	if wasm {
		req.HasSupplied = true
		req.SuppliedOK = true
		n := bodyLen(r, h.big)
		if n == 0 && r.Intn(3) != 0 {
			n = 4
		}
		req.SuppliedBody = hex.EncodeToString(randBytes(r, n))
		// n == 0: the contract supplies an EMPTY payload. The new binding refuses that; the legacy
		// binding wraps it into {"hexPayload":""} before its emptiness check, so it goes through as a
		// supplied, empty call data.
		all := append(append([]*principal{}, h.e.users...), h.e.contrs...)
		req.WasmSender = pick(r, all).Name
		return req
	}
	switch x := r.Intn(100); {
	case x >= 94:
		req.HasSupplied, req.SuppliedOK = true, false
		req.Supplied = pick(r, []string{`garbage`, `{"hexPayload":7}`, `[]`, `{"hexPayload":"aa"`, ` `})
	case x >= supplyPct:
		// nothing supplied
	default:
		body := randBytes(r, bodyLen(r, h.big))
		req.HasSupplied, req.SuppliedOK = true, true
		req.SuppliedBody = hex.EncodeToString(body)
		req.Supplied = payloadDoc(r, body)
	}
	return req
}
