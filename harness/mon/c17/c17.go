// Package c17: scheduled jobs are immutable, and every successful execution request enqueues exactly
// one contract call = the job's contract + (stored | supplied-iff-modifiable) payload + the 32-byte
// left-padded address of the requester; a failed request enqueues no contract call.
//
// Deciding step: the REAL application (chain.New -> app.App). Requests travel through (a) signed
// transactions in real blocks (ante chain, router, end-blockers), (b) the MsgServiceRouter handler
// on a cache context (inspected BEFORE it is committed / thrown away) and (c) the real wasm
// message router (util/libwasm) + scheduler bindings (new and legacy format) called with a
// contract address supplied by the harness. The oracle is a reference job book kept by the
// harness (what was asked for at creation, the raw call-data bytes the generator encoded) and a
// before/after diff of every chain's turnstone queue read through the consensus keeper.
package c17

import (
	"bytes"
	"encoding/base64"
	"encoding/hex"
	"encoding/json"
	"fmt"
	"math/rand"
	"runtime/debug"
	"sort"
	"strings"
	"time"

	sdkmath "cosmossdk.io/math"
	wasmvmtypes "github.com/CosmWasm/wasmvm/v2/types"
	sdk "github.com/cosmos/cosmos-sdk/types"
	stakingtypes "github.com/cosmos/cosmos-sdk/x/staking/types"

	schedulertypes "github.com/palomachain/paloma/v2/x/scheduler/types"
	valsettypes "github.com/palomachain/paloma/v2/x/valset/types"

	"verif/harness/chain"
	"verif/harness/fw"
	"verif/harness/world"
)

type params struct {
	Variant int  `json:"variant"`
	N       int  `json:"n"`   // requests
	Big     bool `json:"big"` // allow large payloads
}

type hist struct {
	e       *env
	r       *rand.Rand
	rec     *fw.Recorder
	jobs    map[string]*jobRef
	ids     []string // ids of existing jobs (model), creation order
	usedIDs map[string]bool
	big     bool
	nReq    int
	samples int

	// atomic groups (atomic.go)
	ghosts  []string // ids whose creation was rolled back with its transaction / only simulated, not re-created since
	ghostOf map[string]string // ghost id -> how it became one ("tx", "sim", "handler", "wasm")
	nGroup  int
}

func cases(tier string, seed int64) []fw.Case {
	n, per := 48, 120
	if tier == "thorough" {
		n, per = 64, 480
	}
	var cs []fw.Case
	for i := 0; i < n; i++ {
		cs = append(cs, fw.MkCase(fmt.Sprintf("hist-%03d", i), seed*1_000_033+int64(i)*7919+17,
			params{Variant: i, N: per, Big: tier == "thorough" && i%8 == 0}))
	}
	return cs
}

func run(c fw.Case, tier string, rec *fw.Recorder) {
	var p params
	c.Decode(&p)
	e, err := setup(p.Variant)
	if e != nil && e.c != nil {
		defer e.c.Close()
	}
	if err != nil {
		rec.Inconclusive("bring-up failed: " + err.Error())
		return
	}
	h := &hist{e: e, r: c.Rand(), rec: rec, jobs: map[string]*jobRef{}, usedIDs: map[string]bool{}, ghostOf: map[string]string{}, big: p.Big}
	rec.Op(map[string]any{"op": "setup", "variant": p.Variant, "topology": e.topo})
	// seed a few jobs first so that executions have something to run
	for i := 0; i < 6; i++ {
		h.step(true)
	}
	for h.nReq < p.N {
		h.step(false)
		if rec.Violations() >= 12 {
			break
		}
	}
	rec.Count("jobs_in_book", int64(len(h.jobs)))
	ran := 0
	for _, j := range h.jobs {
		if j.Execs > 0 {
			ran++
		}
	}
	rec.Count("jobs_executed_at_least_once", int64(ran))
}

// step: one unit of the history.
func (h *hist) step(createOnly bool) {
	r := h.r
	if !createOnly {
		switch x := r.Intn(100); {
		case x < 3:
			h.churn()
			return
		case x < 6:
			h.rec.Op(map[string]any{"op": "skip", "h": h.e.c.Height})
			h.e.c.Skip(1 + r.Intn(3))
			return
		case x < 15:
			// several requests that stand or fall together (multi-message tx, its simulation,
			// the messages of one contract execution)
			h.runGroup(h.genGroup())
			return
		}
	}
	var first request
	if createOnly || r.Intn(100) < 16 {
		first = h.genCreate("", nil)
	} else {
		first = h.genExec("", nil)
	}
	if first.Path != "tx" {
		h.runCached(first)
		return
	}
	// a block of 1..3 transactions by distinct signers
	unit := []request{first}
	used := map[string]bool{first.Caller: true}
	if first.Signer != "" {
		used[first.Signer] = true
	}
	for len(unit) < 3 && r.Intn(100) < 40 {
		var nx request
		switch x := r.Intn(100); {
		case x < 25 && first.Kind == "create":
			// same id raced by somebody else in the same block
			nx = h.genCreate("tx", used)
			nx.JobID, nx.Class = first.JobID, "dup-same-block"
		case x < 45 && first.Kind == "create":
			// run the job created earlier in this block
			nx = h.genExec("tx", used)
			nx.JobID, nx.Class = first.JobID, ""
		case x < 60:
			nx = h.genCreate("tx", used)
		default:
			nx = h.genExec("tx", used)
		}
		used[nx.Caller] = true
		if nx.Signer != "" {
			used[nx.Signer] = true
		}
		unit = append(unit, nx)
	}
	h.runBlock(unit)
}

// churn: a delegation that changes the power distribution by more than 1 % followed by a snapshot
// build (what valset's end-blocker does at h%50==0): the next job on a chain with a published
// snapshot triggers the just-in-time valset update.
func (h *hist) churn() {
	c := h.e.c
	u := pick(h.r, h.e.users)
	v := pick(h.r, h.e.vals)
	amt := int64(4_000_000 + h.r.Intn(4_000_000))
	h.rec.Op(map[string]any{"op": "churn", "from": u.Name, "to": v.Acct.Name, "amt": amt, "h": c.Height + 1})
	res := c.Deliver(u.Acct, stakingtypes.NewMsgDelegate(u.Acct.Bech, v.Acct.ValBech(), sdk.NewCoin(chain.Denom, sdkmath.NewInt(amt))))
	if !res.OK() {
		h.rec.Count("churn_delegate_failed", 1)
		return
	}
	s, err := world.BuildSnapshot(c)
	if err == nil && s != nil {
		h.rec.Count("snapshots_rebuilt", 1)
	}
	c.Skip(1)
}

// ---------------------------------------------------------------------------------------------
// message construction

func (h *hist) createMsg(req request) *schedulertypes.MsgCreateJob {
	p := h.principalByName(req.Caller)
	job := &schedulertypes.Job{
		ID:                  req.JobID,
		Routing:             schedulertypes.Routing{ChainType: req.ChainType, ChainReferenceID: req.ChainRef},
		Definition:          []byte(req.Definition),
		Payload:             []byte(req.Payload),
		IsPayloadModifiable: req.Modifiable,
		EnforceMEVRelay:     req.MEV,
	}
	if req.SpoofOwner != "" {
		job.Owner = h.principalByName(req.SpoofOwner).Addr
	}
	return &schedulertypes.MsgCreateJob{
		Metadata: h.meta(req, p),
		Job:      job,
	}
}

func (h *hist) meta(req request, p *principal) valsettypes.MsgMetadata {
	signer := p
	if req.Signer != "" {
		signer = h.principalByName(req.Signer)
	}
	return valsettypes.MsgMetadata{Creator: p.Addr.String(), Signers: []string{signer.Addr.String()}}
}

func (h *hist) execMsg(req request) *schedulertypes.MsgExecuteJob {
	p := h.principalByName(req.Caller)
	m := &schedulertypes.MsgExecuteJob{
		Metadata: h.meta(req, p),
		JobID:    req.JobID,
	}
	if req.HasSupplied {
		m.Payload = []byte(req.Supplied)
	}
	return m
}

// wasmCustom renders the JSON a contract would emit as CosmosMsg::Custom.
func (h *hist) wasmCustom(req request) []byte {
	switch {
	case req.Kind == "create":
		bz, _ := json.Marshal(map[string]any{"scheduler_msg": map[string]any{"create_job": map[string]any{"job": map[string]any{
			"job_id": req.JobID, "chain_type": req.ChainType, "chain_reference_id": req.ChainRef,
			"definition": req.Definition, "payload": req.Payload,
			"payload_modifiable": req.Modifiable, "is_mev": req.MEV,
		}}}})
		return bz
	case req.Path == "wasm-legacy":
		body, _ := hex.DecodeString(req.SuppliedBody)
		bz, _ := json.Marshal(map[string]any{"job_id": req.JobID, "payload": base64.StdEncoding.EncodeToString(body)})
		return bz
	default:
		body, _ := hex.DecodeString(req.SuppliedBody)
		sender := ""
		if p := h.principalByName(req.WasmSender); p != nil {
			sender = p.Addr.String()
		}
		bz, _ := json.Marshal(map[string]any{"scheduler_msg": map[string]any{"execute_job": map[string]any{
			"job_id": req.JobID, "sender": sender, "payload": base64.StdEncoding.EncodeToString(body),
		}}})
		return bz
	}
}

// ---------------------------------------------------------------------------------------------
// execution

// runCached: one request through the msg-server handler or the wasm router on a cache context.
// The cache context is observed before it is committed (success) or dropped (failure), which is
// what baseapp.runMsgs / wasmd's DispatchSubmessages do.
func (h *hist) runCached(req request) {
	c := h.e.c
	dt := time.Duration(h.r.Intn(7)) * time.Second
	base := c.CtxAt(c.Height, c.Time.Add(dt))
	h.rec.Op(map[string]any{"op": "request", "mode": "cached", "h": c.Height, "dt": dt.Seconds(), "req": req})
	before := h.e.snapQueues(base)
	cctx, write := base.CacheContext()
	res := h.dispatch(cctx, req)
	after := h.e.snapQueues(cctx)
	h.evaluate([]request{req}, []result{res}, before, after, cctx, "cached")
	if res.OK {
		write()
	}
}

// dispatch: one request through the msg-server handler (wire format + ValidateBasic first) or the
// wasm router, on ctx. A panic is an observation (baseapp / wasmd recover it and fail the request).
func (h *hist) dispatch(cctx sdk.Context, req request) (res result) {
	c := h.e.c
	defer func() {
		if e := recover(); e != nil {
			res = result{OK: false, Err: fmt.Sprintf("PANIC: %v\n%s", e, debug.Stack())}
			h.rec.Count("panics_observed", 1)
		}
	}()
	var err error
	switch req.Path {
	case "handler":
		var msg sdk.Msg
		if req.Kind == "create" {
			// through the wire format, as a transaction would carry it
			m, m2 := h.createMsg(req), &schedulertypes.MsgCreateJob{}
			bz, _ := m.Marshal()
			if err = m2.Unmarshal(bz); err == nil {
				err = m2.ValidateBasic()
			}
			msg = m2
		} else {
			m, m2 := h.execMsg(req), &schedulertypes.MsgExecuteJob{}
			bz, _ := m.Marshal()
			if err = m2.Unmarshal(bz); err == nil {
				err = m2.ValidateBasic()
			}
			msg = m2
		}
		if err == nil {
			_, err = c.App.MsgServiceRouter().Handler(msg)(cctx, msg)
		}
	case "wasm", "wasm-legacy":
		p := h.principalByName(req.Caller)
		_, _, _, err = h.e.wasm.DispatchMsg(cctx, p.Addr, "", wasmvmtypes.CosmosMsg{Custom: h.wasmCustom(req)})
	default:
		err = fmt.Errorf("harness: unknown path %q", req.Path)
	}
	if err != nil {
		return result{OK: false, Err: err.Error()}
	}
	return result{OK: true}
}

// runBlock: requests as signed transactions in ONE real block.
func (h *hist) runBlock(unit []request) {
	c := h.e.c
	h.rec.Op(map[string]any{"op": "block", "h": c.Height + 1, "reqs": unit})
	before := h.e.snapQueues(c.Ctx())
	for _, req := range unit {
		p := h.principalByName(req.Caller)
		var msg sdk.Msg
		if req.Kind == "create" {
			msg = h.createMsg(req)
		} else {
			msg = h.execMsg(req)
		}
		if req.Signer != "" {
			p = h.principalByName(req.Signer)
		}
		if err := c.QueueTx(p.Acct, 0, msg); err != nil {
			h.rec.Inconclusive("cannot sign tx: " + err.Error())
			return
		}
	}
	br := c.NextBlockAfter(time.Duration(1+h.r.Intn(4)) * time.Second)
	if br.Panic != "" || br.Err != nil {
		h.rec.Violation("block/finalize-block-failed-on-scheduler-tx", fmt.Sprintf("FinalizeBlock failed: %s %v", br.Panic, br.Err), unit)
		return
	}
	if len(br.Txs) != len(unit) {
		h.rec.Inconclusive(fmt.Sprintf("block returned %d tx results for %d txs", len(br.Txs), len(unit)))
		return
	}
	var results []result
	for _, t := range br.Txs {
		results = append(results, result{OK: t.OK(), Err: t.Log})
	}
	h.rec.Count("blocks_with_requests", 1)
	if len(unit) > 1 {
		h.rec.Count("blocks_with_several_requests", 1)
	}
	h.evaluate(unit, results, before, h.e.snapQueues(c.Ctx()), c.Ctx(), "block")
}

// ---------------------------------------------------------------------------------------------
// the oracle

func (h *hist) violation(sig, msg string, reqs []request, res []result, extra any) {
	h.rec.Violation(sig, msg, map[string]any{"requests": reqs, "results": res, "detail": extra, "height": h.e.c.Height, "topology": h.e.topo})
}

func (h *hist) evaluate(unit []request, res []result, before, after qsnap, storeCtx sdk.Context, mode string) {
	rec := h.rec
	expected := map[string][]expectedCall{}
	anyOK := false
	fresh := map[string]bool{} // jobs created in this unit
	for i, req := range unit {
		h.nReq++
		rec.Count("requests", 1)
		rec.Count("requests_"+req.Path, 1)
		rec.Distinct(distinctKey(req, res[i]))
		caller := h.principalByName(req.Caller)
		switch req.Kind {
		case "create":
			rec.Eval(1)
			old := h.jobs[req.JobID]
			if !res[i].OK && res[i].RolledBack {
				// not refused itself: undone together with its transaction / only simulated
				rec.Count("create_rolled_back_with_its_transaction", 1)
				continue
			}
			if !res[i].OK {
				rec.Count("create_rejected", 1)
				switch {
				case old != nil:
					rec.Count("create_dup_rejected", 1)
					if !bytes.Equal(old.Owner, caller.Addr) {
						rec.Count("create_dup_by_other_principal_rejected", 1)
					}
				case req.Class == "new":
					if req.MEV && !mevChain(req.ChainRef) {
						rec.Count("create_mev_on_unsupported_chain_rejected", 1)
					} else {
						rec.Count("create_new_rejected_unexpectedly", 1)
						rec.Sample(map[string]any{"note": "well-formed create rejected", "req": req, "err": clipStr(res[i].Err)})
					}
				default:
					rec.Count("create_"+req.Class+"_rejected", 1)
				}
				continue
			}
			if old != nil {
				h.violation("create/duplicate-job-id-accepted:"+pathKind(req.Path),
					fmt.Sprintf("a second create for the existing job id %q succeeded", req.JobID), unit, res, nil)
			}
			rec.Count("create_ok", 1)
			rec.Count("create_ok_"+req.Path, 1)
			if req.Signer != "" {
				rec.Count("create_ok_signed_by_grantee_of_creator", 1)
			}
			if req.SpoofOwner != "" && req.SpoofOwner != req.Caller {
				rec.Count("create_ok_with_foreign_owner_field", 1)
			}
			body, _ := hex.DecodeString(req.BodyHex)
			abi, _ := hex.DecodeString(req.ABIHex)
			j := &jobRef{ID: req.JobID, Owner: caller.Addr, ChainType: req.ChainType, ChainRef: req.ChainRef,
				Definition: []byte(req.Definition), Payload: []byte(req.Payload), Body: body, Contract: req.Contract,
				ABI: abi, ABIHex: req.ABIIsHex, Modifiable: req.Modifiable, MEV: req.MEV}
			if old == nil {
				h.ids = append(h.ids, req.JobID)
			}
			if how, was := h.ghostOf[req.JobID]; was {
				// the id was created once before, on a store branch that was thrown away
				j.Reborn = true
				h.dropGhost(req.JobID)
				rec.Count("create_ok_of_id_rolled_back_earlier", 1)
				rec.Count("create_ok_of_id_rolled_back_earlier_"+how, 1)
			}
			h.jobs[req.JobID] = j
			fresh[req.JobID] = true
			if req.Class == "badpayload" || req.Class == "badid" || req.Class == "badchaintype" {
				rec.Count("create_"+req.Class+"_accepted", 1)
			}
		case "exec":
			rec.Eval(1)
			j := h.jobs[req.JobID]
			if !res[i].OK && res[i].RolledBack {
				rec.Count("exec_rolled_back_with_its_transaction", 1)
				continue
			}
			if _, ghost := h.ghostOf[req.JobID]; ghost && !res[i].OK {
				rec.Count("exec_failed_of_id_rolled_back_earlier", 1)
			}
			if !res[i].OK {
				rec.Count("exec_failed", 1)
				rec.Count("exec_failed_"+failClass(res[i].Err), 1)
				if j != nil {
					j.Fails++
				}
				if j != nil && req.HasSupplied && !j.Modifiable {
					rec.Count("exec_failed_fixed_job_with_supplied_payload", 1)
				}
				continue
			}
			anyOK = true
			if j == nil {
				h.violation("exec-success/job-never-created:"+pathKind(req.Path),
					fmt.Sprintf("execution of job id %q succeeded although no create for it ever succeeded", req.JobID), unit, res, nil)
				continue
			}
			ex := referenceCall(j, req, caller.Addr)
			if req.HasSupplied && !req.SuppliedOK && j.Modifiable {
				ex.SkipBody = true
				rec.Count("exec_ok_with_malformed_supplied_document", 1)
			}
			expected[j.ChainRef] = append(expected[j.ChainRef], ex)
			j.Execs++
			rec.Count("exec_ok", 1)
			rec.Count("exec_ok_"+req.Path, 1)
			rec.Count("exec_ok_chain_"+j.ChainRef, 1)
			if req.Signer != "" {
				rec.Count("exec_ok_signed_by_grantee_of_creator", 1)
			}
			switch {
			case j.Modifiable && req.HasSupplied:
				rec.Count("exec_ok_modifiable_supplied", 1)
			case j.Modifiable:
				rec.Count("exec_ok_modifiable_stored", 1)
			default:
				rec.Count("exec_ok_fixed_stored", 1)
			}
			if j.MEV {
				rec.Count("exec_ok_mev_job", 1)
			}
			if j.Reborn {
				rec.Count("exec_ok_of_job_whose_id_was_rolled_back_earlier", 1)
			}
			if caller.Contract {
				rec.Count(fmt.Sprintf("exec_ok_contract_addr_len_%d", len(caller.Addr)), 1)
			}
		}
	}

	// queue diff, chain by chain
	for _, ref := range h.e.observedChains() {
		exp := expected[ref]
		got := newMsgs(before, after, ref, "slc")
		rec.Eval(1)
		if len(got) != len(exp) {
			detail := map[string]any{"chain": ref, "expected_calls": len(exp), "new_logic_calls": len(got)}
			for _, g := range got {
				detail[fmt.Sprintf("msg_%d", g.ID)] = map[string]any{"contract": g.SLC.HexContractAddress, "payload": clip(g.SLC.Payload)}
			}
			switch {
			case !anyOK:
				h.violation("exec-failed/logic-call-enqueued:"+mode,
					fmt.Sprintf("%d logic call(s) appeared on %s although every request failed", len(got), ref), unit, res, detail)
			case len(exp) == 0:
				h.violation("exec-success/logic-call-on-a-chain-that-is-not-the-jobs-target",
					fmt.Sprintf("%d logic call(s) appeared on %s, no successful request targets it", len(got), ref), unit, res, detail)
			default:
				h.violation("exec-success/number-of-logic-calls-enqueued-is-not-one",
					fmt.Sprintf("%d successful execution request(s) for %s enqueued %d logic call(s)", len(exp), ref, len(got)), unit, res, detail)
			}
			continue
		}
		for k, ex := range exp {
			rec.Eval(1)
			rec.Count("calls_compared", 1)
			ms := compareCall(ex, ref, got[k])
			for _, m := range ms {
				h.violation(m.Sig, m.Msg, unit, res, map[string]any{"chain": ref, "msg_id": got[k].ID, "job": ex.Job.ID,
					"job_modifiable": ex.Job.Modifiable, "caller": hex.EncodeToString(ex.Caller), "enqueued_payload": clip(got[k].SLC.Payload)})
			}
			lc := got[k].SLC
			if !bytes.Equal(lc.SenderAddress, ex.Caller) {
				rec.Count("info_sender_address_field_differs_from_caller", 1)
			}
			if len(ms) == 0 && h.samples < 3 {
				h.samples++
				rec.Sample(map[string]any{"request": ex.Req, "job_chain": ex.Job.ChainRef, "job_modifiable": ex.Job.Modifiable, "job_mev": ex.Job.MEV,
					"enqueued_contract": lc.HexContractAddress, "enqueued_payload": clip(lc.Payload), "caller": hex.EncodeToString(ex.Caller)})
			}
		}
		if len(exp) > 0 {
			vs := newMsgs(before, after, ref, "valset")
			if len(vs) > 1 {
				h.violation("exec-success/more-than-one-valset-update-enqueued",
					fmt.Sprintf("%d new valset updates on %s next to %d logic call(s)", len(vs), ref, len(exp)), unit, res, nil)
			}
			if len(vs) == 1 {
				rec.Count("exec_ok_accompanied_by_valset_update", 1)
			}
			if o := newMsgs(before, after, ref, "other"); len(o) > 0 {
				rec.Count("info_other_new_messages_next_to_call", int64(len(o)))
			}
		}
	}

	h.checkJobStore(storeCtx, unit, res, fresh)
	h.checkJobQuery(storeCtx, unit, res, mode)
}

// checkJobStore: the scheduler store's job records against the reference book.
func (h *hist) checkJobStore(ctx sdk.Context, unit []request, res []result, fresh map[string]bool) {
	rec := h.rec
	raw := h.e.rawJobs(ctx)
	rec.Count("store_checks", 1)
	for id, ref := range h.jobs {
		rec.Eval(1)
		rec.Count("job_records_compared", 1)
		bz, ok := raw[id]
		if !ok {
			h.violation("job-store/record-disappeared", fmt.Sprintf("job %q is no longer in the store", id), unit, res, nil)
			continue
		}
		if ref.Raw != nil && bytes.Equal(bz, ref.Raw) {
			continue
		}
		var j schedulertypes.Job
		if err := j.Unmarshal(bz); err != nil {
			h.violation("job-store/record-undecodable", fmt.Sprintf("job %q: %v", id, err), unit, res, nil)
			continue
		}
		d := diffJobFields(&j, ref)
		if ref.Raw == nil {
			// first sight after creation: must be what was asked for, owned by the creator
			if len(d) > 0 {
				h.violation("create/stored-job-differs-from-request:"+strings.Join(d, "+"),
					fmt.Sprintf("job %q stored with different %v (owner stored %x, creator %x)", id, d, []byte(j.Owner), ref.Owner), unit, res, nil)
			}
			ref.Raw = bz
			continue
		}
		if len(d) > 0 {
			h.violation("job-store/job-changed-after-creation:"+strings.Join(d, "+"),
				fmt.Sprintf("job %q changed in %v after its creation", id, d), unit, res, map[string]any{"stored_now": j.String()})
		} else {
			rec.Count("info_job_record_bytes_changed_outside_property_fields", 1)
		}
		ref.Raw = bz
	}
	for id := range raw {
		if h.jobs[id] == nil {
			allFailed := true
			for _, r := range res {
				allFailed = allFailed && !r.OK
			}
			if allFailed {
				// residue of a failed request inside a cache context that is about to be dropped
				rec.Count("info_record_left_by_failed_request_in_dropped_cache", 1)
				continue
			}
			h.violation("job-store/record-without-successful-create", fmt.Sprintf("job %q is in the store, no create for it succeeded", id), unit, res, nil)
		}
	}
	_ = fresh
}

// ---------------------------------------------------------------------------------------------

func mevChain(ref string) bool { return ref == "eth-main" || ref == "bnb-main" || ref == "matic-main" }

func pathKind(p string) string {
	if p == "wasm" || p == "wasm-legacy" {
		return "contract"
	}
	return "account"
}

func clipStr(s string) string {
	if len(s) > 300 {
		return s[:300] + "..."
	}
	return s
}

// failClass: coarse class of an execution failure, from the error text (coverage counters only).
func failClass(e string) string {
	switch {
	case strings.Contains(e, "PANIC"):
		return "panic"
	case strings.Contains(e, "job not found"):
		return "unknown_job"
	case strings.Contains(e, "cannot modify job's payload"):
		return "cannot_modify_payload"
	case strings.Contains(e, "no assignable validators"):
		return "relayer_selection_no_mev_relayer"
	case strings.Contains(e, "no validators eligible"):
		return "relayer_selection_no_eligible_relayer"
	case strings.Contains(e, "was not found"):
		return "unknown_chain"
	case strings.Contains(e, "missing payload") || strings.Contains(e, "payload bytes is empty"):
		return "wasm_empty_payload"
	case strings.Contains(e, "invalid character") || strings.Contains(e, "unexpected end of JSON") || strings.Contains(e, "cannot unmarshal"):
		return "malformed_supplied_document"
	}
	return "other"
}

func distinctKey(req request, res result) string {
	b, _ := json.Marshal(req)
	return fmt.Sprintf("%s|%v", b, res.OK)
}

var _ = sort.Strings

func init() {
	fw.Register(&fw.Prop{
		ID:    "C17",
		Level: "exploration",
		Rule: "one real app per case (5 EVM chains; per-variant topology: which validators carry the MEV trait on which chain, which chains have relayer fees, which are active / have a published snapshot); " +
			"a seeded history of create / execute requests (quick 48 x ~120, thorough 64 x ~480) by 4 accounts and 3 contracts (32- and 20-byte addresses) through three routes: signed txs in real blocks (1-3 per block, " +
			"incl. same-id creates and create+execute in one block), the msg-server handler on a cache context, and the real wasm router + scheduler bindings (new and legacy message format); " +
			"creates: fresh / duplicate ids (other owner, other content), illegal ids (length 33, upper case, reserved words), foreign Job.Owner, malformed payload, unsupported chain type, MEV on (un)supported chains; " +
			"executes: stored vs supplied payload on modifiable and fixed jobs, unknown jobs, unknown chain, chain without relayer fees, MEV job without MEV relayer, malformed supplied documents, empty wasm payload; " +
			"stake churn + snapshot rebuilds make just-in-time valset updates accompany calls; " +
			"~9 % of the units are atomic groups [create X, execute X (, execute X) (, a request that cannot succeed)] run as one multi-message tx in a block, as the SIMULATION of that tx (BaseApp.Simulate), " +
			"or as the messages of one handler / contract execution on one cache context: when a member fails (or the tx was only simulated) the group never happened, its ids are re-used by later creates with other content " +
			"and asked for by later executions and queries; after every unit the scheduler's query service (QueryGetJobByID) is asked for the jobs touched, one job of the book and one rolled-back id. " +
			"distinct_nontrivial = distinct (request content, outcome) pairs that reached the scheduler; evaluations = per-request verdicts + per-chain queue diffs + enqueued-call comparisons + job-record comparisons",
		Assumptions: []string{
			"payload documents are JSON objects whose hexPayload is even-length hexadecimal (optionally 0x/0X prefixed, any case); odd-length / non-hex strings have no defined call data and are not generated",
			"job definitions carry a 20-byte hex contract address; the abi bytes of the enqueued call are compared only when the definition's abi field is a hex string",
			"a contract's request = the real libwasm router + scheduler binding called with the contract address on a cache context that is committed only on success (wasmd's DispatchSubmessages discipline); no wasm VM runs",
			"'failed request enqueues no contract call' is observed on the cache context of the failed handler/binding call before it is dropped, and on committed state for transactions",
			"contract addresses are at most 32 bytes",
			"a transaction that failed at any message, or was only simulated, counts as never having happened: ids created in it are free, executions of them must fail, queries must not find them",
			"'never change after creation' is also read off the module's own query service (QueryGetJobByID), not only off the raw store",
		},
		Cases: cases,
		Run:   run,
		MinCounters: []string{"create_ok", "create_dup_rejected", "create_ok_with_foreign_owner_field",
			"exec_ok_tx", "exec_ok_signed_by_grantee_of_creator", "create_ok_signed_by_grantee_of_creator", "exec_ok_handler", "exec_ok_wasm", "exec_ok_wasm-legacy",
			"exec_ok_modifiable_supplied", "exec_ok_modifiable_stored", "exec_ok_fixed_stored", "exec_ok_mev_job",
			"exec_failed_cannot_modify_payload", "exec_failed_relayer_selection_no_mev_relayer", "exec_failed_relayer_selection_no_eligible_relayer",
			"exec_failed_unknown_job", "exec_failed_unknown_chain", "exec_ok_accompanied_by_valset_update", "calls_compared", "job_records_compared",
			"atomic_groups_committed", "atomic_groups_rolled_back_tx", "atomic_groups_rolled_back_handler", "atomic_groups_rolled_back_wasm", "atomic_groups_simulated",
			"create_ok_of_id_rolled_back_earlier", "exec_ok_of_job_whose_id_was_rolled_back_earlier", "exec_failed_of_id_rolled_back_earlier",
			"job_queries_compared", "job_queries_of_rolled_back_ids_not_found"},
		TimeoutS: 1200,
	})
}
