package c17

import (
	"fmt"
	"regexp"
	"runtime/debug"
	"strconv"
	"time"

	sdk "github.com/cosmos/cosmos-sdk/types"

	schedulertypes "github.com/palomachain/paloma/v2/x/scheduler/types"

	"verif/harness/chain"
)

// Atomic groups: several create / execute requests that stand or fall TOGETHER, the way the
// messages of one transaction (baseapp.runMsgs) or the messages one contract execution emits
// (wasmd's DispatchSubmessages) do. A group always starts by creating a job and goes on running it,
// so a job can come into being, be read and run, and then vanish again with the store branch it
// lived on. Four routes:
//
//	tx       one signed multi-message transaction in a real block
//	sim      the same transaction handed to the application's gas-estimation entry point
//	         (BaseApp.Simulate, what /cosmos.tx.v1beta1.Service/Simulate calls): executed, never committed
//	handler  every message through the msg-service router on ONE cache context, each on its own nested
//	         branch that is merged on success; the first failure drops the whole context
//	wasm     the same through the wasm router + scheduler bindings (a contract that creates a job and
//	         runs it in one execution)
//
// For the oracle a group that failed (or was only simulated) NEVER HAPPENED: the reference job book is
// put back to what it was, its ids are free again ("ghost" ids, re-used by later creates with other
// content, asked for by later executions and queries), nothing may have been enqueued.

type group struct {
	Route  string    `json:"route"`
	N      int       `json:"n"`
	Reqs   []request `json:"reqs"`
	Poison string    `json:"poison,omitempty"` // the generator's intent for the last member
}

func (h *hist) genGroup() group {
	r := h.r
	h.nGroup++
	g := group{Route: wpick(r, []string{"tx", "sim", "handler", "wasm"}, []int{30, 26, 24, 20}), N: h.nGroup}
	path := g.Route
	if path == "sim" {
		path = "tx"
	}
	first := h.genCreateClass(path, nil, "new")
	if path == "wasm" && r.Intn(100) < 70 {
		first.Modifiable = true // a contract always supplies a payload
	}
	g.Reqs = []request{first}
	member := func(q request) {
		q.Caller, q.Signer = first.Caller, first.Signer
		g.Reqs = append(g.Reqs, q)
	}
	nExec := 1
	if r.Intn(100) < 30 {
		nExec = 2
	}
	for i := 0; i < nExec; i++ {
		p := path
		if p == "wasm" && r.Intn(3) == 0 {
			p = "wasm-legacy"
		}
		q := h.genExec(p, nil)
		q.JobID, q.Class = first.JobID, ""
		if !first.Modifiable && q.HasSupplied && p != "wasm" && p != "wasm-legacy" && r.Intn(100) < 60 {
			// do not let most groups around fixed jobs die of "cannot modify payload"
			q.HasSupplied, q.SuppliedOK, q.Supplied, q.SuppliedBody = false, false, "", ""
		}
		member(q)
	}
	// the last member: sometimes a request that cannot succeed, so that everything before it is undone
	switch x := r.Intn(100); {
	case x < 22:
		p := path
		q := h.genExec(p, nil)
		q.JobID, q.Class = h.freshID(), "unknown-job"
		g.Poison = "exec-of-unknown-job"
		member(q)
	case x < 40:
		q := h.genCreateClass(path, nil, "new")
		q.JobID, q.Class = first.JobID, "dup-same-group"
		g.Poison = "second-create-of-the-same-id"
		member(q)
	}
	for i := range g.Reqs {
		g.Reqs[i].Group = fmt.Sprintf("%s#%d", g.Route, g.N)
	}
	return g
}

// ---------------------------------------------------------------------------------------------
// the reference job book can be put back (a rolled-back group never happened)

type bookSnap struct {
	jobs    map[string]jobRef
	ids     []string
	ghosts  []string
	ghostOf map[string]string
}

func (h *hist) snapBook() bookSnap {
	b := bookSnap{jobs: map[string]jobRef{}, ghostOf: map[string]string{}}
	for id, j := range h.jobs {
		b.jobs[id] = *j
	}
	b.ids = append(b.ids, h.ids...)
	b.ghosts = append(b.ghosts, h.ghosts...)
	for k, v := range h.ghostOf {
		b.ghostOf[k] = v
	}
	return b
}

func (h *hist) restoreBook(b bookSnap) {
	h.jobs = map[string]*jobRef{}
	for id, j := range b.jobs {
		jj := j
		h.jobs[id] = &jj
	}
	h.ids, h.ghosts, h.ghostOf = b.ids, b.ghosts, b.ghostOf
}

func (h *hist) addGhost(id, how string) {
	if id == "" || h.jobs[id] != nil {
		return
	}
	if _, was := h.ghostOf[id]; was {
		return
	}
	h.ghostOf[id] = how
	h.ghosts = append(h.ghosts, id)
}

func (h *hist) dropGhost(id string) {
	delete(h.ghostOf, id)
	for i, g := range h.ghosts {
		if g == id {
			h.ghosts = append(h.ghosts[:i:i], h.ghosts[i+1:]...)
			return
		}
	}
}

// newID: an id for a well-formed create - brand new, or one that was created once before on a store
// branch that was thrown away (and is therefore as free as a brand-new one).
func (h *hist) newID() string {
	if len(h.ghosts) > 0 && h.r.Intn(100) < 60 {
		return pick(h.r, h.ghosts)
	}
	return h.freshID()
}

// ---------------------------------------------------------------------------------------------

var reMsgIndex = regexp.MustCompile(`message index: (\d+)`)

func (h *hist) runGroup(g group) {
	rec := h.rec
	rec.Count("atomic_groups", 1)
	rec.Count("atomic_groups_"+g.Route, 1)
	committed := false
	switch g.Route {
	case "tx", "sim":
		committed = h.runGroupTx(g)
	default:
		committed = h.runGroupCached(g)
	}
	if committed {
		rec.Count("atomic_groups_committed", 1)
		rec.Count("atomic_groups_committed_"+g.Route, 1)
		return
	}
	if g.Route == "sim" {
		rec.Count("atomic_groups_simulated", 1)
	} else {
		rec.Count("atomic_groups_rolled_back", 1)
		rec.Count("atomic_groups_rolled_back_"+g.Route, 1)
	}
	for _, q := range g.Reqs {
		if q.Kind == "create" {
			h.addGhost(q.JobID, g.Route)
		}
	}
}

// runGroupTx: the group as ONE signed transaction, in a real block (tx) or through the
// application's simulation entry point (sim). Reports whether its effects were committed.
func (h *hist) runGroupTx(g group) bool {
	c := h.e.c
	rec := h.rec
	var msgs []sdk.Msg
	for _, q := range g.Reqs {
		if q.Kind == "create" {
			msgs = append(msgs, h.createMsg(q))
		} else {
			msgs = append(msgs, h.execMsg(q))
		}
	}
	signer := h.principalByName(g.Reqs[0].Caller)
	if g.Reqs[0].Signer != "" {
		signer = h.principalByName(g.Reqs[0].Signer)
	}
	raw, err := c.SignTx([]*chain.Account{signer.Acct}, msgs, chain.TxOpts{})
	if err != nil {
		rec.Inconclusive("cannot sign group tx: " + err.Error())
		return false
	}
	before := h.e.snapQueues(c.Ctx())
	res := make([]result, len(g.Reqs))
	if g.Route == "sim" {
		rec.Op(map[string]any{"op": "simulate", "h": c.Height, "group": g})
		simErr := ""
		func() {
			defer func() {
				if e := recover(); e != nil {
					simErr = fmt.Sprintf("PANIC: %v\n%s", e, debug.Stack())
					rec.Count("panics_observed", 1)
				}
			}()
			if _, _, err := c.App.Simulate(raw); err != nil {
				simErr = err.Error()
			}
		}()
		if simErr == "" {
			rec.Count("atomic_groups_simulated_all_messages_ok", 1)
			simErr = "(simulation succeeded; nothing is committed)"
		} else {
			rec.Count("atomic_groups_simulated_with_a_failing_message", 1)
		}
		for i := range res {
			res[i] = result{OK: false, RolledBack: true, Err: "simulated only: " + clipStr(simErr)}
		}
		h.evaluate(g.Reqs, res, before, h.e.snapQueues(c.Ctx()), c.Ctx(), "simulated")
		return false
	}
	rec.Op(map[string]any{"op": "block", "h": c.Height + 1, "group": g})
	c.Queue(raw)
	br := c.NextBlockAfter(time.Duration(1+h.r.Intn(4)) * time.Second)
	if br.Panic != "" || br.Err != nil {
		rec.Violation("block/finalize-block-failed-on-scheduler-tx", fmt.Sprintf("FinalizeBlock failed: %s %v", br.Panic, br.Err), g)
		return false
	}
	if len(br.Txs) != 1 {
		rec.Inconclusive(fmt.Sprintf("block returned %d tx results for 1 tx", len(br.Txs)))
		return false
	}
	t := br.Txs[0]
	rec.Count("blocks_with_requests", 1)
	rec.Count("txs_with_several_messages", 1)
	failedAt := -1
	if m := reMsgIndex.FindStringSubmatch(t.Log); m != nil {
		failedAt, _ = strconv.Atoi(m[1])
	}
	for i := range res {
		// which message is to blame is read from the log for the coverage counters only; for the
		// verdicts every member of a failed transaction is simply "not done"
		res[i] = result{OK: t.OK(), Err: t.Log, RolledBack: !t.OK() && i != failedAt}
	}
	h.evaluate(g.Reqs, res, before, h.e.snapQueues(c.Ctx()), c.Ctx(), "block")
	return t.OK()
}

// runGroupCached: every member on its own branch of ONE cache context; a member's branch is merged
// when it succeeds, the first failure drops the context and takes the earlier members with it.
// Every member is judged on its branch before that (like runCached does).
func (h *hist) runGroupCached(g group) bool {
	c := h.e.c
	dt := time.Duration(h.r.Intn(7)) * time.Second
	base := c.CtxAt(c.Height, c.Time.Add(dt))
	h.rec.Op(map[string]any{"op": "group", "mode": "cached", "h": c.Height, "dt": dt.Seconds(), "group": g})
	book := h.snapBook()
	gctx, writeGroup := base.CacheContext()
	for _, q := range g.Reqs {
		before := h.e.snapQueues(gctx)
		mctx, writeMember := gctx.CacheContext()
		res := h.dispatch(mctx, q)
		h.evaluate([]request{q}, []result{res}, before, h.e.snapQueues(mctx), mctx, "cached")
		if !res.OK {
			h.restoreBook(book)
			return false
		}
		writeMember()
	}
	writeGroup()
	return true
}

// ---------------------------------------------------------------------------------------------
// the job as the module's query service returns it

// checkJobQuery asks the scheduler's gRPC query server (QueryGetJobByID) under ctx for every job id
// the unit touched, for one more job of the book and for one id whose creation was rolled back:
// a job of the book must come back as it was created, anything else must not be found.
func (h *hist) checkJobQuery(ctx sdk.Context, unit []request, res []result, mode string) {
	rec := h.rec
	allFailed := true
	for _, r := range res {
		allFailed = allFailed && !r.OK
	}
	seen := map[string]bool{}
	var ids []string
	add := func(id string) {
		if id != "" && !seen[id] {
			seen[id] = true
			ids = append(ids, id)
		}
	}
	for _, q := range unit {
		add(q.JobID)
	}
	if len(h.ids) > 0 {
		add(pick(h.r, h.ids))
	}
	if len(h.ghosts) > 0 {
		add(pick(h.r, h.ghosts))
	}
	for _, id := range ids {
		var job *schedulertypes.Job
		qerr := ""
		func() {
			defer func() {
				if e := recover(); e != nil {
					qerr = fmt.Sprintf("PANIC: %v", e)
				}
			}()
			resp, err := h.e.c.App.SchedulerKeeper.QueryGetJobByID(ctx, &schedulertypes.QueryGetJobByIDRequest{JobID: id})
			if err != nil {
				qerr = err.Error()
			} else if resp != nil {
				job = resp.Job
			}
		}()
		rec.Eval(1)
		ref := h.jobs[id]
		switch {
		case ref != nil && job == nil:
			h.violation("job-query/job-not-returned", fmt.Sprintf("job %q was created, the query service does not return it: %s", id, clipStr(qerr)), unit, res, nil)
		case ref != nil:
			rec.Count("job_queries_compared", 1)
			if d := diffJobFields(job, ref); len(d) > 0 {
				h.violation("job-query/job-differs-from-creation:"+joinPlus(d),
					fmt.Sprintf("job %q as returned by the query service differs in %v from what was created", id, d), unit, res, map[string]any{"returned": job.String()})
			}
		case job != nil:
			if _, ghost := h.ghostOf[id]; !ghost && allFailed && mode == "cached" {
				// residue of a failed request inside a cache context that is about to be dropped
				rec.Count("info_job_returned_after_failed_request_in_dropped_cache", 1)
				continue
			}
			h.violation("job-query/job-without-successful-create", fmt.Sprintf("the query service returns a job %q, no create for it succeeded (or it was rolled back)", id), unit, res, map[string]any{"returned": job.String()})
		default:
			rec.Count("job_queries_of_unknown_ids_not_found", 1)
			if _, ghost := h.ghostOf[id]; ghost {
				rec.Count("job_queries_of_rolled_back_ids_not_found", 1)
			}
		}
	}
}

func joinPlus(d []string) string {
	out := ""
	for i, s := range d {
		if i > 0 {
			out += "+"
		}
		out += s
	}
	return out
}
