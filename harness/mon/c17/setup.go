package c17

import (
	"crypto/sha256"
	"fmt"

	"cosmossdk.io/log"
	"cosmossdk.io/x/feegrant"
	wasmkeeper "github.com/CosmWasm/wasmd/x/wasm/keeper"
	sdk "github.com/cosmos/cosmos-sdk/types"

	"github.com/palomachain/paloma/v2/util/libwasm"
	schedulerbindings "github.com/palomachain/paloma/v2/x/scheduler/bindings"
	schedulerkeeper "github.com/palomachain/paloma/v2/x/scheduler/keeper"
	valsettypes "github.com/palomachain/paloma/v2/x/valset/types"

	"verif/harness/chain"
	"verif/harness/world"
)

// chainDef: one remote EVM chain of the small world.
type chainDef struct {
	Ref string
	ID  uint64
}

// The world of every case. eth/bnb/matic are the chains on which paloma allows MEV jobs.
// "gnosis-main" is never added to the evm module (unknown chain).
var worldChains = []chainDef{
	{"eth-main", 1}, {"bnb-main", 56}, {"matic-main", 137}, {"arb-main", 42161}, {"op-main", 10},
}

const unknownChain = "gnosis-main"

// topology of one case, derived from the variant number only.
type topology struct {
	// MEV[chain] = indices of validators that registered the MEV trait on that chain
	MEV map[string][]int `json:"mev"`
	// FeeChains: chains for which validators set a relayer fee (others: no eligible relayer)
	FeeChains []string `json:"fee_chains"`
	// Active: chains activated with a compass contract
	Active []string `json:"active"`
	// Published: active chains on which the first snapshot is marked live (=> just-in-time valset
	// updates can fire after a later snapshot)
	Published []string `json:"published"`
	NVals     int      `json:"n_vals"`
}

func topologyOf(variant int) topology {
	t := topology{MEV: map[string][]int{}, NVals: 4 + variant%2}
	switch variant % 3 {
	case 0:
		t.MEV["eth-main"] = []int{0, 2}
	case 1:
		t.MEV["bnb-main"] = []int{1}
		t.MEV["matic-main"] = []int{0, 1} // MEV relayers, but (mostly) no fee on matic
	case 2:
		t.MEV["eth-main"] = []int{0, 1, 2, 3}
		t.MEV["bnb-main"] = []int{3}
	}
	t.FeeChains = []string{"eth-main", "bnb-main", "arb-main", "op-main"}
	if variant%4 == 3 {
		t.FeeChains = append(t.FeeChains, "matic-main")
	}
	t.Active = []string{"eth-main", "bnb-main", "matic-main", "arb-main"}
	if variant%2 == 1 {
		t.Active = append(t.Active, "op-main")
	}
	t.Published = []string{"eth-main", "bnb-main"}
	if variant%3 != 0 {
		t.Published = append(t.Published, "arb-main")
	}
	return t
}

// principal: somebody who can ask for a job to be created / executed.
type principal struct {
	Name     string
	Addr     sdk.AccAddress
	Acct     *chain.Account // nil for contracts
	Contract bool
}

type env struct {
	c      *chain.Chain
	topo   topology
	vals   []chain.ValSpec
	users  []*principal
	contrs []*principal
	wasm   wasmkeeper.Messenger // the REAL router + scheduler bindings, built as app.go does
}

func contractAddr(i int, n int) sdk.AccAddress {
	h := sha256.Sum256([]byte(fmt.Sprintf("c17/contract/%d", i)))
	return sdk.AccAddress(h[:n])
}

func setup(variant int) (*env, error) {
	topo := topologyOf(variant)
	stakes := []int64{40_000_000, 30_000_000, 20_000_000, 10_000_000, 15_000_000}[:topo.NVals]
	e := &env{topo: topo}
	e.vals = chain.DefaultValidators(fmt.Sprintf("c17v%d", variant), stakes)
	users := map[*chain.Account]sdk.Coins{}
	for i := 0; i < 4; i++ {
		a := chain.NewAccount(fmt.Sprintf("u%d", i), fmt.Sprintf("c17/u%d", i))
		users[a] = sdk.NewCoins(sdk.NewInt64Coin(chain.Denom, 1_000_000_000_000))
		e.users = append(e.users, &principal{Name: a.Name, Addr: a.Addr, Acct: a})
	}
	// contract addresses are supplied by the harness: two 32-byte (instantiate2 / modern wasmd) and
	// one 20-byte (classic) address
	for i, n := range []int{32, 32, 20} {
		e.contrs = append(e.contrs, &principal{Name: fmt.Sprintf("k%d", i), Addr: contractAddr(i, n), Contract: true})
	}
	var specs []chain.EVMChainSpec
	var refs []string
	for _, cd := range worldChains {
		specs = append(specs, chain.EVMChainSpec{RefID: cd.Ref, ChainID: cd.ID})
		refs = append(refs, cd.Ref)
	}
	c := chain.New(chain.Config{Validators: e.vals, Users: users, EVMChains: specs, WithCompass: true})
	e.c = c
	// the KV tracer (io.Discard writer) costs a lot and has no influence on execution
	c.App.CommitMultiStore().SetTracer(nil)
	c.Skip(1)

	// bootstrap: external accounts (with traits), keep-alive, relayer fees; one block of real txs
	for vi, v := range e.vals {
		reg := &valsettypes.MsgAddExternalChainInfoForValidator{Metadata: world.Meta(v.Acct)}
		for _, ref := range refs {
			var traits []string
			for _, m := range topo.MEV[ref] {
				if m == vi {
					traits = append(traits, valsettypes.PIGEON_TRAIT_MEV)
				}
			}
			reg.ChainInfos = append(reg.ChainInfos, world.ExtInfo(v.Acct, ref, traits...))
		}
		if err := c.QueueTx(v.Acct, 0, reg); err != nil {
			return e, err
		}
		if err := c.QueueTx(v.Acct, 1, world.MsgKeepAlive(v.Acct, world.PigeonVersion)); err != nil {
			return e, err
		}
		fees := map[string]string{}
		for fi, ch := range topo.FeeChains {
			fees[ch] = fmt.Sprintf("1.%d", 1+(vi+fi)%3)
		}
		if err := c.QueueTx(v.Acct, 2, world.MsgRelayerFee(v.Acct, fees)); err != nil {
			return e, err
		}
	}
	br := c.NextBlock()
	if br.Panic != "" || br.Err != nil {
		return e, fmt.Errorf("bootstrap block failed: %s %v", br.Panic, br.Err)
	}
	for i, r := range br.Txs {
		if !r.OK() {
			return e, fmt.Errorf("bootstrap tx %d failed: %s", i, r.Log)
		}
	}
	for i, ref := range topo.Active {
		if err := world.ActivateChain(c, ref, fmt.Sprintf("0x00000000000000000000000000000000000c0d%02x", i), []byte("compass-"+ref)); err != nil {
			return e, fmt.Errorf("activate %s: %w", ref, err)
		}
	}
	c.Skip(1)
	// u0 authorises u3 to act for it (fee grant): paloma's ante decorator then accepts messages
	// whose creator is u0 and whose only signer is u3. The requester of such a message is u0.
	grant, err := feegrant.NewMsgGrantAllowance(&feegrant.BasicAllowance{}, e.users[0].Addr, e.users[3].Addr)
	if err != nil {
		return e, err
	}
	if res := c.Deliver(e.users[0].Acct, grant); !res.OK() {
		return e, fmt.Errorf("fee grant u0->u3 failed: %s", res.Log)
	}
	if _, err := world.BuildSnapshot(c); err != nil {
		return e, fmt.Errorf("snapshot: %w", err)
	}
	cur, err := c.App.ValsetKeeper.GetCurrentSnapshot(c.Ctx())
	if err != nil || cur == nil {
		return e, fmt.Errorf("no current snapshot: %v", err)
	}
	for _, ref := range topo.Published {
		// what the attested compass deployment / UpdateValset flow ends in
		if err := c.App.ValsetKeeper.SetSnapshotOnChain(c.Ctx(), cur.Id, ref); err != nil {
			return e, fmt.Errorf("publish snapshot on %s: %w", ref, err)
		}
	}
	c.Skip(1)

	// the wasm message router exactly as app.go:buildWasmMessageDecorator wires it (scheduler part;
	// the skyway / tokenfactory messengers are never reached by scheduler messages)
	srv := schedulerkeeper.NewMsgServerImpl(&c.App.SchedulerKeeper)
	dec := libwasm.NewRouterMessageDecorator(
		log.NewNopLogger(),
		schedulerbindings.NewLegacyMessenger(&c.App.SchedulerKeeper),
		schedulerbindings.NewMessenger(&c.App.SchedulerKeeper, srv),
		nil, nil,
	)
	e.wasm = dec(nil)
	return e, nil
}
