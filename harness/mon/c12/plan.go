package c12

import (
	"fmt"
	"math/rand"
)

// valPlan is the behaviour of one validator (and of its relayer) in one history.
type valPlan struct {
	Name   string `json:"name"`
	Class  string `json:"class"`           // address byte-pattern class (addr.go)
	Stake  int64  `json:"stake"`           // ugrain self-delegation at genesis
	Policy string `json:"policy"`          // renew | once | silent | stay | version
	H0     int64  `json:"h0,omitempty"`    // block of the first keep-alive
	Every  int64  `json:"every,omitempty"` // renew: distance between keep-alives
	Jump   int    `json:"jump_pct"`        // % of unjail attempts for which block time jumps to the end of the sentence
	Res    int    `json:"res"`             // wanted (unjail block % 10), -1 = any
	Delay  int64  `json:"delay"`           // blocks to wait before trying to unjail
}

const (
	polRenew   = "renew"   // keep-alive at H0 and every Every blocks, unjails itself when jailed
	polOnce    = "once"    // one keep-alive at H0, then silence; unjails itself and is jailed again
	polSilent  = "silent"  // never a keep-alive; unjails itself and is jailed again (sentence ladder)
	polStay    = "stay"    // never a keep-alive, stays jailed
	polVersion = "version" // keep-alives with version strings around the minimum
)

type plan struct {
	Kind       string    `json:"kind"`
	Blocks     int64     `json:"blocks"`
	Vals       []valPlan `json:"vals"`
	UnbondingS int64     `json:"unbonding_s"`
	MaxValsAt  int64     `json:"max_vals_at,omitempty"` // block before which MaxValidators is lowered (0 = never)
	MaxVals    uint32    `json:"max_vals,omitempty"`
	StakeMoves int       `json:"stake_moves_per_1000"` // expected whale stake moves per 1000 blocks
	GovOps     int       `json:"gov_ops_per_1000"`
	RealGov    bool      `json:"real_gov,omitempty"`
	TimeJumps  int       `json:"time_jumps_per_1000"`
}

var kinds = []string{"ttl", "cycle", "stake", "endgame", "unbond", "version", "mix"}

func pick[T any](r *rand.Rand, xs ...T) T { return xs[r.Intn(len(xs))] }

// ttlH0 picks a first keep-alive height whose expiry (h0+2000) has the wanted residue mod 10, so
// that a liveness check falls exactly on / just before / just after the expiry.
func ttlH0(r *rand.Rand, lo int64) int64 {
	res := pick(r, int64(0), 0, 1, 9, 5, int64(r.Intn(10)))
	h := lo + int64(r.Intn(6))*10
	h = h - h%10 + res
	if h < 2 {
		h += 10
	}
	return h
}

func classesFor(r *rand.Rand, n int, must ...string) []string {
	out := append([]string{}, must...)
	for len(out) < n {
		out = append(out, pick(r, clsPlain, clsPlain, clsZero, clsNearMiss, cls2cMid, cls2cStart, cls2cEnd, cls2cTwice))
	}
	r.Shuffle(len(out), func(i, j int) { out[i], out[j] = out[j], out[i] })
	return out[:n]
}

// mkPlan builds the seed-determined plan of one history.
func mkPlan(kind string, variant int, blocks int64, tier string, r *rand.Rand) plan {
	p := plan{Kind: kind, Blocks: blocks, UnbondingS: 60}
	mu := int64(1_000_000)
	jit := func() int64 { return pick(r, int64(0), 0, 1, 999_999, int64(r.Intn(1_000_000))) } // sub-power remainders (truncation)
	add := func(cls, pol string, stake int64) *valPlan {
		p.Vals = append(p.Vals, valPlan{Name: fmt.Sprintf("v%d", len(p.Vals)), Class: cls, Stake: stake, Policy: pol,
			Jump: 100, Res: -1})
		return &p.Vals[len(p.Vals)-1]
	}
	rare := cls2cAdj
	if tier != "thorough" {
		rare = cls2cTwice
	}
	switch kind {
	case "ttl":
		// equal-ish small stakes (nobody protected); expiry boundaries of the 2000-block lifetime
		// v0..v2: one keep-alive whose expiry falls exactly on a check (h0 % 10 == 0), one block after a
		// check (1) and one block before (9), on 0x2c-free addresses; the rest is drawn
		cl := append([]string{pick(r, clsPlain, clsZero), clsPlain, pick(r, clsPlain, clsNearMiss)},
			classesFor(r, 4, cls2cMid, pick(r, clsPlain, clsZero, cls2cEnd, cls2cStart))...)
		pols := []string{polOnce, polOnce, polOnce, polRenew, polRenew, polSilent, polOnce}
		fixed := []int64{0, 1, 9}
		for i := 0; i < 7; i++ {
			v := add(cl[i], pols[i], (10+int64(r.Intn(5)))*mu+jit())
			v.H0 = ttlH0(r, 2+int64(r.Intn(150)))
			if i < len(fixed) {
				v.H0 = v.H0 - v.H0%10 + fixed[i]
				if v.H0 < 2 {
					v.H0 += 10
				}
			}
			v.Every = pick(r, int64(1990), 1999, 2000, 2000, 2001, 2005, 2010, 700)
			v.Res = pick(r, -1, 0, 9, 1)
			v.Jump = pick(r, 100, 100, 50)
			v.Delay = pick(r, int64(1), 1, 0, 3)
		}
	case "cycle":
		// silent validators that unjail themselves as soon as allowed: sentence ladder, grace boundaries
		cl := classesFor(r, 6, clsPlain, clsPlain, clsNearMiss, pick(r, cls2cStart, cls2cEnd, rare))
		pols := []string{polSilent, polSilent, polSilent, polOnce, polRenew, polSilent}
		for i := 0; i < 6; i++ {
			v := add(cl[i], pols[i], (12+int64(r.Intn(4)))*mu+jit())
			v.H0 = ttlH0(r, 2)
			v.Every = pick(r, int64(500), 1000, 2000)
			v.Res = pick(r, 0, 9, 1, 0, -1, r.Intn(10))
			v.Delay = pick(r, int64(1), 1, 2, 0, 5, 25)
		}
		p.TimeJumps = 6
	case "stake":
		// stakes around the 25 % protection boundary, a whale moving stake across it
		cl := classesFor(r, 5, clsPlain, clsPlain, clsZero)
		base := pick(r, []int64{26, 25, 25, 24, 0}, []int64{25, 25, 25, 25, 0}, []int64{30, 30, 20, 20, 0}, []int64{26, 26, 24, 12, 12},
			[]int64{40, 15, 15, 15, 15}, []int64{101, 100, 100, 100, 0})
		pols := []string{polSilent, polOnce, polSilent, polSilent, polRenew}
		if variant%2 == 0 {
			// "crowd": four equal silent validators of 22 % each; the first one jailed makes the
			// others >25 % of what is left, one stays jailed for good, the others stay protected for
			// the rest of the history (a total that also counts jailed validators would jail them)
			base = []int64{22, 22, 22, 22, 12}
			pols = []string{polStay, polSilent, polSilent, polSilent, polRenew}
			r.Shuffle(4, func(i, j int) { pols[i], pols[j] = pols[j], pols[i] })
			cl = classesFor(r, 5, clsPlain, clsPlain, clsZero, clsNearMiss, clsPlain) // the 0x2c defect would mask the point of this profile
		}
		for i := 0; i < 5; i++ {
			st := base[i]
			if st == 0 {
				st = 1 + int64(r.Intn(3))
			}
			v := add(cl[i], pols[i], st*mu+pick(r, int64(0), 0, 999_999, 1))
			v.H0 = ttlH0(r, 2)
			v.Every = 1500
			v.Res = pick(r, -1, 0, 9)
			v.Delay = pick(r, int64(1), 2, 0)
		}
		p.StakeMoves = 25
		if variant%2 == 0 {
			p.StakeMoves = 4
		}
	case "endgame":
		// two or three validators: last-active and >25 % protection decide almost everything
		n := pick(r, 2, 3, 3)
		cl := classesFor(r, n, clsPlain, clsPlain)
		stakes := pick(r, []int64{80, 20, 5}, []int64{50, 50, 10}, []int64{76, 24, 19}, []int64{75, 25, 20}, []int64{60, 20, 20})
		pols := pick(r, []string{polRenew, polSilent, polSilent}, []string{polSilent, polSilent, polSilent}, []string{polOnce, polOnce, polSilent},
			[]string{polSilent, polOnce, polStay})
		for i := 0; i < n; i++ {
			v := add(cl[i], pols[i], stakes[i]*mu+jit())
			v.H0 = ttlH0(r, 2)
			v.Every = 1200
			v.Res = pick(r, -1, 0, 9)
			v.Delay = pick(r, int64(1), 2, 0)
		}
		p.StakeMoves = 8
		p.TimeJumps = 3
	case "unbond":
		// MaxValidators is lowered so that the smallest validator is kicked out of the active set
		// (status Unbonding, not jailed) around the expiry of its keep-alive
		cl := classesFor(r, 5, clsPlain, clsPlain, clsPlain)
		for i := 0; i < 5; i++ {
			v := add(cl[i], polRenew, (20-int64(i)*2)*mu+jit())
			v.H0 = ttlH0(r, 2+int64(r.Intn(100)))
			v.Every = pick(r, int64(1000), 1500, 1900)
			v.Delay = pick(r, int64(1), 2, 8)
		}
		// the smallest one: plain address, one keep-alive, then silence
		last := &p.Vals[4]
		last.Class, last.Policy, last.Stake = pick(r, clsPlain, clsZero, clsNearMiss), polOnce, 3*mu+jit()
		p.UnbondingS = pick(r, int64(600), 3600, 86400*21)
		p.MaxVals = 4
		p.MaxValsAt = last.H0 + 2000 - int64(1+r.Intn(25))
	case "version":
		cl := classesFor(r, 4, clsPlain, clsPlain)
		for i := 0; i < 4; i++ {
			v := add(cl[i], pick(r, polVersion, polVersion, polRenew), (20+int64(r.Intn(5)))*mu)
			v.H0 = ttlH0(r, 2)
			v.Every = 300
		}
		p.GovOps = 12
		p.RealGov = true
	default: // mix
		n := 5 + r.Intn(4)
		cl := classesFor(r, n, clsPlain, pick(r, cls2cMid, cls2cTwice, rare))
		for i := 0; i < n; i++ {
			v := add(cl[i], pick(r, polRenew, polOnce, polOnce, polSilent, polSilent, polStay, polVersion),
				(3+int64(r.Intn(28)))*mu+jit())
			v.H0 = ttlH0(r, 2+int64(r.Intn(200)))
			v.Every = pick(r, int64(300), 1000, 1995, 2000, 2003)
			v.Res = pick(r, -1, 0, 9, 1, r.Intn(10))
			v.Jump = pick(r, 100, 80, 30)
			v.Delay = pick(r, int64(1), 1, 0, 5, 40)
		}
		p.StakeMoves, p.GovOps, p.TimeJumps = 6, 4, 3
	}
	return p
}
