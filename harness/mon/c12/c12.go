// Package c12: unresponsive validators get jailed in bounded time, responsive ones never.
//
// Deciding step: the REAL application (chain.New: app.App through FinalizeBlock/Commit, signed
// MsgKeepAlive / MsgUnjail / staking txs through the full ante chain, all begin/end-blockers)
// runs seed-determined histories of 2 300 - 4 500 blocks; after every block the monitor reads
// the staking "jailed" flag, status and tokens of every validator plus the slashing JailedUntil,
// and compares each jailing / non-jailing with a reference model that is fed only by the
// monitor's own log (accepted keep-alives, successful unjail txs, observed stakes). The model
// re-states the rules of the property (TTL 2000 blocks, check at h>50 && h%10==0, grace 30
// blocks, >25 % / last-active protection in exact integer arithmetic, sentence ladder, semantic
// version precedence) and shares no code with x/valset.
package c12

import (
	"fmt"
	"math/rand"

	"verif/harness/fw"
)

type caseParams struct {
	Kind    string `json:"kind"`
	Variant int    `json:"variant"`
	Blocks  int64  `json:"blocks"`
}

func cases(tier string, seed int64) []fw.Case {
	r := rand.New(rand.NewSource(seed*7919 + 12))
	var out []fw.Case
	n, blocks := 42, int64(2300)
	if tier == "thorough" {
		n, blocks = 112, 4500
	}
	for i := 0; i < n; i++ {
		kind := kinds[i%len(kinds)]
		b := blocks
		if kind == "version" && tier != "thorough" {
			b = 1500 // no TTL expiry needed: version gate and governance
		}
		out = append(out, fw.MkCase(fmt.Sprintf("%s-%03d", kind, i), r.Int63(), caseParams{Kind: kind, Variant: i / len(kinds), Blocks: b}))
	}
	return out
}

func init() {
	fw.Register(&fw.Prop{
		ID:    "C12",
		Level: "exploration",
		Rule: "One case = one history of the real chain (quick: 16 x 2300 blocks, thorough: 112 x 4500 blocks) with 2-8 validators whose " +
			"operator addresses are real secp256k1 key addresses drawn until they have a wanted byte pattern (no 0x2c / one 0x2c in the middle, " +
			"at the start, at the end / two / adjacent / contains 0x00 / near miss 0x2b,0x2d). Seven history kinds (ttl, cycle, stake, endgame, " +
			"unbond, version, mix) fix stakes and per-validator relayer policies (renew around the 2000-block lifetime, one keep-alive then " +
			"silence, never, stay jailed, version strings around the minimum); unjail txs are sent when the sentence has elapsed (block time " +
			"jumps), at chosen block residues mod 10 so that checks fall on the last grace block and the first one after; a whale moves stake " +
			"to the exact 25 % boundary (+-1 power unit, +-1 ugrain); MaxValidators is lowered to make an unjailed Unbonding validator; the " +
			"pigeon minimum is changed through governance (shortcut and one real proposal round). 'evaluations' = oracle decisions: one per " +
			"(validator, periodic check) still-free decision, one per jailing (+1 for its sentence), one per keep-alive, one per minimum check. " +
			"distinct_nontrivial = distinct abstract decision states (address class, distance to keep-alive expiry clipped to +-11, blocks " +
			"since unjailed clipped to 45, distance to the 25 % boundary clipped to +-3, bond status, outcome), distinct sentence transitions, " +
			"distinct version relations, and distinct history summaries; checks of alive validators far from expiry are not counted as distinct.",
		Assumptions: []string{
			"keep-alive lifetime 2000 blocks (alive while height < accepted-at + 2000), periodic check at heights > 50 divisible by 10, grace period = the 30 blocks after the block in which the validator became unjailed (inclusive)",
			"'more than 25 % of bonded power' = exact integer test 4*p(v) > sum of consensus power (tokens/10^6) of bonded unjailed validators; several jailings in one check shrink that sum, so a still-free validator is only reported if it is unprotected against the sum AFTER the check and a jailed one only if it was protected against the sum BEFORE the check",
			"'last active validator': if one bonded unjailed validator is left nobody is jailed",
			"a validator that never sent a keep-alive is obliged to be jailed only once it has existed for more than 2000 blocks (the code jails it from block 60 on; that is compatible but not demanded by the statement)",
			"reset window of the sentence ladder is not fixed by the statement: strict inside max(30m, d+5%), strict outside max(30m, d+20%), either step accepted in between",
			"jailing causes other than keep-alive expiry are absent from the workload (no EVM chains, no evidence, no missed-block tracking); any other jail reason makes the case inconclusive",
			"block time advances 2 s per block unless a time jump is part of the history",
		},
		Cases:       cases,
		Run:         runHistory,
		MinCounters: []string{"liveness_checks", "jail_events", "unjail_ok", "decisions_free_alive", "decisions_free_in_grace", "decisions_free_protected", "decisions_jailed_as_required", "decisions_jailed_as_required_unbonding", "decisions_jailed_exactly_at_expiry", "decisions_jailed_first_check_after_grace", "decisions_free_on_last_grace_block", "sentence_extended", "sentence_reset", "keepalive_accepted", "keepalive_refused_outdated", "min_version_raised", "gov_requirements_refused", "real_gov_rounds_passed"},
		Workers:     16,
		TimeoutS:    900,
	})
}
