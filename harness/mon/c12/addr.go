package c12

import (
	"bytes"
	"fmt"

	"github.com/cosmos/cosmos-sdk/crypto/keys/ed25519"
	"github.com/cosmos/cosmos-sdk/crypto/keys/secp256k1"

	"verif/harness/chain"
)

// Address byte-pattern classes. Validator operator addresses are never hand-written: real
// secp256k1 keys are drawn until the 20-byte address (RIPEMD160(SHA256(pubkey))) has the wanted
// pattern, so every validator is one a user could really create.
const (
	clsPlain    = "plain"       // no 0x2c, no 0x00
	cls2cMid    = "2c-mid"      // exactly one 0x2c, at an interior position
	cls2cStart  = "2c-start"    // exactly one 0x2c, first byte
	cls2cEnd    = "2c-end"      // exactly one 0x2c, last byte
	cls2cTwice  = "2c-twice"    // exactly two 0x2c, not adjacent
	cls2cAdj    = "2c-adjacent" // two adjacent 0x2c (an empty piece when split on ',')
	clsZero     = "zero"        // contains 0x00, no 0x2c
	clsNearMiss = "near-2c"     // contains 0x2b or 0x2d, no 0x2c, no 0x00
)

var allClasses = []string{clsPlain, cls2cMid, cls2cStart, cls2cEnd, cls2cTwice, cls2cAdj, clsZero, clsNearMiss}

func classify(a []byte) string {
	n := bytes.Count(a, []byte{0x2c})
	switch {
	case n == 0 && bytes.IndexByte(a, 0) >= 0:
		return clsZero
	case n == 0 && (bytes.IndexByte(a, 0x2b) >= 0 || bytes.IndexByte(a, 0x2d) >= 0):
		return clsNearMiss
	case n == 0:
		return clsPlain
	case n == 1 && a[0] == 0x2c:
		return cls2cStart
	case n == 1 && a[len(a)-1] == 0x2c:
		return cls2cEnd
	case n == 1:
		return cls2cMid
	case bytes.Contains(a, []byte{0x2c, 0x2c}):
		return cls2cAdj
	case n == 2:
		return cls2cTwice
	}
	return "2c-many"
}

func has2c(a []byte) bool { return bytes.IndexByte(a, 0x2c) >= 0 }

// drawValidator draws keys (counter-derived secrets) until the address has class cls.
func drawValidator(name, prefix, cls string, stake int64) (chain.ValSpec, int) {
	for ctr := 0; ctr < 2_000_000; ctr++ {
		secret := fmt.Sprintf("%s/%s/%d", prefix, name, ctr)
		k := secp256k1.GenPrivKeyFromSecret([]byte(secret))
		if classify(k.PubKey().Address()) != cls {
			continue
		}
		acct := chain.AccountFromKey(name, k, secret)
		cons := ed25519.GenPrivKeyFromSecret([]byte(secret + "/cons"))
		return chain.ValSpec{Acct: acct, Stake: stake, Cons: cons}, ctr + 1
	}
	panic("no key with address class " + cls)
}
