package c12

import (
	"bytes"
	"encoding/binary"
	"encoding/hex"
	"encoding/json"
	"fmt"
	"math/rand"
	"os"
	"sort"
	"strings"
	"time"

	sdkmath "cosmossdk.io/math"
	codectypes "github.com/cosmos/cosmos-sdk/codec/types"
	sdk "github.com/cosmos/cosmos-sdk/types"
	govv1 "github.com/cosmos/cosmos-sdk/x/gov/types/v1"
	slashingtypes "github.com/cosmos/cosmos-sdk/x/slashing/types"
	stakingtypes "github.com/cosmos/cosmos-sdk/x/staking/types"

	valsettypes "github.com/palomachain/paloma/v2/x/valset/types"

	"verif/harness/chain"
	"verif/harness/fw"
	"verif/harness/world"
)

// Constants of the property statement (NOT imported from the code under test).
const (
	keepAliveTTL   = 2000 // blocks a keep-alive is good for
	gracePeriod    = 30   // blocks after becoming unjailed during which a validator is not jailed
	sweepEvery     = 10   // periodic liveness check
	sweepAfter     = 50   // ... at heights > 50
	reasonInactive = "validator's pigeon has been inactive"
	goodVersion    = "v99.1.0"
)

var schedule = []time.Duration{time.Minute, 5 * time.Minute, 15 * time.Minute, time.Hour, 24 * time.Hour}

func nextSentence(d time.Duration) time.Duration {
	for _, s := range schedule {
		if s > d {
			return s
		}
	}
	return schedule[len(schedule)-1]
}

func onSchedule(d time.Duration) bool {
	for _, s := range schedule {
		if s == d {
			return true
		}
	}
	return false
}

type val struct {
	plan valPlan
	acct *chain.Account
	cons sdk.ConsAddress
	addr []byte
	cls  string

	// --- reference model (fed only by the monitor's own log of what it did and saw) ---
	hasKA      bool
	lastKA     int64 // block of the last ACCEPTED keep-alive
	since      int64 // height from which the validator exists (0 = genesis)
	graceStart int64 // block in which it last became unjailed (genesis: block 1)
	jailed     bool  // observed after the previous block
	jailedUnt  time.Time
	hasRec     bool // has been jailed before (by the valset module)
	lastJailAt time.Time
	lastSent   time.Duration

	// --- observed after the current block ---
	power  int64
	status stakingtypes.BondStatus

	// --- workload state ---
	nextKA       int64
	unjailFrom   int64
	jumpThis     bool
	resThis      int
	unjailedInBl bool
	jails        int
}

type queuedTx struct {
	kind string
	v    *val
	arg  string
}

type sim struct {
	c              *chain.Chain
	r              *fw.Recorder
	rng            *rand.Rand
	p              plan
	vals           []*val
	whale, govUser *chain.Account

	queued     []queuedTx
	seqUsed    map[string]uint64
	minStr     string
	minVer     ver
	govStage   int
	govPid     uint64
	govWant    string
	whaleDel   map[string]int64 // whale delegation per validator (ugrain), model of what it did
	events     []string
	fail       bool
	govStartAt int64
}

func (s *sim) event(f string, a ...any) {
	if len(s.events) < 400 {
		s.events = append(s.events, fmt.Sprintf("h%d ", s.c.Height)+fmt.Sprintf(f, a...))
	}
}

func newSim(p plan, seed int64, rec *fw.Recorder, rng *rand.Rand) *sim {
	s := &sim{r: rec, rng: rng, p: p, seqUsed: map[string]uint64{}, whaleDel: map[string]int64{}}
	var specs []chain.ValSpec
	prefix := fmt.Sprintf("c12/%d/%s", seed, p.Kind)
	for _, vp := range p.Vals {
		spec, draws := drawValidator(vp.Name, prefix, vp.Class, vp.Stake)
		rec.Count("address_keys_drawn", int64(draws))
		specs = append(specs, spec)
		a := []byte(spec.Acct.Addr)
		v := &val{plan: vp, acct: spec.Acct, cons: sdk.ConsAddress(spec.Cons.PubKey().Address()), addr: a, cls: classify(a),
			graceStart: 1, nextKA: vp.H0, resThis: vp.Res}
		if v.cls != vp.Class {
			panic("address class mismatch")
		}
		s.vals = append(s.vals, v)
		rec.Count("addr_class_"+v.cls, 1)
	}
	s.whale = chain.NewAccount("whale", prefix+"/whale")
	s.govUser = chain.NewAccount("govuser", prefix+"/gov")
	ub := p.UnbondingS
	s.c = chain.New(chain.Config{
		Validators: specs,
		Users: map[*chain.Account]sdk.Coins{
			s.whale:   sdk.NewCoins(sdk.NewInt64Coin(chain.Denom, 5_000_000_000_000)),
			s.govUser: sdk.NewCoins(sdk.NewInt64Coin(chain.Denom, 1_000_000_000)),
		},
		VotingPeriod: 10 * time.Second,
		MutateGenesis: func(gs map[string]json.RawMessage, _ chain.Codec) {
			var st map[string]any
			if err := json.Unmarshal(gs["staking"], &st); err != nil {
				panic(err)
			}
			st["params"].(map[string]any)["unbonding_time"] = fmt.Sprintf("%ds", ub)
			b, err := json.Marshal(st)
			if err != nil {
				panic(err)
			}
			gs["staking"] = b
		},
	})
	return s
}

// ---------------------------------------------------------------------------------------------
// observation helpers

func (s *sim) readMin() (string, bool) {
	resp, err := s.c.App.ValsetKeeper.GetPigeonRequirements(s.c.Ctx(), &valsettypes.QueryGetPigeonRequirementsRequest{})
	if err != nil || resp.PigeonRequirements == nil {
		s.r.Inconclusive(fmt.Sprintf("cannot read pigeon requirements: %v", err))
		s.fail = true
		return "", false
	}
	return resp.PigeonRequirements.MinVersion, true
}

// checkMin: "that minimum never decreases" - evaluated after every block and every governance op.
func (s *sim) checkMin(where string) {
	cur, ok := s.readMin()
	if !ok {
		return
	}
	s.r.Eval(1)
	s.r.Count("min_version_checks", 1)
	if cur == s.minStr {
		return
	}
	nv, okv := parseVer(cur, true)
	if !okv {
		s.r.Violation("minimum-pigeon-version-not-a-version",
			fmt.Sprintf("the minimum required pigeon version became %q, which is not a semantic version (%s)", cur, where),
			map[string]any{"previous": s.minStr, "now": cur, "height": s.c.Height})
		s.minStr = cur
		return
	}
	if s.minStr != "" {
		c := cmpVer(nv, s.minVer)
		switch {
		case c < 0:
			s.r.Violation("minimum-pigeon-version-decreased",
				fmt.Sprintf("the minimum required pigeon version went from %s down to %s (%s)", s.minStr, cur, where),
				map[string]any{"previous": s.minStr, "now": cur, "height": s.c.Height, "events": s.tail(12)})
		case c > 0:
			s.r.Count("min_version_raised", 1)
			s.event("min %s -> %s (%s)", s.minStr, cur, where)
		default:
			s.r.Count("min_version_respelled", 1)
		}
	}
	s.minStr, s.minVer = cur, nv
}

func (s *sim) tail(n int) []string {
	if len(s.events) <= n {
		return s.events
	}
	return s.events[len(s.events)-n:]
}

// ---------------------------------------------------------------------------------------------
// workload: transactions and direct operations of one block

func (s *sim) queue(signer *chain.Account, q queuedTx, msgs ...sdk.Msg) {
	off := s.seqUsed[signer.Bech]
	if err := s.c.QueueTx(signer, off, msgs...); err != nil {
		s.r.Inconclusive("cannot build tx: " + err.Error())
		s.fail = true
		return
	}
	s.seqUsed[signer.Bech] = off + 1
	s.queued = append(s.queued, q)
}

func bump(n string, d int64) string {
	var x int64
	fmt.Sscanf(n, "%d", &x)
	x += d
	if x < 0 {
		x = 0
	}
	return fmt.Sprintf("%d", x)
}

// versionsAround: version strings around the current minimum - older, equal, newer, pre-releases,
// build metadata, numeric-vs-lexical traps, and strings that are not versions at all.
func (s *sim) versionAround() string {
	m := s.minVer
	mk := func(a, b, c string) string { return "v" + a + "." + b + "." + c }
	cands := []string{
		mk(m.major, m.minor, m.patch),                    // equal
		mk(m.major, m.minor, bump(m.patch, 1)),           // newer patch
		mk(m.major, m.minor, bump(m.patch, -1)),          // older patch (or equal at .0)
		mk(m.major, bump(m.minor, 1), "0"),               // newer minor
		mk(m.major, bump(m.minor, -1), "99"),             // older minor, big patch
		mk(bump(m.major, 1), "0", "0"),                   // newer major
		mk(bump(m.major, -1), "999", "999"),              // older major
		mk(m.major, m.minor, m.patch) + "-rc1",           // pre-release of the minimum: older
		mk(m.major, m.minor, m.patch) + "-alpha.1",       // older
		mk(m.major, m.minor, bump(m.patch, 1)) + "-rc.1", // pre-release of the next patch: newer
		mk(m.major, m.minor, m.patch) + "+build.7",       // build metadata: equal
		mk(m.major, m.minor, bump(m.patch, -1)) + "+zzz", // older with build metadata
		mk(m.major, "9", "0"),                            // lexical trap (v1.9.0 vs v1.11.3)
		mk(m.major, m.minor+"0", "0"),                    // v1.110.0: newer, lexically "smaller" in places
		mk(m.major, m.minor, "10"),                       // patch 10 vs patch 3
		mk(m.major, m.minor, "2"),
		goodVersion,
		"", "latest", strings.TrimPrefix(mk(m.major, m.minor, m.patch), "v"), // no v prefix
		"v" + m.major, "v" + m.major + "." + m.minor, // short forms
		mk("0"+m.major, m.minor, m.patch), // leading zero: not a version
		mk(m.major, m.minor, m.patch) + ".1",
		"v" + m.major + "." + m.minor + "." + m.patch + "-",
	}
	if len(m.pre) > 0 {
		cands = append(cands, mk(m.major, m.minor, m.patch)+"-"+strings.Join(m.pre, ".")+".1", mk(m.major, m.minor, m.patch)+"-0")
	}
	return cands[s.rng.Intn(len(cands))]
}

func (s *sim) perK(k int) bool { return k > 0 && s.rng.Intn(1000) < k }

func (s *sim) govLegacy(content interface {
	Reset()
	String() string
	ProtoMessage()
}) error {
	a, err := codectypes.NewAnyWithValue(content)
	if err != nil {
		return err
	}
	_, err = s.c.Direct(&govv1.MsgExecLegacyContent{Content: a, Authority: chain.GovAuthority()}, s.c.Height, s.c.Time)
	return err
}

func (s *sim) directOps(H int64) {
	// governance shortcut: SetPigeonRequirementsProposal through the real gov msg server + legacy router
	if s.perK(s.p.GovOps) {
		var vstr string
		switch s.rng.Intn(10) {
		case 0, 1, 2, 3:
			vstr = "v" + s.minVer.major + "." + s.minVer.minor + "." + bump(s.minVer.patch, 1)
		case 4:
			vstr = "v" + s.minVer.major + "." + bump(s.minVer.minor, 1) + ".0-rc.1"
		default:
			vstr = s.versionAround()
			if vstr == goodVersion {
				vstr = "v" + s.minVer.major + "." + bump(s.minVer.minor, 1) + ".0"
			}
		}
		target := pick(s.rng, uint64(0), 0, uint64(H-3), uint64(H+1), uint64(H+7), uint64(H+40))
		s.r.Op(map[string]any{"op": "gov-set-pigeon-requirements", "min": vstr, "target": target, "h": s.c.Height})
		err := s.govLegacy(&valsettypes.SetPigeonRequirementsProposal{Title: "t", Description: "d", MinVersion: vstr, TargetBlockHeight: target})
		if err != nil {
			s.r.Count("gov_requirements_refused", 1)
		} else {
			s.r.Count("gov_requirements_accepted", 1)
			if int64(target) > s.c.Height {
				s.r.Count("gov_requirements_scheduled", 1)
			}
		}
		s.event("gov min=%q target=%d err=%v", vstr, target, err != nil)
		s.checkMin("after governance SetPigeonRequirementsProposal " + vstr)
	}
}

// totals over the monitor's last observation
func (s *sim) bondedTotal() (t int64, n int) {
	for _, v := range s.vals {
		if !v.jailed && v.status == stakingtypes.Bonded {
			t += v.power
			n++
		}
	}
	return
}

func (s *sim) stakeMove() {
	T, _ := s.bondedTotal()
	var cands []*val
	for _, v := range s.vals {
		if !v.jailed && v.status == stakingtypes.Bonded {
			cands = append(cands, v)
		}
	}
	if len(cands) < 2 {
		return
	}
	v := cands[s.rng.Intn(len(cands))]
	const mu = 1_000_000
	sub := pick(s.rng, int64(0), 0, 0, -1, 1) // sub-power remainder: exercises truncation to power units
	switch s.rng.Intn(4) {
	case 0, 1: // push v to the protection boundary from below: 4(p+d) > T+d  <=>  3d > T-4p
		gap := T - 4*v.power
		if gap < 0 {
			// already protected: dilute it through another validator: 4p <= T+e
			u := cands[s.rng.Intn(len(cands))]
			if u == v {
				return
			}
			e := -gap + pick(s.rng, int64(0), 0, -1, 1)
			if e <= 0 {
				return
			}
			s.delegate(u, e*mu+sub)
			return
		}
		d := gap/3 + 1 + pick(s.rng, int64(0), 0, -1, -1, 1)
		if d <= 0 {
			return
		}
		s.delegate(v, d*mu+sub)
	case 2: // take some of the whale's delegation back
		var have []*val
		for _, u := range s.vals {
			if s.whaleDel[u.acct.ValBech()] > mu {
				have = append(have, u)
			}
		}
		if len(have) == 0 {
			return
		}
		u := have[s.rng.Intn(len(have))]
		amt := s.whaleDel[u.acct.ValBech()]
		if s.rng.Intn(2) == 0 {
			amt = (1 + s.rng.Int63n(amt/mu)) * mu
		}
		s.undelegate(u, amt)
	default:
		s.delegate(v, (1+s.rng.Int63n(5))*mu+sub)
	}
}

func (s *sim) delegate(v *val, amt int64) {
	if amt <= 0 {
		return
	}
	s.queue(s.whale, queuedTx{kind: "delegate", v: v, arg: fmt.Sprint(amt)},
		stakingtypes.NewMsgDelegate(s.whale.Bech, v.acct.ValBech(), sdk.NewInt64Coin(chain.Denom, amt)))
}

func (s *sim) undelegate(v *val, amt int64) {
	s.queue(s.whale, queuedTx{kind: "undelegate", v: v, arg: fmt.Sprint(amt)},
		stakingtypes.NewMsgUndelegate(s.whale.Bech, v.acct.ValBech(), sdk.NewInt64Coin(chain.Denom, amt)))
}

// realGov: one REAL governance round (signed MsgSubmitProposal, signed votes of all validators,
// voting period, gov end-blocker). "version" histories raise the pigeon minimum with the legacy
// SetPigeonRequirementsProposal; "unbond" histories lower staking MaxValidators so that the
// smallest validator leaves the active set (status Unbonding, not jailed) - executed by the gov
// end-blocker right before the staking end-blocker, as on a real chain.
func (s *sim) realGov(H int64) {
	switch s.govStage {
	case 0:
		if H < s.govStartAt {
			return
		}
		var inner sdk.Msg
		if s.p.MaxValsAt > 0 {
			params, err := s.c.App.StakingKeeper.GetParams(s.c.Ctx())
			if err != nil {
				s.r.Inconclusive(err.Error())
				s.fail = true
				return
			}
			params.MaxValidators = s.p.MaxVals
			inner = &stakingtypes.MsgUpdateParams{Authority: chain.GovAuthority(), Params: params}
			s.govWant = fmt.Sprintf("MaxValidators=%d", s.p.MaxVals)
		} else {
			s.govWant = "v" + s.minVer.major + "." + bump(s.minVer.minor, 1) + ".0"
			content := &valsettypes.SetPigeonRequirementsProposal{Title: "raise", Description: "d", MinVersion: s.govWant, TargetBlockHeight: uint64(H + 30)}
			packed, err := codectypes.NewAnyWithValue(content)
			if err != nil {
				s.r.Inconclusive(err.Error())
				s.fail = true
				return
			}
			inner = govv1.NewMsgExecLegacyContent(packed, chain.GovAuthority())
		}
		sp, err := govv1.NewMsgSubmitProposal([]sdk.Msg{inner},
			sdk.NewCoins(sdk.NewInt64Coin(chain.Denom, 10_000)), s.govUser.Bech, "", "C12 proposal", "C12 real governance round: "+s.govWant, false)
		if err != nil {
			s.r.Inconclusive(err.Error())
			s.fail = true
			return
		}
		s.queue(s.govUser, queuedTx{kind: "gov-submit", arg: s.govWant}, sp)
		s.govStage = 1
	case 2:
		for _, v := range s.vals {
			s.queue(v.acct, queuedTx{kind: "gov-vote", v: v}, govv1.NewMsgVote(v.acct.Addr, s.govPid, govv1.OptionYes, ""))
		}
		s.govStage = 3
	}
}

func (s *sim) realGovAfter() {
	if s.govStage != 3 {
		return
	}
	p, err := s.c.App.GovKeeper.Proposals.Get(s.c.Ctx(), s.govPid)
	if err != nil {
		return
	}
	switch p.Status {
	case govv1.StatusPassed:
		s.govStage = 4
		s.r.Count("real_gov_rounds_passed", 1)
		s.event("real governance proposal %d passed (%s)", s.govPid, s.govWant)
	case govv1.StatusFailed, govv1.StatusRejected:
		s.govStage = 5
		s.r.Count("real_gov_rounds_failed", 1)
		s.event("real governance proposal %d: %s %s", s.govPid, p.Status, p.FailedReason)
	}
}

func (s *sim) planBlock(H int64) time.Duration {
	s.queued = s.queued[:0]
	s.seqUsed = map[string]uint64{}
	dt := 2 * time.Second
	if s.perK(s.p.TimeJumps) {
		dt = pick(s.rng, 10*time.Minute, 29*time.Minute, 31*time.Minute, 64*time.Minute, 70*time.Minute, 2*time.Hour, 26*time.Hour, 30*time.Hour)
		s.r.Count("op_time_jump", 1)
	}
	// keep-alives
	for _, v := range s.vals {
		switch v.plan.Policy {
		case polRenew, polOnce:
			if H == v.nextKA {
				s.queue(v.acct, queuedTx{kind: "ka", v: v, arg: goodVersion}, world.MsgKeepAlive(v.acct, goodVersion))
				if v.plan.Policy == polRenew && v.plan.Every > 0 {
					v.nextKA += v.plan.Every
				}
			}
		case polVersion:
			if H >= v.nextKA {
				ver := s.versionAround()
				s.queue(v.acct, queuedTx{kind: "ka", v: v, arg: ver}, world.MsgKeepAlive(v.acct, ver))
				v.nextKA = H + 20 + int64(s.rng.Intn(160))
			}
		}
	}
	// unjail: first those that jump block time to the end of their sentence
	for _, v := range s.vals {
		if !v.jailed || v.plan.Policy == polStay || H < v.unjailFrom || !v.jumpThis {
			continue
		}
		if v.resThis >= 0 && H%10 != int64(v.resThis) {
			continue
		}
		need := v.jailedUnt.Sub(s.c.Time)
		if need > 25*time.Hour {
			continue
		}
		need += pick(s.rng, time.Duration(0), 0, time.Second)
		if need > dt {
			dt = need
		}
	}
	for _, v := range s.vals {
		if !v.jailed || v.plan.Policy == polStay || H < v.unjailFrom {
			continue
		}
		allowed := !s.c.Time.Add(dt).Before(v.jailedUnt)
		resOK := v.resThis < 0 || H%10 == int64(v.resThis)
		if (allowed && resOK) || s.rng.Intn(400) == 0 {
			s.queue(v.acct, queuedTx{kind: "unjail", v: v}, slashingtypes.NewMsgUnjail(v.acct.ValBech()))
		}
	}
	if s.perK(s.p.StakeMoves) {
		s.stakeMove()
	}
	if s.p.RealGov || s.p.MaxValsAt > 0 {
		s.realGov(H)
	}
	return dt
}

// ---------------------------------------------------------------------------------------------
// one block: plan, execute on the real chain, observe, decide

func (s *sim) step() bool {
	H := s.c.Height + 1
	s.directOps(H)
	if s.fail {
		return false
	}
	dt := s.planBlock(H)
	if s.fail {
		return false
	}
	if len(s.queued) > 0 || dt != 2*time.Second {
		ops := make([]string, 0, len(s.queued))
		for _, q := range s.queued {
			n := ""
			if q.v != nil {
				n = q.v.plan.Name
			}
			ops = append(ops, q.kind+":"+n+":"+q.arg)
		}
		s.r.Op(map[string]any{"h": H, "dt_s": dt.Seconds(), "txs": ops})
	}
	minBefore := s.minVer
	br := s.c.NextBlockAfter(dt)
	if br.Panic != "" || br.Err != nil {
		s.r.Inconclusive(fmt.Sprintf("block %d failed: %s %v", H, firstLine(br.Panic), br.Err))
		return false
	}
	if len(br.Txs) != len(s.queued) {
		s.r.Inconclusive("tx result count mismatch")
		return false
	}
	s.r.Count("blocks", 1)
	s.checkMin(fmt.Sprintf("in block %d", H))
	// the minimum in force when the txs of this block ran: begin-block applies scheduled
	// requirements before the txs; a real governance proposal executes after them (gov end-blocker)
	minAtTx := s.minVer
	if s.govStage == 3 {
		minAtTx = minBefore
	}
	for i, q := range s.queued {
		res := br.Txs[i]
		switch q.kind {
		case "ka":
			s.onKeepAlive(H, q, res, minAtTx)
		case "unjail":
			if res.OK() {
				q.v.unjailedInBl = true
				s.r.Count("unjail_ok", 1)
				s.event("%s unjailed", q.v.plan.Name)
			} else {
				s.r.Count("unjail_refused", 1)
			}
		case "delegate", "undelegate":
			if res.OK() {
				var a int64
				fmt.Sscan(q.arg, &a)
				if q.kind == "delegate" {
					s.whaleDel[q.v.acct.ValBech()] += a
				} else {
					s.whaleDel[q.v.acct.ValBech()] -= a
				}
				s.r.Count("op_"+q.kind, 1)
				s.event("whale %s %s %s", q.kind, q.arg, q.v.plan.Name)
			} else {
				s.r.Count("op_"+q.kind+"_refused", 1)
			}
		case "gov-submit":
			if !res.OK() {
				s.r.Inconclusive("real gov submit: " + res.Log)
				return false
			}
			pid, _ := chain.EventAttr(res.Events, "submit_proposal", "proposal_id")
			fmt.Sscanf(pid, "%d", &s.govPid)
			s.govStage = 2
		case "gov-vote":
			if !res.OK() {
				s.r.Inconclusive("real gov vote: " + res.Log)
				return false
			}
		}
	}
	s.realGovAfter()
	return s.observe(H)
}

func firstLine(s string) string {
	if i := strings.IndexByte(s, '\n'); i >= 0 {
		return s[:i]
	}
	return s
}

func (s *sim) onKeepAlive(H int64, q queuedTx, res chain.TxResult, min ver) {
	v := q.v
	s.r.Eval(1)
	pv, strict := parseVer(q.arg, false)
	older := strict && cmpVer(pv, min) < 0
	if res.OK() {
		s.r.Count("keepalive_accepted", 1)
		if older {
			s.r.Violation("outdated-keepalive-accepted",
				fmt.Sprintf("keep-alive with pigeon version %s accepted although the minimum required version is %s", q.arg, s.minStr),
				map[string]any{"height": H, "validator": v.acct.ValBech(), "version": q.arg, "minimum": s.minStr})
		}
		if !strict {
			s.r.Count("keepalive_accepted_nonstrict_version", 1)
		}
		v.hasKA, v.lastKA = true, H
		if q.arg != goodVersion {
			s.event("%s keep-alive %q accepted", v.plan.Name, q.arg)
		}
		return
	}
	switch {
	case older:
		s.r.Count("keepalive_refused_outdated", 1)
		s.r.Distinct("ka-old|" + relation(pv, min))
	case !strict:
		s.r.Count("keepalive_refused_not_a_version", 1)
	default:
		// not part of the statement (it only demands refusal of OLDER ones); reported as a counter
		s.r.Count("keepalive_refused_uptodate", 1)
		s.event("%s keep-alive %q REFUSED although >= %s: %s", v.plan.Name, q.arg, s.minStr, firstLine(res.Log))
	}
}

func relation(a, b ver) string {
	switch {
	case cmpNum(a.major, b.major) != 0:
		return "major"
	case cmpNum(a.minor, b.minor) != 0:
		return "minor"
	case cmpNum(a.patch, b.patch) != 0:
		return "patch"
	}
	return "pre"
}

func clip(x, lo, hi int64) int64 {
	if x < lo {
		return lo
	}
	if x > hi {
		return hi
	}
	return x
}

// observe reads the staking / slashing state after block H and evaluates the oracle.
func (s *sim) observe(H int64) bool {
	ctx := s.c.Ctx()
	now := s.c.Time
	type obs struct {
		jailed    bool
		until     time.Time
		jailEvent bool
	}
	o := make([]obs, len(s.vals))
	for i, v := range s.vals {
		sv, err := s.c.App.StakingKeeper.GetValidator(ctx, v.acct.ValAddr())
		if err != nil {
			s.r.Inconclusive("validator vanished: " + err.Error())
			return false
		}
		info, err := s.c.App.SlashingKeeper.GetValidatorSigningInfo(ctx, v.cons)
		if err != nil {
			s.r.Inconclusive("signing info: " + err.Error())
			return false
		}
		v.power = sv.Tokens.Quo(sdkmath.NewInt(1_000_000)).Int64() // consensus power = tokens / 10^6, truncated
		v.status = sv.Status
		if v.status != stakingtypes.Bonded {
			v.power = 0 // a validator outside the active set holds no bonded power
		}
		o[i] = obs{jailed: sv.Jailed, until: info.JailedUntil}
		wasUnjailed := !v.jailed || v.unjailedInBl
		o[i].jailEvent = sv.Jailed && (wasUnjailed || !info.JailedUntil.Equal(v.jailedUnt))
		if !sv.Jailed && v.jailed && !v.unjailedInBl {
			s.r.Inconclusive(fmt.Sprintf("%s became unjailed at block %d without an unjail tx of the workload", v.plan.Name, H))
			return false
		}
		if v.unjailedInBl {
			v.graceStart = H
		}
	}
	// bonded power before the sweep (every validator that was unjailed when the end-blocker began)
	// and after it
	var tBefore, tAfter int64
	var nBefore, nAfter int
	for i, v := range s.vals {
		if v.status != stakingtypes.Bonded {
			continue
		}
		if !o[i].jailed {
			tAfter += v.power
			nAfter++
		}
		if !o[i].jailed || o[i].jailEvent {
			tBefore += v.power
			nBefore++
		}
	}
	isSweep := H > sweepAfter && H%sweepEvery == 0
	if isSweep {
		s.r.Count("liveness_checks", 1)
	}
	for i, v := range s.vals {
		alive := v.hasKA && H < v.lastKA+keepAliveTTL
		inGrace := H-v.graceStart <= gracePeriod
		ttlDist := int64(999)
		if v.hasKA {
			ttlDist = clip(H-(v.lastKA+keepAliveTTL), -11, 11)
		}
		if o[i].jailEvent {
			s.r.Eval(1)
			s.r.Count("jail_events", 1)
			v.jails++
			reason := ""
			if resp, err := s.c.App.ValsetKeeper.GetValidatorJailReason(ctx, &valsettypes.QueryGetValidatorJailReasonRequest{ValAddress: v.acct.ValAddr()}); err == nil {
				reason = resp.Reason
			}
			if reason != reasonInactive {
				s.r.Inconclusive(fmt.Sprintf("%s jailed at block %d for a reason outside this workload: %q", v.plan.Name, H, reason))
				return false
			}
			if !isSweep {
				s.r.Count("jailed_outside_periodic_check", 1)
			}
			wit := func() map[string]any {
				return map[string]any{"height": H, "validator": v.acct.ValBech(), "addr_hex": hex.EncodeToString(v.addr), "class": v.cls,
					"last_keepalive": v.lastKA, "has_keepalive": v.hasKA, "grace_start": v.graceStart, "power": v.power,
					"bonded_power_before": tBefore, "bonded_unjailed_before": nBefore, "status": v.status.String(), "events": s.tail(15)}
			}
			if alive {
				s.r.Violation("alive-validator-jailed-for-inactivity",
					fmt.Sprintf("validator %s jailed (%q) at block %d although its keep-alive of block %d is good until block %d",
						v.plan.Name, reason, H, v.lastKA, v.lastKA+keepAliveTTL), wit())
			}
			if nBefore == 1 {
				s.r.Violation("last-active-validator-jailed",
					fmt.Sprintf("validator %s jailed at block %d although only one bonded unjailed validator was left", v.plan.Name, H), wit())
			} else if 4*v.power > tBefore {
				s.r.Violation("protected-validator-jailed-over-25pct",
					fmt.Sprintf("validator %s (power %d) jailed at block %d although it holds more than 25%% of the bonded power %d",
						v.plan.Name, v.power, H, tBefore), wit())
			}
			if inGrace {
				s.r.Count("jailed_within_grace_period", 1) // not forbidden by the statement; reported only
			}
			s.r.Count("decisions_jailed", 1)
			s.r.Distinct(fmt.Sprintf("J|%s|ttl%d|g%d|p%d|%s", v.cls, ttlDist, clip(H-v.graceStart, 0, 45), clip(tBefore-4*v.power, -3, 3), v.status))
			s.checkSentence(H, v, now, o[i].until, wit)
			s.event("%s JAILED until %s (sentence %s)", v.plan.Name, o[i].until.Format("15:04:05"), o[i].until.Sub(now))
		} else if isSweep && !o[i].jailed && (v.status == stakingtypes.Bonded || v.status == stakingtypes.Unbonding) {
			s.r.Eval(1)
			protected := 4*v.power > tAfter || nAfter <= 1
			// obligation: a keep-alive was accepted and has run out, or the validator has existed for
			// longer than the lifetime without ever sending one
			obliged := (v.hasKA && !alive) || (!v.hasKA && H-v.since > keepAliveTTL)
			key := fmt.Sprintf("F|%s|ttl%d|g%d|p%d|%s", v.cls, ttlDist, clip(H-v.graceStart, 0, 45), clip(tAfter-4*v.power, -3, 3), v.status)
			switch {
			case alive:
				s.r.Count("decisions_free_alive", 1)
				if ttlDist >= -10 {
					s.r.Count("decisions_free_alive_last_check_before_expiry", 1)
					s.r.Distinct(key)
				}
			case inGrace:
				s.r.Count("decisions_free_in_grace", 1)
				if H-v.graceStart == gracePeriod {
					s.r.Count("decisions_free_on_last_grace_block", 1)
				}
				s.r.Distinct(key)
			case protected:
				s.r.Count("decisions_free_protected", 1)
				if 4*v.power-tAfter <= 3 || nAfter <= 1 {
					s.r.Distinct(key)
				}
			case !obliged:
				// never sent a keep-alive and younger than the lifetime: the statement makes no claim
				s.r.Count("noclaim_never_kept_alive_younger_than_ttl_still_free", 1)
			default:
				s.mustJailMissed(H, v, tAfter, nAfter)
			}
		} else if isSweep && !o[i].jailed {
			s.r.Count("decisions_skipped_unbonded", 1)
		}
		if o[i].jailEvent && isSweep {
			obliged := (v.hasKA && !alive) || (!v.hasKA && H-v.since > keepAliveTTL)
			if obliged && !inGrace {
				s.r.Count("decisions_jailed_as_required", 1)
				if v.status == stakingtypes.Unbonding {
					s.r.Count("decisions_jailed_as_required_unbonding", 1)
				}
				if ttlDist == 0 {
					s.r.Count("decisions_jailed_exactly_at_expiry", 1)
				}
				if H-v.graceStart <= gracePeriod+sweepEvery {
					s.r.Count("decisions_jailed_first_check_after_grace", 1)
				}
			}
		}
	}
	for i, v := range s.vals {
		if o[i].jailEvent {
			// workload: decide how this validator will try to get out
			v.unjailFrom = H + 1 + v.plan.Delay
			v.jumpThis = s.rng.Intn(100) < v.plan.Jump
			if o[i].until.Sub(now) >= 24*time.Hour && s.rng.Intn(100) >= 35 {
				v.jumpThis = false // most 24 h sentences are sat out (or ended by a time jump of the history)
			}
			v.resThis = v.plan.Res
			if s.rng.Intn(4) == 0 {
				v.resThis = pick(s.rng, -1, 0, 9, 1, s.rng.Intn(10))
			}
		}
		v.jailed, v.jailedUnt, v.unjailedInBl = o[i].jailed, o[i].until, false
	}
	return true
}

// checkSentence: "repeated jailings lengthen the sentence along the fixed schedule"
// {1 m, 5 m, 15 m, 1 h, 24 h}. A jailing is a *repeat* when it happens within the reset window
// after the previous one; the statement does not fix the window, the code comment says
// max(30 m, sentence + 20 %) and the code implements max(30 m, sentence + 5 %): inside the
// smaller window the sentence must be the next step, outside the larger one it must be the
// first step, in between both are accepted (counted).
func (s *sim) checkSentence(H int64, v *val, now, until time.Time, wit func() map[string]any) {
	got := until.Sub(now)
	s.r.Eval(1)
	s.r.Count("sentence_"+got.String(), 1)
	w := wit()
	w["sentence"] = got.String()
	if v.hasRec {
		w["previous_sentence"] = v.lastSent.String()
		w["since_previous_jailing"] = now.Sub(v.lastJailAt).String()
	}
	defer func() { v.hasRec, v.lastJailAt, v.lastSent = true, now, got }()
	if !onSchedule(got) {
		s.r.Violation("jail-sentence-not-on-schedule", fmt.Sprintf("validator %s jailed at block %d for %s, which is not a step of the schedule", v.plan.Name, H, got), w)
		return
	}
	if !v.hasRec {
		if got != schedule[0] {
			s.r.Violation("first-jail-sentence-not-first-step", fmt.Sprintf("validator %s jailed for the first time at block %d for %s", v.plan.Name, H, got), w)
		}
		s.r.Count("sentence_first", 1)
		return
	}
	gap := now.Sub(v.lastJailAt)
	d := v.lastSent
	small := max(30*time.Minute, d+d/20)
	large := max(30*time.Minute, d+d/5)
	switch {
	case gap < small:
		want := nextSentence(d)
		if got != want {
			s.r.Violation("repeat-jail-sentence-not-next-step",
				fmt.Sprintf("validator %s jailed again at block %d, %s after a %s sentence: got %s, next step is %s", v.plan.Name, H, gap, d, got, want), w)
		}
		s.r.Count("sentence_extended", 1)
		if d == schedule[len(schedule)-1] {
			s.r.Count("sentence_capped_at_24h", 1)
		}
		s.r.Distinct(fmt.Sprintf("S|ext|%s", d))
	case gap > large:
		if got != schedule[0] {
			s.r.Violation("jail-sentence-not-reset-after-window",
				fmt.Sprintf("validator %s jailed at block %d, %s after a %s sentence (outside the reset window): got %s", v.plan.Name, H, gap, d, got), w)
		}
		s.r.Count("sentence_reset", 1)
		s.r.Distinct(fmt.Sprintf("S|reset|%s", d))
	default:
		if got != schedule[0] && got != nextSentence(d) {
			s.r.Violation("repeat-jail-sentence-not-next-step",
				fmt.Sprintf("validator %s jailed again at block %d, %s after a %s sentence: got %s", v.plan.Name, H, gap, d, got), w)
		}
		s.r.Count("sentence_window_ambiguous", 1)
	}
}

// mustJailMissed: an obliged, unprotected validator outside its grace period is still unjailed
// after a periodic check. The signature is refined by what the chain's own records show (read
// only for the diagnosis - the verdict above does not depend on them).
func (s *sim) mustJailMissed(H int64, v *val, tAfter int64, nAfter int) {
	ctx := s.c.Ctx()
	st := s.c.KVStore(ctx, "valset")
	w := map[string]any{"height": H, "validator": v.acct.ValBech(), "addr_hex": hex.EncodeToString(v.addr), "class": v.cls,
		"has_keepalive": v.hasKA, "last_keepalive": v.lastKA, "became_unjailed_at": v.graceStart, "power": v.power,
		"bonded_power_after": tAfter, "bonded_unjailed_after": nAfter, "status": v.status.String(), "events": s.tail(15)}
	cause := "no-grace-restart"
	if st != nil {
		if g := st.Get(append([]byte("grace-period"), v.addr...)); len(g) == 8 {
			gs := int64(binary.BigEndian.Uint64(g))
			w["chain_grace_period_start"] = gs
			if gs > v.graceStart {
				cause = "grace-period-restarted-without-unjail"
			}
		}
		snap := st.Get(append([]byte("unjailed-snapshot"), []byte("unjailed-validators-snapshot")...))
		pieces := bytes.Split(snap, []byte(","))
		found := false
		for _, p := range pieces {
			if bytes.Equal(p, v.addr) {
				found = true
			}
		}
		w["previous_unjailed_record_pieces"] = len(pieces)
		w["previous_unjailed_record_contains_this_address"] = found
	}
	kind := "expired-keepalive"
	if !v.hasKA {
		kind = "never-kept-alive"
	}
	a := "addr-no-0x2c"
	if has2c(v.addr) {
		a = "addr-has-0x2c"
	}
	sig := fmt.Sprintf("inactive-validator-not-jailed/%s/%s/%s", cause, a, strings.ToLower(strings.TrimPrefix(v.status.String(), "BOND_STATUS_")))
	var msg string
	if v.hasKA {
		msg = fmt.Sprintf("validator %s (%s, address %x) is still unjailed after the liveness check of block %d: its last accepted keep-alive (block %d) ran out at block %d, it became unjailed at block %d (grace over at %d), power %d of %d bonded (not >25%%), %d active validators",
			v.plan.Name, v.cls, v.addr, H, v.lastKA, v.lastKA+keepAliveTTL, v.graceStart, v.graceStart+gracePeriod, v.power, tAfter, nAfter)
	} else {
		msg = fmt.Sprintf("validator %s (%s, address %x) is still unjailed after the liveness check of block %d: it never sent a keep-alive in %d blocks, became unjailed at block %d, power %d of %d bonded (not >25%%), %d active validators",
			v.plan.Name, v.cls, v.addr, H, H-v.since, v.graceStart, v.power, tAfter, nAfter)
	}
	s.r.Count("violations_must_jail_"+kind, 1)
	s.r.Violation(sig, msg, w)
}

// ---------------------------------------------------------------------------------------------

func runHistory(c fw.Case, tier string, rec *fw.Recorder) {
	var cp caseParams
	c.Decode(&cp)
	rng := c.Rand()
	p := mkPlan(cp.Kind, cp.Variant, cp.Blocks, tier, rng)
	s := newSim(p, c.Seed, rec, rng)
	defer s.c.Close()
	for _, v := range s.vals {
		v.status = stakingtypes.Bonded
		v.power = v.plan.Stake / 1_000_000
	}
	s.govStartAt = 5
	if p.MaxValsAt > 0 {
		s.govStartAt = p.MaxValsAt - 6
	}
	s.checkMin("at genesis")
	for s.c.Height < p.Blocks {
		if !s.step() {
			break
		}
	}
	// a compact description of the history for the evidence file
	type vsum struct {
		Name, Class, Policy, Addr string
		Jailings                  int
	}
	var vs []vsum
	hist := []string{}
	for _, v := range s.vals {
		vs = append(vs, vsum{v.plan.Name, v.cls, v.plan.Policy, hex.EncodeToString(v.addr), v.jails})
		hist = append(hist, fmt.Sprintf("%s:%s:%d", v.cls, v.plan.Policy, v.jails))
	}
	sort.Strings(hist)
	rec.Distinct("H|" + p.Kind + "|" + strings.Join(hist, ","))
	ev := s.events
	if os.Getenv("C12_KEEP") != "" {
		// development aid: keep the per-case files of passing cases (the driver deletes them)
		rec.Inconclusive("C12_KEEP set: debug run, results kept")
	} else if len(ev) > 40 {
		ev = ev[:40]
	}
	rec.Sample(map[string]any{"case": c.Name, "plan": p, "validators": vs, "first_events": ev, "final_min_version": s.minStr})
}
