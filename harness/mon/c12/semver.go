package c12

import "strings"

// Independent implementation of Semantic Versioning 2.0.0 precedence (semver.org §11), used as
// the oracle for "keep-alives from relayers older than the minimum are refused" and "the minimum
// never decreases". It does not import golang.org/x/mod/semver (what the code under test uses).

type ver struct {
	major, minor, patch string // decimal digit strings without leading zeros (arbitrary size)
	pre                 []string
	short               bool // vMAJOR or vMAJOR.MINOR (accepted for the *minimum* only)
}

func isNum(s string) bool {
	if s == "" {
		return false
	}
	for _, c := range s {
		if c < '0' || c > '9' {
			return false
		}
	}
	return true
}

func okNum(s string) bool { return isNum(s) && (s == "0" || s[0] != '0') }

func okIdent(s string) bool {
	if s == "" {
		return false
	}
	for _, c := range s {
		if !(c >= '0' && c <= '9' || c >= 'a' && c <= 'z' || c >= 'A' && c <= 'Z' || c == '-') {
			return false
		}
	}
	return true
}

// parseVer parses "v" MAJOR "." MINOR "." PATCH ["-" pre] ["+" build]. With allowShort also
// "vMAJOR" and "vMAJOR.MINOR" (no pre-release / build), read as MAJOR.0.0 / MAJOR.MINOR.0.
func parseVer(s string, allowShort bool) (ver, bool) {
	var v ver
	if len(s) < 2 || s[0] != 'v' {
		return v, false
	}
	s = s[1:]
	hasBuild := false
	if i := strings.IndexByte(s, '+'); i >= 0 {
		build := s[i+1:]
		s = s[:i]
		hasBuild = true
		if build == "" {
			return v, false
		}
		for _, id := range strings.Split(build, ".") {
			if !okIdent(id) {
				return v, false
			}
		}
	}
	core := s
	hasPre := false
	if i := strings.IndexByte(s, '-'); i >= 0 {
		core = s[:i]
		pre := s[i+1:]
		hasPre = true
		if pre == "" {
			return v, false
		}
		for _, id := range strings.Split(pre, ".") {
			if !okIdent(id) {
				return v, false
			}
			if isNum(id) && !okNum(id) {
				return v, false
			}
			v.pre = append(v.pre, id)
		}
	}
	parts := strings.Split(core, ".")
	for _, p := range parts {
		if !okNum(p) {
			return v, false
		}
	}
	switch len(parts) {
	case 3:
		v.major, v.minor, v.patch = parts[0], parts[1], parts[2]
	case 2:
		if !allowShort || hasPre || hasBuild {
			return v, false
		}
		v.major, v.minor, v.patch, v.short = parts[0], parts[1], "0", true
	case 1:
		if !allowShort || hasPre || hasBuild {
			return v, false
		}
		v.major, v.minor, v.patch, v.short = parts[0], "0", "0", true
	default:
		return v, false
	}
	return v, true
}

func cmpNum(a, b string) int {
	if len(a) != len(b) {
		if len(a) < len(b) {
			return -1
		}
		return 1
	}
	return strings.Compare(a, b)
}

// cmpVer: -1, 0, +1 by semver precedence (build metadata ignored).
func cmpVer(a, b ver) int {
	for _, p := range [][2]string{{a.major, b.major}, {a.minor, b.minor}, {a.patch, b.patch}} {
		if c := cmpNum(p[0], p[1]); c != 0 {
			return c
		}
	}
	switch {
	case len(a.pre) == 0 && len(b.pre) == 0:
		return 0
	case len(a.pre) == 0:
		return 1 // a release is newer than any of its pre-releases
	case len(b.pre) == 0:
		return -1
	}
	for i := 0; i < len(a.pre) && i < len(b.pre); i++ {
		x, y := a.pre[i], b.pre[i]
		xn, yn := isNum(x), isNum(y)
		var c int
		switch {
		case xn && yn:
			c = cmpNum(x, y)
		case xn:
			c = -1 // numeric identifiers have lower precedence than alphanumeric ones
		case yn:
			c = 1
		default:
			c = strings.Compare(x, y)
		}
		if c != 0 {
			return c
		}
	}
	switch {
	case len(a.pre) < len(b.pre):
		return -1
	case len(a.pre) > len(b.pre):
		return 1
	}
	return 0
}
