package c18

import (
	"testing"
	"time"

	sdkmath "cosmossdk.io/math"
	sdk "github.com/cosmos/cosmos-sdk/types"

	palomatypes "github.com/palomachain/paloma/v2/x/paloma/types"

	"verif/harness/chain"
	"verif/harness/world"
)

// Reproducer for an observation OUTSIDE property C18 (it belongs to C03, "only the principal changes
// state held in its name"; see NOTES.md): every light node bought through an attested sale receives a
// fee allowance FROM the configured fee granter, and Paloma's ante rule accepts a message whose
// Metadata.Creator is X when it is signed by any grantee of X. So any sold light node can buy a
// licence in the NAME of the fee granter (paid from the fee granter's balance) for a second address
// of its own with 0 vesting months, activate it and walk away with the fee granter's coins.
// Not part of the monitor; run with
//
//	cd /verif/harness && go test -modfile=/verif/out/dev/C18/go.mod -tags verif ./mon/c18 -run TestProbe -v
func TestProbeGranteeActsAsFeegranter(t *testing.T) {
	w, err := world.NewBridgeWorld(world.BridgeOpts{Prefix: "c18probe", Stakes: []int64{40e6, 30e6, 20e6, 10e6}, NUsers: 4, Chains: []string{"eth-main"}, UserFunds: 20_000_000_000, Voting: 6 * time.Second})
	if err != nil {
		t.Fatal(err)
	}
	defer w.C.Close()
	m := &mon{w: w, c: w.C, L: newLedger()}
	fg, funder := w.Users[1], w.Users[2]
	contract := "0x5A1e000000000000000000000000000000000001"
	for _, e := range []error{m.govDirect(m.fundersContent([]string{funder.Bech})), m.govDirect(m.feegranterContent(fg.Bech)), m.govDirect(m.contractsContent(map[string]string{"eth-main": contract}))} {
		if e != nil {
			t.Fatal(e)
		}
	}
	ln := chain.NewAccount("ln", "c18probe/ln")
	ln2 := chain.NewAccount("ln2", "c18probe/ln2")
	for _, v := range w.Vals {
		if err := w.C.QueueTx(v, 0, world.MsgSaleClaim(v, "eth-main", w.Compass["eth-main"], 1, 6000, ln.Bech, sdkmath.NewInt(5), contract)); err != nil {
			t.Fatal(err)
		}
	}
	w.C.NextBlock()
	t.Logf("licence for ln: %v", func() any {
		l, e := w.C.App.PalomaKeeper.GetLightNodeClientLicense(w.C.Ctx(), ln.Bech)
		return []any{l, e}
	}())
	before := w.C.Balance(fg.Addr, chain.Denom)
	// ln (grantee of fg) signs a licence purchase in the NAME of fg, for its second address
	msg := &palomatypes.MsgAddLightNodeClientLicense{ClientAddress: ln2.Bech, Amount: sdk.NewCoin(chain.Denom, before), VestingMonths: 0}
	msg.Metadata.Creator = fg.Bech
	msg.Metadata.Signers = []string{ln.Bech}
	res := w.C.Deliver(ln, msg)
	t.Logf("licence in the name of the fee granter, signed by a light node: code=%d log=%.200s", res.Code, res.Log)
	res = w.C.Deliver(ln2, &palomatypes.MsgRegisterLightNodeClient{Metadata: world.Meta(ln2)})
	t.Logf("activation by ln2: code=%d log=%.200s", res.Code, res.Log)
	w.C.Skip(1)
	t.Logf("fee granter balance %s -> %s; ln2 balance %s spendable %s", before, w.C.Balance(fg.Addr, chain.Denom), w.C.Balance(ln2.Addr, chain.Denom),
		w.C.App.BankKeeper.SpendableCoins(w.C.Ctx(), ln2.Addr))
}
